# compile side of C03 (request kind cc): nparams program
# --- blocks, while, break
0 W(L0C[0]I(B)()U)L10U
0 L1W(L2D(L3C[0,1,2]I(B)())U)L4U
0 W(D(L0C[0]I(B)()))L9U
2 L5W(W(L6C[0,2,3]B)C[2])U
# --- repeat: until sees and captures the body's locals
0 R(L0C[0])[0]L9U
0 R(L0I(B)())[0]L9U
0 L1R(L2)[]U
# --- for loops
0 N(C[3]U)L9U
0 G2(C[3,4]I(B)())L9U
1 N(N(C[4,8]B))U
# --- goto: continue-style, out of nested blocks, backward
0 W(L0C[0]I(J1)()L5T1)L9U
0 W(L0D(L1C[0,1]I(J1)()))T1L9U
0 L0T1L1C[0,1]I(J1)()U
0 D(L0T1D(L1C[1]J1))
# --- witnesses of finding C03-break-after-backward-goto (repaired in /repo by b47a12e: the break closes)
0 W(L0T1I(B)()C[0]J1)L10U
0 N(L0T1I(B)()C[4]J1)L10U
0 G1(D(L0T1I(B)()C[4]J1))L10U
# --- compile errors: both sides must reject
0 B
0 J7
0 I(J1)()L0T1U
0 T1T1
