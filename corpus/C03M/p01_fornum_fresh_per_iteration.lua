local function clobber(n) local a,b,c,d,e,f,g,h = 91,92,93,94,95,96,97,98 if n > 0 then return clobber(n-1) + a end return a+b+c+d+e+f+g+h end

local fs = {}
for i = 1, 3 do local x = i * 10 fs[i] = function() x = x + 1 return x, i end probe() end
clobber(3)
for j = 1, 3 do emit(fs[j]()) end
for j = 1, 3 do emit(fs[j]()) end
