local function clobber(n) local a,b,c,d,e,f,g,h = 91,92,93,94,95,96,97,98 if n > 0 then return clobber(n-1) + a end return a+b+c+d+e+f+g+h end

local fs = {} local i = 0
while true do i = i + 1 local x = i fs[#fs+1] = function() x = x * 2 return x end probe() if i == 3 then break end end
local z1, z2, z3 = 7, 8, 9
clobber(2) probe()
for j = 1, #fs do emit(j, fs[j](), fs[j]()) end emit(i, z1 + z2 + z3)
