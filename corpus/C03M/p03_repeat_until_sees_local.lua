local function clobber(n) local a,b,c,d,e,f,g,h = 91,92,93,94,95,96,97,98 if n > 0 then return clobber(n-1) + a end return a+b+c+d+e+f+g+h end

local fs = {} local n = 0
repeat local x = n fs[#fs+1] = function() x = x + 100 return x end n = n + 1 probe() until x >= 2
clobber(1)
for j = 1, #fs do emit(fs[j]()) end emit(n)
