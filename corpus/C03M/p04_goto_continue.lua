local function clobber(n) local a,b,c,d,e,f,g,h = 91,92,93,94,95,96,97,98 if n > 0 then return clobber(n-1) + a end return a+b+c+d+e+f+g+h end

local fs = {}
for i = 1, 4 do local x = i if i % 2 == 0 then goto cont end fs[#fs+1] = function() x = x + 10 return x end probe() ::cont:: end
clobber(2)
for j = 1, #fs do emit(fs[j]()) end
