local function clobber(n) local a,b,c,d,e,f,g,h = 91,92,93,94,95,96,97,98 if n > 0 then return clobber(n-1) + a end return a+b+c+d+e+f+g+h end

local f, g
do local a = 1 do local b = 2 f = function() a = a + 1 b = b + 1 return a, b end g = function() return a * 100 + b end probe() goto out end end
::out::
local r1, r2, r3 = 5, 6, 7
clobber(2) probe()
emit(f()) emit(g()) emit(f()) emit(g()) emit(r1, r2, r3)
