local function clobber(n) local a,b,c,d,e,f,g,h = 91,92,93,94,95,96,97,98 if n > 0 then return clobber(n-1) + a end return a+b+c+d+e+f+g+h end

local fs = {} local i = 0
::top::
do local x = i fs[#fs+1] = function() x = x + 1 return x end probe() end
i = i + 1
if i < 3 then goto top end
clobber(1)
for j = 1, #fs do emit(fs[j](), fs[j]()) end
