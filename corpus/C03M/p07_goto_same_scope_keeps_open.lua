local x = 0
local f = function() return x end
goto s
::s::
x = 5 probe()
emit(f())
x = 6
emit(f())
