local function clobber(n) local a,b,c,d,e,f,g,h = 91,92,93,94,95,96,97,98 if n > 0 then return clobber(n-1) + a end return a+b+c+d+e+f+g+h end

local function mk(n) local a = n do local b = n * 2 for i = 1, 3 do local c = i if i == 2 then probe() return function() a = a + 1 b = b + 1 c = c + 1 return a, b, c end end end end end
local f1, f2 = mk(1), mk(10)
clobber(3) probe()
emit(f1()) emit(f2()) emit(f1()) emit(f2())
