local function clobber(n) local a,b,c,d,e,f,g,h = 91,92,93,94,95,96,97,98 if n > 0 then return clobber(n-1) + a end return a+b+c+d+e+f+g+h end

local function id(...) probe() return ... end
local function mk(n) local a = n local g = function() a = a + 1 return a end return id(g, function() return a end) end
local g, h = mk(5)
clobber(3) probe()
emit(g(), h(), g(), h())
