local function clobber(n) local a,b,c,d,e,f,g,h = 91,92,93,94,95,96,97,98 if n > 0 then return clobber(n-1) + a end return a+b+c+d+e+f+g+h end

local saved
local function fails() local v = 42 saved = function() return v end probe() error("boom") end
emit(pcall(fails) == false) probe()
clobber(3)
local u1, u2, u3 = 5, 5, 5
emit(saved(), u1 + u2 + u3)
