local function clobber(n) local a,b,c,d,e,f,g,h = 91,92,93,94,95,96,97,98 if n > 0 then return clobber(n-1) + a end return a+b+c+d+e+f+g+h end

local saved, hs
local function fails() local v = 42 saved = function() v = v + 1 return v end probe() error("boom") end
local function h(e) local m = 7 hs = function() m = m + 1 return m end probe() return "H" end
local ok, e = xpcall(fails, h) probe()
clobber(3)
local u1, u2, u3 = 5, 5, 5
emit(ok, e, saved(), saved(), hs(), hs(), u1 + u2 + u3)
