local function clobber(n) local a,b,c,d,e,f,g,h = 91,92,93,94,95,96,97,98 if n > 0 then return clobber(n-1) + a end return a+b+c+d+e+f+g+h end

local saved = {}
local function inner() local v = 1 saved[#saved+1] = function() v = v + 1 return v end error("in") end
local function outer() local w = 10 saved[#saved+1] = function() w = w + 1 return w end local ok = pcall(inner) probe() local t = {} saved[#saved+1] = function() return w, ok end t.x.y = 1 end
local ok, e = xpcall(outer, function(m) probe() return "H" end) probe()
clobber(4)
local u1, u2, u3, u4 = 5, 5, 5, 5
emit(ok, e) for i = 1, #saved do emit(saved[i]()) end emit(u1 + u2 + u3 + u4)
