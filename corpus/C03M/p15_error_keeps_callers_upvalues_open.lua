local x = 1
local f = function() return x end
emit(pcall(error, "boom") == false) probe()
x = 2
emit(f())
local g = function() x = x + 1 return x end
emit(g(), f())
