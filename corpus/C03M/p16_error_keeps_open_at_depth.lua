local function clobber(n) local a,b,c,d,e,f,g,h = 91,92,93,94,95,96,97,98 if n > 0 then return clobber(n-1) + a end return a+b+c+d+e+f+g+h end

local fs = {}
local function lvl(n) local mine = n fs[#fs+1] = function() return mine end
  if n == 0 then error("deep") end
  if n == 2 then local ok = pcall(lvl, n - 1) probe() mine = mine + 100 return ok end
  local r = lvl(n - 1) mine = mine + 1000 return r end
emit(lvl(4)) probe()
clobber(5)
for i = 1, #fs do emit(i, fs[i]()) end
