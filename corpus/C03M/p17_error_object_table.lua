local function clobber(n) local a,b,c,d,e,f,g,h = 91,92,93,94,95,96,97,98 if n > 0 then return clobber(n-1) + a end return a+b+c+d+e+f+g+h end

local x = 1 local get = function() return x end local saved
local ok, e = pcall(function() local v = 3 saved = function() v = v + 1 return v end error({code = 9}) end) probe()
x = x + 1
clobber(2)
emit(ok, e.code, get(), saved(), saved())
