local function clobber(n) local a,b,c,d,e,f,g,h = 91,92,93,94,95,96,97,98 if n > 0 then return clobber(n-1) + a end return a+b+c+d+e+f+g+h end

local fs = {} local top = 0 fs[1] = function() return top end
local function c() local q = 3 fs[#fs+1] = function() q = q + 1 return q end local t = nil return t.x end
local function b() local p = 2 fs[#fs+1] = function() p = p + 1 return p end return c() + 1 end
local function a() local o = 1 fs[#fs+1] = function() o = o + 1 return o end local r = b() return r end
emit(pcall(a) == false) probe() top = top + 1
clobber(4)
for i = 1, #fs do emit(fs[i]()) end
