local function clobber(n) local a,b,c,d,e,f,g,h = 91,92,93,94,95,96,97,98 if n > 0 then return clobber(n-1) + a end return a+b+c+d+e+f+g+h end

local get, set
local co = coroutine.create(function(a) local x = a get = function() return x end set = function(v) x = v end probe() local y = coroutine.yield(x) x = x + y probe() coroutine.yield(x) return x end)
emit(coroutine.resume(co, 1)) probe()
clobber(3) emit(get()) set(10) emit(get())
emit(coroutine.resume(co, 5)) emit(get()) set(20)
emit(coroutine.resume(co)) emit(coroutine.status(co), get()) clobber(3) emit(get())
