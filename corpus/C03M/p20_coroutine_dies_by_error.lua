local function clobber(n) local a,b,c,d,e,f,g,h = 91,92,93,94,95,96,97,98 if n > 0 then return clobber(n-1) + a end return a+b+c+d+e+f+g+h end

local get
local co = coroutine.create(function() local x = 41 get = function() x = x + 1 return x end probe() local y = 5 local g2 = function() return y end error("die") end)
local ok, e = coroutine.resume(co) probe()
clobber(3)
local co2 = coroutine.create(function() local a, b, c, d = 1, 2, 3, 4 coroutine.yield(a + b + c + d) end) emit(coroutine.resume(co2))
emit(ok, coroutine.status(co), get(), get())
