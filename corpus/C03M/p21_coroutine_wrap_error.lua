local function clobber(n) local a,b,c,d,e,f,g,h = 91,92,93,94,95,96,97,98 if n > 0 then return clobber(n-1) + a end return a+b+c+d+e+f+g+h end

local get
local w = coroutine.wrap(function() local x = 41 get = function() x = x + 1 return x end probe() error("die") end)
local ok = pcall(w) probe()
clobber(3)
emit(ok, get(), get())
