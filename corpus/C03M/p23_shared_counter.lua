local function counter() local n = 0 return function() n = n + 1 return n end, function() return n end, function(v) n = v end end
local inc, get, set = counter()
local inc2, get2 = counter()
probe()
emit(inc(), inc(), get(), get2()) set(10) emit(inc(), get(), inc2(), get2())
