local function clobber(n) local a,b,c,d,e,f,g,h = 91,92,93,94,95,96,97,98 if n > 0 then return clobber(n-1) + a end return a+b+c+d+e+f+g+h end

local function l1() local a = 1 return function() local b = 10 return function() a = a + 1 b = b + 1 return a, b end, function() return a end end end
local l2 = l1() local f, g = l2() local f2 = l2()
clobber(3) probe()
emit(f()) emit(f2()) emit(g()) emit(f())
