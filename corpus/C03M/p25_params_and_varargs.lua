local function clobber(n) local a,b,c,d,e,f,g,h = 91,92,93,94,95,96,97,98 if n > 0 then return clobber(n-1) + a end return a+b+c+d+e+f+g+h end

local function mk(p, q, ...) local n = select('#', ...) local first = ... return function() p = p + 1 return p, q, n, first end, function(v) q = v end end
local f, s = mk(1, 2, 7, 8, 9)
clobber(3) probe()
emit(f()) s(5) emit(f())
