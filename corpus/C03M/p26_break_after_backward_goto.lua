local function clobber(n) local a,b,c,d,e,f,g,h = 91,92,93,94,95,96,97,98 if n > 0 then return clobber(n-1) + a end return a+b+c+d+e+f+g+h end

-- a break that is compiled before the closure creation but runs after it (backward goto inside the loop body)
local fs = {}
for i = 1, 2 do
  local x = i * 100
  local p = 0
  ::again::
  p = p + 1
  if p == 2 then break end
  fs[#fs+1] = function() x = x + 1 return x end
  goto again
end
local g
local n = 0
while true do
  local y = 7
  do
    local z = 9
    ::top::
    n = n + 1
    if n == 2 then break end
    g = function() y = y + 1 z = z + 1 return y, z end
    goto top
  end
end
local h
repeat
  local w = 5
  local k = 0
  ::rep::
  k = k + 1
  if k == 2 then break end
  h = function() w = w + 1 return w end
  goto rep
until true
clobber(1)
local a, b, c, d, e, f2, g2 = 10, 20, 30, 40, 50, 60, 70
emit(fs[1](), fs[1]())
emit(g())
emit(h(), h())
