local function clobber(n) local a,b,c,d,e,f,g,h = 91,92,93,94,95,96,97,98 if n > 0 then return clobber(n-1) + a end return a+b+c+d+e+f+g+h end

local fs = {}
for k, v in ipairs({5, 6, 7}) do fs[k] = function() v = v + k return v end probe() end
clobber(2)
for i = 1, 3 do emit(fs[i](), fs[i]()) end
