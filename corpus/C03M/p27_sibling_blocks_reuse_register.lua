local f, g
do local a = 1 f = function() a = a + 1 return a end end
do local b = 100 g = function() b = b + 1 return b end end
do local c = 1000 probe() emit(f(), g(), c) end
emit(f(), g())
