local function clobber(n) local a,b,c,d,e,f,g,h = 91,92,93,94,95,96,97,98 if n > 0 then return clobber(n-1) + a end return a+b+c+d+e+f+g+h end

local fs = {}
local function rec(n) local x = n * 10 fs[#fs+1] = function() x = x + 1 return x end if n > 0 then rec(n - 1) end x = x + 5 end
rec(3) probe() clobber(4)
for i = 1, #fs do emit(fs[i]()) end
