local function clobber(n) local a,b,c,d,e,f,g,h = 91,92,93,94,95,96,97,98 if n > 0 then return clobber(n-1) + a end return a+b+c+d+e+f+g+h end

local fs = {}
for i = 1, 3 do local a = i for j = 1, 3 do local b = j fs[#fs+1] = function() a = a + 1 b = b + 10 return a, b end if j == i then if a > 0 then break end end end probe() end
clobber(3)
for i = 1, #fs do emit(i, fs[i]()) end
