local function clobber(n) local a,b,c,d,e,f,g,h = 91,92,93,94,95,96,97,98 if n > 0 then return clobber(n-1) + a end return a+b+c+d+e+f+g+h end

local function find(t, want) local i = 0 while true do i = i + 1 local v = t[i] if v == nil then return nil end local here = function() return i, v end if v == want then probe() return here end end end
local h = find({4, 5, 6}, 5)
clobber(3) emit(h())
