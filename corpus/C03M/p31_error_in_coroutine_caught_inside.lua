local function clobber(n) local a,b,c,d,e,f,g,h = 91,92,93,94,95,96,97,98 if n > 0 then return clobber(n-1) + a end return a+b+c+d+e+f+g+h end

local fs = {}
local co = coroutine.wrap(function() local keep = 1 fs[1] = function() return keep end
  local ok = pcall(function() local tmp = 5 fs[2] = function() tmp = tmp + 1 return tmp end error("x") end) probe()
  keep = keep + 1 coroutine.yield(ok) keep = keep + 1 probe() return "done" end)
emit(co()) clobber(3) emit(fs[1](), fs[2]())
emit(co()) clobber(3) emit(fs[1](), fs[2]())
