local function clobber(n) local a,b,c,d,e,f,g,h = 91,92,93,94,95,96,97,98 if n > 0 then return clobber(n-1) + a end return a+b+c+d+e+f+g+h end

local hs = {} local n = 0
local function h(e) local seen = n n = n + 1 hs[#hs+1] = function() seen = seen + 1 return seen, e end probe() return e end
xpcall(function() error("a") end, h) xpcall(function() local t = nil t() end, h) probe()
clobber(3)
emit(hs[1]()) emit(select(1, hs[2]())) emit(n)
