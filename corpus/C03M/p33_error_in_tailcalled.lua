local function clobber(n) local a,b,c,d,e,f,g,h = 91,92,93,94,95,96,97,98 if n > 0 then return clobber(n-1) + a end return a+b+c+d+e+f+g+h end

local saved = {}
local function t2(v) local k = v * 2 saved[#saved+1] = function() k = k + 1 return k end error("t2") end
local function t1(v) local j = v + 1 saved[#saved+1] = function() j = j + 1 return j end return t2(j) end
emit(pcall(t1, 1) == false) probe() clobber(3)
emit(saved[1](), saved[2]())
