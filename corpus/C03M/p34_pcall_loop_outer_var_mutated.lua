local fs = {}
for i = 1, 3 do local x = i fs[i] = function() return x end pcall(error, "e" .. i) probe() x = x + 10 end
for i = 1, 3 do emit(fs[i]()) end
