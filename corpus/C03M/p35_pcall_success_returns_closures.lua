local function clobber(n) local a,b,c,d,e,f,g,h = 91,92,93,94,95,96,97,98 if n > 0 then return clobber(n-1) + a end return a+b+c+d+e+f+g+h end

local ok, f, g = pcall(function() local a = 1 return function() a = a + 1 return a end, function() return a end end) probe()
clobber(3) emit(ok, f(), g(), f(), g())
