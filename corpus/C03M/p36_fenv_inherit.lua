local env = {emit = emit, probe = probe}
local function maker() return function() return y end end
setfenv(maker, env)
local f = maker()
y = "global" env.y = "env"
emit(f(), getfenv(f) == env, getfenv(maker) == env)
local g = function() return y end
emit(g(), getfenv(g) == getfenv(1), getfenv(0) == getfenv(1))
setfenv(f, {y = "own"}) emit(f(), maker()())
