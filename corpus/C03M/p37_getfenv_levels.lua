--expect: E:s6531,s6532,s47 E:s6531,s6532,s47,s47,s47 E:T,T R:
local emit, getfenv, setfenv, pcall = emit, getfenv, setfenv, pcall
name = "G"
local e1, e2 = {name = "e1"}, {name = "e2"}
local function inner() return getfenv(1).name, getfenv(2).name, getfenv(3).name end
local function outer() local a, b, c = inner() return a, b, c end
setfenv(inner, e1) setfenv(outer, e2)
emit(outer())
emit(getfenv(inner).name, getfenv(outer).name, getfenv(0).name, getfenv().name, getfenv(emit).name)
local function viaPcall() local ok, a = pcall(function() return getfenv(2) == getfenv(0), 1 end) return ok, a end
emit(viaPcall())
