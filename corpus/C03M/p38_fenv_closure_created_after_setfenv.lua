local emit = emit
local function outer() local function a() return v end setfenv(1, {v = "new"}) local function b() return v end return a, b end
v = "old"
local a, b = outer()
emit(a(), b())
