local function clobber(n) local a,b,c,d,e,f,g,h = 91,92,93,94,95,96,97,98 if n > 0 then return clobber(n-1) + a end return a+b+c+d+e+f+g+h end

local function big() local a1,a2,a3,a4,a5,a6,a7,a8,a9,a10,a11,a12,a13,a14,a15,a16,a17,a18,a19,a20 = 1,2,3,4,5,6,7,8,9,10,11,12,13,14,15,16,17,18,19,20
  local fs = {} for i = 1, 2 do local z = a20 + i fs[i] = function() z = z + a1 a1 = a1 + 1 return z end end probe() return fs[1], fs[2], function() return a1 + a20 end end
local f, g, h = big() clobber(6) probe()
emit(f(), g(), h(), f(), g(), h())
