local function clobber(n) local a,b,c,d,e,f,g,h = 91,92,93,94,95,96,97,98 if n > 0 then return clobber(n-1) + a end return a+b+c+d+e+f+g+h end

local fs = {}
local co = coroutine.wrap(function() for i = 1, 3 do local x = i * 10 fs[i] = function() x = x + 1 return x end coroutine.yield(i) x = x + 100 probe() end return "end" end)
emit(co()) clobber(3) emit(fs[1]())
emit(co()) clobber(3) emit(fs[1](), fs[2]())
emit(co()) emit(co()) clobber(3) emit(fs[1](), fs[2](), fs[3]())
