local function clobber(n) local a,b,c,d,e,f,g,h = 91,92,93,94,95,96,97,98 if n > 0 then return clobber(n-1) + a end return a+b+c+d+e+f+g+h end

local saved
local function chk(v) local c = v saved = function() c = c + 1 return c end if v > 1 then error("bad", 2) end end
local function user() local u = 3 local r = function() return u end chk(2) return r end
emit(pcall(user) == false) probe() clobber(3) emit(saved(), saved())
