local function clobber(n) local a,b,c,d,e,f,g,h = 91,92,93,94,95,96,97,98 if n > 0 then return clobber(n-1) + a end return a+b+c+d+e+f+g+h end

local fs = {} local n = 0
repeat local x = n n = n + 1 local f = function() x = x + 1 return x end fs[#fs+1] = f probe() until f() > 2
clobber(2) for i = 1, #fs do emit(fs[i]()) end
