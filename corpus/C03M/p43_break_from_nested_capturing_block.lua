local fs = {} local i = 0
while true do i = i + 1 do local x = i * 10 fs[i] = function() x = x + 1 return x end probe() if i == 2 then break end end end
local a, b, c, d, e, f = 901, 902, 903, 904, 905, 906
probe() emit(fs[1](), fs[2](), a, b, c, d, e, f)
local hs = {} local n = 0
repeat n = n + 1 do local x = n hs[n] = function() x = x + 1 return x end if n == 2 then break end end until false
do local p4, q4, r4 = 601, 602, 603 probe() emit(hs[1](), hs[2](), p4, q4, r4) end
local ms = {}
for k = 1, 3 do do local x = k ms[k] = function() x = x + 1 return x end if k == 2 then break end end end
do local p6, q6, r6 = 401, 402, 403 probe() emit(ms[1](), ms[2](), p6, q6, r6) end
local ks = {}
for _, v in ipairs({1, 2, 3}) do do do local x = v ks[v] = function() x = x + 1 return x end if v == 2 then break end end end end
do local p5, q5, r5, s5 = 501, 502, 503, 504 probe() emit(ks[1](), ks[2](), p5, q5, r5, s5) end
