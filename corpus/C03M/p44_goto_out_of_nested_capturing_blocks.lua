local f
do local a = 1 do local b = 2 f = function() b = b + 1 return b end goto out end end
::out::
local p, q, r = 901, 902, 903
emit(f(), p, q, r)
local fs = {}
for i = 1, 3 do
  do local x = i * 10 fs[i] = function() x = x + 1 return x end goto cont end
  ::cont::
end
local p2, q2, r2 = 801, 802, 803
emit(fs[1](), fs[2](), fs[3](), p2, q2, r2)
local gs = {}
for i = 1, 3 do
  do local x = i * 10 gs[i] = function() x = x + 1 return x end if i == 2 then goto done end end
end
::done::
do local p3, q3, r3 = 701, 702, 703
emit(gs[1](), gs[2](), p3, q3, r3) end
local hs = {} local n = 0
repeat n = n + 1 do local x = n hs[n] = function() x = x + 1 return x end if n == 2 then break end end until false
do local p4, q4, r4 = 601, 602, 603
emit(hs[1](), hs[2](), p4, q4, r4) end
local ks = {}
for _, v in ipairs({1, 2, 3}) do do local x = v ks[v] = function() x = x + 1 return x end if v == 2 then break end end end
do local p5, q5, r5 = 501, 502, 503
emit(ks[1](), ks[2](), p5, q5, r5) end
local ms = {}
for i = 1, 3 do do local x = i ms[i] = function() x = x + 1 return x end if i == 2 then break end end end
do local p6, q6, r6 = 401, 402, 403
emit(ms[1](), ms[2](), p6, q6, r6) end
