local fs = {}
do
  local n = 0
  ::top::
  local y = n * 100
  ::mid::
  n = n + 1
  if n == 3 then goto top end
  fs[#fs+1] = function() y = y + 1 return y end
  probe()
  if n < 3 or n == 4 then goto mid end
end
for i = 1, #fs do emit(i, fs[i]()) end
