--expect: E:s6f6e65,s74776f,nil E:s6f6e65,s74776f E:i1,nil E:F E:s676c6f62,s6c617465 R:
local emit, getfenv, setfenv, pcall = emit, getfenv, setfenv, pcall
local G = getfenv(1)
local function lvl1() setfenv(1, {tag = "one"}) return tag end
local function lvl2() local function inner() setfenv(2, {tag = "two"}) end inner() return tag end
emit(lvl1(), lvl2(), G.tag)
emit(getfenv(lvl1).tag, getfenv(lvl2).tag)
local function w() x = 1 end
local e = {} setfenv(w, e) w() emit(e.x, G.x)
emit((pcall(setfenv, emit, {})))
local function mk() return function() return v end end
local f1 = mk() setfenv(mk, {v = "late"}) local f2 = mk()
v = "glob"
emit(f1(), f2())
