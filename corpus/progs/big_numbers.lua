-- PROPS: C01
-- numbers beyond the 64-bit integer range keep their value through folding, run-time arithmetic, comparison, table
-- keys and number -> string coercion (only values that a decimal of <= 14 digits identifies: there `%.14g` and the
-- shortest round-trip form coincide)
local big = {1e19, -1e19, 1e100, -1e100, 1e308, 5e20, 1.5e30, 9.99e20, 1.2345678901234e25, 1e21, 1e22, 2e63}
for i, v in ipairs(big) do
  emit(i, v, v .. "", tostring(v), v == v + 0, v > 0, v / 2, -v, -v .. "|")
end
local function rt(x) return 10 ^ x end
emit("pow", rt(19), rt(19) .. "|", rt(20) .. "|", rt(22) .. "|", 5 * rt(20) .. "|")
emit("fold", 1e19 .. "", -1e19 .. "", 1e19 * 10 .. "", 1e100 .. "", 10 ^ 19 .. "", 2 * 5e19 .. "")
local t = {}
t[1e19] = "a"; t[2 ^ 63] = "b"; t[-2 ^ 63] = "c"; t[1e100] = "d"
emit("keys", t[1e19], t[10 ^ 19], t[2 ^ 63], t[-(2 ^ 63)], t[1e100], t[1e19 + 1])
emit("cmp", 1e19 < 2 ^ 64, 2 ^ 63 == 9223372036854775808, 1e19 == 10 ^ 19, 2 ^ 63 < 2 ^ 63 + 2048)
emit("mixed", 1e19 .. 1, 1 .. 1e19, "x" .. 1e100 .. "y", #(1e19 .. ""), #tostring(-1e19))
emit("small", 2 ^ 40 .. "", 123456 .. "", 2 ^ 52 .. "", -2 ^ 52 .. "", 100 .. "", 4503599627370497 .. "")
return 1e19, -2 ^ 63
