-- PROPS: C03
-- every evaluation of a function expression makes a NEW closure (its own identity, its own environment), whether or
-- not it captures anything: changing one instance's environment never changes a sibling's
local function mk() return function() return x end end
local a, b = mk(), mk()
emit(1, a == b, rawequal(a, b), a == a)
x = "global"
setfenv(a, {x = "one"})
emit(2, a(), b())
setfenv(b, {x = "two"})
emit(3, a(), b(), mk()())
local fs = {}
for i = 1, 3 do fs[i] = function() return tag end end
for i = 1, 3 do setfenv(fs[i], {tag = "t" .. i}) end
emit(4, fs[1](), fs[2](), fs[3](), fs[1] == fs[2], fs[2] == fs[3])
local t = {}
t[mk()] = 1
t[mk()] = 2
t[a] = 3
local n = 0
for _ in pairs(t) do n = n + 1 end
emit(5, n, t[a], t[b])
local function twice() local r = {} for i = 1, 2 do r[i] = function(v) if v then y = v end return y end end return r[1], r[2] end
local p, q = twice()
local envp, envq = {}, {}
setfenv(p, envp)
setfenv(q, envq)
p("P")
q("Q")
emit(6, p(), q(), envp.y, envq.y, rawget(getfenv(0), "y"))
local g1 = function() return getfenv(1) end
local g2 = function() return getfenv(1) end
emit(7, g1() == g2(), g1() == getfenv(0))
local e = {getfenv = getfenv}
setfenv(g1, e)
emit(8, g1() == e, g2() == e, g2() == getfenv(0))
-- nested: an upvalue-free function made inside a function whose environment was replaced inherits THAT environment
local function outer() return function() return z end end
setfenv(outer, {z = "from-outer-env"})
z = "from-globals"
local in1, in2 = outer(), outer()
emit(9, in1(), in2(), in1 == in2)
setfenv(in1, {z = "own"})
emit(10, in1(), in2(), outer()())
return n
