-- PROPS: C03 C05 C17
-- closures and goto
do
  local x = 0
  local f = function() return x end
  goto s
  ::s::
  x = 5
  emit(f())
end
-- closure in loops fresh per iteration
local fs = {}
for i = 1, 3 do fs[i] = function() i = i + 1; return i end end
emit(fs[1](), fs[1](), fs[2](), fs[3]())
local k = 0
local gs = {}
while k < 3 do k = k + 1; local j = k; gs[k] = function() return j end end
emit(gs[1](), gs[2](), gs[3]())
-- goto continue with closures
local hs = {}
for i = 1, 3 do
  local v = i * 10
  hs[i] = function() return v end
  if i == 2 then goto cont end
  v = v + 1
  ::cont::
end
emit(hs[1](), hs[2](), hs[3]())
-- backward goto loop creating closures
do
  local n = 0
  local cs = {}
  ::top::
  local y = n
  cs[#cs + 1] = function() y = y + 100; return y end
  n = n + 1
  if n < 3 then goto top end
  emit(cs[1](), cs[2](), cs[3](), cs[1]())
end
-- xpcall / pcall and upvalues after error
local function reuse(a, b, c, d, e) local p, q, r, s = 5, 5, 5, 5; return a end
local esc
local ok = xpcall(function() local v = 42; esc = function() return v end; error("x") end, function(m) return m end)
reuse(1, 2, 3, 4, 5)
emit(ok, esc())
local esc2
local ok2 = pcall(function() local v = 43; esc2 = function() return v end; error({}) end)
reuse(1, 2, 3, 4, 5)
emit(ok2, esc2())
local esc3
xpcall(function() pcall(function() local v = 44; esc3 = function() return v end; error("y") end); reuse(9, 9, 9, 9, 9) end, function(m) return m end)
reuse(1, 2, 3, 4, 5)
emit(esc3())
-- error levels
local function l1() error("L1", 1) end
local function l2() error("L2", 2) end
emit(pcall(l1))
local function caller()
  l2()
end
emit(pcall(caller))
emit(pcall(function() error() end))
emit(pcall(function() error(nil) end))
emit(pcall(function() error("nolevel", 0) end))
emit(select('#', pcall(error)))
