-- PROPS: C01 C02 C03 C05
local a, b = 1, 2
a, b = b, a
emit(a, b)
local t = {10, 20, x = 5, [3] = 30}
emit(#t, t.x, "a" .. 3, t[3])
for i = 1, 3 do emit(i) end
local function f(n) if n <= 1 then return 1 end return n * f(n - 1) end
emit(f(5))
emit(pcall(error, "boom"))
emit(pcall(function() error("bang") end))
emit(pcall(function() error({}) end))
emit(pcall(function() local x = nil; return x.y end))
local function va(...) return select('#', ...), ... end
emit(va(1, nil, 3))
emit((va(1, 2)))
local mt = {__add = function(x, y) return 42 end, __index = function(t, k) return k .. "!" end}
local o = setmetatable({}, mt)
emit(o + 1, 1 + o, o.foo)
local co = coroutine.create(function(a, b) local c = coroutine.yield(a + b); emit("in", c); return "done" end)
emit(coroutine.resume(co, 1, 2))
emit(coroutine.status(co))
emit(coroutine.resume(co, "x"))
emit(coroutine.status(co))
emit(coroutine.resume(co))
local i = 0
while true do i = i + 1; if i > 3 then break end end
emit(i)
repeat local z = i; i = i - 1 until z < 2
emit(i)
for k, v in ipairs({"a", "b"}) do emit(k, v) end
do local n = 0; ::top:: n = n + 1; if n < 3 then goto top end; emit(n) end
emit(("abc"):upper(), ("abc"):sub(2), #"hello", 10 % 3, -7 % 3, 2 ^ 10, "10" + 5, 7 / 2)
emit(1 < 2, "a" < "b", 1 == 1.0, "1" == 1, nil == false, not nil)
emit(type(nil), type(1), type("s"), type({}), type(emit), tostring(12), tostring(nil), tonumber("0x10"), tonumber("z"))
local x = nope + 1
return 7
