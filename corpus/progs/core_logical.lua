-- PROPS: C01
local t = {}
local r = 0
r = t.x and 1; emit(r)
r = 0; r = hostid(nil) and 1; emit(r)
r = 0; r = (not 1) and nil; emit(r)
r = 0; r = t.x or 5; emit(r)
r = 0; r = hostid(7) or 5; emit(r)
local a, b = -3, 2
a = (b or b) and a; emit(a)
a = -3; a = (b and b) or a; emit(a)
a = -3; a = (hostid(nil) or b) and a; emit(a)
a = -3; a = (hostid(1) and hostid(nil)) or a; emit(a)
a = -3; a = hostid(false) or (hostid(nil) and 1); emit(a)
a = -3; a = (a and hostid(9)) or a; emit(a)
a = -3; a = hostid(nil) and hostid(1) or hostid(2); emit(a)
a = -3; a = hostid(1) and hostid(nil) or hostid(false); emit(a)
a = -3; a = a == -3 and a or 0; emit(a)
a = -3; a = (a < 0 and hostid(nil)) or (a and a + 1); emit(a)
a = -3; g = t.x and 1; emit(g)
t.y = t.x and 1; emit(t.y)
t.z = hostid(4) or 1; emit(t.z)
local function f(...) return ... end
emit(f(t.x and 1, hostid(nil) or 2, (not 1) and nil))
if (t.x and 1) or hostid(nil) then emit("then") else emit("else") end
local n = 0
while (n < 3 and hostid(true)) or hostid(false) do n = n + 1 end; emit(n)
repeat n = n - 1 until n <= 0 or hostid(nil); emit(n)
local x = nil
x = x and x.y; emit(x)
x = 5; x = x and nil; emit(x)
x = false; x = x or x; emit(x)
x = 1; x = not x and 2 or 3; emit(x)
