-- PROPS: C01
local a, b, c = 1, 2, 3
a, b = b, a; emit(a, b)
a, b, c = c, a, b; emit(a, b, c)
local t = {}
g1 = 100
t[2], b = b, g1 + 1; emit(t[2], b)
g1, b, t.x = b, b, b; emit(g1, b, t.x)
t.x, t = 1, nil; emit(t)
t = {y = 5}
local u = t
t.y, t = 7, {y = 9}; emit(u.y, t.y)
local f = 1; local d = 'e'; local aa = {}
f, aa.d = f, d; emit(f, aa.d)
g2, aa.q = f, d; emit(g2, aa.q)
local function two() return 10, 20 end
a, b, c = two(); emit(a, b, c)
a, b, c = 0, two(); emit(a, b, c)
aa.m, aa.n, a = two(); emit(aa.m, aa.n, a)
a, aa[a] = 5, 6; emit(a, aa[10], aa[5])
local i = 1
i, aa[i] = i + 1, 20; emit(i, aa[1], aa[2])
aa[i], i = 30, i + 1; emit(i, aa[2], aa[3])
