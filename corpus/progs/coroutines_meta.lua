-- PROPS: C04 C06
-- coroutines
local co = coroutine.create(function(...)
  emit("start", ...)
  local a, b, c = coroutine.yield(1, 2)
  emit("got", a, b, c)
  local d = coroutine.yield()
  emit("got2", d)
  emit(coroutine.yield(3))
  return "r1", "r2"
end)
emit(coroutine.resume(co, "x", "y"))
emit(coroutine.resume(co, 10))
emit(coroutine.resume(co))
emit(coroutine.resume(co, 7, 8, 9))
emit(coroutine.resume(co, "last"))
emit(coroutine.status(co), coroutine.resume(co))
-- wrap generator
local function gen(n) return coroutine.wrap(function() for i = 1, n do coroutine.yield(i, i * i) end end) end
for a, b in gen(3) do emit(a, b) end
-- error in coroutine
local ce = coroutine.create(function() local x = nil; return x.y end)
local ok, msg = coroutine.resume(ce); emit(ok, type(msg), coroutine.status(ce))
local ce2 = coroutine.create(function() error({code = 5}) end)
local ok2, e2 = coroutine.resume(ce2); emit(ok2, e2.code)
local w = coroutine.wrap(function() error("werr") end)
emit(pcall(w))
-- nested
local outer
outer = coroutine.create(function()
  local inner = coroutine.create(function() emit(coroutine.status(outer)); coroutine.yield("iy"); return "ir" end)
  emit(coroutine.resume(inner))
  emit(coroutine.status(inner))
  coroutine.yield("oy")
  emit(coroutine.resume(inner))
  emit(coroutine.status(inner))
end)
emit(coroutine.resume(outer))
emit(coroutine.status(outer))
emit(coroutine.resume(outer))
emit(coroutine.status(outer), coroutine.running())
-- upvalues across yields
local cu = coroutine.wrap(function() local n = 0; local inc = function() n = n + 1; return n end; while true do coroutine.yield(inc) end end)
local i1 = cu(); local i2 = cu(); emit(i1(), i2(), i1 == i2)
-- tail call yield
-- metamethods
local mt = {}
mt.__index = function(t, k) return "idx:" .. tostring(k) end
mt.__newindex = function(t, k, v) rawset(t, k, v * 2) end
mt.__call = function(self, a, b) return "called", a, b end
mt.__eq = function(a, b) return 1 end
mt.__lt = function(a, b) return "yes" end
mt.__le = function(a, b) return nil end
mt.__concat = function(a, b) return "cat" end
mt.__unm = function(a) return "neg" end
mt.__len = function(a) return 99 end
mt.__tostring = function(a) return "TS" end
local o1 = setmetatable({}, mt); local o2 = setmetatable({}, mt)
emit(o1.foo, o1[1]); o1.x = 5; emit(rawget(o1, "x")); o1.x = 6; emit(o1.x)
emit(o1(1, 2)); emit(o1 == o2, o1 ~= o2, o1 < o2, o1 <= o2, o1 > o2, o1 >= o2)
emit(o1 .. "s", "s" .. o1, 1 .. o1, -o1, tostring(o1))
emit(getmetatable(o1) == mt, getmetatable("x").__index == string)
local p = setmetatable({}, {__metatable = "locked"}); emit(getmetatable(p), pcall(setmetatable, p, {}))
local base = {greet = function(self) return "hi " .. self.name end}
local derived = setmetatable({name = "d"}, {__index = base}); emit(derived:greet())
local cnt = setmetatable({}, {__index = function(t, k) return k * 2 end}); emit(cnt[21])
