-- PROPS: C05 C17
-- a failing function reached through the empty-string key (its call-site name is empty): the stack trace
-- built inside the protected call must not crash the process (fixed: 7f813ad)
local t = {[""] = function() error("x") end, [" "] = function() error({}) end}
emit(pcall(function() t[""]() end))
emit(pcall(function() return t[""]() end))
emit(select("#", pcall(function() t[" "]() end)))
emit(pcall(t[""]))
local ok, m = xpcall(function() t[""]() end, function(m) return m end)
emit(ok, m)
local co = coroutine.create(function() t[""]() end)
emit(coroutine.resume(co))
t[""]()
