-- PROPS: C05
-- an error VALUE reaches the catcher as raised (plus the position prefix for strings at level 1/2): texts that a
-- formatting layer between raise and catch could mangle
emit(1, pcall(error, "100% done"))
emit(2, pcall(function() error("rate=%d") end))
emit(3, pcall(function() error("50%", 0) end))
emit(4, pcall(function() assert(false, "%s and %%") end))
emit(5, pcall(function() assert(nil, "x%") end))
emit(6, xpcall(function() error("%d%%") end, function(m) return "h[" .. m .. "]" end))
local co = coroutine.create(function() error("in co %q") end)
emit(7, coroutine.resume(co))
local t = setmetatable({}, {__index = function(t, k) error("key %s " .. k) end})
emit(8, pcall(function() return t.x end))
emit(9, pcall(function() error("%") end))
emit(10, pcall(function() error("%v%!%(", 2) end))
local w = coroutine.wrap(function() error("wrapped %d") end)
emit(11, pcall(w))
emit(12, pcall(function() for i = 1, 2 do error("i=%d" .. i, 0) end end))
error("final %s %%")
