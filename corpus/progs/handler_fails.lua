-- PROPS: C03 C05
-- xpcall whose message handler itself raises while the failed function has let closures escape: the escaped
-- closures keep the values their variables had when the error struck; the caller's own state is untouched
local keep = {}
local mine = 7
local function body(a)
  local x = a * 2
  local y = "s" .. a
  keep[#keep + 1] = function() return x, y end
  keep[#keep + 1] = function(v) x = v end
  for i = 1, 2 do
    local z = i + a
    keep[#keep + 1] = function() return z end
    if i == 2 then error("boom" .. a) end
  end
end
local ok = xpcall(function() mine = mine + 1; body(5) end, function(m) error("handler: " .. m) end)
emit(1, ok, mine)
emit(2, keep[1]())
keep[2](42)
emit(3, keep[1]())
emit(4, keep[3](), keep[4]())
-- the handler fails with a runtime fault, the body with a runtime fault too
local keep2
local ok2 = xpcall(function() local v = {1, 2}; keep2 = function() return #v, v[2] end; local n = nil; return n.x end,
  function(m) local q = nil; return q + 1 end)
emit(5, ok2)
emit(6, keep2())
-- nested: the inner xpcall's handler fails, the outer pcall sees a normal return
emit(7, pcall(function()
  local r = {}
  local ok3 = xpcall(function() local w = "w"; r.f = function() return w end; error("e") end, function() error("h") end)
  return ok3, r.f()
end))
-- a handler that works, for contrast
local keep3
emit(8, xpcall(function() local u = 3; keep3 = function() u = u + 1; return u end; error("x", 0) end, function(m) return m .. "!" end))
emit(9, keep3(), keep3())
