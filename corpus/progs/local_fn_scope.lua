-- PROPS: C01 C03
-- KF: C01-local-function-expression-scope
f = "g"
local f = function() return f end
emit(type(f()))
