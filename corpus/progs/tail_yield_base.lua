-- PROPS: C06
-- KF: C06-tail-yield-at-base
local ct = coroutine.create(function(a) return coroutine.yield(a) end)
emit(coroutine.resume(ct, 5)); emit(coroutine.resume(ct, 6, 7)); emit(coroutine.status(ct))
