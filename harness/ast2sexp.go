package main

// Development / corpus tool: converts Lua source to the S-expression of docs/AST.md using gopher-lua's
// own parser.  NOT used for generated programs (the generator serialises its own AST, which keeps the
// oracle independent of the parser under test); used for hand-written corpus programs and replays.

import (
	"encoding/hex"
	"fmt"
	"regexp"
	"strconv"
	"strings"

	"github.com/yuin/gopher-lua/ast"
	"github.com/yuin/gopher-lua/parse"
)

func luaNumTok(s string) string {
	ls := strings.ToLower(s)
	if strings.HasPrefix(ls, "0x") {
		u, err := strconv.ParseUint(ls[2:], 16, 64)
		if err != nil {
			f, _ := strconv.ParseFloat(s, 64)
			return encNum(f)
		}
		return encNum(float64(u))
	}
	f, err := strconv.ParseFloat(s, 64)
	if err != nil && f == 0 {
		return "nan"
	}
	return encNum(f)
}

func hexs(s string) string { return hex.EncodeToString([]byte(s)) }

func mentions(stmts []ast.Stmt, name string) bool {
	// crude: render and search
	return strings.Contains(sexpStmts(stmts), "(v "+name+")")
}

func sexpExprs(es []ast.Expr) string {
	parts := make([]string, len(es))
	for i, e := range es {
		parts[i] = sexpExpr(e)
	}
	return "(" + strings.Join(parts, " ") + ")"
}

func sexpStmts(ss []ast.Stmt) string {
	parts := make([]string, len(ss))
	for i, s := range ss {
		parts[i] = sexpStmt(s)
	}
	return "(" + strings.Join(parts, " ") + ")"
}

func sexpFn(f *ast.FunctionExpr, extraSelf bool) string {
	names := append([]string{}, f.ParList.Names...)
	if extraSelf {
		names = append([]string{"self"}, names...)
	}
	va := "0"
	if f.ParList.HasVargs {
		va = "1"
	}
	body := sexpStmts(f.Stmts)
	return fmt.Sprintf("(fn %d %d (%s) %s %s)", f.Line(), f.LastLine(), strings.Join(names, " "), va, body)
}

var arithOps = map[string]string{"+": "add", "-": "sub", "*": "mul", "/": "div", "%": "mod", "^": "pow"}
var relOps = map[string]string{"==": "eq", "~=": "ne", "<": "lt", "<=": "le", ">": "gt", ">=": "ge"}

func sexpExpr(e ast.Expr) string {
	switch x := e.(type) {
	case *ast.TrueExpr:
		return "true"
	case *ast.FalseExpr:
		return "false"
	case *ast.NilExpr:
		return "nil"
	case *ast.NumberExpr:
		return "(n " + luaNumTok(x.Value) + ")"
	case *ast.StringExpr:
		return "(s " + hexs(x.Value) + ")"
	case *ast.Comma3Expr:
		if x.AdjustRet {
			return "(par dots)"
		}
		return "dots"
	case *ast.IdentExpr:
		return "(v " + x.Value + ")"
	case *ast.AttrGetExpr:
		return "(ix " + sexpExpr(x.Object) + " " + sexpExpr(x.Key) + ")"
	case *ast.TableExpr:
		var fs []string
		for _, f := range x.Fields {
			if f.Key == nil {
				fs = append(fs, "(p "+sexpExpr(f.Value)+")")
			} else {
				fs = append(fs, "(k "+sexpExpr(f.Key)+" "+sexpExpr(f.Value)+")")
			}
		}
		return "(tbl (" + strings.Join(fs, " ") + "))"
	case *ast.FuncCallExpr:
		var s string
		if x.Receiver != nil {
			s = "(meth " + sexpExpr(x.Receiver) + " " + x.Method + " " + sexpExprs(x.Args) + ")"
		} else {
			s = "(call " + sexpExpr(x.Func) + " " + sexpExprs(x.Args) + ")"
		}
		if x.AdjustRet {
			return "(par " + s + ")"
		}
		return s
	case *ast.LogicalOpExpr:
		return "(" + x.Operator + " " + sexpExpr(x.Lhs) + " " + sexpExpr(x.Rhs) + ")"
	case *ast.RelationalOpExpr:
		return "(bin " + relOps[x.Operator] + " " + sexpExpr(x.Lhs) + " " + sexpExpr(x.Rhs) + ")"
	case *ast.StringConcatOpExpr:
		return "(bin concat " + sexpExpr(x.Lhs) + " " + sexpExpr(x.Rhs) + ")"
	case *ast.ArithmeticOpExpr:
		return "(bin " + arithOps[x.Operator] + " " + sexpExpr(x.Lhs) + " " + sexpExpr(x.Rhs) + ")"
	case *ast.UnaryMinusOpExpr:
		return "(neg " + sexpExpr(x.Expr) + ")"
	case *ast.UnaryNotOpExpr:
		return "(not " + sexpExpr(x.Expr) + ")"
	case *ast.UnaryLenOpExpr:
		return "(len " + sexpExpr(x.Expr) + ")"
	case *ast.FunctionExpr:
		return sexpFn(x, false)
	}
	return fmt.Sprintf("(unknown-expr-%T)", e)
}

func sexpStmt(s ast.Stmt) string {
	l := s.Line()
	switch x := s.(type) {
	case *ast.AssignStmt:
		return fmt.Sprintf("(set %d %s %s)", l, sexpExprs(x.Lhs), sexpExprs(x.Rhs))
	case *ast.LocalAssignStmt:
		if len(x.Names) == 1 && len(x.Exprs) == 1 {
			if f, ok := x.Exprs[0].(*ast.FunctionExpr); ok && srcLineHasLocalFunction(l) {
				return fmt.Sprintf("(localfn %d %s %s)", l, x.Names[0], sexpFn(f, false))
			}
		}
		return fmt.Sprintf("(local %d (%s) %s)", l, strings.Join(x.Names, " "), sexpExprs(x.Exprs))
	case *ast.FuncCallStmt:
		return fmt.Sprintf("(callst %d %s)", l, sexpExpr(x.Expr))
	case *ast.DoBlockStmt:
		return fmt.Sprintf("(do %d %s)", l, sexpStmts(x.Stmts))
	case *ast.WhileStmt:
		return fmt.Sprintf("(while %d %s %s)", l, sexpExpr(x.Condition), sexpStmts(x.Stmts))
	case *ast.RepeatStmt:
		return fmt.Sprintf("(repeat %d %d %s %s)", l, x.LastLine(), sexpExpr(x.Condition), sexpStmts(x.Stmts))
	case *ast.IfStmt:
		return fmt.Sprintf("(if %d %s %s %s)", l, sexpExpr(x.Condition), sexpStmts(x.Then), sexpStmts(x.Else))
	case *ast.NumberForStmt:
		step := "none"
		if x.Step != nil {
			step = sexpExpr(x.Step)
		}
		return fmt.Sprintf("(fornum %d %s %s %s %s %s)", l, x.Name, sexpExpr(x.Init), sexpExpr(x.Limit), step, sexpStmts(x.Stmts))
	case *ast.GenericForStmt:
		return fmt.Sprintf("(forin %d (%s) %s %s)", l, strings.Join(x.Names, " "), sexpExprs(x.Exprs), sexpStmts(x.Stmts))
	case *ast.FuncDefStmt:
		if x.Name.Func != nil {
			return fmt.Sprintf("(set %d (%s) (%s))", l, sexpExpr(x.Name.Func), sexpFn(x.Func, false))
		}
		target := "(ix " + sexpExpr(x.Name.Receiver) + " (s " + hexs(x.Name.Method) + "))"
		return fmt.Sprintf("(set %d (%s) (%s))", l, target, sexpFn(x.Func, true))
	case *ast.ReturnStmt:
		return fmt.Sprintf("(ret %d %s)", l, sexpExprs(x.Exprs))
	case *ast.BreakStmt:
		return fmt.Sprintf("(break %d)", l)
	case *ast.LabelStmt:
		return fmt.Sprintf("(label %d %s)", l, x.Name)
	case *ast.GotoStmt:
		return fmt.Sprintf("(goto %d %s)", l, x.Label)
	}
	return fmt.Sprintf("(unknown-stmt-%T)", s)
}

var curSrcLines []string

// the parser desugars `local function f` and `local f = function` into the same node; tell them apart by the text
func srcLineHasLocalFunction(line int) bool {
	if line < 1 || line > len(curSrcLines) {
		return false
	}
	return localFnRe.MatchString(curSrcLines[line-1])
}

var localFnRe = regexp.MustCompile(`local\s+function\b`)

// LuaToSexp parses src with the real parser and serialises the AST (not goroutine-safe: dev/corpus tool).
func LuaToSexp(src string) (string, error) {
	curSrcLines = strings.Split(src, "\n")
	chunk, err := parse.Parse(strings.NewReader(src), "<string>")
	if err != nil {
		return "", err
	}
	parts := make([]string, len(chunk))
	for i, s := range chunk {
		parts[i] = sexpStmt(s)
	}
	return "(chunk " + strings.Join(parts, " ") + ")", nil
}
