package main

import (
	"math/big"
)

// exact decimal integer rendering of a large integral float64
type bigFloat struct{ f *big.Float }

func (b *bigFloat) set(x float64) *bigFloat { b.f = new(big.Float).SetFloat64(x); return b }
func (b *bigFloat) String() string {
	i, _ := b.f.Int(nil)
	return i.String()
}
