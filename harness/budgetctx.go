package main

// A context that is done after a fixed number of Done() calls — i.e. after a fixed number of VM instruction
// dispatches, because mainLoopWithContext polls Done() once per instruction.  Unlike a wall-clock timeout it does not
// depend on machine load: a generated program that needs a handful of instructions can never "time out" because the
// process was starved of CPU, and a program that really loops is stopped after the same number of instructions on
// every machine.

import (
	"context"
	"sync"
	"sync/atomic"
	"time"
)

type budgetCtx struct {
	polls int64
	limit int64
	once  sync.Once
	done  chan struct{}
}

func newBudgetCtx(limit int64) *budgetCtx { return &budgetCtx{limit: limit, done: make(chan struct{})} }

func (b *budgetCtx) Deadline() (time.Time, bool)   { return time.Time{}, false }
func (b *budgetCtx) Value(interface{}) interface{} { return nil }
func (b *budgetCtx) Exhausted() bool               { return atomic.LoadInt64(&b.polls) >= b.limit }
func (b *budgetCtx) Err() error {
	if b.Exhausted() {
		return context.DeadlineExceeded
	}
	return nil
}
func (b *budgetCtx) Done() <-chan struct{} {
	if atomic.AddInt64(&b.polls, 1) >= b.limit {
		b.once.Do(func() { close(b.done) })
	}
	return b.done
}

// Expire ends the budget at once (wall-clock backstop for code the instruction count does not see: instructions run
// inside coroutines poll a derived context, and host functions do not poll at all).
func (b *budgetCtx) Expire() {
	atomic.StoreInt64(&b.polls, b.limit)
	b.once.Do(func() { close(b.done) })
}

// newBudgetCtxWithBackstop: instruction budget plus a generous wall-clock backstop; the returned stop function
// releases the timer.
func newBudgetCtxWithBackstop(limit int64, backstop time.Duration) (*budgetCtx, func()) {
	b := newBudgetCtx(limit)
	t := time.AfterFunc(backstop, func() {
		if backstop >= time.Minute {
			noteHang() // a long backstop is a hang watchdog (the case is re-executed, see watchdog.go); a short one is an ordinary limit
		}
		b.Expire()
	})
	return b, func() { t.Stop() }
}
