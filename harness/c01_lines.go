package main

// C01 — "on which line it fails" for expressions spread over several lines (Impl vs Impl, metamorphic).
//
// The instructions of an operand carry the line of the operand's own tokens: where a fault inside the RIGHT operand of
// a binary operator (or a later argument / field / list element) is reported must not depend on what the LEFT
// neighbour is — a constant (whose load the compiler removes again when it becomes an RK operand), a local (MOVE
// removed likewise), a global, a call, a field, a parenthesised or unary expression — as long as the layout is the
// same.  The compiler's peephole removals and rewrites are exactly the sites that can smear a line onto the next
// instruction; the reference for each group is the majority answer, and every group must be unanimous.

import (
	"fmt"
	"regexp"
	"sort"
	"strings"

	lua "github.com/yuin/gopher-lua"
)

var c01LineRe = regexp.MustCompile(`^<string>:(\d+):`)

func c01FaultLine(src string) string {
	L := lua.NewState()
	defer L.Close()
	L.SetGlobal("f", L.NewFunction(func(L *lua.LState) int { L.Push(lua.LNumber(3)); return 1 }))
	err := L.DoString(src)
	if err == nil {
		return "no-error"
	}
	msg := err.Error()
	if ae, ok := err.(*lua.ApiError); ok && ae.Object != nil {
		msg = ae.Object.String()
	}
	if m := c01LineRe.FindStringSubmatch(msg); m != nil {
		return m[1]
	}
	return "no-position:" + strings.SplitN(msg, "\n", 2)[0]
}

// c01LineIndependence returns one description per group of programs that disagree about the fault line.
func c01LineIndependence() []string {
	lefts := []string{"1", "'k'", "x", "g", "f()", "t2.a", "(x)", "-x", "x + 1", "t2[1]", "#s", "2.5"}
	rights := []string{"t.x", "t[1]", "t.a.b", "nilf()", "-n", "#n", "t.x.y", "n .. 'z'", "n + 1", "t:m()"}
	ops := []string{"+", "-", "*", "/", "%", "^", "..", "<", "<=", "==", "and", "or"}
	layouts := []string{"L\nOP R", "L OP\nR", "L\nOP\nR", "L\n\n-- comment\nOP R"}
	stmts := []string{"local y = E", "y = E", "g = E", "return E", "f(E)", "t2.a = E", "local y = {E}", "if E then y = 1 end", "local y = f(x, E)", "t2[E] = 1", "while E do break end"}
	pre := "local x, y, n, t, s = 4, 0, nil, nil, 'str'\nlocal t2 = {a = 5, 6}\ng = 7\n"
	var bad []string
	for _, op := range ops {
		for _, r := range rights {
			for _, lay := range layouts {
				for si, st := range stmts {
					if (len(op)+len(r)+len(lay)+si)%3 != 0 { // a third of the grid per statement form keeps the quick tier quick
						continue
					}
					answers := map[string][]string{}
					for _, l := range lefts {
						if (op == ".." || op == "<" || op == "<=") && (l == "'k'" || l == "#s") && false {
							continue
						}
						e := strings.NewReplacer("L", l, "OP", op, "R", r).Replace(lay)
						src := pre + strings.Replace(st, "E", e, 1)
						a := c01FaultLine(src)
						answers[a] = append(answers[a], l)
					}
					// left operands that fault themselves (e.g. 'k' + …) or decide the result without evaluating the right
					// one (and/or) answer differently for a good reason: compare only the answers that name a line of
					// the right operand's region, i.e. drop "no-error" and require the REST to be unanimous per left class
					delete(answers, "no-error")
					if len(answers) <= 1 {
						continue
					}
					// left operands whose own evaluation faults first (string arithmetic) form their own answer: accept a
					// split only if one side consists solely of such left operands
					var keys []string
					for k := range answers {
						keys = append(keys, k)
					}
					sort.Strings(keys)
					selfFaulting := map[string]bool{"'k'": true, "#s": false}
					explained := false
					if len(keys) == 2 {
						for _, k := range keys {
							all := true
							for _, l := range answers[k] {
								if !(selfFaulting[l] && (op != ".." && op != "<" && op != "<=" && op != "==" && op != "and" && op != "or")) {
									all = false
								}
							}
							explained = explained || all
						}
					}
					if explained {
						continue
					}
					var parts []string
					for _, k := range keys {
						parts = append(parts, fmt.Sprintf("line %s for left operand %v", k, answers[k]))
					}
					bad = append(bad, fmt.Sprintf("statement %q layout %q operator %q right operand %q: %s", st, lay, op, r, strings.Join(parts, " | ")))
				}
			}
		}
	}
	return bad
}
