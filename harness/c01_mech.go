package main

// C01M — mechanism part of C01: lowering of conditions / logical operators / relational operators /
// arithmetic, unary minus, length, concatenation / assignments to locals (compile.go) and constant folding vs
// run-time arithmetic.
//
//   (a) bytecode equality: programs of a small statement language around condition trees are rendered to Lua,
//       compiled with the REAL compiler (parse.Parse + lua.Compile) and the proto (code words, constants,
//       NumUsedRegisters) is compared word for word with the Lean compile model (`C01M code`);
//   (a') run tie: the same chunk is run on the real VM under several valuations of its locals / atoms and the
//       result is compared with the MiniVM running the MODEL's code (Impl = Model) and with the reference
//       semantics of the manual (Impl = Spec) (`C01M run`);
//   (b) fold-vs-runtime (Impl vs Impl): arithmetic trees with literal operands (folded at compile time) against
//       the same tree with its operands held in locals / upvalues / globals / table fields (computed at run time):
//       results must be bit-identical.

import (
	"time"
	"fmt"
	"math"
	"strconv"
	"strings"
	"sync/atomic"

	lua "github.com/yuin/gopher-lua"
	"github.com/yuin/gopher-lua/parse"
)

// ---------- AST ----------

type cnd struct {
	k    string // T F N n s l g not and or lt gt le ge eq ne @add @sub @mul @div @mod @pow @cat @unm @len
	n    int    // n: value, l: register, g: id
	s    string // s: text
	a, b *cnd
}

type stm struct {
	k       string // if while repeat ret local assign
	c       *cnd
	b1, b2  []*stm
	targets []string // l<r> | g<id>
	rhs     []*cnd
}

func (c *cnd) toks(out *[]string) {
	switch c.k {
	case "T", "F", "N":
		*out = append(*out, c.k)
	case "n", "l", "g":
		*out = append(*out, c.k+strconv.Itoa(c.n))
	case "s":
		*out = append(*out, "s"+c.s)
	case "not", "@unm", "@len":
		*out = append(*out, c.k)
		c.a.toks(out)
	default:
		*out = append(*out, c.k)
		c.a.toks(out)
		c.b.toks(out)
	}
}

func blockToks(b []*stm, out *[]string) {
	*out = append(*out, strconv.Itoa(len(b)))
	for _, s := range b {
		s.toks(out)
	}
}

func (s *stm) toks(out *[]string) {
	*out = append(*out, s.k)
	switch s.k {
	case "if":
		s.c.toks(out)
		blockToks(s.b1, out)
		blockToks(s.b2, out)
	case "while":
		s.c.toks(out)
		blockToks(s.b1, out)
	case "repeat":
		blockToks(s.b1, out)
		s.c.toks(out)
	case "ret":
		*out = append(*out, strconv.Itoa(len(s.rhs)))
		for _, c := range s.rhs {
			c.toks(out)
		}
	case "local":
		s.c.toks(out)
	case "assign":
		*out = append(*out, strconv.Itoa(len(s.targets)))
		*out = append(*out, s.targets...)
		*out = append(*out, strconv.Itoa(len(s.rhs)))
		for _, c := range s.rhs {
			c.toks(out)
		}
	}
}

type mprog struct {
	nlocals int
	body    []*stm
}

func (p *mprog) toks() []string {
	out := []string{strconv.Itoa(p.nlocals)}
	blockToks(p.body, &out)
	return out
}

// ---- token parser (corpus / replay / shrunk cases are self-contained token lists) ----

type tokRd struct {
	t []string
	i int
}

func (r *tokRd) next() string {
	if r.i >= len(r.t) {
		panic("truncated program")
	}
	r.i++
	return r.t[r.i-1]
}
func (r *tokRd) num() int {
	n, err := strconv.Atoi(r.next())
	if err != nil {
		panic("bad count")
	}
	return n
}

func (r *tokRd) cond() *cnd {
	t := r.next()
	switch t {
	case "T", "F", "N":
		return &cnd{k: t}
	case "not", "@unm", "@len":
		return &cnd{k: t, a: r.cond()}
	case "and", "or", "lt", "gt", "le", "ge", "eq", "ne", "@add", "@sub", "@mul", "@div", "@mod", "@pow", "@cat":
		a := r.cond()
		b := r.cond()
		return &cnd{k: t, a: a, b: b}
	}
	switch t[0] {
	case 'n', 'l', 'g':
		n, err := strconv.Atoi(t[1:])
		if err != nil {
			panic("bad token " + t)
		}
		return &cnd{k: t[:1], n: n}
	case 's':
		return &cnd{k: "s", s: t[1:]}
	}
	panic("bad token " + t)
}

func (r *tokRd) block() []*stm {
	n := r.num()
	var b []*stm
	for i := 0; i < n; i++ {
		b = append(b, r.stmt())
	}
	return b
}

func (r *tokRd) stmt() *stm {
	t := r.next()
	s := &stm{k: t}
	switch t {
	case "if":
		s.c = r.cond()
		s.b1 = r.block()
		s.b2 = r.block()
	case "while":
		s.c = r.cond()
		s.b1 = r.block()
	case "repeat":
		s.b1 = r.block()
		s.c = r.cond()
	case "ret":
		n := r.num()
		for i := 0; i < n; i++ {
			s.rhs = append(s.rhs, r.cond())
		}
	case "local":
		s.c = r.cond()
	case "assign":
		k := r.num()
		for i := 0; i < k; i++ {
			s.targets = append(s.targets, r.next())
		}
		m := r.num()
		for i := 0; i < m; i++ {
			s.rhs = append(s.rhs, r.cond())
		}
	default:
		panic("bad statement " + t)
	}
	return s
}

func parseMProg(toks []string) (p *mprog, rest []string) {
	r := &tokRd{t: toks}
	p = &mprog{nlocals: r.num()}
	p.body = r.block()
	return p, toks[r.i:]
}

// ---- renderer ----

var c01binSym = map[string]string{"lt": "<", "gt": ">", "le": "<=", "ge": ">=", "eq": "==", "ne": "~=",
	"@add": "+", "@sub": "-", "@mul": "*", "@div": "/", "@mod": "%", "@pow": "^", "@cat": ".."}

func (c *cnd) lua() string { return c.luaT(false) }

// luaT renders the tree fully parenthesised (parentheses produce no AST node).  twin: the instrumented twin of the
// program — every operand of `..` goes through the identity function __c and every operand of an arithmetic
// operator through __a (host functions that only look at their argument; see runTwinUnsafe).
func (c *cnd) luaT(twin bool) string {
	w := func(f string, x *cnd) string {
		if twin {
			return f + "((" + x.luaT(twin) + "))"
		}
		return "(" + x.luaT(twin) + ")"
	}
	switch c.k {
	case "@unm":
		return "-" + w("__a", c.a)
	case "@len":
		return "#(" + c.a.luaT(twin) + ")"
	case "@add", "@sub", "@mul", "@div", "@mod", "@pow":
		return w("__a", c.a) + " " + c01binSym[c.k] + " " + w("__a", c.b)
	case "@cat":
		return w("__c", c.a) + " .. " + w("__c", c.b)
	}
	if twin {
		switch c.k {
		case "not":
			return "not (" + c.a.luaT(true) + ")"
		case "and", "or":
			return "(" + c.a.luaT(true) + ") " + c.k + " (" + c.b.luaT(true) + ")"
		case "lt", "gt", "le", "ge", "eq", "ne":
			return "(" + c.a.luaT(true) + ") " + c01binSym[c.k] + " (" + c.b.luaT(true) + ")"
		}
	}
	switch c.k {
	case "T":
		return "true"
	case "F":
		return "false"
	case "N":
		return "nil"
	case "n":
		return strconv.Itoa(c.n)
	case "s":
		return strconv.Quote(c.s)
	case "l":
		return "l" + strconv.Itoa(c.n)
	case "g":
		return "g" + strconv.Itoa(c.n)
	case "not":
		return "not (" + c.a.lua() + ")"
	case "and", "or":
		return "(" + c.a.lua() + ") " + c.k + " (" + c.b.lua() + ")"
	}
	op := map[string]string{"lt": "<", "gt": ">", "le": "<=", "ge": ">=", "eq": "==", "ne": "~="}[c.k]
	return "(" + c.a.lua() + ") " + op + " (" + c.b.lua() + ")"
}

func renderBlock(b []*stm, top int, ind string, sb *strings.Builder, twin bool) {
	for _, s := range b {
		switch s.k {
		case "if":
			sb.WriteString(ind + "if " + s.c.luaT(twin) + " then\n")
			renderBlock(s.b1, top, ind+"  ", sb, twin)
			if len(s.b2) > 0 {
				sb.WriteString(ind + "else\n")
				renderBlock(s.b2, top, ind+"  ", sb, twin)
			}
			sb.WriteString(ind + "end\n")
		case "while":
			sb.WriteString(ind + "while " + s.c.luaT(twin) + " do\n")
			renderBlock(s.b1, top, ind+"  ", sb, twin)
			sb.WriteString(ind + "end\n")
		case "repeat":
			sb.WriteString(ind + "repeat\n")
			// the until-condition sees the locals of the body; names are positional, so nothing to track here
			renderBlock(s.b1, top, ind+"  ", sb, twin)
			sb.WriteString(ind + "until " + s.c.luaT(twin) + "\n")
		case "ret":
			var xs []string
			for _, c := range s.rhs {
				xs = append(xs, c.luaT(twin))
			}
			sb.WriteString(ind + "return " + strings.Join(xs, ", ") + "\n")
		case "local":
			sb.WriteString(ind + "local l" + strconv.Itoa(top) + " = " + s.c.luaT(twin) + "\n")
			top++
		case "assign":
			var xs []string
			for _, c := range s.rhs {
				xs = append(xs, c.luaT(twin))
			}
			sb.WriteString(ind + strings.Join(s.targets, ", ") + " = " + strings.Join(xs, ", ") + "\n")
		}
	}
}

func (p *mprog) lua() string { return p.luaT(false) }

// hasOps: does the program contain an operator whose run-time result depends on number<->string conversion?
func (c *cnd) hasConv() bool {
	if c == nil {
		return false
	}
	if strings.HasPrefix(c.k, "@") && c.k != "@len" {
		return true
	}
	return c.a.hasConv() || c.b.hasConv()
}

func blockHasConv(b []*stm) bool {
	for _, s := range b {
		if s.c.hasConv() || blockHasConv(s.b1) || blockHasConv(s.b2) {
			return true
		}
		for _, c := range s.rhs {
			if c.hasConv() {
				return true
			}
		}
	}
	return false
}

func (p *mprog) luaT(twin bool) string {
	var sb strings.Builder
	if p.nlocals > 0 {
		var ns []string
		for i := 0; i < p.nlocals; i++ {
			ns = append(ns, "l"+strconv.Itoa(i))
		}
		sb.WriteString("local " + strings.Join(ns, ", ") + " = ...\n")
	}
	renderBlock(p.body, p.nlocals, "", &sb, twin)
	return sb.String()
}

// ---------- executor ----------

func compileReal(src string) (proto *lua.FunctionProto, errs string) {
	defer func() {
		if r := recover(); r != nil {
			errs = "gopanic " + fmt.Sprint(r)
		}
	}()
	chunk, err := parse.Parse(strings.NewReader(src), "<string>")
	if err != nil {
		return nil, "syntax " + err.Error()
	}
	p, err := lua.Compile(chunk, "<string>")
	if err != nil {
		return nil, "compile-error " + strings.ReplaceAll(err.Error(), " ", "_")
	}
	return p, ""
}

func protoReply(p *lua.FunctionProto) string {
	parts := []string{strconv.Itoa(int(p.NumUsedRegisters)), "C"}
	for _, w := range p.Code {
		parts = append(parts, strconv.FormatUint(uint64(w), 10))
	}
	parts = append(parts, "K")
	rt := NewRefTable()
	for _, k := range p.Constants {
		parts = append(parts, encVal(k, rt))
	}
	return strings.Join(parts, " ")
}

const nAtoms = 4

var mechValues = []string{"nil", "F", "T", "i0", "i1", "i2", "s61", "s62"}

func decWire(tok string) lua.LValue {
	switch {
	case tok == "nil":
		return lua.LNil
	case tok == "T":
		return lua.LTrue
	case tok == "F":
		return lua.LFalse
	case tok[0] == 'i':
		f, _ := strconv.ParseFloat(tok[1:], 64)
		return lua.LNumber(f)
	case tok[0] == 'f':
		u, _ := strconv.ParseUint(tok[1:], 10, 64)
		return lua.LNumber(math.Float64frombits(u))
	case tok[0] == 's':
		b, _ := hexDecode(tok[1:])
		return lua.LString(string(b))
	}
	panic("bad value token " + tok)
}

func hexDecode(s string) ([]byte, error) {
	out := make([]byte, len(s)/2)
	for i := 0; i+1 < len(s); i += 2 {
		v, err := strconv.ParseUint(s[i:i+2], 16, 8)
		if err != nil {
			return nil, err
		}
		out[i/2] = byte(v)
	}
	return out, nil
}

// generated programs terminate after a handful of instructions; a run that exceeds the timeout is reported
// (X TIMEOUT).  After mechMaxTimeouts of them the remaining run ops are skipped so that a tree on which many
// programs loop does not turn the check into hours.
var mechTimeouts int32

// runs not compared because they convert an unsafe number to a string / a long string to a number (see runTwinUnsafe)
var mechSkippedConv int64

const mechMaxTimeouts = 12

// runTwinUnsafe runs the instrumented twin of a program (same valuation) and reports whether the run converts
//   * a number that is not an integral value below 2^53 to a string (operand of `..`), or
//   * a string longer than 15 bytes to a number (operand of an arithmetic operator):
// the texts of such conversions (shortest round-trip formatting, correctly rounded reading of long numerals) are
// outside what the run tie's concrete value domain defines (they belong to C16), so that run is not compared.
func runTwinUnsafe(src string, lv, gv []string) bool {
	unsafe := false
	pre := func(L *lua.LState) {
		L.SetGlobal("__c", L.NewFunction(func(L *lua.LState) int {
			v := L.Get(1)
			if n, ok := v.(lua.LNumber); ok {
				f := float64(n)
				if math.IsNaN(f) || math.IsInf(f, 0) || f != math.Trunc(f) || math.Abs(f) >= 9007199254740992 {
					unsafe = true
				}
			}
			L.Push(v)
			return 1
		}))
		L.SetGlobal("__a", L.NewFunction(func(L *lua.LState) int {
			v := L.Get(1)
			if s, ok := v.(lua.LString); ok && len(s) > 15 {
				unsafe = true
			}
			L.Push(v)
			return 1
		}))
	}
	runRealWith(src, lv, gv, pre)
	return unsafe
}

// runReal runs the chunk with the given locals (chunk arguments) and atoms (globals g0..).
func runReal(src string, lv, gv []string) string { return runRealWith(src, lv, gv, nil) }

func runRealWith(src string, lv, gv []string, pre func(L *lua.LState)) string {
	L := lua.NewState(lua.Options{SkipOpenLibs: true})
	defer L.Close()
	if pre != nil {
		pre(L)
	}
	// an instruction budget, not a wall-clock timeout: the programs of this fragment have no loops that run more than a
	// few iterations, so 200 000 dispatched instructions mean a real loop — whatever the load of the machine
	ctx, stop := newBudgetCtxWithBackstop(200000, 2*time.Minute)
	defer stop()
	L.SetContext(ctx)
	fn, err := L.LoadString(src)
	if err != nil {
		return "syntax"
	}
	for i, g := range gv {
		L.SetGlobal("g"+strconv.Itoa(i), decWire(g))
	}
	args := make([]lua.LValue, len(lv))
	for i, v := range lv {
		args[i] = decWire(v)
	}
	top := L.GetTop()
	res := ""
	func() {
		defer func() {
			if r := recover(); r != nil {
				res = "GOPANIC " + fmt.Sprint(r)
			}
		}()
		if err := L.CallByParam(lua.P{Fn: fn, NRet: lua.MultRet, Protect: true}, args...); err != nil {
			if ctx.Err() != nil {
				atomic.AddInt32(&mechTimeouts, 1)
				res = "TIMEOUT"
				return
			}
			if ae, ok := err.(*lua.ApiError); ok && ae.Type == lua.ApiErrorPanic {
				res = "GOPANIC " + err.Error()
				return
			}
			res = "err"
			return
		}
		n := L.GetTop() - top
		if n == 0 {
			res = "none"
			return
		}
		rt := NewRefTable()
		parts := []string{"ret"}
		for i := 1; i <= n; i++ {
			parts = append(parts, encVal(L.Get(top+i), rt))
		}
		res = strings.Join(parts, " ")
	}()
	return res
}

func c01execMech(ops []Op) []string {
	var out []string
	for _, op := range ops {
		a := op.Args
		switch a[0] {
		case "code":
			var p *mprog
			func() {
				defer func() {
					if r := recover(); r != nil {
						p = nil
					}
				}()
				p, _ = parseMProg(a[1:])
			}()
			if p == nil {
				out = append(out, "X bad-program => "+strings.Join(a, " "))
				continue
			}
			proto, errs := compileReal(p.lua())
			if strings.HasPrefix(errs, "gopanic") || strings.HasPrefix(errs, "syntax") {
				out = append(out, "X "+strings.ReplaceAll(errs, " ", "_")+" => "+strings.Join(a, " "))
				continue
			}
			reply := errs
			if proto != nil {
				reply = protoReply(proto)
			}
			out = append(out, "C01M "+strings.Join(a, " ")+" => "+reply)
		case "run":
			// run <prog> ; L v* ; G v*
			if atomic.LoadInt32(&mechTimeouts) > mechMaxTimeouts {
				continue
			}
			p, rest := parseMProg(a[1:])
			var lv, gv []string
			mode := ""
			for _, t := range rest {
				switch t {
				case ";":
				case "L", "G":
					mode = t
				default:
					if mode == "L" {
						lv = append(lv, t)
					} else {
						gv = append(gv, t)
					}
				}
			}
			r := runReal(p.lua(), lv, gv)
			if strings.HasPrefix(r, "GOPANIC") || r == "TIMEOUT" || r == "syntax" {
				out = append(out, "X "+strings.ReplaceAll(r, " ", "_")+" => "+strings.Join(a, " "))
				continue
			}
			if blockHasConv(p.body) && runTwinUnsafe(p.luaT(true), lv, gv) {
				atomic.AddInt64(&mechSkippedConv, 1)
				continue
			}
			out = append(out, "C01M "+strings.Join(a, " ")+" => "+r)
		case "fold":
			out = append(out, execFold(a)...)
		default:
			panic("bad op " + a[0])
		}
	}
	return out
}

// ---------- fold vs run time (Impl vs Impl) ----------

// a fold case: arithmetic tree in prefix tokens over leaves v<i>; values are literal texts.
//
//	fold <nvals> <literal>* <tree tokens>
//
// tree: v<i> | neg T | add|sub|mul|div|mod|pow T T
type arith struct {
	k    string
	i    int
	a, b *arith
}

func (t *arith) toks(out *[]string) {
	switch t.k {
	case "v":
		*out = append(*out, "v"+strconv.Itoa(t.i))
	case "neg":
		*out = append(*out, "neg")
		t.a.toks(out)
	default:
		*out = append(*out, t.k)
		t.a.toks(out)
		t.b.toks(out)
	}
}

func parseArith(r *tokRd) *arith {
	t := r.next()
	if t[0] == 'v' {
		n, _ := strconv.Atoi(t[1:])
		return &arith{k: "v", i: n}
	}
	if t == "neg" {
		return &arith{k: "neg", a: parseArith(r)}
	}
	a := parseArith(r)
	b := parseArith(r)
	return &arith{k: t, a: a, b: b}
}

var c01arithSym = map[string]string{"add": "+", "sub": "-", "mul": "*", "div": "/", "mod": "%", "pow": "^"}

// render with a leaf renderer; fully parenthesised (parentheses produce no AST node)
func (t *arith) lua(leaf func(i int) string) string {
	switch t.k {
	case "v":
		return leaf(t.i)
	case "neg":
		return "-(" + t.a.lua(leaf) + ")"
	}
	return "(" + t.a.lua(leaf) + " " + c01arithSym[t.k] + " " + t.b.lua(leaf) + ")"
}

func runNumber(src string) (float64, string) {
	L := lua.NewState(lua.Options{SkipOpenLibs: true})
	defer L.Close()
	res := ""
	var f float64
	func() {
		defer func() {
			if r := recover(); r != nil {
				res = "gopanic " + fmt.Sprint(r)
			}
		}()
		if err := L.DoString(src); err != nil {
			res = "err " + err.Error()
			return
		}
		v := L.Get(-1)
		n, ok := v.(lua.LNumber)
		if !ok {
			res = "notnumber " + v.String()
			return
		}
		f = float64(n)
	}()
	return f, res
}

func c01sameBits(a, b float64) bool {
	if math.IsNaN(a) && math.IsNaN(b) {
		return true // NaN payload/sign is not observable from Lua
	}
	return math.Float64bits(a) == math.Float64bits(b)
}

func execFold(a []string) []string {
	r := &tokRd{t: a[1:]}
	n := r.num()
	lits := make([]string, n)
	for i := range lits {
		lits[i] = r.next()
	}
	t := parseArith(r)
	lit := func(i int) string { return lits[i] }
	// literal operands: folded by constFold
	folded := "return " + t.lua(lit)
	var decl, gl, tb, up []string
	for i, l := range lits {
		decl = append(decl, fmt.Sprintf("local a%d = %s", i, l))
		gl = append(gl, fmt.Sprintf("G%d = %s", i, l))
		tb = append(tb, fmt.Sprintf("t.f%d = %s", i, l))
		up = append(up, fmt.Sprintf("local u%d = %s", i, l))
	}
	variants := map[string]string{
		"local":   strings.Join(decl, "\n") + "\nreturn " + t.lua(func(i int) string { return "a" + strconv.Itoa(i) }),
		"global":  strings.Join(gl, "\n") + "\nreturn " + t.lua(func(i int) string { return "G" + strconv.Itoa(i) }),
		"field":   "local t = {}\n" + strings.Join(tb, "\n") + "\nreturn " + t.lua(func(i int) string { return "t.f" + strconv.Itoa(i) }),
		"upvalue": strings.Join(up, "\n") + "\nlocal function f() return " + t.lua(func(i int) string { return "u" + strconv.Itoa(i) }) + " end\nreturn f()",
		// a partially literal tree: leaf 0 in a local, the others literal (sub-trees fold, the root does not)
		"mixed": "local a0 = " + lits[0] + "\nreturn " + t.lua(func(i int) string {
			if i == 0 {
				return "a0"
			}
			return lits[i]
		}),
		// destination contexts of the folded constant
		"folded-local": "local r = " + t.lua(lit) + "\nreturn r",
		"folded-field": "local t = {}\nt.x = " + t.lua(lit) + "\nreturn t.x",
	}
	f0, e0 := runNumber(folded)
	if e0 != "" {
		return []string{"X fold-literal-run-failed => " + strings.ReplaceAll(e0, " ", "_") + " " + strings.Join(a, " ")}
	}
	var out []string
	for _, name := range []string{"local", "global", "field", "upvalue", "mixed", "folded-local", "folded-field"} {
		f1, e1 := runNumber(variants[name])
		if e1 != "" || !c01sameBits(f0, f1) {
			out = append(out, fmt.Sprintf("X fold-vs-runtime-%s folded=%s runtime=%s%s => %s", name, encNumBits(f0), encNumBits(f1),
				strings.ReplaceAll(e1, " ", "_"), strings.Join(a, " ")))
		}
	}
	if len(out) == 0 {
		out = append(out, "C01M "+strings.Join(a, " ")+" => ok")
	}
	return out
}

func encNumBits(f float64) string {
	return fmt.Sprintf("%v(0x%016x)", f, math.Float64bits(f))
}

// ---------- generators ----------

func leafAlphabet(rich bool, nloc int) []*cnd {
	ls := []*cnd{{k: "l", n: 0}, {k: "g", n: 0}, {k: "T"}, {k: "N"}, {k: "n", n: 1}}
	if rich {
		ls = append(ls, &cnd{k: "l", n: 1}, &cnd{k: "g", n: 1}, &cnd{k: "F"}, &cnd{k: "s", s: "a"})
		if nloc > 2 {
			ls = append(ls, &cnd{k: "l", n: 2})
		}
	}
	return ls
}

// all trees of depth <= d over the alphabet (not / and / or; relational operators over leaves when rel is set)
func enumTrees(d int, leaves []*cnd, rel bool) []*cnd {
	if d <= 1 {
		return leaves
	}
	sub := enumTrees(d-1, leaves, rel)
	res := append([]*cnd{}, leaves...)
	if rel && d == 2 {
		for _, op := range []string{"eq", "lt", "ge", "ne"} {
			for _, a := range leaves {
				for _, b := range leaves {
					res = append(res, &cnd{k: op, a: a, b: b})
				}
			}
		}
	}
	for _, a := range sub {
		if a.k != "T" && a.k != "N" && a.k != "F" && a.k != "n" && a.k != "s" || d == 2 {
			res = append(res, &cnd{k: "not", a: a})
		}
	}
	for _, op := range []string{"and", "or"} {
		for _, a := range sub {
			for _, b := range sub {
				res = append(res, &cnd{k: op, a: a, b: b})
			}
		}
	}
	return res
}

func num(n int) *cnd  { return &cnd{k: "n", n: n} }
func loc(n int) *cnd  { return &cnd{k: "l", n: n} }
func glob(n int) *cnd { return &cnd{k: "g", n: n} }
func retS(cs ...*cnd) *stm {
	return &stm{k: "ret", rhs: cs}
}

const nCtx = 12

// the contexts the compiler distinguishes; nlocals = 3 (l0 l1 l2), atoms g0 g1
func inContext(ctx int, c *cnd) *mprog {
	all := []*cnd{loc(0), loc(1), loc(2), glob(0)}
	var body []*stm
	switch ctx {
	case 0: // if/else
		body = []*stm{{k: "if", c: c, b1: []*stm{retS(num(1))}, b2: []*stm{retS(num(2))}}}
	case 1: // if without else
		body = []*stm{{k: "if", c: c, b1: []*stm{retS(num(1))}}, retS(num(2))}
	case 2: // while
		body = []*stm{{k: "while", c: c, b1: []*stm{retS(num(1))}}, retS(num(2))}
	case 3: // repeat (at most two iterations)
		body = []*stm{{k: "repeat", b1: []*stm{
			{k: "if", c: loc(2), b1: []*stm{retS(num(3))}},
			{k: "assign", targets: []string{"l2"}, rhs: []*cnd{{k: "T"}}},
		}, c: c}, retS(num(4))}
	case 4: // value, fresh destination
		body = []*stm{{k: "local", c: c}, retS(loc(3), loc(0), loc(1), loc(2))}
	case 5: // value, EXISTING local destination (possibly an operand)
		body = []*stm{{k: "assign", targets: []string{"l0"}, rhs: []*cnd{c}}, retS(all...)}
	case 6: // value, global destination
		body = []*stm{{k: "assign", targets: []string{"g0"}, rhs: []*cnd{c}}, retS(all...)}
	case 7: // return
		body = []*stm{retS(c)}
	case 8: // last of a multiple assignment (stored in place), the other target reads the destination
		body = []*stm{{k: "assign", targets: []string{"l1", "l0"}, rhs: []*cnd{loc(0), c}}, retS(all...)}
	case 9: // first of a multiple assignment (temporary)
		body = []*stm{{k: "assign", targets: []string{"l0", "l1"}, rhs: []*cnd{c, loc(0)}}, retS(all...)}
	case 10: // operand of not / of a relational operator in value context
		body = []*stm{{k: "assign", targets: []string{"l0"}, rhs: []*cnd{{k: "eq", a: &cnd{k: "not", a: c}, b: c}}}, retS(all...)}
	case 11: // nested if inside a loop body: jump threading over the back edge
		body = []*stm{{k: "while", c: c, b1: []*stm{
			{k: "if", c: loc(2), b1: []*stm{retS(num(3))}},
			{k: "assign", targets: []string{"l2"}, rhs: []*cnd{{k: "T"}}},
			{k: "if", c: c, b1: []*stm{{k: "if", c: loc(1), b1: []*stm{{k: "assign", targets: []string{"l1"}, rhs: []*cnd{{k: "F"}}}}, b2: []*stm{retS(num(5))}}}},
		}}, retS(all...)}
	}
	return &mprog{nlocals: 3, body: body}
}

func valuations(r *Rng, n int, k int) [][]string {
	var res [][]string
	for i := 0; i < k; i++ {
		v := make([]string, n)
		regime := r.Intn(10)
		for j := range v {
			switch {
			case regime < 5: // truthiness mix
				v[j] = Pick(r, []string{"nil", "F", "T", "i1", "i0", "s61"})
			case regime < 8: // comparable numbers
				v[j] = Pick(r, []string{"i0", "i1", "i2"})
			default:
				v[j] = Pick(r, mechValues)
			}
		}
		res = append(res, v)
	}
	return res
}

// valuations of the arithmetic families: mostly numbers (small integers, a negative one, a fraction) and
// numeric / non-numeric strings, so that most runs compute instead of raising
var mechNumValues = []string{"i0", "i1", "i2", "i3", "i5", "i-1", "i-3", "f4602678819172646912", "i7"} // 0.5
var mechStrValues = []string{"s61", "s62", "s3130"}                                                      // "a" "b" "10"

func valuationsX(r *Rng, n int, k int) [][]string {
	var res [][]string
	for i := 0; i < k; i++ {
		v := make([]string, n)
		regime := r.Intn(10)
		for j := range v {
			switch {
			case regime < 5: // numbers only
				v[j] = Pick(r, mechNumValues)
			case regime < 7: // numbers and strings
				if r.Chance(50) {
					v[j] = Pick(r, mechNumValues)
				} else {
					v[j] = Pick(r, mechStrValues)
				}
			case regime < 8: // strings only
				v[j] = Pick(r, mechStrValues)
			default: // everything (errors)
				v[j] = Pick(r, append(append([]string{"nil", "F", "T"}, mechNumValues...), mechStrValues...))
			}
		}
		res = append(res, v)
	}
	return res
}

func mechCaseX(r *Rng, p *mprog, nruns int) []Op {
	toks := p.toks()
	var ops []Op
	lvs := valuationsX(r, p.nlocals, nruns)
	gvs := valuationsX(r, nAtoms, nruns)
	for i := 0; i < nruns; i++ {
		a := append([]string{"run"}, toks...)
		a = append(a, ";", "L")
		a = append(a, lvs[i]...)
		a = append(a, ";", "G")
		a = append(a, gvs[i]...)
		ops = append(ops, Op{Args: a})
	}
	ops = append(ops, Op{Args: append([]string{"code"}, toks...)})
	return ops
}

func cn(k string, a, b *cnd) *cnd { return &cnd{k: k, a: a, b: b} }
func str(s string) *cnd           { return &cnd{k: "s", s: s} }

// operand classes of the bounded-exhaustive arithmetic families: every way an operand reaches an instruction
// (local → MOVE propagated, numeral / string / folded sub-tree → LOADK propagated as RK, global / nested operator →
// own temporary, logical operator → no propagation, relational / not / # → LOADBOOL / NOT / LEN tail)
func arithOperandClasses() []*cnd {
	return []*cnd{
		loc(0), loc(1), glob(0), num(2), num(3), str("a"), str("10"), {k: "N"}, {k: "T"},
		cn("@add", num(2), num(3)),       // folded constant
		cn("@unm", num(2), nil),          // folded negative constant
		cn("@div", num(1), num(0)),       // folded inf
		cn("@div", num(0), num(0)),       // folded NaN (ConstIndex never finds a NaN again)
		cn("@unm", num(0), nil),          // folded -0 (a constant different from 0)
		cn("@mul", loc(1), num(2)),       // nested arithmetic
		cn("@unm", loc(1), nil),          // unary minus on a local
		cn("@len", loc(1), nil),          // length
		cn("@cat", loc(1), str("a")),     // concatenation
		cn("and", loc(0), loc(1)),        // logical operators: value through compileLogicalOpExpr
		cn("or", loc(0), num(1)),
		cn("not", loc(0), nil),
		cn("lt", loc(1), num(2)),         // relational
	}
}

func enumArithTrees() (bin []*cnd, un []*cnd, chains []*cnd) {
	cl := arithOperandClasses()
	for _, op := range []string{"@add", "@sub", "@mul", "@div", "@mod", "@cat", "lt", "eq", "ge"} {
		for _, a := range cl {
			for _, b := range cl {
				bin = append(bin, cn(op, a, b))
			}
		}
	}
	for _, a := range cl {
		for _, e := range []int{0, 1, 2, 3} {
			bin = append(bin, cn("@pow", a, num(e)))
		}
	}
	for _, op := range []string{"@unm", "@len", "not"} {
		for _, a := range cl {
			un = append(un, cn(op, a, nil))
			un = append(un, cn(op, cn(op, a, nil), nil))
		}
	}
	// chains of concatenations (both nestings, length 3 and 4) and mixed precedence shapes
	small := []*cnd{loc(0), glob(0), str("a"), num(1), cn("@add", loc(1), num(1))}
	for _, a := range small {
		for _, b := range small {
			for _, c := range small {
				chains = append(chains, cn("@cat", a, cn("@cat", b, c)), cn("@cat", cn("@cat", a, b), c))
				for _, op1 := range []string{"@add", "@mul", "@sub"} {
					for _, op2 := range []string{"@add", "@mul", "@cat"} {
						chains = append(chains, cn(op1, a, cn(op2, b, c)), cn(op1, cn(op2, a, b), c))
					}
				}
			}
		}
	}
	tiny := []*cnd{loc(0), str("a"), num(1)}
	for _, a := range tiny {
		for _, b := range tiny {
			for _, c := range tiny {
				for _, d := range tiny {
					chains = append(chains, cn("@cat", a, cn("@cat", b, cn("@cat", c, d))),
						cn("@cat", cn("@cat", a, b), cn("@cat", c, d)),
						cn("@cat", a, cn("@cat", cn("@cat", b, c), d)))
				}
			}
		}
	}
	return
}

// constant-pool window: n distinct filler constants, then arithmetic / comparison / concatenation whose constant
// operands get the pool indices n, n+1: around n = 254..257 PropagateKMV stops turning the LOADK into an RK operand
// (cindex <= opMaxIndexRk).
func kWindowProg(n int) *mprog {
	var body []*stm
	for i := 0; i < n; i++ {
		body = append(body, &stm{k: "assign", targets: []string{"g0"}, rhs: []*cnd{num(1000 + i)}})
	}
	body = append(body,
		&stm{k: "assign", targets: []string{"l1"}, rhs: []*cnd{cn("@add", loc(0), num(7))}},
		&stm{k: "assign", targets: []string{"l2"}, rhs: []*cnd{cn("@mul", num(9), loc(0))}},
		&stm{k: "if", c: cn("lt", loc(0), num(11)), b1: []*stm{retS(loc(0), loc(1), loc(2), cn("@sub", num(7), num(9)))}},
		retS(loc(0), loc(1), loc(2)))
	return &mprog{nlocals: 3, body: body}
}

func mechCase(r *Rng, p *mprog, nruns int) []Op {
	toks := p.toks()
	// the runs come first: a property-level failure (SPEC) is then reported with its concrete input before the
	// bytecode comparison (MODEL) of the same program is looked at
	var ops []Op
	lvs := valuations(r, p.nlocals, nruns)
	gvs := valuations(r, nAtoms, nruns)
	for i := 0; i < nruns; i++ {
		a := append([]string{"run"}, toks...)
		a = append(a, ";", "L")
		a = append(a, lvs[i]...)
		a = append(a, ";", "G")
		a = append(a, gvs[i]...)
		ops = append(ops, Op{Args: a})
	}
	ops = append(ops, Op{Args: append([]string{"code"}, toks...)})
	return ops
}

// random condition tree; top = number of locals in scope
func genCond(r *Rng, depth, top int) *cnd { return genCondX(r, depth, top, 0) }

var c01arithBin = []string{"@add", "@sub", "@mul", "@div", "@mod", "@add", "@sub", "@mul"}

// genArithNode: an arithmetic / unary minus / length / concatenation node over sub-trees of the full language.
// The exponent of `^` is always one of the numerals 0..3 (see the engine's `powF`).
func genArithNode(r *Rng, depth, top, ar int) *cnd {
	sub := func() *cnd { return genCondX(r, depth-1, top, ar) }
	switch c := r.Intn(100); {
	case c < 52:
		return &cnd{k: Pick(r, c01arithBin), a: sub(), b: sub()}
	case c < 58:
		return &cnd{k: "@pow", a: sub(), b: num(r.Intn(4))}
	case c < 70:
		return &cnd{k: "@unm", a: sub()}
	case c < 78:
		return &cnd{k: "@len", a: sub()}
	default:
		// chains of concatenations in both nestings
		if r.Chance(50) {
			return &cnd{k: "@cat", a: sub(), b: &cnd{k: "@cat", a: sub(), b: sub()}}
		}
		return &cnd{k: "@cat", a: sub(), b: sub()}
	}
}

// genCondX: ar = percentage of inner nodes (and share of leaves) drawn from the arithmetic family; ar = 0 is the
// generator of the condition-only families (unchanged).
func genCondX(r *Rng, depth, top, ar int) *cnd {
	if ar > 0 && (depth <= 1 || r.Chance(18)) && r.Chance(55) {
		switch c := r.Intn(100); {
		case c < 40 && top > 0:
			return loc(r.Intn(top))
		case c < 55:
			return glob(r.Intn(nAtoms))
		case c < 85:
			return num(Pick(r, []int{0, 1, 2, 3, 5, 7, 10}))
		default:
			return &cnd{k: "s", s: Pick(r, []string{"a", "b", "10"})}
		}
	}
	if ar > 0 && depth > 1 && r.Chance(ar) {
		return genArithNode(r, depth, top, ar)
	}
	if depth <= 1 || r.Chance(18) {
		switch c := r.Intn(100); {
		case c < 35 && top > 0:
			return loc(r.Intn(top))
		case c < 60:
			return glob(r.Intn(nAtoms))
		case c < 68:
			return &cnd{k: "T"}
		case c < 76:
			return &cnd{k: "F"}
		case c < 84:
			return &cnd{k: "N"}
		case c < 93:
			return num(r.Intn(3))
		default:
			return &cnd{k: "s", s: Pick(r, []string{"a", "b"})}
		}
	}
	switch c := r.Intn(100); {
	case c < 16:
		return &cnd{k: "not", a: genCondX(r, depth-1, top, ar)}
	case c < 48:
		return &cnd{k: "and", a: genCondX(r, depth-1, top, ar), b: genCondX(r, depth-1, top, ar)}
	case c < 80:
		return &cnd{k: "or", a: genCondX(r, depth-1, top, ar), b: genCondX(r, depth-1, top, ar)}
	default:
		op := Pick(r, []string{"lt", "gt", "le", "ge", "eq", "ne", "eq", "ne"})
		d := 1
		if r.Chance(30) || (ar > 0 && r.Chance(50)) {
			d = depth - 1
		}
		return &cnd{k: op, a: genCondX(r, d, top, ar), b: genCondX(r, d, top, ar)}
	}
}

// random block; l0 is the loop flag: every loop body ends with `if l0 then return … end; l0 = true`
func genBlock(r *Rng, depth int, top int, n int, mustRet bool) []*stm {
	return genBlockX(r, depth, top, n, mustRet, 0)
}

func genBlockX(r *Rng, depth int, top int, n int, mustRet bool, ar int) []*stm {
	var b []*stm
	for i := 0; i < n; i++ {
		switch c := r.Intn(100); {
		case c < 22 && depth > 0:
			s := &stm{k: "if", c: genCondX(r, r.Range(1, 4), top, ar), b1: genBlockX(r, depth-1, top, r.Range(0, 2), false, ar)}
			if r.Chance(60) {
				s.b2 = genBlockX(r, depth-1, top, r.Range(1, 2), false, ar)
			}
			b = append(b, s)
		case c < 32 && depth > 0:
			body := genBlockX(r, depth-1, top, r.Range(0, 2), false, ar)
			body = append(body, loopGuard(top)...)
			b = append(b, &stm{k: "while", c: genCondX(r, r.Range(1, 4), top, ar), b1: body})
		case c < 42 && depth > 0:
			nb := r.Range(0, 2)
			body := genBlockX(r, depth-1, top, nb, false, ar)
			// locals declared in the body are visible to the until-condition
			t2 := top
			for _, s := range body {
				if s.k == "local" {
					t2++
				}
			}
			body = append(body, loopGuard(t2)...)
			b = append(b, &stm{k: "repeat", b1: body, c: genCondX(r, r.Range(1, 4), t2, ar)})
		case c < 55 && top < 8:
			b = append(b, &stm{k: "local", c: genCondX(r, r.Range(1, 4), top, ar)})
			top++
		default:
			b = append(b, genAssignX(r, top, 3, ar))
		}
	}
	if mustRet {
		var cs []*cnd
		for i := 0; i < top; i++ {
			cs = append(cs, loc(i))
		}
		for i := 0; i < nAtoms; i++ {
			cs = append(cs, glob(i))
		}
		b = append(b, retS(cs...))
	}
	return b
}

func loopGuard(top int) []*stm {
	var cs []*cnd
	for i := 0; i < top; i++ {
		cs = append(cs, loc(i))
	}
	return []*stm{{k: "if", c: loc(0), b1: []*stm{retS(cs...)}}, {k: "assign", targets: []string{"l0"}, rhs: []*cnd{{k: "T"}}}}
}

// assignment with distinct targets (locals other than the loop flag l0, globals) and condition-tree right-hand sides
func genAssign(r *Rng, top int, maxDepth int) *stm { return genAssignX(r, top, maxDepth, 0) }

func genAssignX(r *Rng, top int, maxDepth int, ar int) *stm {
	var pool []string
	for i := 1; i < top; i++ {
		pool = append(pool, "l"+strconv.Itoa(i))
	}
	for i := 0; i < nAtoms; i++ {
		pool = append(pool, "g"+strconv.Itoa(i))
	}
	k := r.Range(1, 3)
	var tg []string
	for i := 0; i < k && len(pool) > 0; i++ {
		j := r.Intn(len(pool))
		// locals are preferred
		if r.Chance(60) && top > 1 {
			j = r.Intn(top - 1)
			if j >= len(pool) {
				j = len(pool) - 1
			}
		}
		tg = append(tg, pool[j])
		pool = append(pool[:j], pool[j+1:]...)
	}
	m := len(tg)
	switch c := r.Intn(10); {
	case c < 2 && m > 1:
		m--
	case c < 4:
		m++
	}
	var rhs []*cnd
	for i := 0; i < m; i++ {
		d := 1
		if r.Chance(35) || (ar > 0 && r.Chance(40)) {
			d = r.Range(2, maxDepth)
		}
		rhs = append(rhs, genCondX(r, d, top, ar))
	}
	return &stm{k: "assign", targets: tg, rhs: rhs}
}

// every assignment shape  t1..tk = r1..rm  (targets: distinct among l0 l1 l2 g0; rhs among l0 l1 l2 1 nil)
func enumAssignShapes(maxK, maxM int) []*mprog {
	tgAll := []string{"l0", "l1", "l2", "g0"}
	rhsAll := []*cnd{loc(0), loc(1), loc(2), num(7), {k: "N"}}
	var tsets [][]string
	var rec func(cur []string)
	rec = func(cur []string) {
		if len(cur) > 0 {
			tsets = append(tsets, append([]string{}, cur...))
		}
		if len(cur) == maxK {
			return
		}
		for _, t := range tgAll {
			dup := false
			for _, c := range cur {
				if c == t {
					dup = true
				}
			}
			if !dup {
				rec(append(cur, t))
			}
		}
	}
	rec(nil)
	var rsets [][]*cnd
	var rec2 func(cur []*cnd)
	rec2 = func(cur []*cnd) {
		if len(cur) > 0 {
			rsets = append(rsets, append([]*cnd{}, cur...))
		}
		if len(cur) == maxM {
			return
		}
		for _, e := range rhsAll {
			rec2(append(cur, e))
		}
	}
	rec2(nil)
	var res []*mprog
	for _, ts := range tsets {
		for _, rs := range rsets {
			res = append(res, &mprog{nlocals: 3, body: []*stm{
				{k: "assign", targets: ts, rhs: rs},
				retS(loc(0), loc(1), loc(2), glob(0)),
			}})
		}
	}
	return res
}

// ---- fold generator ----

var foldLiterals = []string{"0", "1", "2", "3", "5", "7", "10", "0.5", "0.1", "1e308", "1e-308", "5e-324", "1.7976931348623157e308",
	"9007199254740993", "4294967296", "2147483648", "0x10", "0xff", "1e15", "123456789.125", "3.0", "100", "1e400", "0.3", "2.5"}

func genArith(r *Rng, depth int, n int) *arith {
	if depth <= 1 || r.Chance(20) {
		return &arith{k: "v", i: r.Intn(n)}
	}
	switch c := r.Intn(100); {
	case c < 18:
		return &arith{k: "neg", a: genArith(r, depth-1, n)}
	default:
		op := Pick(r, []string{"add", "sub", "mul", "div", "mod", "mod", "mod", "pow"})
		return &arith{k: op, a: genArith(r, depth-1, n), b: genArith(r, depth-1, n)}
	}
}

func foldOp(lits []string, t *arith) Op {
	a := []string{"fold", strconv.Itoa(len(lits))}
	a = append(a, lits...)
	t.toks(&a)
	return Op{Args: a}
}

func fixedFoldCases() []Op {
	v := func(i int) *arith { return &arith{k: "v", i: i} }
	neg := func(a *arith) *arith { return &arith{k: "neg", a: a} }
	bin := func(k string, a, b *arith) *arith { return &arith{k: k, a: a, b: b} }
	return []Op{
		foldOp([]string{"5", "3"}, bin("mod", neg(v(0)), v(1))),                      // -5 % 3
		foldOp([]string{"5", "3"}, bin("mod", v(0), neg(v(1)))),                      // 5 % -3
		foldOp([]string{"5", "3"}, bin("mod", neg(v(0)), neg(v(1)))),                 // -5 % -3
		foldOp([]string{"5", "0"}, bin("mod", v(0), v(1))),                           // x % 0
		foldOp([]string{"5", "0"}, bin("mod", neg(v(0)), v(1))),                      // -x % 0
		foldOp([]string{"0", "0"}, bin("div", v(0), v(1))),                           // 0/0
		foldOp([]string{"1", "0"}, bin("div", v(0), v(1))),                           // 1/0
		foldOp([]string{"1", "0"}, bin("div", neg(v(0)), v(1))),                      // -1/0
		foldOp([]string{"2", "0.5"}, bin("pow", v(0), v(1))),                         // 2^0.5
		foldOp([]string{"2", "0.5"}, bin("pow", neg(v(0)), v(1))),                    // (-2)^0.5
		foldOp([]string{"0"}, neg(v(0))),                                             // -0
		foldOp([]string{"0", "1"}, bin("div", v(1), neg(v(0)))),                      // 1/-0
		foldOp([]string{"3"}, neg(neg(neg(v(0))))),                                   // - - - 3
		foldOp([]string{"1e308", "10"}, bin("mul", v(0), v(1))),                      // overflow
		foldOp([]string{"5e-324", "2"}, bin("div", v(0), v(1))),                      // underflow
		foldOp([]string{"1e308", "1e308"}, bin("mod", bin("mul", v(0), v(1)), v(1))), // inf % x
		foldOp([]string{"5.5", "1e400"}, bin("mod", v(0), v(1))),                     // x % inf (1e400 literal)
		foldOp([]string{"5.5", "1e400"}, bin("mod", neg(v(0)), v(1))),                // -x % inf
		foldOp([]string{"0.1", "0.2", "0.3"}, bin("sub", bin("add", v(0), v(1)), v(2))),
		foldOp([]string{"9007199254740993", "1"}, bin("add", v(0), v(1))),
		foldOp([]string{"0x10", "3"}, bin("mod", v(0), v(1))),
		foldOp([]string{"2", "3", "2"}, bin("pow", v(0), bin("pow", v(1), v(2)))),
	}
}

// ---------- runner ----------

func init() {
	props["C01M"] = runC01M
	replayExec["C01M"] = c01execMech
}

func mechSkeleton(ops []Op) string {
	// operator/context skeleton of the first op, values erased
	var sb strings.Builder
	for _, t := range ops[len(ops)-1].Args {
		switch {
		case t == "":
		case t[0] == 'l' && t != "local" && t != "lt" && t != "le", t[0] == 'g' && t != "gt" && t != "ge", t[0] == 'n' && t != "not" && t != "ne":
			sb.WriteByte(t[0])
		default:
			sb.WriteString(t)
		}
		sb.WriteByte(' ')
	}
	return sb.String()
}

func runC01M(run *Run) {
	if bad := c01LineIndependence(); len(bad) > 0 {
		for i, b := range bad {
			if i >= 5 {
				break
			}
			line := "X fault-line-depends-on-the-left-neighbour => " + strings.ReplaceAll(strings.ReplaceAll(b, "\n", "\\n"), " ", "_")
			run.Failures = append(run.Failures, Failure{CaseIdx: -9100 - i, Kind: "CRASH", Line: line, Reply: line, Lines: []string{line}})
		}
		run.Extra["fault_line_groups_in_disagreement"] = len(bad)
	}
	thorough := run.Tier == "thorough"
	run.Rule = "TESTS (labelled): (a) bytecode equality real compiler vs Lean compile model, word for word incl. constants and NumUsedRegisters: " +
		"[extended fragment] arithmetic + - * / % ^, unary minus, #, .. chains, relational operators over arbitrary operands, all mixed with and/or/not: " +
		"bounded-exhaustive (22 operand classes)^2 x {+,-,*,/,%,..,<,==,>=} + ^{0..3}, unary x2, chains of 3/4 concatenations and mixed-precedence shapes, each x 12 contexts; " +
		"random programs / deep expressions over the full expression language; constant-pool windows around the RK limit (254..258 constants); " +
		"[original fragment] " +
		"bounded-exhaustive condition trees (depth<=2 over a rich alphabet incl. relational operators, depth<=3 over {l0,g0,true,nil,1} x {not,and,or}) x 12 contexts " +
		"(if/else, if, while, repeat, local x=, existing local = (also operand), global =, return, last/first of a multiple assignment, operand of not/==, loop with nested ifs); " +
		"every assignment shape k,m<=3(4) over {l0,l1,l2,g0} x {l0,l1,l2,7,nil}; random nested programs (depth<=3, conditions depth<=5); " +
		"(a') each compiled chunk run on the real VM under random valuations vs MiniVM on the model's code (exact) and vs the manual's semantics; " +
		"(b) fold-vs-runtime Impl vs Impl, bit-identical: fixed boundary cases + random arithmetic trees over literal pools, operands as literals vs locals/globals/fields/upvalues/mixed. " +
		"quick samples the exhaustive families with the seed; thorough runs them completely. distinct = distinct value-erased program skeletons"
	run.Assume = []string{
		"model = /repo HEAD + fixes/C01-extra-rhs-after-direct-store.diff + fixes/C01-jump-threading-patched-target.diff",
		"numerals in generated programs are small non-negative integers; folded constants may be negative, fractional, -0, inf or NaN",
		"the exponent of ^ is always one of the numerals 0..3 (the engine transcribes Go's math.Pow for those; libm pow otherwise)",
		"runs that convert a non-integral / >= 2^53 / non-finite number to a string, or a string longer than 15 bytes to a number, are executed but not compared (number<->text conversion belongs to C16; detected with an instrumented twin of the program, counted in the histogram)",
		"atoms are plain globals without metatables (one GETGLOBAL, no side effect); comparison errors are compared as a class",
		"register numbers < 256 in all generated programs; constant indices above 255 ARE generated (k-window family)",
	}
	run.Trusted = append(run.Trusted, "Go parser (parse.Parse) as the producer of the AST that the modelled compiler functions consume",
		"IEEE-754 hardware arithmetic and Go math.Mod/math.Pow (fold-vs-runtime compares two uses of the same functions); the engine's number structure: hardware + - * /, exact fmod, Go's Pow loop for exponents 0..3, strtod for string->number")
	root := NewRng(uint64(run.Seed))
	var cases []Case
	idx := 0
	add := func(ops []Op, note string) {
		cases = append(cases, Case{Idx: idx, Ops: ops, Note: note})
		idx++
	}
	for i, c := range loadCorpus("C01M") {
		cases = append(cases, Case{Idx: -1 - i, Ops: c, Note: "corpus"})
	}
	hist := map[string]int{}
	// (1) exhaustive condition trees x contexts
	rich := enumTrees(2, leafAlphabet(true, 3), true)
	deep := enumTrees(3, leafAlphabet(false, 3), false)
	keepRich, keepDeep := 40, 6 // percent kept in quick
	if thorough {
		keepRich, keepDeep = 100, 100
	}
	for ti, t := range rich {
		for ctx := 0; ctx < nCtx; ctx++ {
			r := root.Fork(uint64(1_000_000 + ti*nCtx + ctx))
			if !r.Chance(keepRich) {
				continue
			}
			add(mechCase(r, inContext(ctx, t), 3), "enum-rich")
			hist["ctx"+strconv.Itoa(ctx)]++
		}
	}
	for ti, t := range deep {
		for ctx := 0; ctx < nCtx; ctx++ {
			r := root.Fork(uint64(5_000_000 + ti*nCtx + ctx))
			if !r.Chance(keepDeep) {
				continue
			}
			add(mechCase(r, inContext(ctx, t), 3), "enum-deep")
			hist["ctx"+strconv.Itoa(ctx)]++
		}
	}
	// (2) assignment shapes
	maxM := 3
	if thorough {
		maxM = 4
	}
	shapes := enumAssignShapes(3, maxM)
	keepShape := 35
	if thorough {
		keepShape = 100
	}
	for si, p := range shapes {
		r := root.Fork(uint64(20_000_000 + si))
		if !r.Chance(keepShape) {
			continue
		}
		add(mechCase(r, p, 2), "assign-shape")
		hist["assign-shape"]++
	}
	// (3) random programs
	nRand := 2500
	if thorough {
		nRand = 25000
	}
	for i := 0; i < nRand; i++ {
		r := root.Fork(uint64(30_000_000 + i))
		nl := r.Range(1, 4)
		p := &mprog{nlocals: nl, body: genBlock(r, r.Range(1, 3), nl, r.Range(1, 4), true)}
		add(mechCase(r, p, 4), "random-program")
		hist["random-program"]++
	}
	// (4) random deep conditions in contexts
	nDeep := 2000
	if thorough {
		nDeep = 20000
	}
	for i := 0; i < nDeep; i++ {
		r := root.Fork(uint64(40_000_000 + i))
		add(mechCase(r, inContext(r.Intn(nCtx), genCond(r, r.Range(3, 6), 3)), 3), "random-deep-condition")
		hist["random-deep-condition"]++
	}
	// (6) arithmetic, unary minus, length, concatenation: bounded-exhaustive operand classes x contexts
	bin, un, chains := enumArithTrees()
	keepBin, keepUn, keepChain := 7, 100, 12
	if thorough {
		keepBin, keepUn, keepChain = 100, 100, 100
	}
	for fi, fam := range []struct {
		name  string
		trees []*cnd
		keep  int
	}{{"enum-arith-binary", bin, keepBin}, {"enum-arith-unary", un, keepUn}, {"enum-arith-chains", chains, keepChain}} {
		for ti, t := range fam.trees {
			for ctx := 0; ctx < nCtx; ctx++ {
				r := root.Fork(uint64(60_000_000 + fi*10_000_000 + ti*nCtx + ctx))
				if !r.Chance(fam.keep) {
					continue
				}
				add(mechCaseX(r, inContext(ctx, t), 3), fam.name)
				hist[fam.name]++
			}
		}
	}
	// (7) random programs / deep expressions of the full expression language
	nRandA, nDeepA := 2500, 2500
	if thorough {
		nRandA, nDeepA = 25000, 25000
	}
	for i := 0; i < nRandA; i++ {
		r := root.Fork(uint64(100_000_000 + i))
		nl := r.Range(1, 4)
		p := &mprog{nlocals: nl, body: genBlockX(r, r.Range(1, 3), nl, r.Range(1, 4), true, 45)}
		add(mechCaseX(r, p, 4), "random-arith-program")
		hist["random-arith-program"]++
	}
	for i := 0; i < nDeepA; i++ {
		r := root.Fork(uint64(110_000_000 + i))
		add(mechCaseX(r, inContext(r.Intn(nCtx), genCondX(r, r.Range(3, 6), 3, 55)), 3), "random-arith-expression")
		hist["random-arith-expression"]++
	}
	// (8) constant-pool windows around the RK limit
	for _, n := range []int{3, 250, 251, 252, 253, 254, 255, 256, 257, 258, 300} {
		r := root.Fork(uint64(120_000_000 + n))
		add(mechCaseX(r, kWindowProg(n), 2), "k-window")
		hist["k-window"]++
	}
	// (5) fold vs run time
	for _, op := range fixedFoldCases() {
		add([]Op{op}, "fold-fixed")
		hist["fold-fixed"]++
	}
	nFold := 2500
	if thorough {
		nFold = 20000
	}
	for i := 0; i < nFold; i++ {
		r := root.Fork(uint64(50_000_000 + i))
		n := r.Range(1, 4)
		lits := make([]string, n)
		for j := range lits {
			lits[j] = Pick(r, foldLiterals)
		}
		add([]Op{foldOp(lits, genArith(r, r.Range(2, 5), n))}, "fold-random")
		hist["fold-random"]++
	}
	runCases(run, cases, c01execMech, classifyNone)
	// distinct skeletons (runCases counted op-name skeletons; replace by program skeletons)
	run.Distinct = map[string]bool{}
	for _, c := range cases {
		run.Distinct[mechSkeleton(c.Ops)] = true
	}
	for k, v := range hist {
		run.Hist["family:"+k] = v
	}
	run.Hist["runs-not-compared(unsafe number<->string conversion)"] = int(atomic.LoadInt64(&mechSkippedConv))
	run.Extra["families"] = hist
}
