package main

// C01 — bounded-exhaustive program shapes that run completely on EVERY check (progSpec.Must of C01), judged like all
// generated programs by the Lean reference semantics (engine S):
//
//   EnumCtorFlushShapes    table constructors whose number of positional items sweeps the SETLIST flush boundary
//                          (FieldsPerFlush = 50) × every kind of last item (single value, calls returning 0/1/2/3
//                          values, `...` with 3/0/1 values, method call, parenthesised call / `...`, open expression
//                          followed by another field) × interleaved keyed fields (named, explicit integer keys,
//                          keyed field directly before the open tail / as last field)
//   EnumCoerceBlankShapes  string → number coercion (arithmetic, unary minus, tonumber; comparison, indexing and
//                          concatenation as controls that never coerce; numeric for) on a numeral with every single
//                          byte 0..255 before / behind / around / inside it, with the UTF-8 encodings of every
//                          Unicode White_Space code point and some look-alikes, lone continuation bytes, embedded
//                          NUL, and the six blanks of C's isspace in the "C" locale (the only bytes that may surround
//                          a numeral); caught by pcall (values) and uncaught (failure line)
//
// Nothing here is random; the programs are small for the Lean driver (items are their own index, elements are
// observed through one digest string per table).

import (
	"fmt"
	"os"
	"strings"
)

// ctorItems renders the positional items 1..n (value = index).  With keyed=true a named field `a<i> = -i` follows
// every 25th positional item (so one sits directly behind the item that fills a batch, and — for n a multiple of 25 —
// directly before whatever follows the items).
func ctorItems(n int, keyed bool) string {
	var sb strings.Builder
	for i := 1; i <= n; i++ {
		if i > 1 {
			sb.WriteString(", ")
		}
		fmt.Fprintf(&sb, "%d", i)
		if keyed && i%25 == 0 {
			fmt.Fprintf(&sb, ", a%d = %d", i, -i)
		}
	}
	return sb.String()
}

// ctorJoin puts the tail behind the items (either may be empty).
func ctorJoin(items, tail string) string {
	switch {
	case items == "":
		return "{" + tail + "}"
	case tail == "":
		return "{" + items + "}"
	}
	return "{" + items + ", " + tail + "}"
}

type ctorTail struct {
	name  string
	tail  string // text behind the positional items
	probe string // the same multi-value expression again, handed to select('#', …) by the observer ("" = none)
	keyed bool   // items interleaved with named fields
	local bool   // constructor assigned to a local first (otherwise it is a call argument: other base register)
	args  bool   // only when `...` is not empty (an empty `...` cut to one value would store a nil below "w": `#t` open)
}

var ctorTailGroups = map[string][]ctorTail{
	// the last item is an open (multi-value) expression
	"open": {
		{name: "call3", tail: "f3()", probe: "f3()", local: true},
		{name: "call0", tail: "f0()", probe: "f0()"},
		{name: "call1", tail: "f1()", probe: "f1()", local: true},
		{name: "dots", tail: "...", probe: "..."},
		{name: "dots-local", tail: "...", probe: "...", local: true},
		{name: "method2", tail: "o:m()", probe: "o:m()"},
		{name: "call-of-dots", tail: "hostid(...)", probe: "hostid(...)"},
		{name: "call-of-call", tail: "hostid(\"h\", f3())", probe: "hostid(\"h\", f3())", local: true},
	},
	// the last item delivers exactly one value, or there is none
	"closed": {
		{name: "none", tail: ""},
		{name: "single", tail: "\"w\"", local: true},
		{name: "parcall", tail: "(f3())", probe: "(f3())"},
		{name: "pardots", tail: "(...)", probe: "(...)", local: true},
		{name: "call-then-item", tail: "f3(), \"w\"", probe: "f3()"},
		{name: "dots-then-item", tail: "..., \"w\"", probe: "...", local: true, args: true},
		{name: "call-then-named", tail: "f3(), k = \"K\"", probe: "f3()"},
		{name: "dots-then-named", tail: "..., k = \"K\"", probe: "...", local: true},
		{name: "and-or", tail: "f0() or \"w\"", local: true},
	},
	// keyed fields between the positional items and next to the tail
	"keyed": {
		{name: "kv-none", tail: "", keyed: true, local: true},
		{name: "kv-single", tail: "\"w\"", keyed: true},
		{name: "kv-call3", tail: "f3()", probe: "f3()", keyed: true},
		{name: "kv-dots", tail: "...", probe: "...", keyed: true, local: true},
		{name: "named-then-call3", tail: "k = \"K\", f3()", probe: "f3()", local: true},
		{name: "named-then-dots", tail: "k = \"K\", ...", probe: "..."},
		{name: "last-named-call3", tail: "k = f3()", probe: "f3()"},
		{name: "last-named-dots", tail: "k = ...", probe: "...", local: true},
		{name: "index-then-dots", tail: "[\"k\"] = f1(), [-1] = \"neg\", ...", probe: "..."},
	},
}

var ctorGroupNames = []string{"open", "closed", "keyed"}

// EnumCtorFlushShapes: one program per (number of positional items n, group of tails).  Every constructor of the
// program has the SAME n positional items 1..n followed by one tail of the group; it is built three times — in a
// vararg function called with three, zero and one argument (n > 250: three only) — and observed completely: `#t`, select('#', …) of the
// tail expression, a digest of t[1..n+5] (so every element on both sides of every flush boundary and behind the
// last item), and the named fields.  No nil is ever stored below another element, so `#t` is determined.
func EnumCtorFlushShapes(thorough bool) []*Program {
	sizes := []int{0, 1, 2, 49, 50, 51, 99, 100, 101, 149, 150, 151, 200, 250}
	if thorough {
		sizes = append(sizes, 3, 24, 25, 26, 48, 52, 75, 98, 102, 125, 148, 152, 199, 201, 249, 251, 299, 300, 301, 400, 500, 550)
	}
	var out []*Program
	for _, n := range sizes {
		for _, gname := range ctorGroupNames {
			var sb strings.Builder
			fmt.Fprintf(&sb, "local N = %d\n", n)
			sb.WriteString("local function f0() end\nlocal function f1() return \"p\" end\nlocal function f3() return \"x\", \"y\", \"z\" end\n")
			sb.WriteString("local o = {m = function(self) return \"u\", \"v\" end}\n")
			sb.WriteString("local function dig(tag, t, ...)\n local s = \"\"\n for i = 1, N + 5 do s = s .. tostring(t[i]) .. \",\" end\n")
			sb.WriteString(" emit(tag, #t, select('#', ...), s)\n emit(t.k, t[-1], t.a25, t.a50, t.a100, t.a150, t.a200, t.a250)\nend\n")
			sb.WriteString("local function g(...)\n")
			for _, tl := range ctorTailGroups[gname] {
				ctor := ctorJoin(ctorItems(n, tl.keyed), tl.tail)
				probe := ""
				if tl.probe != "" {
					probe = ", " + tl.probe
				}
				switch {
				case tl.args:
					fmt.Fprintf(&sb, " if select('#', ...) > 0 then\n local pad, t = 0, %s\n dig(%q, t%s)\n end\n", ctor, tl.name, probe)
				case tl.local:
					fmt.Fprintf(&sb, " do\n local pad, t = 0, %s\n dig(%q, t%s)\n end\n", ctor, tl.name, probe)
				default:
					fmt.Fprintf(&sb, " dig(%q, %s%s)\n", tl.name, ctor, probe)
				}
			}
			sb.WriteString("end\ng(\"x\", \"y\", \"z\")\n")
			if n <= 250 { // beyond that the three passes would not fit the step budget of the reference run
				sb.WriteString("g()\ng(\"q\")\n")
			}
			sb.WriteString("return N")
			out = append(out, shapeProgram(sb.String(), "shape:ctor-flush", "ctor-tails:"+gname, fmt.Sprintf("ctor-items:%d", n)))
		}
		// explicit integer keys beside the positional items (distinct from every positional index, so that the
		// unspecified order of the assignments does not matter): behind them, before them, on both sides
		if n > 0 {
			var sb strings.Builder
			fmt.Fprintf(&sb, "local N = %d\n", n)
			sb.WriteString("local function f3() return \"x\", \"y\", \"z\" end\n")
			sb.WriteString("local function dig(tag, t)\n local s = \"\"\n for i = 1, N + 8 do s = s .. tostring(t[i]) .. \",\" end\n emit(tag, #t, s, t[0])\nend\n")
			items := ctorItems(n, false)
			fmt.Fprintf(&sb, "dig(\"index-after\", {%s, [%d] = \"I1\", [%d] = \"I2\"})\n", items, n+1, n+2)
			fmt.Fprintf(&sb, "dig(\"index-before\", {[%d] = \"I1\", [0] = \"Z\", %s})\n", n+1, items)
			fmt.Fprintf(&sb, "dig(\"index-around-call\", {[%d] = \"I4\", %s, f3()})\n", n+4, items)
			fmt.Fprintf(&sb, "dig(\"index-computed\", {[N + 1] = \"I1\", %s, [N + 2] = f3()})\n", items)
			sb.WriteString("return N")
			out = append(out, shapeProgram(sb.String(), "shape:ctor-flush", "ctor-tails:index", fmt.Sprintf("ctor-items:%d", n)))
		}
	}
	return out
}

// ---------- string → number coercion on strings with bytes around the numeral ----------

type coerceOp struct {
	name string
	body string // body of `function(s) … end`
}

// operations that coerce a string operand (arithmetic, unary minus, tonumber) and operations that must NOT
// (equality, order, indexing; concatenation converts numbers to strings only)
var coerceOps = []coerceOp{
	{"add", "return s + 1"},
	{"radd", "return 1 + s"},
	{"sub", "return s - 1"},
	{"mul", "return 2 * s"},
	{"div", "return s / 2"},
	{"mod", "return s % 7"},
	{"pow", "local p = s ^ 2 if p % 1 == 0 then return p end return \"fraction\""},
	{"unm", "return -s"},
	{"self", "return s * s"},
	{"upval", "local function h() return s + 0 end return h()"},
	{"field", "local t = {v = s} t.v = t.v + 1 return t.v"},
	{"tonumber", "return tonumber(s)"},
	{"eq", "return s == 10 or 10 == s or s ~= s"},
	{"lt", "return s < 11"},
	{"le", "return 9 <= s"},
	{"index", "local t = {[10] = \"ten\", [31] = \"hex\", [2.5] = \"frac\"} return t[s]"},
	{"concat", "return (s .. 1) == (s .. \"1\") and #(1 .. s) == #s + 1"},
}

// for loops accept numbers only after tonumber (manual §2.4.5); the reference semantics leaves a numeric for over
// strings that ARE numerals unspecified, so these run on strings that cannot be numerals
var coerceForOps = []coerceOp{
	{"for-init", "for i = s, 12 do return i end return \"none\""},
	{"for-limit", "local c = 0 for i = 9, s do c = c + 1 end return c"},
	{"for-step", "local c = 0 for i = 1, 30, s do c = c + 1 end return c"},
}

// the UTF-8 encodings of every Unicode White_Space code point above U+007F (the set Go's unicode.IsSpace /
// strings.TrimSpace / strings.Fields use), look-alikes that are not White_Space, lone bytes of such encodings
// (0x85 and 0xA0 are NEL and NBSP in Latin-1), NUL, and the six blanks of the "C" locale alone and mixed
var coerceNonBlank = []string{
	`\194\133`, `\194\160`, `\225\154\128`,
	`\226\128\128`, `\226\128\129`, `\226\128\130`, `\226\128\131`, `\226\128\132`, `\226\128\133`, `\226\128\134`,
	`\226\128\135`, `\226\128\136`, `\226\128\137`, `\226\128\138`,
	`\226\128\168`, `\226\128\169`, `\226\128\175`, `\226\129\159`, `\227\128\128`,
	`\226\128\139`, `\226\128\140`, `\226\129\160`, `\239\187\191`, `\225\160\142`, `\194\173`, `\239\191\189`,
	`\133`, `\160`, `\194`, `\226\128`, `\128`, `\255`, `\000`, `\000\000`, `\127`, `\028`, `\031`, `\008`, `\014`,
	` \194\160`, `\194\160 `, `\t\000`, `\000 `, `\194\160\n\227\128\128`,
}

// the six blanks themselves, alone and mixed, and the empty affix: a numeral stays a numeral
var coerceBlank = []string{` `, `\t`, `\n`, `\011`, `\012`, `\r`, ` \t\n\011\012\r`, `\r\n`, `  `, ``}

func luaStrTable(name string, lits []string) string {
	var q []string
	for _, a := range lits {
		q = append(q, "\""+a+"\"")
	}
	return "local " + name + " = {" + strings.Join(q, ", ") + "}\n"
}

func coercePrelude() string {
	return "local function r(f, s)\n local ok, v = pcall(f, s)\n if ok then return v end\n return \"error\"\nend\n"
}

// EnumCoerceBlankShapes: see the head of the file.
func EnumCoerceBlankShapes(thorough bool) []*Program {
	var out []*Program
	numerals := []string{"10", "0x1F", "2.5"}
	opsFor := func(ni int) []coerceOp {
		if ni > 0 && !thorough {
			return []coerceOp{coerceOps[0], coerceOps[7], coerceOps[11]} // add, unm, tonumber
		}
		return coerceOps
	}
	// (1) every single byte before / behind / around / inside the numeral, one program per operation
	for ni, num := range numerals {
		mid := len(num) / 2
		for _, op := range opsFor(ni) {
			src := coercePrelude() + "local function op(s) " + op.body + " end\n" +
				"for b = 0, 255 do\n local c = string.char(b)\n" +
				fmt.Sprintf(" emit(b, r(op, c .. %q), r(op, %q .. c), r(op, c .. %q .. c), r(op, %q .. c .. %q))\nend\n", num, num, num, num[:mid], num[mid:]) +
				"return \"done\""
			out = append(out, shapeProgram(src, "shape:coerce-byte-sweep", "coerce-op:"+op.name, "coerce-numeral:"+num))
		}
	}
	// (2) multi-byte affixes (literal strings: the bytes sit in the constant pool), alone and next to real blanks
	tables := luaStrTable("NB", coerceNonBlank) + luaStrTable("BL", coerceBlank)
	for ni, num := range numerals {
		for _, op := range opsFor(ni) {
			src := coercePrelude() + tables + "local function op(s) " + op.body + " end\n" +
				"for k, A in ipairs({NB, BL}) do\n for i = 1, #A do\n local a = A[i]\n" +
				fmt.Sprintf(" emit(k, i, r(op, a .. %q), r(op, %q .. a), r(op, a .. %q .. a), r(op, \" \" .. a .. %q), r(op, %q .. a .. \" \"), r(op, a .. \" %s\"), r(op, \"%s\\n\" .. a))\n end\nend\n", num, num, num, num, num, num, num) +
				"return \"done\""
			out = append(out, shapeProgram(src, "shape:coerce-affix", "coerce-op:"+op.name, "coerce-numeral:"+num))
		}
	}
	// (3) numeric for: only strings that cannot be numerals (a byte that is neither a blank nor part of any numeral)
	for _, op := range coerceForOps {
		src := coercePrelude() + luaStrTable("NB", coerceNonBlank) + "local function op(s) " + op.body + " end\n" +
			"for b = 0, 255 do\n if b < 9 or (b > 13 and b < 32) or b > 126 then\n local c = string.char(b)\n" +
			" emit(b, r(op, c .. \"10\"), r(op, \"10\" .. c), r(op, \" \" .. c .. \"10 \"))\n end\nend\n" +
			"for i = 1, #NB do\n local a = NB[i]\n emit(i, r(op, a .. \"10\"), r(op, \"10\" .. a), r(op, \" 10 \" .. a))\nend\n" +
			"emit(r(op, 10), r(op, \"ten\"))\nreturn \"done\""
		out = append(out, shapeProgram(src, "shape:coerce-for", "coerce-op:"+op.name))
	}
	// (4) uncaught: the statement either delivers the value or fails on ITS line
	stmts := []string{
		"local v = S + 1", "local v = -S", "local v = 2 ^ S", "local v = S % 4", "v = S * S", "local v = tonumber(S)",
		"local v = T.s / 1", "local v = (function() return S - 0 end)()", "for i = S, 1 do end", "for i = 1, 2, S do end",
	}
	strs := []struct {
		lit     string
		numeral bool
	}{
		{`10\194\160`, false}, {`\194\16010`, false}, {`\227\128\12810`, false}, {`10\226\128\131`, false},
		{`\194\13310\194\133`, false}, {`10\226\128\168`, false}, {`10\011`, true}, {`\01210\r`, true},
		{`\16010`, false}, {`10\000`, false}, {`\00010`, false}, {`1\0000`, false}, {` 10\t`, true},
		{`0x1F\194\160`, false}, {`\n0x1F `, true}, {`10 \226\128\175`, false},
	}
	for si, s := range strs {
		for ti, st := range stmts {
			if !thorough && si >= 8 && (si+ti)%2 == 1 {
				continue // quick: every statement for the first eight strings, every other one for the rest
			}
			if s.numeral && strings.HasPrefix(st, "for ") {
				continue // numeric for over a string that is a numeral: left unspecified by the reference semantics
			}
			src := "local v\nlocal S = \"" + s.lit + "\"\nlocal T = {s = S}\nemit(\"before\", #S)\n" + st + "\nemit(\"after\", v)\nreturn \"done\""
			out = append(out, shapeProgram(src, "shape:coerce-uncaught", fmt.Sprintf("coerce-stmt:%d", ti), fmt.Sprintf("coerce-str:%d", si)))
		}
	}
	return out
}

// `glcheck -prop C01SHAPES` runs only the two families above (development / replay aid; not a registered property).
func init() {
	props["C01SHAPES"] = func(run *Run) {
		if dir := os.Getenv("C01SHAPES_DUMP"); dir != "" { // write the programs out (then: glcheck -luasem <file>)
			for i, p := range append(EnumCtorFlushShapes(run.Tier == "thorough"), EnumCoerceBlankShapes(run.Tier == "thorough")...) {
				os.WriteFile(fmt.Sprintf("%s/%03d.lua", dir, i), []byte(p.Src), 0o644)
			}
			os.Exit(0)
		}
		runProgProperty(run, progSpec{Prop: "C01SHAPES", Profiles: []string{"core"}, FaultPct: -1,
			Must: func(th bool) []*Program { return append(EnumCtorFlushShapes(th), EnumCoerceBlankShapes(th)...) },
			Rule: "C01 constructor flush-boundary shapes + coercion blank shapes only"})
	}
}
