package main

// C02M, request kind `cc` — the COMPILE-TIME half of C02: call shapes of the small producer language of
// lean/GLua/Spec/CallShapes.lean (atoms, calls, method calls, `...`, parenthesised forms, table constructors,
// in argument lists / return lists / local declarations / multiple assignments / call statements) are rendered
// as Lua, compiled by the REAL compiler (parse.Parse + lua.Compile), and the resulting FunctionProto — every code
// word, the constant pool, NumUsedRegisters, IsVarArg — is sent to the Lean engine, which compiles the same shape
// with Model.CallCompile and compares word for word (MODEL verdict), then runs its own code on the machine of
// Model/CallCompile against the Spec evaluation of the shape (SPEC verdict).
//
//   op:  cc <nvarargs> <nstmts> <stmt>*           (token grammar: see lean/GLua/Engines/CallCompileEng.lean)

import (
	"encoding/hex"
	"fmt"
	"os"
	"strconv"
	"strings"

	lua "github.com/yuin/gopher-lua"
	"github.com/yuin/gopher-lua/parse"
)

type ccEx struct {
	kind  string // atom | call | mcall | dots | tbl
	tok   string // atom token
	paren bool
	fn    *ccEx // call: function, mcall: receiver
	meth  string
	args  []*ccEx
	keys  []string // tbl: "-" | kn<int> | ks<hex>
}

type ccStmt struct {
	kind    string // callst | ret | local | assign
	n       int    // local: number of names
	targets []string
	es      []*ccEx
}

func ccB(b bool) string {
	if b {
		return "1"
	}
	return "0"
}

func (e *ccEx) toks(out *[]string) {
	switch e.kind {
	case "atom":
		*out = append(*out, e.tok)
	case "dots":
		*out = append(*out, "dots", ccB(e.paren))
	case "call":
		*out = append(*out, "call", ccB(e.paren), strconv.Itoa(len(e.args)))
		e.fn.toks(out)
		for _, a := range e.args {
			a.toks(out)
		}
	case "mcall":
		*out = append(*out, "mcall", ccB(e.paren), hex.EncodeToString([]byte(e.meth)), strconv.Itoa(len(e.args)))
		e.fn.toks(out)
		for _, a := range e.args {
			a.toks(out)
		}
	case "tbl":
		*out = append(*out, "tbl", strconv.Itoa(len(e.args)))
		for i, a := range e.args {
			*out = append(*out, e.keys[i])
			a.toks(out)
		}
	}
}

func (s *ccStmt) toks(out *[]string) {
	switch s.kind {
	case "callst":
		*out = append(*out, "callst")
		s.es[0].toks(out)
		return
	case "ret":
		*out = append(*out, "ret", strconv.Itoa(len(s.es)))
	case "local":
		*out = append(*out, "local", strconv.Itoa(s.n), strconv.Itoa(len(s.es)))
	case "assign":
		*out = append(*out, "assign", strconv.Itoa(len(s.targets)))
		*out = append(*out, s.targets...)
		*out = append(*out, strconv.Itoa(len(s.es)))
	}
	for _, e := range s.es {
		e.toks(out)
	}
}

func ccProgToks(nva int, prog []*ccStmt) []string {
	out := []string{"cc", strconv.Itoa(nva), strconv.Itoa(len(prog))}
	for _, s := range prog {
		s.toks(&out)
	}
	return out
}

// ---- token parser (for executing an op, also on replay) ----

type ccParser struct {
	t   []string
	pos int
	bad bool
}

func (p *ccParser) next() string {
	if p.pos >= len(p.t) {
		p.bad = true
		return ""
	}
	s := p.t[p.pos]
	p.pos++
	return s
}
func (p *ccParser) num() int {
	n, err := strconv.Atoi(p.next())
	if err != nil || n < 0 || n > 100000 {
		p.bad = true
		return 0
	}
	return n
}
func (p *ccParser) ex(depth int) *ccEx {
	if depth > 400 || p.bad {
		p.bad = true
		return &ccEx{kind: "atom", tok: "nil"}
	}
	t := p.next()
	switch t {
	case "dots":
		return &ccEx{kind: "dots", paren: p.next() == "1"}
	case "call":
		e := &ccEx{kind: "call", paren: p.next() == "1"}
		n := p.num()
		e.fn = p.ex(depth + 1)
		for i := 0; i < n && !p.bad; i++ {
			e.args = append(e.args, p.ex(depth+1))
		}
		return e
	case "mcall":
		e := &ccEx{kind: "mcall", paren: p.next() == "1"}
		b, err := hex.DecodeString(p.next())
		if err != nil {
			p.bad = true
		}
		e.meth = string(b)
		n := p.num()
		e.fn = p.ex(depth + 1)
		for i := 0; i < n && !p.bad; i++ {
			e.args = append(e.args, p.ex(depth+1))
		}
		return e
	case "tbl":
		e := &ccEx{kind: "tbl"}
		n := p.num()
		for i := 0; i < n && !p.bad; i++ {
			e.keys = append(e.keys, p.next())
			e.args = append(e.args, p.ex(depth+1))
		}
		return e
	}
	return &ccEx{kind: "atom", tok: t}
}
func (p *ccParser) stmt() *ccStmt {
	s := &ccStmt{kind: p.next()}
	m := 0
	switch s.kind {
	case "callst":
		m = 1
	case "ret":
		m = p.num()
	case "local":
		s.n = p.num()
		m = p.num()
	case "assign":
		k := p.num()
		for i := 0; i < k && !p.bad; i++ {
			s.targets = append(s.targets, p.next())
		}
		m = p.num()
	default:
		p.bad = true
	}
	for i := 0; i < m && !p.bad; i++ {
		s.es = append(s.es, p.ex(0))
	}
	return s
}

// ---- Lua rendering ----

func ccName(hx string) string {
	b, _ := hex.DecodeString(hx)
	return string(b)
}

func (e *ccEx) isName() bool {
	return e.kind == "atom" && (e.tok[0] == 'l' || e.tok[0] == 'g')
}

func (e *ccEx) src(sb *strings.Builder) {
	switch e.kind {
	case "atom":
		switch e.tok[0] {
		case 'n':
			if e.tok == "nil" {
				sb.WriteString("nil")
			} else {
				sb.WriteString(e.tok[1:])
			}
		case 's':
			sb.WriteString(strconv.Quote(ccName(e.tok[1:])))
		case 'T':
			sb.WriteString("true")
		case 'F':
			sb.WriteString("false")
		case 'l':
			sb.WriteString("L" + e.tok[1:])
		case 'g':
			sb.WriteString(ccName(e.tok[1:]))
		}
	case "dots":
		if e.paren {
			sb.WriteString("(...)")
		} else {
			sb.WriteString("...")
		}
	case "call", "mcall":
		if e.paren {
			sb.WriteString("(")
		}
		// prefix expression: names and unparenthesised calls stand as they are, anything else in parentheses
		if e.fn.isName() || ((e.fn.kind == "call" || e.fn.kind == "mcall") && !e.fn.paren) {
			e.fn.src(sb)
		} else if (e.fn.kind == "call" || e.fn.kind == "mcall" || e.fn.kind == "dots") && e.fn.paren {
			e.fn.src(sb) // already parenthesised
		} else {
			sb.WriteString("(")
			e.fn.src(sb)
			sb.WriteString(")")
		}
		if e.kind == "mcall" {
			sb.WriteString(":" + e.meth)
		}
		sb.WriteString("(")
		for i, a := range e.args {
			if i > 0 {
				sb.WriteString(", ")
			}
			a.src(sb)
		}
		sb.WriteString(")")
		if e.paren {
			sb.WriteString(")")
		}
	case "tbl":
		sb.WriteString("{")
		for i, a := range e.args {
			if i > 0 {
				sb.WriteString(", ")
			}
			k := e.keys[i]
			if strings.HasPrefix(k, "kn") {
				sb.WriteString("[" + k[2:] + "] = ")
			} else if strings.HasPrefix(k, "ks") {
				sb.WriteString(ccName(k[2:]) + " = ")
			}
			a.src(sb)
		}
		sb.WriteString("}")
	}
}

func ccProgSrc(prog []*ccStmt) string {
	var sb strings.Builder
	nloc := 0
	for _, s := range prog {
		switch s.kind {
		case "callst":
		case "ret":
			sb.WriteString("return ")
		case "local":
			sb.WriteString("local ")
			for i := 0; i < s.n; i++ {
				if i > 0 {
					sb.WriteString(", ")
				}
				sb.WriteString("L" + strconv.Itoa(nloc+i))
			}
			nloc += s.n
			if len(s.es) > 0 {
				sb.WriteString(" = ")
			}
		case "assign":
			for i, t := range s.targets {
				if i > 0 {
					sb.WriteString(", ")
				}
				if t[0] == 'l' {
					sb.WriteString("L" + t[1:])
				} else {
					sb.WriteString(ccName(t[1:]))
				}
			}
			sb.WriteString(" = ")
		}
		for i, e := range s.es {
			if i > 0 {
				sb.WriteString(", ")
			}
			e.src(&sb)
		}
		sb.WriteString(";\n")
	}
	return sb.String()
}

// ---- executor: the real compiler ----

func c02ExecCC(ops []Op) []string {
	var out []string
	for _, op := range ops {
		p := &ccParser{t: op.Args, pos: 1}
		p.num() // nvarargs (used by the Lean side only)
		n := p.num()
		var prog []*ccStmt
		for i := 0; i < n && !p.bad; i++ {
			prog = append(prog, p.stmt())
		}
		if p.bad || p.pos != len(op.Args) {
			out = append(out, "X cc-bad-op => "+strings.Join(op.Args, " "))
			continue
		}
		src := ccProgSrc(prog)
		reply := "err"
		func() {
			defer func() {
				if r := recover(); r != nil {
					reply = "PANIC " + strings.ReplaceAll(fmt.Sprint(r), " ", "_")
				}
			}()
			chunk, err := parse.Parse(strings.NewReader(src), "cc")
			if err != nil {
				reply = "PARSE " + strings.ReplaceAll(strings.SplitN(err.Error(), "\n", 2)[0], " ", "_")
				return
			}
			proto, err := lua.Compile(chunk, "cc")
			if err != nil {
				return
			}
			toks := []string{"ok", strconv.Itoa(int(proto.NumUsedRegisters)), strconv.Itoa(int(proto.IsVarArg)),
				strconv.Itoa(len(proto.Constants))}
			for _, k := range proto.Constants {
				toks = append(toks, encVal(k, nil))
			}
			toks = append(toks, strconv.Itoa(len(proto.Code)))
			for _, w := range proto.Code {
				toks = append(toks, strconv.FormatUint(uint64(w), 10))
			}
			reply = strings.Join(toks, " ")
		}()
		if strings.HasPrefix(reply, "PARSE") || strings.HasPrefix(reply, "PANIC") {
			out = append(out, "X cc-"+reply+" => "+strings.ReplaceAll(src, "\n", " "))
			continue
		}
		c02Count("cc")
		if reply == "err" {
			c02Count("cc-compile-error")
		}
		if os.Getenv("C02M_CCDUMP") != "" { // development aid
			fmt.Println("-- " + strings.ReplaceAll(src, "\n", " ") + "\n   " + op.String() + " => " + reply)
		}
		out = append(out, "C02M "+op.String()+" => "+reply)
	}
	return out
}

// ---- generators ----

func ccAtom(tok string) *ccEx { return &ccEx{kind: "atom", tok: tok} }
func ccGlob(name string) *ccEx {
	return ccAtom("g" + hex.EncodeToString([]byte(name)))
}
func ccCall(paren bool, fn *ccEx, args ...*ccEx) *ccEx {
	return &ccEx{kind: "call", paren: paren, fn: fn, args: args}
}
func ccMCall(paren bool, recv *ccEx, meth string, args ...*ccEx) *ccEx {
	return &ccEx{kind: "mcall", paren: paren, fn: recv, meth: meth, args: args}
}

type ccGen struct {
	r    *Rng
	nloc int
	big  bool // constants beyond the RK range are around: prefer fresh constants
	kctr int
}

var ccFuncs = []string{"f0", "f1", "f2", "f3", "f4", "f5", "f0x", "h"}

func (g *ccGen) atom() *ccEx {
	switch g.r.Intn(10) {
	case 0:
		return ccAtom("nil")
	case 1:
		return ccAtom(Pick(g.r, []string{"T", "F"}))
	case 2:
		return ccAtom("s" + hex.EncodeToString([]byte(Pick(g.r, []string{"a", "bc", "m1", ""}))))
	case 3, 4:
		if g.nloc > 0 {
			return ccAtom("l" + strconv.Itoa(g.r.Intn(g.nloc)))
		}
		return ccGlob(Pick(g.r, []string{"x", "y", "f1"}))
	case 5:
		return ccGlob(Pick(g.r, []string{"x", "y", "f2", "f3"}))
	default:
		if g.big && g.r.Chance(50) {
			g.kctr++
			return ccAtom("n" + strconv.Itoa(5000+g.kctr))
		}
		return ccAtom("n" + strconv.Itoa(g.r.Range(0, 9)))
	}
}

func (g *ccGen) fn(depth int) *ccEx {
	switch g.r.Intn(12) {
	case 0:
		if g.nloc > 0 {
			return ccAtom("l" + strconv.Itoa(g.r.Intn(g.nloc)))
		}
	case 1:
		if depth > 0 {
			return g.call(depth-1, g.r.Chance(30))
		}
	case 2:
		return &ccEx{kind: "dots", paren: true}
	}
	return ccGlob(Pick(g.r, ccFuncs))
}

func (g *ccGen) call(depth int, paren bool) *ccEx {
	n := Pick(g.r, []int{0, 0, 1, 1, 2, 2, 3, 4})
	args := g.list(depth, n)
	if g.r.Chance(25) {
		var recv *ccEx
		switch g.r.Intn(5) {
		case 0:
			if g.nloc > 0 {
				recv = ccAtom("l" + strconv.Itoa(g.r.Intn(g.nloc)))
			}
		case 1:
			if depth > 0 {
				recv = g.ex(depth-1, false)
			}
		case 2:
			recv = ccAtom("s" + hex.EncodeToString([]byte("rcv")))
		}
		if recv == nil {
			recv = ccGlob(Pick(g.r, []string{"x", "obj"}))
		}
		return ccMCall(paren, recv, Pick(g.r, []string{"m", "get", "m1", "name"}), args...)
	}
	return ccCall(paren, g.fn(depth), args...)
}

func (g *ccGen) tbl(depth int) *ccEx {
	e := &ccEx{kind: "tbl"}
	n := Pick(g.r, []int{0, 1, 2, 3, 3, 5, 8})
	if depth > 0 && g.r.Chance(6) {
		n = Pick(g.r, []int{49, 50, 51, 52, 100, 101})
	}
	for i := 0; i < n; i++ {
		last := i == n-1
		key := "-"
		if g.r.Chance(20) {
			if g.r.Bool() {
				key = "kn" + strconv.Itoa(g.r.Range(0, 60))
			} else {
				key = "ks" + hex.EncodeToString([]byte(Pick(g.r, []string{"k", "x", "name"})))
			}
		}
		var v *ccEx
		if n > 10 && !last && !g.r.Chance(5) {
			v = g.atom()
		} else {
			v = g.ex(depth-1, last)
		}
		e.keys = append(e.keys, key)
		e.args = append(e.args, v)
	}
	return e
}

// ex: a producer; `multiOK` biases towards an unparenthesised multi-valued form
func (g *ccGen) ex(depth int, multiOK bool) *ccEx {
	if depth <= 0 {
		if g.r.Chance(15) {
			return &ccEx{kind: "dots", paren: g.r.Chance(30)}
		}
		return g.atom()
	}
	p := g.r.Intn(100)
	if multiOK {
		p = g.r.Intn(70)
	}
	switch {
	case p < 40:
		return g.call(depth-1, g.r.Chance(20))
	case p < 52:
		return &ccEx{kind: "dots", paren: g.r.Chance(25)}
	case p < 64:
		return g.tbl(depth)
	default:
		return g.atom()
	}
}

func (g *ccGen) list(depth, n int) []*ccEx {
	var es []*ccEx
	for i := 0; i < n; i++ {
		es = append(es, g.ex(depth, i == n-1))
	}
	return es
}

func (g *ccGen) target() string {
	if g.nloc > 0 && g.r.Chance(45) {
		return "l" + strconv.Itoa(g.r.Intn(g.nloc))
	}
	return "g" + hex.EncodeToString([]byte(Pick(g.r, []string{"x", "y", "z", "f1", "obj"})))
}

func (g *ccGen) stmt(depth int, last bool) *ccStmt {
	p := g.r.Intn(100)
	switch {
	case last && p < 55:
		return &ccStmt{kind: "ret", es: g.list(depth, Pick(g.r, []int{0, 1, 1, 1, 2, 3}))}
	case p < 25:
		return &ccStmt{kind: "callst", es: []*ccEx{g.call(depth, false)}}
	case p < 60:
		n := Pick(g.r, []int{1, 1, 2, 3, 4})
		s := &ccStmt{kind: "local", n: n, es: g.list(depth, Pick(g.r, []int{0, 1, 1, 2, 2, 3, 5}))}
		g.nloc += n
		return s
	default:
		k := Pick(g.r, []int{1, 1, 2, 3, 4})
		s := &ccStmt{kind: "assign", es: g.list(depth, Pick(g.r, []int{1, 1, 2, 2, 3, 5}))}
		for i := 0; i < k; i++ {
			s.targets = append(s.targets, g.target())
		}
		return s
	}
}

// a prelude that fills the constant pool beyond the RK range: `local L0 = {1000, 1001, …}`
func ccPrelude(n int) *ccStmt {
	t := &ccEx{kind: "tbl"}
	for i := 0; i < n; i++ {
		t.keys = append(t.keys, "-")
		t.args = append(t.args, ccAtom("n"+strconv.Itoa(1000+i)))
	}
	return &ccStmt{kind: "local", n: 1, es: []*ccEx{t}}
}

func genCCProg(r *Rng) []string {
	g := &ccGen{r: r}
	var prog []*ccStmt
	if r.Chance(8) {
		prog = append(prog, ccPrelude(Pick(r, []int{250, 255, 256, 257, 300})))
		g.nloc = 1
		g.big = true
	}
	n := r.Range(1, 4)
	for i := 0; i < n; i++ {
		prog = append(prog, g.stmt(Pick(r, []int{1, 2, 2, 3, 3, 4}), i == n-1))
	}
	return ccProgToks(r.Intn(4), prog)
}

// bounded-exhaustive small shapes: every list context × list length × kind of the last producer
func ccEnumShapes() [][]string {
	var out [][]string
	f := ccGlob("f3")
	lasts := func() []*ccEx {
		return []*ccEx{
			ccAtom("n7"), ccAtom("l0"), ccGlob("x"), ccAtom("nil"),
			ccCall(false, ccGlob("f0"), ccAtom("n1")), ccCall(true, ccGlob("f0"), ccAtom("n1")),
			{kind: "dots"}, {kind: "dots", paren: true},
			ccMCall(false, ccAtom("l0"), "m", ccAtom("n2")), ccMCall(true, ccGlob("obj"), "m"),
			ccCall(false, ccGlob("f2"), ccCall(false, ccGlob("f4"), &ccEx{kind: "dots"})),
			{kind: "tbl", keys: []string{"-", "-"}, args: []*ccEx{ccAtom("n1"), ccCall(false, ccGlob("f0"))}},
		}
	}
	pre := func() *ccStmt { return &ccStmt{kind: "local", n: 2, es: []*ccEx{ccAtom("n5"), ccGlob("f1")}} }
	for li := range lasts() {
		for n := 1; n <= 3; n++ {
			mk := func() []*ccEx {
				var es []*ccEx
				for i := 0; i < n-1; i++ {
					es = append(es, []*ccEx{ccAtom("l1"), ccCall(false, ccGlob("f0")), {kind: "dots"}}[i%3])
				}
				return append(es, lasts()[li])
			}
			add := func(s ...*ccStmt) { out = append(out, ccProgToks(2, append([]*ccStmt{pre()}, s...))) }
			add(&ccStmt{kind: "callst", es: []*ccEx{ccCall(false, f, mk()...)}})
			add(&ccStmt{kind: "callst", es: []*ccEx{ccMCall(false, ccGlob("obj"), "m", mk()...)}})
			add(&ccStmt{kind: "ret", es: mk()})
			add(&ccStmt{kind: "ret", es: []*ccEx{ccCall(false, f, mk()...)}})
			add(&ccStmt{kind: "ret", es: []*ccEx{ccCall(true, f, mk()...)}})
			add(&ccStmt{kind: "ret", es: []*ccEx{{kind: "tbl", keys: make([]string, 0), args: nil}}})
			t := &ccEx{kind: "tbl"}
			for _, e := range mk() {
				t.keys = append(t.keys, "-")
				t.args = append(t.args, e)
			}
			add(&ccStmt{kind: "ret", es: []*ccEx{t}})
			for k := 1; k <= 4; k++ {
				add(&ccStmt{kind: "local", n: k, es: mk()}, &ccStmt{kind: "ret", es: []*ccEx{ccAtom("l2")}})
				var tg, tl, tm []string
				for i := 0; i < k; i++ {
					tg = append(tg, "g"+hex.EncodeToString([]byte{byte('p' + i)}))
					tl = append(tl, "l"+strconv.Itoa(i%2))
					tm = append(tm, []string{"g" + hex.EncodeToString([]byte{byte('p' + i)}), "l" + strconv.Itoa(i%2)}[(i+k)%2])
				}
				add(&ccStmt{kind: "assign", targets: tg, es: mk()})
				add(&ccStmt{kind: "assign", targets: tl, es: mk()})
				add(&ccStmt{kind: "assign", targets: tm, es: mk()})
			}
		}
	}
	return out
}

// constructors around the flush boundaries (and one beyond 511 batches)
func ccCtorShapes(thorough bool) [][]string {
	var out [][]string
	tails := [][2]string{{"", ""}, {"call", ""}, {"dots", ""}, {"pcall", ""}, {"keyed", ""}, {"keyed", "call"}, {"keyedcall", ""}, {"keyed", "item"}}
	sizes := []int{0, 1, 2, 49, 50, 51, 99, 100, 101, 150}
	for _, n := range sizes {
		for _, tl := range tails {
			t := &ccEx{kind: "tbl"}
			add := func(k string, v *ccEx) { t.keys = append(t.keys, k); t.args = append(t.args, v) }
			for i := 0; i < n; i++ {
				if i%17 == 5 {
					add("-", ccCall(false, ccGlob("f0"), ccAtom("n"+strconv.Itoa(i))))
				} else if i%23 == 7 {
					add("ks"+hex.EncodeToString([]byte("k")), ccAtom("n"+strconv.Itoa(i%10)))
				} else {
					add("-", ccAtom("n"+strconv.Itoa(i%10)))
				}
			}
			for _, x := range tl {
				switch x {
				case "call":
					add("-", ccCall(false, ccGlob("f0"), ccAtom("n1")))
				case "pcall":
					add("-", ccCall(true, ccGlob("f0"), ccAtom("n1")))
				case "dots":
					add("-", &ccEx{kind: "dots"})
				case "keyed":
					add("kn3", ccAtom("s"+hex.EncodeToString([]byte("v"))))
				case "keyedcall":
					add("ks"+hex.EncodeToString([]byte("x")), ccCall(false, ccGlob("f0")))
				case "item":
					add("-", ccAtom("T"))
				}
			}
			out = append(out, ccProgToks(3, []*ccStmt{{kind: "ret", es: []*ccEx{t}}}))
			out = append(out, ccProgToks(1, []*ccStmt{{kind: "local", n: 2, es: []*ccEx{t, ccAtom("n1")}},
				{kind: "callst", es: []*ccEx{ccCall(false, ccGlob("f2"), ccAtom("l0"), t)}}}))
		}
	}
	big := []int{25600}
	if thorough {
		big = append(big, 25551, 25650)
	}
	for _, n := range big {
		for _, tail := range []string{"", "call"} {
			t := &ccEx{kind: "tbl"}
			for i := 0; i < n; i++ {
				t.keys = append(t.keys, "-")
				t.args = append(t.args, ccAtom("n"+strconv.Itoa(i%7)))
			}
			if tail == "call" {
				t.keys = append(t.keys, "-")
				t.args = append(t.args, ccCall(false, ccGlob("f0")))
			}
			out = append(out, ccProgToks(0, []*ccStmt{{kind: "ret", es: []*ccEx{t}}}))
		}
	}
	return out
}

// limits: argument counts / local counts / nesting depths around the register and operand limits
func ccLimitShapes() [][]string {
	var out [][]string
	for _, n := range []int{196, 197, 198, 199, 200, 254, 255, 256, 300, 510, 511, 512} {
		var args []*ccEx
		for i := 0; i < n; i++ {
			args = append(args, ccAtom("n"+strconv.Itoa(i%5)))
		}
		out = append(out, ccProgToks(0, []*ccStmt{{kind: "callst", es: []*ccEx{ccCall(false, ccGlob("f0"), args...)}}}))
		out = append(out, ccProgToks(0, []*ccStmt{{kind: "ret", es: args}}))
		out = append(out, ccProgToks(0, []*ccStmt{{kind: "local", n: 1, es: args}}))
	}
	for _, n := range []int{100, 198, 199, 200, 201, 250} {
		out = append(out, ccProgToks(0, []*ccStmt{{kind: "local", n: n, es: []*ccEx{ccCall(false, ccGlob("f0"))}}}))
		out = append(out, ccProgToks(2, []*ccStmt{{kind: "local", n: n, es: []*ccEx{{kind: "dots"}}}}))
		out = append(out, ccProgToks(0, []*ccStmt{{kind: "local", n: n, es: nil}}))
	}
	for _, d := range []int{50, 197, 198, 199, 200, 260} {
		e := ccCall(false, ccGlob("f0"))
		for i := 0; i < d; i++ {
			e = ccCall(false, ccGlob("f0"), e)
		}
		out = append(out, ccProgToks(0, []*ccStmt{{kind: "ret", es: []*ccEx{e}}}))
	}
	return out
}
