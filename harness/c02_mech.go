package main

// C02M — mechanism-level correspondence for C02 (calls pass/return exactly the prescribed values; proper tail calls).
//
//  (1) registry operation sequences on the REAL registry (VerifNewRegistry) vs Model.CallFrame.Reg — exact, incl. Go-nil slots
//  (2) one-step correspondence of every call-related VM instruction (OP_CALL, OP_TAILCALL, OP_RETURN, OP_VARARG,
//      OP_SETLIST, OP_SELF, OP_TFORLOOP set-up), of callR and of callGFunction's result delivery, observed on
//      generated Lua programs through VerifSetStepHook (same dispatch through the real jumpTable): the request
//      carries the observed pre-state, the Lean model must produce the observed post-state (registry slots, top,
//      frames, Sp, compat `arg` table)
//  (3) Go-API grid: L.PCall with explicit NRet on Lua / Go / __call callees, every (np, vararg, nargs, NRet,
//      produced) — GetTop and every result against Spec.Adjust (bind/adjust)
//  (4) select / unpack index arithmetic; SETLIST flush plan of compileTableExpr (real compiler output vs model) and
//      the constructed tables vs the manual
//  (5) deep tail recursion (10^6 iterations, CallStackSize 4): Sp and top must not grow

import (
	"fmt"
	"os"
	"sync"
	"sort"
	"strconv"
	"strings"

	lua "github.com/yuin/gopher-lua"
)

func init() { props["C02M"] = runC02M }

var (
	c02HistMu sync.Mutex
	c02Hist   = map[string]int{}
)

func c02Count(k string) {
	c02HistMu.Lock()
	c02Hist[k]++
	c02HistMu.Unlock()
}

// ---------- (1) registry sequences ----------

const c02Win = 40 // observed registry window

func c02Vals(r *Rng) string {
	switch r.Intn(8) {
	case 0:
		return "nil"
	case 1:
		return Pick(r, []string{"T", "F"})
	case 2:
		return "s" + Pick(r, []string{"61", "6162", ""})
	default:
		return "i" + strconv.Itoa(r.Range(-3, 99))
	}
}

func c02GenRegCase(r *Rng, maxOps int) []Op {
	var ops []Op
	add := func(a ...string) { ops = append(ops, Op{Args: a}) }
	top := 0 // tracked approximately (only used to pick interesting indices)
	n := r.Range(4, maxOps)
	pre := r.Range(0, 12)
	for i := 0; i < pre; i++ {
		add("rpush", c02Vals(r))
		top++
	}
	idx := func() int { // around top, start, or anywhere in the window
		switch r.Intn(6) {
		case 0:
			return top
		case 1:
			if top > 0 {
				return top - 1
			}
			return 0
		case 2:
			return top + r.Range(1, 3)
		case 3:
			return 0
		default:
			return r.Range(0, c02Win-10)
		}
	}
	for i := 0; i < n; i++ {
		switch c := r.Intn(100); {
		case c < 15:
			add("rpush", c02Vals(r))
			top++
		case c < 22:
			add("rpop")
			if top > 0 {
				top--
			}
		case c < 34:
			k := idx()
			add("rset", strconv.Itoa(k), c02Vals(r))
			if k >= top {
				top = k + 1
			}
		case c < 46:
			t := idx()
			add("rsettop", strconv.Itoa(t))
			top = t
		case c < 58:
			m, k := idx(), r.Range(0, 6)
			add("rfill", strconv.Itoa(m), strconv.Itoa(k))
			top = m + k
		case c < 84:
			regv, k := idx(), r.Range(0, 7)
			start := idx()
			if r.Chance(8) {
				start = -r.Range(1, 3)
			}
			limit := -1
			switch r.Intn(5) {
			case 0:
				limit = idx()
			case 1:
				limit = top
			case 2:
				limit = start + r.Range(0, 4)
				if limit == -1 {
					limit = 0
				}
			}
			add("rcopy", strconv.Itoa(regv), strconv.Itoa(start), strconv.Itoa(limit), strconv.Itoa(k))
			top = regv + k
		case c < 94:
			k := idx()
			add("rinsert", c02Vals(r), strconv.Itoa(k))
			if k >= top {
				top = k + 1
			} else {
				top++
			}
		default:
			add("rget", strconv.Itoa(r.Range(0, c02Win-1)))
		}
		if top > c02Win-8 {
			add("rsettop", strconv.Itoa(r.Range(0, 6)))
			top, _ = strconv.Atoi(ops[len(ops)-1].Args[1])
		}
	}
	return ops
}

func c02DecVal(tok string) lua.LValue {
	switch {
	case tok == "nil":
		return lua.LNil
	case tok == "T":
		return lua.LTrue
	case tok == "F":
		return lua.LFalse
	case tok[0] == 'i':
		f, _ := strconv.ParseFloat(tok[1:], 64)
		return lua.LNumber(f)
	case tok[0] == 's':
		b, _ := c02HexDecode(tok[1:])
		return lua.LString(string(b))
	}
	panic("bad token " + tok)
}

func c02HexDecode(s string) ([]byte, error) {
	out := make([]byte, len(s)/2)
	for i := 0; i+1 < len(s); i += 2 {
		v, err := strconv.ParseUint(s[i:i+2], 16, 8)
		if err != nil {
			return nil, err
		}
		out[i/2] = byte(v)
	}
	return out, nil
}

func c02ExecReg(ops []Op) []string {
	rg := lua.VerifNewRegistry(256, 32, 1024)
	rt := NewRefTable()
	out := []string{"C02M rnew"}
	obs := func() string {
		vs := rg.Values(c02Win)
		s := make([]string, len(vs))
		for i, v := range vs {
			s[i] = encVal(v, rt)
		}
		return strconv.Itoa(rg.Top()) + " " + strings.Join(s, " ")
	}
	for _, op := range ops {
		a := op.Args
		ai := func(i int) int { n, _ := strconv.Atoi(a[i]); return n }
		perr := ""
		pfx := ""
		switch a[0] {
		case "rpush":
			perr = rg.Push(c02DecVal(a[1]))
		case "rpop":
			var v lua.LValue
			v, perr = rg.Pop()
			pfx = encVal(v, rt) + " "
		case "rset":
			perr = rg.Set(ai(1), c02DecVal(a[2]))
		case "rsettop":
			perr = rg.SetTop(ai(1))
		case "rfill":
			perr = rg.FillNil(ai(1), ai(2))
		case "rcopy":
			perr = rg.CopyRange(ai(1), ai(2), ai(3), ai(4))
		case "rinsert":
			perr = rg.Insert(c02DecVal(a[1]), ai(2))
		case "rget":
			v, p := rg.Get(ai(1))
			if p != "" {
				out = append(out, "C02M "+op.String()+" => err "+strings.ReplaceAll(p, " ", "_"))
			} else {
				out = append(out, "C02M "+op.String()+" => "+encVal(v, rt))
			}
			continue
		default:
			continue
		}
		if perr != "" {
			out = append(out, "C02M "+op.String()+" => err "+strings.ReplaceAll(perr, " ", "_"))
			if a[0] != "rpop" {
				break // state after a Go panic in the middle of an operation is not modelled
			}
			continue
		}
		out = append(out, "C02M "+op.String()+" => "+pfx+obs())
	}
	return out
}

// ---------- (2) one-step correspondence through the step hook ----------

type c02Raw struct {
	snap   lua.VerifSnapshot
	frames []lua.VerifCallFrame
	vals   []lua.LValue
}

type c02Open struct {
	kind     string // inst | api | g
	id       int
	inst     uint32
	pre      *c02Raw
	linked   bool   // the callee's entry has been reported
	params   string // step parameters computed at pre time
	gx       *c02Raw
	gfnret   int
	hasGX    bool
	lastPost *c02Raw // api: state after the callee's last RETURN
	nargs    int
	nret     int
	tblPre   string
	tbl      *lua.LTable
	isG      bool
}

type c02World struct {
	L     *lua.LState
	rt    *RefTable
	out   []string
	open  []*c02Open
	gid   int
	hist  map[string]int
	limit int
}

func (w *c02World) capture(L *lua.LState) *c02Raw {
	s := L.VerifSnapshot()
	return &c02Raw{snap: s, frames: L.VerifCallFrames(3), vals: L.VerifRegistryValues(0, s.Top+48)}
}

func (w *c02World) fnInfo(fn *lua.LFunction) string {
	if fn == nil {
		return "0 0 0 0 0"
	}
	id := w.rt.ID(fn)
	if fn.IsG {
		return fmt.Sprintf("%d 1 0 0 0", id)
	}
	p := fn.Proto
	return fmt.Sprintf("%d 0 %d %d %d", id, p.NumParameters, p.IsVarArg, p.NumUsedRegisters)
}

func (w *c02World) encState(r *c02Raw, nslots int, extra string) string {
	var sb strings.Builder
	fmt.Fprintf(&sb, "sp %d max %d nf %d", r.snap.Sp, w.limit, len(r.frames))
	for _, f := range r.frames {
		fmt.Fprintf(&sb, " %s %d %d %d %d %d %d", w.fnInfo(f.Fn), f.Base, f.LocalBase, f.ReturnBase, f.NArgs, f.NRet, f.TailCall)
	}
	if nslots > len(r.vals) {
		nslots = len(r.vals)
	}
	fmt.Fprintf(&sb, " top %d nr %d", r.snap.Top, nslots)
	for i := 0; i < nslots; i++ {
		sb.WriteByte(' ')
		sb.WriteString(encVal(r.vals[i], w.rt))
	}
	sb.WriteString(extra)
	return sb.String()
}

func (w *c02World) emitStep(params string, pre, post *c02Raw, postExtra string) {
	n := pre.snap.Top
	if post.snap.Top > n {
		n = post.snap.Top
	}
	n += 6
	// encode the pre-state first so that objects get their wire ids in order of first appearance there
	ps := w.encState(pre, n, "")
	w.out = append(w.out, "C02M step "+params+" | "+ps+" => "+w.encState(post, n, postExtra))
	c02Count("step:" + strings.Fields(params)[0])
}

// the compat `arg` table of the frame on top of `post`, if this step created one
func (w *c02World) argTblExtra(post *c02Raw, seen map[interface{}]bool) string {
	if len(post.frames) == 0 {
		return ""
	}
	f := post.frames[0]
	if f.Fn == nil || f.Fn.IsG || f.Fn.Proto.IsVarArg&lua.VarArgNeedsArg == 0 || f.Fn.Proto.IsVarArg&lua.VarArgIsVarArg == 0 {
		return ""
	}
	i := f.LocalBase + int(f.Fn.Proto.NumParameters)
	if i >= len(post.vals) {
		return ""
	}
	tb, ok := post.vals[i].(*lua.LTable)
	if !ok {
		return ""
	}
	n := -1
	if v, ok := tb.RawGetString("n").(lua.LNumber); ok {
		n = int(v)
	}
	items := []string{}
	cnt := tb.MaxN()
	if n > cnt {
		cnt = n
	}
	for k := 1; k <= cnt; k++ {
		items = append(items, encVal(tb.RawGetInt(k), w.rt))
	}
	return fmt.Sprintf(" AT %s %d %d %s", encVal(tb, w.rt), n, len(items), strings.Join(items, " "))
}

func c02IntKeys(tb *lua.LTable, rt *RefTable) (string, int) {
	type kv struct {
		k int
		v string
	}
	var l []kv
	tb.ForEach(func(k, v lua.LValue) {
		if n, ok := k.(lua.LNumber); ok && float64(int(n)) == float64(n) {
			l = append(l, kv{int(n), encVal(v, rt)})
		}
	})
	sort.Slice(l, func(i, j int) bool { return l[i].k < l[j].k })
	s := make([]string, len(l))
	for i, e := range l {
		s[i] = strconv.Itoa(e.k) + ":" + e.v
	}
	return strings.Join(s, " "), len(l)
}

func (w *c02World) findOpen(id int, kind string) *c02Open {
	for i := len(w.open) - 1; i >= 0; i-- {
		if w.open[i].id == id && w.open[i].kind == kind {
			o := w.open[i]
			w.open = w.open[:i] // drop it and every stale record above it (left behind by raised errors)
			return o
		}
	}
	return nil
}

func (w *c02World) top() *c02Open {
	if len(w.open) == 0 {
		return nil
	}
	return w.open[len(w.open)-1]
}

// callee resolution exactly as the instruction will see it: function value, or __call metamethod
func (w *c02World) callee(L *lua.LState, lv lua.LValue) (fn *lua.LFunction, meta bool) {
	if f, ok := lv.(*lua.LFunction); ok {
		return f, false
	}
	if lv == nil {
		return nil, false
	}
	if f, ok := L.GetMetaField(lv, "__call").(*lua.LFunction); ok {
		return f, true
	}
	return nil, false
}

func c02b2s(b bool) string {
	if b {
		return "1"
	}
	return "0"
}

// a callee's frame has just been entered (first instruction of a nested loop, or a host function's entry):
// report the set-up half of the pending caller, if its pre-state is known
func (w *c02World) linkEntry(cur *c02Raw) {
	o := w.top()
	if o == nil || o.linked {
		return
	}
	switch o.kind {
	case "api":
		o.linked = true
		w.emitStep(o.params, o.pre, cur, w.argTblExtra(cur, nil))
	case "inst":
		op := int(o.inst >> 26)
		if op == lua.OP_TFORLOOP || ((op == lua.OP_CALL || op == lua.OP_TAILCALL) && o.isG) {
			o.linked = true
			w.emitStep(o.params, o.pre, cur, w.argTblExtra(cur, nil))
		}
	}
}

func (w *c02World) hook(L *lua.LState, inst uint32, id int, phase int) {
	if L != w.L || L.Parent != nil {
		return
	}
	op := int(inst >> 26)
	A := int(inst>>18) & 0xff
	B := int(inst & 0x1ff)
	C := int(inst>>9) & 0x1ff
	if phase == 0 {
		if o := w.top(); o != nil && !o.linked && (o.kind == "api" || (o.kind == "inst" && int(o.inst>>26) == lua.OP_TFORLOOP)) {
			w.linkEntry(w.capture(L))
		}
		switch op {
		case lua.OP_CALL, lua.OP_TAILCALL, lua.OP_RETURN, lua.OP_VARARG, lua.OP_SETLIST, lua.OP_SELF, lua.OP_TFORLOOP:
		default:
			return
		}
		pre := w.capture(L)
		o := &c02Open{kind: "inst", id: id, inst: inst, pre: pre}
		lb := pre.snap.LocalBase
		RA := lb + A
		switch op {
		case lua.OP_CALL, lua.OP_TAILCALL:
			fn, meta := w.callee(L, pre.vals[RA])
			o.isG = fn != nil && fn.IsG
			if op == lua.OP_CALL {
				o.params = fmt.Sprintf("call %d %d %d %s %s %s", A, B, C, c02b2s(meta), c02b2s(fn == nil), w.fnInfo(fn))
			} else {
				if fn == nil {
					return // raises before anything is touched
				}
				o.params = fmt.Sprintf("tcall %d %d %s %s", A, B, c02b2s(meta), w.fnInfo(fn))
			}
		case lua.OP_RETURN:
			o.params = fmt.Sprintf("ret %d %d", A, B)
		case lua.OP_VARARG:
			o.params = fmt.Sprintf("vararg %d %d", A, B)
		case lua.OP_SELF:
			o.params = fmt.Sprintf("self %d %d", A, B)
		case lua.OP_TFORLOOP:
			fn, meta := w.callee(L, pre.vals[RA])
			o.params = fmt.Sprintf("tforprep %d %d %s %s %s", A, C, c02b2s(meta), c02b2s(fn == nil), w.fnInfo(fn))
		case lua.OP_SETLIST:
			if tb, ok := pre.vals[RA].(*lua.LTable); ok {
				s, n := c02IntKeys(tb, w.rt)
				if n > 400 {
					return
				}
				o.tbl, o.tblPre = tb, s
			}
			extra := 0
			if C == 0 && len(pre.frames) > 0 && pre.frames[0].Fn != nil && !pre.frames[0].Fn.IsG {
				code := pre.frames[0].Fn.Proto.Code
				if pc := pre.frames[0].Pc; pc < len(code) {
					extra = int(code[pc])
				}
			}
			o.params = fmt.Sprintf("setlist %d %d %d %d", A, B, C, extra)
		}
		w.open = append(w.open, o)
		return
	}
	// phase 1: the instruction completed without raising
	o := w.findOpen(id, "inst")
	if o == nil {
		return
	}
	post := w.capture(L)
	if a := w.top(); a != nil && a.kind == "api" && (op == lua.OP_RETURN || op == lua.OP_TAILCALL) && post.snap.Sp == a.pre.snap.Sp {
		a.lastPost = post // the frame stack is back at the level of the Go caller: callR's tail comes next
	}
	switch op {
	case lua.OP_CALL, lua.OP_TAILCALL:
		if o.isG {
			if o.linked && o.hasGX {
				w.emitStep(fmt.Sprintf("gret %d %s", o.gfnret, c02b2s(op == lua.OP_TAILCALL)), o.gx, post, "")
			}
		} else {
			w.emitStep(o.params, o.pre, post, w.argTblExtra(post, nil))
		}
	case lua.OP_RETURN:
		w.emitStep(o.params, o.pre, post, "")
	case lua.OP_VARARG:
		w.emitStep(o.params, o.pre, post, "")
	case lua.OP_SELF:
		RA := o.pre.snap.LocalBase + A
		w.emitStep(o.params+" "+encVal(post.vals[RA], w.rt), o.pre, post, "")
	case lua.OP_SETLIST:
		if o.tbl != nil {
			s, _ := c02IntKeys(o.tbl, w.rt)
			n := o.pre.snap.Top + 6
			w.out = append(w.out, "C02M "+o.params+" | "+w.encState(o.pre, n, "")+" ; T "+o.tblPre+" => "+s)
			c02Count("step:setlist")
		}
	}
}

// wrap a host function so that its entry and exit states are observed
func (w *c02World) wrapG(orig lua.LGFunction) lua.LGFunction {
	return func(L *lua.LState) int {
		if L != w.L || L.Parent != nil {
			return orig(L)
		}
		w.linkEntry(w.capture(L))
		w.gid++
		me := &c02Open{kind: "g", id: w.gid, linked: true}
		w.open = append(w.open, me)
		n := orig(L)
		if w.findOpen(me.id, "g") == nil {
			return n
		}
		if o := w.top(); o != nil && o.linked && n >= 0 && (o.kind == "api" || (o.kind == "inst" && o.isG)) && !o.hasGX {
			o.gx, o.gfnret, o.hasGX = w.capture(L), n, true
		}
		return n
	}
}

func (w *c02World) wrapAll(tb *lua.LTable, depth int) {
	tb.ForEach(func(k, v lua.LValue) {
		switch x := v.(type) {
		case *lua.LFunction:
			if x.IsG {
				x.GFunction = w.wrapG(x.GFunction)
			}
		case *lua.LTable:
			if depth < 2 && x != tb {
				if s, ok := k.(lua.LString); ok && s != "_G" && s != "loaded" && s != "package" {
					w.wrapAll(x, depth+1)
				}
			}
		}
	})
}

const c02Limit = 64

func newC02World(stack int) *c02World {
	L := lua.NewState(lua.Options{CallStackSize: stack})
	w := &c02World{L: L, rt: NewRefTable(), hist: map[string]int{}, limit: stack}
	// host callees with known stack discipline
	L.SetGlobal("gk", L.NewFunction(func(L *lua.LState) int { return L.GetTop() }))  // returns all its arguments
	L.SetGlobal("g0", L.NewFunction(func(L *lua.LState) int { return 0 }))           // returns nothing
	L.SetGlobal("g1", L.NewFunction(func(L *lua.LState) int { L.Push(lua.LString("g1")); return 1 }))
	L.SetGlobal("g3", L.NewFunction(func(L *lua.LState) int { // junk below, three results on top
		L.Push(lua.LString("junk"))
		L.Push(lua.LNumber(31))
		L.Push(lua.LNumber(32))
		L.Push(lua.LNumber(33))
		return 3
	}))
	L.SetGlobal("gpop", L.NewFunction(func(L *lua.LState) int { // shrinks its stack, then returns two fresh values
		L.SetTop(0)
		L.Push(lua.LNumber(41))
		L.Push(lua.LNumber(42))
		return 2
	}))
	L.SetGlobal("gfew", L.NewFunction(func(L *lua.LState) int { // returns fewer than it pushed and fewer than wanted
		L.Push(lua.LNumber(51))
		L.Push(lua.LNumber(52))
		return 1
	}))
	w.wrapAll(L.G.Global, 0)
	L.VerifSetStepHook(w.hook)
	return w
}

// apiCall: push fn and args, run L.PCall(nargs, nret) with the step hook active, report callR's two halves.
func (w *c02World) apiCall(fn lua.LValue, nret int, args []lua.LValue) error {
	L := w.L
	L.Push(fn)
	for _, a := range args {
		L.Push(a)
	}
	pre := w.capture(L)
	f, meta := w.callee(L, fn)
	w.gid++
	o := &c02Open{kind: "api", id: w.gid, pre: pre, nargs: len(args), nret: nret, isG: f != nil && f.IsG,
		params: fmt.Sprintf("callr %d %d -1 %s %s %s", len(args), nret, c02b2s(meta), c02b2s(f == nil), w.fnInfo(f))}
	w.open = append(w.open, o)
	base := pre.snap.Top - len(args) - 1
	err := L.PCall(len(args), nret, nil)
	if w.findOpen(o.id, "api") == nil || err != nil {
		return err
	}
	post := w.capture(L)
	if o.isG {
		if o.linked && o.hasGX {
			w.emitStep(fmt.Sprintf("gretfin %d %d %d", o.gfnret, base, nret), o.gx, post, "")
		}
	} else if o.lastPost != nil {
		w.emitStep(fmt.Sprintf("callrfin %d %d", base, nret), o.lastPost, post, "")
	}
	return nil
}

// ---- program generator for the step tie ----

type c02Fn struct {
	name   string
	np     int
	vararg bool
	usesV  bool // body uses `...` (then the compat arg table is not created)
}

type c02Gen struct {
	r   *Rng
	fns []c02Fn
	sb  strings.Builder
}

var c02Hosts = []string{"gk", "g0", "g1", "g3", "gpop", "gfew", "select", "unpack", "gk", "gk"}

func (g *c02Gen) atom(cur *c02Fn) string {
	r := g.r
	switch r.Intn(6) {
	case 0:
		return "nil"
	case 1:
		return strconv.Itoa(r.Range(0, 9))
	case 2:
		return "\"s" + strconv.Itoa(r.Intn(5)) + "\""
	case 3:
		if cur != nil && cur.np > 0 {
			return "p" + strconv.Itoa(r.Range(1, cur.np))
		}
		return "true"
	default:
		return strconv.Itoa(r.Range(10, 99))
	}
}

// a call expression; calls only previously defined functions (no recursion) or host functions
func (g *c02Gen) call(cur *c02Fn, depth int) string {
	r := g.r
	var callee string
	k := r.Intn(10)
	switch {
	case k < 5 && len(g.fns) > 0:
		callee = Pick(r, g.fns).name
	case k < 6 && len(g.fns) > 0:
		callee = "cobj" // table with __call
	case k < 7 && len(g.fns) > 0:
		return "obj:" + Pick(r, []string{"m1", "m2"}) + "(" + g.args(cur, depth) + ")"
	default:
		callee = Pick(r, c02Hosts)
	}
	if callee == "select" {
		return "select(" + Pick(r, []string{"1", "2", "-1", "'#'", "3"}) + ", 7, 8" + g.moreArgs(cur, depth) + ")"
	}
	if callee == "unpack" {
		return "unpack({" + g.args(cur, depth) + "}" + Pick(r, []string{"", ", 1, 3", ", 2", ", 2, 1", ", 0, 2"}) + ")"
	}
	return callee + "(" + g.args(cur, depth) + ")"
}

func (g *c02Gen) moreArgs(cur *c02Fn, depth int) string {
	a := g.args(cur, depth)
	if a == "" {
		return ""
	}
	return ", " + a
}

func (g *c02Gen) args(cur *c02Fn, depth int) string {
	r := g.r
	n := r.Range(0, 4)
	var l []string
	for i := 0; i < n; i++ {
		last := i == n-1
		c := r.Intn(12)
		switch {
		case c < 3 && depth > 0:
			l = append(l, g.call(cur, depth-1))
		case c < 4 && depth > 0:
			l = append(l, "("+g.call(cur, depth-1)+")")
		case c < 6 && cur != nil && cur.usesV && (last || r.Chance(30)):
			l = append(l, "...")
		case c < 7 && cur != nil && cur.vararg && !cur.usesV:
			l = append(l, Pick(r, []string{"arg.n", "arg[1]", "arg[2]", "#arg"}))
		default:
			l = append(l, g.atom(cur))
		}
	}
	return strings.Join(l, ", ")
}

func (g *c02Gen) stmt(cur *c02Fn, depth int, w func(string)) {
	r := g.r
	if cur != nil && cur.vararg && !cur.usesV && r.Chance(30) {
		// the compat `arg` table belongs to this activation: a callee may use it as scratch space; later calls
		// (of any function, with or without extra arguments) must get a fresh one
		w(Pick(r, []string{"arg[#arg + 1] = 'scratch'", "arg.n = arg.n + 1", "table.insert(arg, 1, 'first')", "arg[1] = nil", "arg.extra = x", "arg[arg.n + 2] = y"}))
		return
	}
	switch r.Intn(11) {
	case 0:
		w(g.call(cur, depth))
	case 1:
		w("x = " + g.call(cur, depth))
	case 2:
		w("x, y, z = " + g.args(cur, depth) + Pick(r, []string{"", ""}) + "")
		// (may be an empty right-hand side: repaired below)
	case 3:
		w("local a, b, c = " + g.call(cur, depth))
	case 4:
		w("local a, b = " + g.atom(cur) + ", " + g.call(cur, depth))
	case 5:
		w("x = {" + g.args(cur, depth) + "}")
	case 6:
		w("x = {" + g.atom(cur) + ", k = " + g.call(cur, depth) + ", " + g.call(cur, depth) + "}")
	case 7:
		w("x = (" + g.call(cur, depth) + ")")
	case 8:
		w("for i, v in " + Pick(r, []string{"ipairs", "pairs", "iter3"}) + "({" + g.args(cur, depth) + "}) do y = v end")
	case 9:
		w("x = #{" + g.call(cur, depth) + ", " + g.call(cur, depth) + "}")
	default:
		w("z = " + g.atom(cur) + " ; y = " + g.call(cur, 0))
	}
}

func (g *c02Gen) ret(cur *c02Fn, depth int) string {
	r := g.r
	switch r.Intn(9) {
	case 0:
		return "return"
	case 1:
		return "return " + g.atom(cur)
	case 2:
		return "return " + g.call(cur, depth) // tail call
	case 3:
		return "return (" + g.call(cur, depth) + ")"
	case 4:
		if cur != nil && cur.usesV {
			return "return " + Pick(r, []string{"...", "1, ...", "select('#', ...), ...", "(...)"})
		}
		return "return " + g.atom(cur) + ", " + g.atom(cur)
	case 5:
		return "return " + g.atom(cur) + ", " + g.call(cur, depth)
	case 6:
		return "return " + g.atom(cur) + ", " + g.atom(cur) + ", " + g.atom(cur)
	case 7:
		if cur != nil && cur.np > 0 {
			return "return p1"
		}
		return "return x"
	default:
		a := g.args(cur, depth)
		if a == "" {
			return "return"
		}
		return "return " + a
	}
}

func genC02Prog(r *Rng) string {
	g := &c02Gen{r: r}
	sb := &g.sb
	sb.WriteString("local x, y, z\n")
	sb.WriteString("local function iter3(t) local i = 0 return function(s, c) i = i + 1 if i <= 3 then return i, t[i] end end, t, nil end\n")
	nf := r.Range(2, 6)
	for i := 0; i < nf; i++ {
		f := c02Fn{name: "f" + strconv.Itoa(i), np: r.Range(0, 3), vararg: r.Chance(55)}
		f.usesV = f.vararg && r.Chance(65)
		var ps []string
		for k := 1; k <= f.np; k++ {
			ps = append(ps, "p"+strconv.Itoa(k))
		}
		if f.vararg {
			ps = append(ps, "...")
		}
		fmt.Fprintf(sb, "local function %s(%s)\n", f.name, strings.Join(ps, ", "))
		nl := r.Range(0, 3) // extra locals vary NumUsedRegisters
		for k := 0; k < nl; k++ {
			fmt.Fprintf(sb, "  local l%d = %s\n", k, g.atom(&f))
		}
		ns := r.Range(0, 3)
		for k := 0; k < ns; k++ {
			g.stmt(&f, 1, func(s string) { sb.WriteString("  " + c02FixStmt(s) + "\n") })
		}
		sb.WriteString("  " + g.ret(&f, 1) + "\nend\n")
		g.fns = append(g.fns, f)
		if i == 0 {
			sb.WriteString("local cobj = setmetatable({}, {__call = f0})\n")
			sb.WriteString("local obj = {m1 = f0, m2 = gk}\n")
		}
	}
	main := c02Fn{name: "main", vararg: true, usesV: true}
	ns := r.Range(2, 6)
	for k := 0; k < ns; k++ {
		g.stmt(&main, 2, func(s string) { sb.WriteString(c02FixStmt(s) + "\n") })
	}
	sb.WriteString(g.ret(&main, 2) + "\n")
	return sb.String()
}

func c02FixStmt(s string) string {
	if strings.HasSuffix(s, "= ") {
		return s + "nil"
	}
	return s
}

func c02HexEncode(s string) string {
	const hx = "0123456789abcdef"
	b := make([]byte, 0, 2*len(s))
	for i := 0; i < len(s); i++ {
		b = append(b, hx[s[i]>>4], hx[s[i]&15])
	}
	return string(b)
}

// ops: prog <hex source> ; run <nret> <nargs>
func execC02Prog(ops []Op) []string {
	w := newC02World(c02Limit)
	defer w.L.Close()
	var fn *lua.LFunction
	for _, op := range ops {
		a := op.Args
		switch a[0] {
		case "prog":
			src, _ := c02HexDecode(a[1])
			f, err := w.L.LoadString(string(src))
			if err != nil {
				w.out = append(w.out, "X compile => "+strings.ReplaceAll(err.Error(), "\n", " "))
				return w.out
			}
			fn = f
		case "run":
			if fn == nil {
				continue
			}
			nret, _ := strconv.Atoi(a[1])
			nargs, _ := strconv.Atoi(a[2])
			var args []lua.LValue
			for i := 0; i < nargs; i++ {
				args = append(args, lua.LNumber(100+i))
			}
			top := w.L.GetTop()
			err := w.apiCall(fn, nret, args)
			if err != nil && !strings.Contains(err.Error(), "attempt to") && !strings.Contains(err.Error(), "bad argument") &&
				!strings.Contains(err.Error(), "stack overflow") {
				// a Go panic inside the interpreter (PCall turns it into an error) is a crash, not a Lua error
				if strings.Contains(err.Error(), "runtime error") || strings.Contains(err.Error(), "nil pointer") || strings.Contains(err.Error(), "index out of range") {
					w.out = append(w.out, "X gopanic => "+strings.ReplaceAll(strings.SplitN(err.Error(), "\n", 2)[0], " ", "_"))
				}
			}
			w.L.SetTop(top)
			// host callees reached directly through callR (Go API)
			for _, g := range []string{"gk", "g3", "gpop", "gfew", "g0"} {
				w.L.Push(lua.LString("below")) // a value below the call that must survive
				w.apiCall(w.L.GetGlobal(g), nret, args)
				w.L.SetTop(top)
			}
		}
	}
	return w.out
}

// ---------- (3) API grid ----------

var c02Shapes = [][]string{
	{}, {"c" + "i7"}, {"ci7", "cs61", "cnil", "cT"}, {"p1"}, {"p1", "p2", "p3"}, {"p2", "ci5"}, {"n"}, {"v"}, {"p1", "v"},
	{"v", "p1"}, {"n", "v"}, {"an"}, {"a1", "a2", "an"}, {"p1", "a1"}, {"cnil", "cnil"}, {"v", "v"},
}

func c02ShapeSrc(np int, vararg bool, shape []string) (string, bool) {
	var ps []string
	for k := 1; k <= np; k++ {
		ps = append(ps, "p"+strconv.Itoa(k))
	}
	if vararg {
		ps = append(ps, "...")
	}
	usesV, usesA := false, false
	var rs []string
	for _, a := range shape {
		switch {
		case a == "n":
			usesV = true
			rs = append(rs, "select('#', ...)")
		case a == "v":
			usesV = true
			rs = append(rs, "...")
		case a == "an":
			usesA = true
			rs = append(rs, "arg.n")
		case a[0] == 'a':
			usesA = true
			rs = append(rs, "arg["+a[1:]+"]")
		case a[0] == 'p':
			k, _ := strconv.Atoi(a[1:])
			if k > np {
				return "", false
			}
			rs = append(rs, a)
		case a[0] == 'c':
			switch a[1:] {
			case "nil":
				rs = append(rs, "nil")
			case "T":
				rs = append(rs, "true")
			case "i7":
				rs = append(rs, "7")
			case "i5":
				rs = append(rs, "5")
			case "s61":
				rs = append(rs, "\"a\"")
			}
		}
	}
	if (usesV || usesA) && !vararg {
		return "", false
	}
	if usesV && usesA {
		return "", false
	}
	return "return function(" + strings.Join(ps, ", ") + ") return " + strings.Join(rs, ", ") + " end", true
}

// ops: api <kind> <np> <vararg> <nret> <nargs> <shape idx>
func c02ExecAPI(ops []Op) []string {
	L := lua.NewState()
	defer L.Close()
	rt := NewRefTable()
	var out []string
	for _, op := range ops {
		a := op.Args
		kind := a[1]
		np, _ := strconv.Atoi(a[2])
		vararg := a[3] == "1"
		nret, _ := strconv.Atoi(a[4])
		nargs, _ := strconv.Atoi(a[5])
		si, _ := strconv.Atoi(a[6])
		shape := c02Shapes[si]
		var args []lua.LValue
		var argToks []string
		for i := 0; i < nargs; i++ {
			var v lua.LValue = lua.LNumber(100 + i)
			if i == 1 {
				v = lua.LNil // a nil in the middle of the argument list
			}
			if i == 3 {
				v = lua.LString("z")
			}
			args = append(args, v)
			argToks = append(argToks, encVal(v, rt))
		}
		var fn lua.LValue
		switch kind {
		case "lua", "callobj", "luatail":
			src, ok := c02ShapeSrc(np, vararg, shape)
			if !ok {
				continue
			}
			if kind == "luatail" { // reached through a proper tail call with an open argument list
				src = "local f = (function() " + src + " end)() return function(...) return f(...) end"
			}
			if err := L.DoString(src); err != nil {
				out = append(out, "X compile => "+err.Error())
				continue
			}
			f := L.Get(-1)
			L.Pop(1)
			fn = f
			if kind == "callobj" {
				tb := L.NewTable()
				mt := L.NewTable()
				mt.RawSetString("__call", f)
				L.SetMetatable(tb, mt)
				rt.Bind(tb, 1)
				fn = tb
			}
		case "go":
			// host callee: checks what it sees, leaves junk below, pushes the shape's values, returns their count
			ok := true
			for _, s := range shape {
				if s[0] != 'p' && s[0] != 'c' {
					ok = false
				}
				if s[0] == 'p' {
					if k, _ := strconv.Atoi(s[1:]); k > nargs+1 {
						_ = k
					}
				}
			}
			if !ok || vararg {
				continue
			}
			sh := shape
			seen := -1
			fn = L.NewFunction(func(L *lua.LState) int {
				seen = L.GetTop()
				var vals []lua.LValue
				for _, s := range sh {
					if s[0] == 'p' {
						k, _ := strconv.Atoi(s[1:])
						vals = append(vals, L.Get(k))
					} else {
						vals = append(vals, c02DecVal(s[1:]))
					}
				}
				L.Push(lua.LString("junk"))
				for _, v := range vals {
					L.Push(v)
				}
				return len(vals)
			})
			defer func(n int) {
				if seen != -1 && seen != n {
					out = append(out, fmt.Sprintf("X go-callee-saw-%d-args-for-%d => mismatch", seen, n))
				}
			}(nargs)
		}
		base := L.GetTop()
		L.Push(lua.LString("sentinel"))
		base++
		err := L.CallByParam(lua.P{Fn: fn, NRet: nret, Protect: true}, args...)
		reply := ""
		if err != nil {
			reply = "err"
		} else {
			n := L.GetTop() - base
			toks := []string{strconv.Itoa(n)}
			for i := 1; i <= n; i++ {
				toks = append(toks, encVal(L.Get(base+i), rt))
			}
			reply = strings.Join(toks, " ")
			if s, ok := L.Get(base).(lua.LString); !ok || s != "sentinel" {
				reply += " SENTINEL-LOST"
			}
		}
		L.SetTop(0)
		out = append(out, fmt.Sprintf("C02M api %s %d %s %d %s ; %s => %s", kind, np, a[3], nret, strings.Join(shape, " "), strings.Join(argToks, " "), reply))
	}
	return out
}

// ---------- (4) select / unpack / constructor plans ----------

// ops: select <idx> <num> | unpack <start> <end> <len> | plan <fields> <nmulti>
func c02ExecMisc(ops []Op) []string {
	L := lua.NewState()
	defer L.Close()
	rt := NewRefTable()
	var out []string
	for _, op := range ops {
		a := op.Args
		switch a[0] {
		case "select":
			idx, _ := strconv.Atoi(a[1])
			num, _ := strconv.Atoi(a[2])
			args := []lua.LValue{lua.LNumber(idx)}
			for i := 0; i < num-1; i++ {
				args = append(args, lua.LNumber(i))
			}
			err := L.CallByParam(lua.P{Fn: L.GetGlobal("select"), NRet: lua.MultRet, Protect: true}, args...)
			reply := "err"
			if err == nil {
				n := L.GetTop()
				reply = strconv.Itoa(n)
				// the returned values must be the last n extra arguments
				for i := 1; i <= n; i++ {
					if L.Get(i) != lua.LNumber(num-1-n+i-1) {
						reply += " WRONG-VALUES"
						break
					}
				}
			}
			L.SetTop(0)
			out = append(out, "C02M "+op.String()+" => "+reply)
		case "unpack":
			s, _ := strconv.Atoi(a[1])
			e, _ := strconv.Atoi(a[2])
			ln, _ := strconv.Atoi(a[3])
			tb := L.NewTable()
			var tv []string
			for i := 1; i <= ln; i++ {
				var v lua.LValue = lua.LNumber(10 * i)
				if i == 2 && ln > 2 {
					v = lua.LNil
				}
				tb.RawSetInt(i, v)
				tv = append(tv, encVal(v, rt))
			}
			err := L.CallByParam(lua.P{Fn: L.GetGlobal("unpack"), NRet: lua.MultRet, Protect: true}, tb, lua.LNumber(s), lua.LNumber(e))
			reply := "err"
			if err == nil {
				n := L.GetTop()
				toks := []string{strconv.Itoa(n)}
				for i := 1; i <= n; i++ {
					toks = append(toks, encVal(L.Get(i), rt))
				}
				reply = strings.Join(toks, " ")
			}
			L.SetTop(0)
			out = append(out, fmt.Sprintf("C02M unpack %d %d %s => %s", s, e, strings.Join(tv, " "), reply))
		case "plan":
			fields := a[1]
			nmulti, _ := strconv.Atoi(a[2])
			var sb strings.Builder
			sb.WriteString("local f, g = ... ; return {")
			k := 0
			for i, c := range fields {
				if i > 0 {
					sb.WriteString(",")
				}
				switch c {
				case 'i':
					k++
					sb.WriteString(strconv.Itoa(k))
				case 'k':
					sb.WriteString(Pick(NewRng(uint64(i)), []string{"x = g()", "y = 1", "[g()] = g()", "z = f()"}))
				case 'm':
					sb.WriteString("f()")
				}
			}
			sb.WriteString("}")
			fn, err := L.LoadString(sb.String())
			if err != nil {
				out = append(out, "X compile => "+err.Error())
				continue
			}
			// the SETLIST instructions the real compiler emitted
			var sl []string
			code := fn.Proto.Code
			for pc := 0; pc < len(code); pc++ {
				inst := code[pc]
				if int(inst>>26) == lua.OP_SETLIST {
					b, c := int(inst&0x1ff), int(inst>>9)&0x1ff
					x := "-"
					if c == 0 {
						pc++
						x = strconv.Itoa(int(code[pc]))
					}
					sl = append(sl, fmt.Sprintf("%d:%d:%s", b, c, x))
				}
			}
			planLine := "C02M plan -" + fields + " " + a[2] + " => " + strings.Join(sl, " ")
			// and the table it builds: positional value number j must sit at index j, nothing else under integer keys
			next := k
			f := L.NewFunction(func(L *lua.LState) int {
				for j := 1; j <= nmulti; j++ {
					L.Push(lua.LNumber(next + j))
				}
				return nmulti
			})
			g := L.NewFunction(func(L *lua.LState) int { L.Push(lua.LString("gv")); return 1 })
			if err := L.CallByParam(lua.P{Fn: fn, NRet: 1, Protect: true}, f, g); err != nil {
				out = append(out, "X ctor-run => "+strings.ReplaceAll(strings.SplitN(err.Error(), "\n", 2)[0], " ", "_"), planLine)
				L.SetTop(0)
				continue
			}
			tb, _ := L.Get(-1).(*lua.LTable)
			L.SetTop(0)
			nvals := k
			if strings.HasSuffix(fields, "m") {
				nvals += nmulti
			}
			cnt, maxk, firstbad, gonil := 0, 0, 0, 0
			if tb != nil {
				tb.ForEach(func(key, v lua.LValue) {
					if n, ok := key.(lua.LNumber); ok {
						cnt++
						if int(n) > maxk {
							maxk = int(n)
						}
					}
					if v == nil {
						gonil++
					}
				})
				for j := 1; j <= nvals; j++ {
					if tb.RawGetInt(j) != lua.LNumber(j) {
						firstbad = j
						break
					}
				}
			}
			// the property-level observation first, then the instruction-level one
			out = append(out, fmt.Sprintf("C02M ctor %d => %d %d %d %d", nvals, cnt, maxk, firstbad, gonil), planLine)
		}
	}
	return out
}

// ---------- (5) deep tail recursion ----------

var c02TailProgs = []string{
	// fixed arity self tail call
	`local function loop(n, a) if n % 100000 == 0 then probe() end if n == 0 then return a end return loop(n - 1, a) end return loop(N, 7)`,
	// vararg self tail call, arguments relocated above the fixed parameter every time
	`local function loop(n, ...) if n % 100000 == 0 then probe() end if n == 0 then return ... end return loop(n - 1, ...) end return loop(N, 1, 2, 3)`,
	// mutual recursion between shapes (fixed <-> vararg with compat arg table)
	`local f, g
function f(n, a, b) if n % 100000 == 0 then probe() end if n == 0 then return a end return g(n - 1, a, b, a) end
function g(n, ...) if n == 0 then return arg.n end return f(n - 1, ...) end
return f(N, 1, 2)`,
	// through __call
	`local t = {} ; setmetatable(t, {__call = function(self, n) if n % 100000 == 0 then probe() end if n == 0 then return 1 end return self(n - 1) end}) return t(N)`,
	// open argument list from a host call in the tail call
	`local function loop(n, ...) if n % 100000 == 0 then probe() end if n == 0 then return select('#', ...) end return loop(n - 1, gk(...)) end return loop(N, 1, 2)`,
	// tail call of a host function at the end of a deep chain, method call sugar
	`local o = {} function o:loop(n) if n % 100000 == 0 then probe() end if n == 0 then return gk(self, n) end return self:loop(n - 1) end return o:loop(N)`,
	// `return f(args)` is a proper tail call wherever it stands and whatever the function has captured: locals of the
	// function body captured by a closure …
	`local keep local function loop(n, a) local k = n local f = function() return k end if n % 100000 == 0 then probe() keep = f end if n == 0 then return a + keep() end return loop(n - 1, a) end return loop(N, 7)`,
	// … a captured local of an open do-block, written through the closure …
	`local function loop(n) do local k = n local g = function() k = k + 1 return k end if n % 100000 == 0 then probe() end if n == 0 then return g() end return loop(n - 1) end end return loop(N)`,
	// … inside the body of a numeric and of a generic for with a captured body local …
	`local function loop(n) for i = 1, 1 do local k = i + n local f = function() return k end if n % 100000 == 0 then probe() end if n == 0 then return f() end return loop(n - 1) end end return loop(N)`,
	`local one = {1} local function loop(n) for _, v in ipairs(one) do local f = function() return v end if n % 100000 == 0 then probe() end if n == 0 then return f() end return loop(n - 1) end end return loop(N)`,
	// … inside while/repeat bodies and both branches of an if, captured parameter
	`local function loop(n) local p = function() return n end while true do local w = n repeat local r = function() return w + p() end if n % 100000 == 0 then probe() end if n == 0 then return r() else return loop(n - 1) end until true end end return loop(N)`,
	// … through a vararg function that captures its compat arg table
	`local function loop(n, ...) local a = arg local f = function() return a.n end if n % 100000 == 0 then probe() end if n == 0 then return f() end return loop(n - 1, a[1], a[2]) end return loop(N, 1, 2)`,
}

// ops: tail <prog idx> <N>
func c02ExecTail(ops []Op) []string {
	var out []string
	for _, op := range ops {
		idx, _ := strconv.Atoi(op.Args[1])
		n, _ := strconv.Atoi(op.Args[2])
		L := lua.NewState(lua.Options{CallStackSize: 4})
		var sps, tops []string
		L.SetGlobal("probe", L.NewFunction(func(L *lua.LState) int {
			s := L.VerifSnapshot()
			sps = append(sps, strconv.Itoa(s.Sp))
			tops = append(tops, strconv.Itoa(s.Top))
			return 0
		}))
		L.SetGlobal("gk", L.NewFunction(func(L *lua.LState) int { return L.GetTop() }))
		L.SetGlobal("N", lua.LNumber(n))
		err := L.DoString(c02TailProgs[idx])
		reply := strings.Join(sps, " ") + " | " + strings.Join(tops, " ")
		if err != nil {
			reply = "err " + strings.ReplaceAll(strings.SplitN(err.Error(), "\n", 2)[0], " ", "_")
		}
		L.Close()
		out = append(out, fmt.Sprintf("C02M tailrec %d %d => %s", idx, n, reply))
	}
	return out
}

// ---------- dispatcher ----------

func execC02M(ops []Op) []string {
	if len(ops) == 0 {
		return nil
	}
	switch ops[0].Args[0] {
	case "prog", "run":
		return execC02Prog(ops)
	case "api":
		return c02ExecAPI(ops)
	case "select", "unpack", "plan":
		return c02ExecMisc(ops)
	case "tail":
		return c02ExecTail(ops)
	case "cc":
		return c02ExecCC(ops)
	}
	return c02ExecReg(ops)
}

func runC02M(run *Run) {
	if !lua.CompatVarArg {
		fmt.Println("harness error: CompatVarArg is false; the model assumes the default (true)")
	}
	nReg, nProg, tailN := 2500, 500, 1000000
	if run.Tier == "thorough" {
		nReg, nProg = 60000, 12000
	}
	run.Rule = "C02 mechanism: (1) random operation sequences on the real registry vs the Lean registry model, exact incl. Go-nil slots; " +
		"(2) one-step correspondence of every executed OP_CALL/TAILCALL/RETURN/VARARG/SETLIST/SELF/TFORLOOP-setup, callR and callGFunction result delivery on generated programs (pre-state observed through the step hook → model post-state = observed post-state); " +
		"(3) bounded-exhaustive Go-API grid kind{lua,go,__call} x np 0..3 x vararg x nargs 0..5 x NRet{-1,0,1,2,3,6} x 16 return shapes vs Spec adjust/bind (a test, labelled as such); " +
		"(4) select/unpack index windows, SETLIST flush plans of the real compiler for constructor shapes around multiples of FieldsPerFlush and > 511 blocks; (5) 10^6-deep tail recursion with CallStackSize 4; " +
		"(6) compile-time half: generated call shapes (producers = atoms, calls, method calls, `...`, parenthesised forms, constructors; contexts = argument lists, return lists, local declarations, multiple assignments, call statements; + bounded-exhaustive context x length x last-producer grid, constructors around the flush boundaries and beyond 511 batches, operand/register limits) compiled by the real compiler: every code word, the constant pool, NumUsedRegisters and IsVarArg vs Model.CallCompile, and the model's code executed on the model machine vs the Spec evaluation of the shape. " +
		"distinct = distinct op skeletons"
	run.Assume = []string{
		"registry capacity suffices (growth/overflow is C12's model); the observed window is 40 slots (registry tie) resp. max(top)+6 slots (step tie)",
		"CompatVarArg = true (config.go default)",
		"upvalue closing, coroutine switches and error unwinding inside the call opcodes are outside this model (C03/C06/C05)",
		"the step hook loop (verif_hooks.go) fetches and dispatches exactly like mainLoop (same jumpTable); 12 lines, read by hand",
		"`arg` table allocation identity is an oracle input of the model (its contents are checked)"}
	root := NewRng(uint64(run.Seed))
	var cases []Case
	for i, c := range loadCorpus("C02M") {
		cases = append(cases, Case{Idx: -1 - i, Ops: c, Note: "corpus"})
	}
	for i := 0; i < nReg; i++ {
		cases = append(cases, Case{Idx: i, Ops: c02GenRegCase(root.Fork(uint64(i)), 40)})
	}
	// generated programs for the step tie
	for i := 0; i < nProg; i++ {
		r := root.Fork(uint64(1000000 + i))
		src := genC02Prog(r)
		if os.Getenv("C02M_DUMP") == strconv.Itoa(1000000+i) { // development aid
			fmt.Println(src)
		}
		ops := []Op{{Args: []string{"prog", c02HexEncode(src)}}}
		for k := 0; k < 2; k++ {
			ops = append(ops, Op{Args: []string{"run", strconv.Itoa(Pick(r, []int{-1, 0, 1, 2, 4})), strconv.Itoa(r.Range(0, 4))}})
		}
		if os.Getenv("C02M_DUMP") == strconv.Itoa(1000000+i) { // development aid
			for _, o := range ops[1:] {
				fmt.Println("-- " + o.String())
			}
		}
		cases = append(cases, Case{Idx: 1000000 + i, Ops: ops})
	}
	// API grid (bounded-exhaustive)
	gi := 2000000
	for _, kind := range []string{"lua", "go", "callobj", "luatail"} {
		for np := 0; np <= 3; np++ {
			for va := 0; va <= 1; va++ {
				var ops []Op
				for _, nret := range []int{-1, 0, 1, 2, 3, 6} {
					for nargs := 0; nargs <= 5; nargs++ {
						for si := range c02Shapes {
							ops = append(ops, Op{Args: []string{"api", kind, strconv.Itoa(np), strconv.Itoa(va), strconv.Itoa(nret), strconv.Itoa(nargs), strconv.Itoa(si)}})
						}
					}
				}
				cases = append(cases, Case{Idx: gi, Ops: ops})
				gi++
			}
		}
	}
	// select / unpack windows
	var ops []Op
	for num := 1; num <= 6; num++ {
		for idx := -7; idx <= 8; idx++ {
			ops = append(ops, Op{Args: []string{"select", strconv.Itoa(idx), strconv.Itoa(num)}})
		}
	}
	cases = append(cases, Case{Idx: 3000000, Ops: ops})
	ops = nil
	for ln := 0; ln <= 4; ln++ {
		for s := -2; s <= 6; s++ {
			for e := -3; e <= 6; e++ {
				ops = append(ops, Op{Args: []string{"unpack", strconv.Itoa(s), strconv.Itoa(e), strconv.Itoa(ln)}})
			}
		}
	}
	cases = append(cases, Case{Idx: 3000001, Ops: ops})
	// constructor plans
	pi := 3100000
	addPlan := func(fields string, nm int) {
		cases = append(cases, Case{Idx: pi, Ops: []Op{{Args: []string{"plan", fields, strconv.Itoa(nm)}}}})
		pi++
	}
	for _, n := range []int{0, 1, 2, 49, 50, 51, 99, 100, 101, 150, 200} {
		it := strings.Repeat("i", n)
		addPlan(it, 0)
		addPlan(it+"m", 3)
		addPlan(it+"m", 0)
		addPlan(it+"k", 0)
		addPlan(it+"kk", 0)
		addPlan(it+"ki", 0)
		addPlan(it+"km", 2)
		addPlan("k"+it+"k", 0)
	}
	for i := 0; i < 60; i++ {
		r := root.Fork(uint64(3100000 + i))
		var sb strings.Builder
		n := Pick(r, []int{3, 10, 48, 52, 97, 103, 149})
		for k := 0; k < n; k++ {
			if r.Chance(12) {
				sb.WriteByte('k')
			} else {
				sb.WriteByte('i')
			}
		}
		if r.Bool() {
			sb.WriteByte('m')
		}
		addPlan(sb.String(), r.Range(0, 4))
	}
	addPlan(strings.Repeat("i", 25600), 0)
	addPlan(strings.Repeat("i", 25600)+"m", 3)
	addPlan(strings.Repeat("i", 25649)+"km", 2)
	// (6) compile-time half: the real compiler's code for generated call shapes vs Model.CallCompile, word for word
	nCC := 4000
	if run.Tier == "thorough" {
		nCC = 60000
	}
	ci := 5000000
	addCC := func(progs [][]string, per int) {
		for i := 0; i < len(progs); i += per {
			var ops []Op
			for j := i; j < i+per && j < len(progs); j++ {
				ops = append(ops, Op{Args: progs[j]})
			}
			cases = append(cases, Case{Idx: ci, Ops: ops})
			ci++
		}
	}
	var ccProgs [][]string
	for i := 0; i < nCC; i++ {
		ccProgs = append(ccProgs, genCCProg(root.Fork(uint64(5000000+i))))
	}
	addCC(ccProgs, 10)
	addCC(ccEnumShapes(), 10)
	addCC(ccCtorShapes(run.Tier == "thorough"), 4)
	addCC(ccLimitShapes(), 4)
	// deep tail recursion
	for i := range c02TailProgs {
		cases = append(cases, Case{Idx: 4000000 + i, Ops: []Op{{Args: []string{"tail", strconv.Itoa(i), strconv.Itoa(tailN)}}}})
	}
	if only := os.Getenv("C02M_ONLY"); only != "" { // development aid: run one group of cases
		var sel []Case
		for _, c := range cases {
			if len(c.Ops) > 0 && strings.HasPrefix(c.Ops[0].Args[0], only) {
				sel = append(sel, c)
			}
		}
		cases = sel
	}
	runCases(run, cases, execC02M, classifyNone)
	c02HistMu.Lock()
	steps := map[string]int{}
	for k, v := range c02Hist {
		run.Hist[k] = v
		steps[k] = v
	}
	c02HistMu.Unlock()
	run.Extra["step_requests_by_kind"] = steps
}
