package main

// C03M, request kind `cc` — the compile side of C03 (where does compile.go emit OP_CLOSE, and with which operand).
//
// A program of the abstract statement language of lean/GLua/Model/CloseCompile.lean (blocks, `local`, closure
// creation capturing chosen visible locals, uses, while / repeat (the until expression sees and may capture the
// body's locals) / numeric for / generic for, break, labels and goto (backward, continue-style, out of nested
// blocks), return) is generated, rendered to Lua source whose closures read and write the captured variables,
// compiled with the REAL front end (parse.Parse + lua.Compile) and reduced to the scoping skeleton of the real
// prototype: every CLOSE with its operand, every JMP / FORPREP / FORLOOP / TFORLOOP with its destination, RETURN,
// every CLOSURE with its capture list, NOP, and the marker globals `use` / `poke`.  The Lean engine compiles the
// same abstract program with the model and compares token by token; it also runs the certificate checker
// `closeDiscipline` (proved sound in Lean) on the model's output.

import (
	"fmt"
	"os"
	"strings"

	lua "github.com/yuin/gopher-lua"
	"github.com/yuin/gopher-lua/parse"
)

// ---------- abstract programs ----------

type clcStmt struct {
	k     byte // L F C A U P D I W R N G B T J X
	n     int  // value / register / name / nnames
	m     int  // assign value
	self  bool
	caps  []int
	a, b  []clcStmt
	nestK bool // rendering only: the closure captures through a nested closure
}

func clcList(xs []int) string {
	s := make([]string, len(xs))
	for i, x := range xs {
		s[i] = fmt.Sprint(x)
	}
	return "[" + strings.Join(s, ",") + "]"
}

func clcEncode(ss []clcStmt) string {
	var b strings.Builder
	for _, s := range ss {
		switch s.k {
		case 'L', 'P', 'T', 'J':
			fmt.Fprintf(&b, "%c%d", s.k, s.n)
		case 'F':
			x := 0
			if s.self {
				x = 1
			}
			fmt.Fprintf(&b, "F%d%s", x, clcList(s.caps))
		case 'C':
			if s.nestK {
				b.WriteString("c" + clcList(s.caps))
			} else {
				b.WriteString("C" + clcList(s.caps))
			}
		case 'A':
			fmt.Fprintf(&b, "A%d=%d", s.n, s.m)
		case 'U', 'B', 'X':
			b.WriteByte(s.k)
		case 'D', 'W', 'N':
			fmt.Fprintf(&b, "%c(%s)", s.k, clcEncode(s.a))
		case 'I':
			fmt.Fprintf(&b, "I(%s)(%s)", clcEncode(s.a), clcEncode(s.b))
		case 'R':
			fmt.Fprintf(&b, "R(%s)%s", clcEncode(s.a), clcList(s.caps))
		case 'G':
			fmt.Fprintf(&b, "G%d(%s)", s.n, clcEncode(s.a))
		}
	}
	return b.String()
}

// ---------- rendering ----------

type clcRender struct {
	b      strings.Builder
	names  []string // register -> name ("" = hidden control register)
	serial int
	ind    int
}

func (r *clcRender) line(format string, a ...interface{}) {
	r.b.WriteString(strings.Repeat("  ", r.ind))
	fmt.Fprintf(&r.b, format, a...)
	r.b.WriteByte('\n')
}

func (r *clcRender) decl() string {
	r.serial++
	n := fmt.Sprintf("v%d_%d", len(r.names), r.serial)
	r.names = append(r.names, n)
	return n
}

func (r *clcRender) name(reg int) string {
	if reg >= 0 && reg < len(r.names) && r.names[reg] != "" {
		return r.names[reg]
	}
	return fmt.Sprintf("bad%d", reg) // not a visible named local: a global (the model says ill-formed)
}

func (r *clcRender) visible() []string {
	var out []string
	for _, n := range r.names {
		if n != "" {
			out = append(out, n)
		}
	}
	return out
}

// the body of a closure that captures exactly the registers caps, in this order
func (r *clcRender) closureBody(caps []int, nested bool, extra string) string {
	var ns []string
	for _, c := range caps {
		ns = append(ns, r.name(c))
	}
	if extra != "" {
		ns = append(ns, extra)
	}
	if len(ns) == 0 {
		return "function(w) return w end"
	}
	var set []string
	for _, n := range ns {
		if n != extra || extra == "" {
			set = append(set, n+" = w")
		}
	}
	ret := strings.Join(ns, ", ")
	if extra != "" {
		ret = strings.Join(ns[:len(ns)-1], ", ")
		if ret != "" {
			ret += ", "
		}
		ret += "(" + extra + " ~= nil)"
	}
	if nested {
		return fmt.Sprintf("function(w) local g = function() return %s end if w then %s end return g() end", ret, strings.Join(set, " "))
	}
	if len(set) == 0 {
		return fmt.Sprintf("function(w) return %s end", ret)
	}
	return fmt.Sprintf("function(w) if w then %s end return %s end", strings.Join(set, " "), ret)
}

func (r *clcRender) block(ss []clcStmt) {
	save := len(r.names)
	r.ind++
	r.stmts(ss)
	r.ind--
	r.names = r.names[:save]
}

func (r *clcRender) stmts(ss []clcStmt) {
	for _, s := range ss {
		switch s.k {
		case 'L':
			// the name becomes visible after the statement
			r.serial++
			n := fmt.Sprintf("v%d_%d", len(r.names), r.serial)
			r.line("local %s = %d", n, s.n)
			r.names = append(r.names, n)
		case 'F':
			n := r.decl()
			body := r.closureBody(s.caps, false, map[bool]string{true: n, false: ""}[s.self])
			r.line("local function %s%s", n, strings.TrimPrefix(body, "function"))
			r.line("sink(%s)", n)
		case 'C':
			r.line("sink(%s)", r.closureBody(s.caps, s.nestK, ""))
		case 'A':
			r.line("%s = %d", r.name(s.n), s.m)
		case 'U':
			r.line("use(%s)", strings.Join(r.visible(), ", "))
		case 'P':
			r.line("poke(%d)", s.n)
		case 'D':
			r.line("do")
			r.block(s.a)
			r.line("end")
		case 'I':
			r.line("if c() then")
			r.block(s.a)
			if len(s.b) > 0 {
				r.line("else")
				r.block(s.b)
			}
			r.line("end")
		case 'W':
			r.line("while c() do")
			r.block(s.a)
			r.line("end")
		case 'R':
			r.line("repeat")
			save := len(r.names)
			r.ind++
			r.stmts(s.a)
			r.ind--
			if len(s.caps) > 0 {
				r.line("until c(%s)", r.closureBody(s.caps, false, ""))
			} else {
				r.line("until c()")
			}
			r.names = r.names[:save]
		case 'N':
			save := len(r.names)
			r.names = append(r.names, "", "", "")
			n := r.decl()
			r.line("for %s = 1, 2 do", n)
			r.ind++
			r.stmts(s.a)
			r.ind--
			r.line("end")
			r.names = r.names[:save]
		case 'G':
			save := len(r.names)
			r.names = append(r.names, "", "", "")
			var ns []string
			for i := 0; i < s.n; i++ {
				ns = append(ns, r.decl())
			}
			r.line("for %s in gen() do", strings.Join(ns, ", "))
			r.ind++
			r.stmts(s.a)
			r.ind--
			r.line("end")
			r.names = r.names[:save]
		case 'B':
			r.line("break")
		case 'T':
			r.line("::L%d::", s.n)
		case 'J':
			r.line("goto L%d", s.n)
		case 'X':
			r.line("return")
		}
	}
}

// clcSource renders the function under test; with parameters it is `return function(p…) … end` and the
// prototype of interest is FunctionPrototypes[0].
func clcSource(nparams int, ss []clcStmt) string {
	r := &clcRender{}
	if nparams == 0 {
		r.stmts(ss)
		return r.b.String()
	}
	var ps []string
	for i := 0; i < nparams; i++ {
		ps = append(ps, r.decl())
	}
	r.line("return function(%s)", strings.Join(ps, ", "))
	r.ind++
	r.stmts(ss)
	r.ind--
	r.line("end")
	return r.b.String()
}

// ---------- the skeleton of the real prototype ----------

func clcSkeleton(p *lua.FunctionProto) string {
	type tok struct {
		pc     int
		s      string
		target int // absolute pc, -1 = none
	}
	var toks []tok
	code := p.Code
	for pc := 0; pc < len(code); pc++ {
		inst := code[pc]
		op, a, b, c := int(inst>>26), int(inst>>18)&0xff, int(inst&0x1ff), int(inst>>9)&0x1ff
		bx := int(inst & 0x3ffff)
		sbx := bx - 131071
		switch op {
		case lua.OP_CLOSE:
			toks = append(toks, tok{pc, fmt.Sprintf("C%d", a), -1})
		case lua.OP_JMP:
			toks = append(toks, tok{pc, "J", pc + 1 + sbx})
		case lua.OP_FORPREP:
			toks = append(toks, tok{pc, "P", pc + 1 + sbx})
		case lua.OP_FORLOOP:
			toks = append(toks, tok{pc, fmt.Sprintf("L%d:", a), pc + 1 + sbx})
		case lua.OP_TFORLOOP:
			toks = append(toks, tok{pc, fmt.Sprintf("T%d:%d", a, c), -1})
		case lua.OP_RETURN, lua.OP_TAILCALL:
			toks = append(toks, tok{pc, "R", -1})
		case lua.OP_NOP:
			toks = append(toks, tok{pc, "N", -1})
		case lua.OP_CLOSURE:
			s := "K"
			n := 0
			if bx < len(p.FunctionPrototypes) {
				n = int(p.FunctionPrototypes[bx].NumUpvalues)
			}
			for i := 1; i <= n && pc+i < len(code); i++ {
				w := code[pc+i]
				switch int(w >> 26) {
				case lua.OP_MOVE:
					s += fmt.Sprintf(".m%d", int(w&0x1ff))
				case lua.OP_GETUPVAL:
					s += fmt.Sprintf(".u%d", int(w&0x1ff))
				default:
					s += ".x"
				}
			}
			toks = append(toks, tok{pc, s, -1})
			pc += n
		case lua.OP_GETGLOBAL:
			if bx < len(p.Constants) {
				if name, ok := p.Constants[bx].(lua.LString); ok && (name == "use" || name == "poke") {
					toks = append(toks, tok{pc, "G" + string(name), -1})
				}
			}
		case lua.OP_SETLIST:
			if c == 0 {
				pc++
			}
		}
		_ = b
	}
	out := make([]string, len(toks))
	for i, t := range toks {
		out[i] = t.s
		if t.target >= 0 {
			idx := len(toks)
			for j, u := range toks {
				if u.pc >= t.target {
					idx = j
					break
				}
			}
			out[i] += fmt.Sprint(idx)
		}
	}
	if len(out) == 0 {
		return "-"
	}
	return strings.Join(out, ",")
}

func clcCompile(nparams int, src string) (reply string) {
	defer func() {
		if r := recover(); r != nil {
			reply = "panic"
		}
	}()
	chunk, err := parse.Parse(strings.NewReader(src), "cc")
	if err != nil {
		return "SYNTAX:" + strings.ReplaceAll(err.Error(), " ", "_")
	}
	proto, err := lua.Compile(chunk, "cc")
	if err != nil {
		return "E"
	}
	if nparams > 0 {
		if len(proto.FunctionPrototypes) == 0 {
			return "SYNTAX:no-function"
		}
		proto = proto.FunctionPrototypes[0]
	}
	return clcSkeleton(proto)
}

// ---------- generator ----------

type clcGen struct {
	r        *Rng
	named    []bool // register -> is a visible named local
	loops    int
	depth    int
	budget   int
	nextName int
	back     []int // labels already placed in an enclosing (or this) block, still visible
	fwd      []int // labels that will be placed behind an enclosing compound statement / at the end of an enclosing block
	gotos    bool
}

func (g *clcGen) visibleRegs() []int {
	var out []int
	for i, n := range g.named {
		if n {
			out = append(out, i)
		}
	}
	return out
}

func (g *clcGen) pickCaps(max int) []int {
	vis := g.visibleRegs()
	if len(vis) == 0 {
		return nil
	}
	n := g.r.Intn(max + 1)
	var out []int
	seen := map[int]bool{}
	for i := 0; i < n; i++ {
		var x int
		if g.r.Chance(60) { // prefer the innermost locals
			k := len(vis) - 1 - g.r.Intn(minInt(3, len(vis)))
			x = vis[k]
		} else {
			x = vis[g.r.Intn(len(vis))]
		}
		if !seen[x] {
			seen[x] = true
			out = append(out, x)
		}
	}
	return out
}

// body of a nested block: `hidden` control registers and `nloop` loop variables come first
func (g *clcGen) blockBody(hidden, nloop int, isLoop bool, untilFollows bool) []clcStmt {
	save := len(g.named)
	saveBack := len(g.back)
	saveFwd := len(g.fwd)
	for i := 0; i < hidden; i++ {
		g.named = append(g.named, false)
	}
	for i := 0; i < nloop; i++ {
		g.named = append(g.named, true)
	}
	if isLoop {
		g.loops++
	}
	g.depth++
	endLabel := -1
	if g.gotos && g.r.Chance(30) { // continue-style label at the end of the block
		g.nextName++
		endLabel = g.nextName
		g.fwd = append(g.fwd, endLabel)
	}
	n := g.r.Range(0, 5)
	if g.depth > 3 {
		n = g.r.Range(0, 2)
	}
	var out []clcStmt
	if isLoop && g.gotos && g.r.Chance(6) {
		// the shape around finding C03-break-after-backward-goto: a local, a label, a break, a later closure
		// capturing the local, a jump back to the label — in random order of the last three, optionally nested
		reg := len(g.named)
		g.named = append(g.named, true)
		g.nextName++
		lab := g.nextName
		out = append(out, clcStmt{k: 'L', n: g.r.Intn(90)}, clcStmt{k: 'T', n: lab})
		parts := [][]clcStmt{
			{{k: 'I', a: []clcStmt{{k: 'B'}}}},
			{{k: 'C', caps: []int{reg}}},
			{{k: 'I', a: []clcStmt{{k: 'J', n: lab}}}},
		}
		for i := len(parts) - 1; i > 0; i-- {
			j := g.r.Intn(i + 1)
			parts[i], parts[j] = parts[j], parts[i]
		}
		var mid []clcStmt
		for _, p := range parts {
			mid = append(mid, p...)
		}
		if g.r.Chance(30) {
			out = append(out, clcStmt{k: 'D', a: mid})
		} else {
			out = append(out, mid...)
		}
	}
	for i := 0; i < n && g.budget > 0; i++ {
		out = append(out, g.stmt()...)
	}
	if endLabel >= 0 {
		out = append(out, clcStmt{k: 'T', n: endLabel})
	} else if !untilFollows || g.r.Chance(50) {
		switch {
		case g.loops > 0 && g.r.Chance(25):
			out = append(out, clcStmt{k: 'B'})
		case g.r.Chance(4):
			out = append(out, clcStmt{k: 'X'})
		}
	}
	g.depth--
	if isLoop {
		g.loops--
	}
	g.named = g.named[:save]
	g.back = g.back[:saveBack]
	g.fwd = g.fwd[:saveFwd]
	return out
}

// a compound statement, possibly followed by a label its body may jump to
func (g *clcGen) compound(mk func() clcStmt) []clcStmt {
	after := -1
	saveFwd := len(g.fwd)
	if g.gotos && g.r.Chance(20) {
		g.nextName++
		after = g.nextName
		g.fwd = append(g.fwd, after)
	}
	s := mk()
	g.fwd = g.fwd[:saveFwd]
	if after >= 0 {
		return []clcStmt{s, {k: 'T', n: after}}
	}
	return []clcStmt{s}
}

func (g *clcGen) gotoStmt() []clcStmt {
	var name int
	switch {
	case len(g.back) > 0 && g.r.Chance(50):
		name = g.back[g.r.Intn(len(g.back))]
	case len(g.fwd) > 0 && g.r.Chance(90):
		name = g.fwd[g.r.Intn(len(g.fwd))]
	case len(g.back) > 0:
		name = g.back[g.r.Intn(len(g.back))]
	default:
		name = g.r.Range(1, g.nextName+1) // mostly an invisible / undefined label: both sides must reject
	}
	j := clcStmt{k: 'J', n: name}
	if g.r.Chance(75) {
		return []clcStmt{{k: 'I', a: []clcStmt{j}}}
	}
	return []clcStmt{j}
}

func (g *clcGen) stmt() []clcStmt {
	g.budget--
	vis := g.visibleRegs()
	w := g.r.Intn(100)
	switch {
	case w < 16:
		g.named = append(g.named, true)
		return []clcStmt{{k: 'L', n: g.r.Intn(90)}}
	case w < 34:
		return []clcStmt{{k: 'C', caps: g.pickCaps(3), nestK: g.r.Chance(25)}}
	case w < 38:
		caps := g.pickCaps(2)
		self := g.r.Chance(40)
		g.named = append(g.named, true)
		return []clcStmt{{k: 'F', caps: caps, self: self}}
	case w < 42:
		if len(vis) > 0 {
			return []clcStmt{{k: 'A', n: vis[g.r.Intn(len(vis))], m: g.r.Intn(90)}}
		}
		return []clcStmt{{k: 'U'}}
	case w < 50:
		return []clcStmt{{k: 'U'}}
	case w < 53:
		return []clcStmt{{k: 'P', n: g.r.Intn(90)}}
	case w < 60:
		return g.compound(func() clcStmt { return clcStmt{k: 'D', a: g.blockBody(0, 0, false, false)} })
	case w < 68:
		return g.compound(func() clcStmt {
			s := clcStmt{k: 'I', a: g.blockBody(0, 0, false, false)}
			if g.r.Chance(40) {
				s.b = g.blockBody(0, 0, false, false)
			}
			return s
		})
	case w < 76:
		return g.compound(func() clcStmt { return clcStmt{k: 'W', a: g.blockBody(0, 0, true, false)} })
	case w < 83:
		return g.compound(func() clcStmt {
			// the until expression may capture the body's locals: choose them while the body is in scope
			save := len(g.named)
			var caps []int
			saveBack, saveFwd := len(g.back), len(g.fwd)
			g.loops++
			g.depth++
			n := g.r.Range(0, 4)
			var body []clcStmt
			for i := 0; i < n && g.budget > 0; i++ {
				body = append(body, g.stmt()...)
			}
			if g.r.Chance(20) {
				body = append(body, clcStmt{k: 'I', a: []clcStmt{{k: 'B'}}})
			}
			if g.r.Chance(40) {
				caps = g.pickCaps(2)
			}
			g.depth--
			g.loops--
			g.named = g.named[:save]
			g.back, g.fwd = g.back[:saveBack], g.fwd[:saveFwd]
			return clcStmt{k: 'R', a: body, caps: caps}
		})
	case w < 89:
		return g.compound(func() clcStmt { return clcStmt{k: 'N', a: g.blockBody(3, 1, true, false)} })
	case w < 94:
		return g.compound(func() clcStmt {
			n := g.r.Range(1, 3)
			return clcStmt{k: 'G', n: n, a: g.blockBody(3, n, true, false)}
		})
	default:
		if !g.gotos {
			return []clcStmt{{k: 'U'}}
		}
		if g.r.Chance(35) { // a label here: later statements of this block (and nested ones) may jump back to it
			g.nextName++
			g.back = append(g.back, g.nextName)
			return []clcStmt{{k: 'T', n: g.nextName}}
		}
		return g.gotoStmt()
	}
}

func genCloseProgram(r *Rng) (int, []clcStmt) {
	g := &clcGen{r: r, budget: r.Range(4, 28), gotos: r.Chance(55)}
	nparams := 0
	if r.Chance(30) {
		nparams = r.Range(1, 3)
	}
	for i := 0; i < nparams; i++ {
		g.named = append(g.named, true)
	}
	var out []clcStmt
	n := r.Range(1, 7)
	for i := 0; i < n && g.budget > 0; i++ {
		out = append(out, g.stmt()...)
	}
	if r.Chance(50) {
		out = append(out, clcStmt{k: 'U'})
	}
	return nparams, out
}

// shape key: the statement-kind skeleton
func clcKey(ss []clcStmt) string {
	var b strings.Builder
	for _, s := range ss {
		b.WriteByte(s.k)
		if len(s.a) > 0 || s.k == 'D' || s.k == 'W' {
			b.WriteString("(" + clcKey(s.a) + ")")
		}
		if len(s.b) > 0 {
			b.WriteString("(" + clcKey(s.b) + ")")
		}
	}
	return b.String()
}

// ---------- parser of the wire form (corpus files, replay) ----------

type clcParser struct {
	s   string
	pos int
	err bool
}

func (p *clcParser) peek() byte {
	if p.pos < len(p.s) {
		return p.s[p.pos]
	}
	return 0
}

func (p *clcParser) nat() int {
	st := p.pos
	for p.pos < len(p.s) && p.s[p.pos] >= '0' && p.s[p.pos] <= '9' {
		p.pos++
	}
	if st == p.pos {
		p.err = true
		return 0
	}
	return atoi(p.s[st:p.pos])
}

func (p *clcParser) expect(c byte) {
	if p.peek() != c {
		p.err = true
		return
	}
	p.pos++
}

func (p *clcParser) list() []int {
	p.expect('[')
	var out []int
	for !p.err && p.peek() != ']' {
		out = append(out, p.nat())
		if p.peek() == ',' {
			p.pos++
		}
	}
	p.expect(']')
	return out
}

func (p *clcParser) block() []clcStmt {
	p.expect('(')
	ss := p.stmts()
	p.expect(')')
	return ss
}

func (p *clcParser) stmts() []clcStmt {
	var out []clcStmt
	for !p.err && p.pos < len(p.s) && p.peek() != ')' {
		k := p.peek()
		p.pos++
		s := clcStmt{k: k}
		switch k {
		case 'L', 'P', 'T', 'J':
			s.n = p.nat()
		case 'F':
			s.self = p.peek() == '1'
			p.pos++
			s.caps = p.list()
		case 'C':
			s.caps = p.list()
		case 'c':
			s.k = 'C'
			s.nestK = true
			s.caps = p.list()
		case 'A':
			s.n = p.nat()
			p.expect('=')
			s.m = p.nat()
		case 'U', 'B', 'X':
		case 'D', 'W', 'N':
			s.a = p.block()
		case 'I':
			s.a = p.block()
			s.b = p.block()
		case 'R':
			s.a = p.block()
			s.caps = p.list()
		case 'G':
			s.n = p.nat()
			s.a = p.block()
		default:
			p.err = true
		}
		out = append(out, s)
	}
	return out
}

func clcParse(s string) ([]clcStmt, bool) {
	p := &clcParser{s: s}
	ss := p.stmts()
	return ss, !p.err && p.pos == len(s)
}

func execCloseCC(op Op) []string {
	// Args: cc nparams program
	np := atoi(op.Args[1])
	prog := ""
	if len(op.Args) > 2 {
		prog = op.Args[2]
	}
	if prog == "-" {
		prog = ""
	}
	ss, ok := clcParse(prog)
	if !ok {
		return []string{"X bad-program => " + prog}
	}
	src := clcSource(np, ss)
	reply := clcCompile(np, src)
	if strings.HasPrefix(reply, "SYNTAX:") {
		return []string{"X render => " + reply + " " + hexs(src)}
	}
	if prog == "" {
		prog = "-"
	}
	line := fmt.Sprintf("C03M cc %d %s => %s", np, prog, reply)
	if d := os.Getenv("C03M_CCDUMP"); d != "" {
		if f, err := os.OpenFile(d, os.O_APPEND|os.O_CREATE|os.O_WRONLY, 0o644); err == nil {
			fmt.Fprintf(f, "%s\n-- %s\n", line, strings.ReplaceAll(src, "\n", "\n-- "))
			f.Close()
		}
	}
	return []string{line}
}
