package main

// C03M — mechanism part of C03: the open-upvalue list and the upvalue / environment opcodes.
//
//  (1) operation sequences replayed on the REAL structure through the hook VerifUpvalMachine
//      (findUpvalue, closeUpvalues, Upvalue.Value/SetValue, registry.Set, and the jumpTable handlers of
//      OP_CLOSURE / OP_GETUPVAL / OP_SETUPVAL / OP_CLOSE / OP_GETGLOBAL / OP_SETGLOBAL) and on the Lean
//      Model (exact) and — for traces in the alphabet of Spec/Cells while they respect the Discipline —
//      on the cell semantics;
//  (2) a monitor over real program runs: hand-written corpus programs (corpus/C03M/*.lua) and generated
//      capture × exit × reuse programs call the host function probe(), which records VerifSnapshot() +
//      VerifFrames(); the Lean engine judges every snapshot against the runtime image of the invariant
//      (strictly sorted, nothing closed in the list, every index below top and inside a live Lua frame;
//      empty after the main chunk ended / a coroutine died).  The observable outcome of the same run is
//      judged by the reference semantics (engine S).

import (
	"encoding/hex"
	"fmt"
	"math"
	"os"
	"path/filepath"
	"sort"
	"strconv"
	"strings"
	"time"

	lua "github.com/yuin/gopher-lua"
)

func init() {
	props["C03M"] = runC03M
	replayExec["C03M"] = execC03M
}

// ---------- (1) operation sequences ----------

type uvWorld struct {
	L    *lua.LState
	m    *lua.VerifUpvalMachine
	rt   *RefTable
	envs []*lua.LTable
	caps []int // i-th capture -> upvalue handle
}

func (w *uvWorld) dec(tok string) lua.LValue {
	switch {
	case tok == "nil":
		return lua.LNil
	case tok == "T":
		return lua.LTrue
	case tok == "F":
		return lua.LFalse
	case tok[0] == 'i':
		f, _ := strconv.ParseFloat(tok[1:], 64)
		return lua.LNumber(f)
	case tok[0] == 'f':
		b, _ := strconv.ParseUint(tok[1:], 10, 64)
		return lua.LNumber(math.Float64frombits(b))
	case tok[0] == 's':
		b, _ := hex.DecodeString(tok[1:])
		return lua.LString(string(b))
	}
	panic("bad token " + tok)
}

func (w *uvWorld) open() string {
	hs := w.m.Open()
	if len(hs) == 0 {
		return "-"
	}
	parts := make([]string, len(hs))
	for i, h := range hs {
		parts[i] = fmt.Sprintf("%d:%d", h, w.m.UvIndex(h))
	}
	return strings.Join(parts, ",")
}

// smallest registry NewState accepts (smaller sizes fall back to the default)
const uvRegCap = 128

func atoi(s string) int { n, _ := strconv.Atoi(s); return n }

func execUvSeq(ops []Op) []string {
	var out []string
	var w *uvWorld
	emit := func(a []string, reply string) {
		l := "C03M " + strings.Join(a, " ")
		if reply != "" {
			l += " => " + reply
		}
		out = append(out, l)
	}
	stopped := false
	res := func(a []string, r string, perr string) {
		if perr != "" {
			r = "panic"
			stopped = true // the case ends at the first Go panic / raised error (the real state may be half-updated)
		}
		emit(a, r+" "+w.open())
	}
	for _, op := range ops {
		if stopped {
			break
		}
		a := op.Args
		if a[0] == "new" {
			if w != nil {
				w.L.Close()
			}
			n := atoi(a[1])
			L := lua.NewState(lua.Options{SkipOpenLibs: true, RegistrySize: uvRegCap, RegistryMaxSize: uvRegCap, CallStackSize: 8})
			w = &uvWorld{L: L, rt: NewRefTable()}
			w.m = lua.VerifNewUpvalMachine(L, n)
			w.envs = []*lua.LTable{L.NewTable()}
			w.m.NewRootFunction(w.envs[0])
			emit([]string{"new", a[1], strconv.Itoa(L.VerifSnapshot().RegCap)}, "")
			continue
		}
		if w == nil {
			continue // (shrunk case without its `new`)
		}
		switch a[0] {
		case "declare", "write":
			res(a, "-", w.m.RegSet(atoi(a[1]), w.dec(a[2])))
		case "read", "regget":
			v, p := w.m.RegGet(atoi(a[1]))
			res(a, encVal(v, w.rt), p)
		case "capture":
			h, p := w.m.Find(atoi(a[1]))
			if p == "" {
				w.caps = append(w.caps, h)
			}
			res(a, "-", p)
		case "close", "closefrom":
			res(a, "-", w.m.CloseFrom(atoi(a[1])))
		case "closev":
			res(a, "-", w.m.OpClose(0, atoi(a[1]), atoi(a[2])))
		case "uvread":
			i := atoi(a[1])
			if i >= len(w.caps) {
				emit(a, "err:no_such_capture")
				continue
			}
			v, p := w.m.UvValue(w.caps[i])
			res(a, encVal(v, w.rt), p)
		case "uvwrite":
			i := atoi(a[1])
			if i >= len(w.caps) {
				emit(a, "err:no_such_capture")
				continue
			}
			res(a, "-", w.m.UvSetValue(w.caps[i], w.dec(a[2])))
		case "find":
			h, p := w.m.Find(atoi(a[1]))
			res(a, "h"+strconv.Itoa(h), p)
		case "uvget":
			v, p := w.m.UvValue(atoi(a[1]))
			res(a, encVal(v, w.rt), p)
		case "uvset":
			res(a, "-", w.m.UvSetValue(atoi(a[1]), w.dec(a[2])))
		case "isclosed":
			r, p := "F", ""
			func() {
				defer func() {
					if e := recover(); e != nil {
						p = fmt.Sprint(e)
					}
				}()
				if w.m.UvIsClosed(atoi(a[1])) {
					r = "T"
				}
			}()
			res(a, r, p)
		case "regset":
			res(a, "-", w.m.RegSet(atoi(a[1]), w.dec(a[2])))
		case "closure":
			var caps []int
			if a[4] != "-" {
				for _, c := range strings.Split(a[4], ",") {
					switch c[0] {
					case 'm':
						caps = append(caps, atoi(c[1:]))
					case 'u':
						caps = append(caps, -1-atoi(c[1:]))
					}
				}
			}
			fn, p := w.m.OpClosure(atoi(a[1]), atoi(a[2]), atoi(a[3]), caps)
			if p != "" {
				res(a, "panic", p)
				continue
			}
			v, _ := w.m.RegGet(atoi(a[2]) + atoi(a[3]))
			w.rt.Bind(v, 2000+fn)
			var hs []string
			for _, h := range w.m.FnUpvalues(fn) {
				if h < 0 {
					hs = append(hs, "nil")
				} else {
					hs = append(hs, strconv.Itoa(h))
				}
			}
			us := "-"
			if len(hs) > 0 {
				us = strings.Join(hs, ",")
			}
			res(a, fmt.Sprintf("f%d:%s:e%d", fn, us, w.envID(w.m.FnEnv(fn))), "")
		case "getupval":
			res(a, "-", w.m.OpGetUpval(atoi(a[1]), atoi(a[2]), atoi(a[3]), atoi(a[4])))
		case "setupval":
			res(a, "-", w.m.OpSetUpval(atoi(a[1]), atoi(a[2]), atoi(a[3]), atoi(a[4])))
		case "vmclose":
			res(a, "-", w.m.OpClose(atoi(a[1]), atoi(a[2]), atoi(a[3])))
		case "getglobal":
			res(a, "-", w.m.OpGetGlobal(atoi(a[1]), atoi(a[2]), atoi(a[3]), a[4]))
		case "setglobal":
			res(a, "-", w.m.OpSetGlobal(atoi(a[1]), atoi(a[2]), atoi(a[3]), a[4]))
		case "newenv":
			w.envs = append(w.envs, w.L.NewTable())
			emit(a, "e"+strconv.Itoa(len(w.envs)-1))
		case "setfenv":
			p := w.m.SetFnEnv(atoi(a[1]), w.envs[atoi(a[2])])
			r := "-"
			if p != "" {
				r = "panic"
			}
			emit(a, r)
		case "getfenv":
			emit(a, "e"+strconv.Itoa(w.envID(w.m.FnEnv(atoi(a[1])))))
		case "envset":
			w.envs[atoi(a[1])].RawSetString(a[2], w.dec(a[3]))
			emit(a, "-")
		case "envget":
			emit(a, encVal(w.envs[atoi(a[1])].RawGetString(a[2]), w.rt))
		}
	}
	if w != nil {
		w.L.Close()
	}
	return out
}

func (w *uvWorld) envID(t *lua.LTable) int {
	for i, e := range w.envs {
		if e == t {
			return i
		}
	}
	return 999
}

var uvVals = []string{"nil", "T", "F", "i0", "i1", "i7", "i42", "i-3", "s61", "s", "f4609434218613702656"}

// disciplined traces over the alphabet of Spec/Cells (≈ 88 % disciplined steps, the rest leave the Discipline
// on purpose: re-declaration of a captured live slot, access to a dead slot)
func genCellsCase(r *Rng, maxOps int) []Op {
	n := r.Range(2, 12)
	ops := []Op{{Args: []string{"new", strconv.Itoa(n)}}}
	live := make([]bool, n)     // slot names a live variable
	captured := make([]bool, n) // … that has been captured since its declaration
	ncaps := 0
	k := r.Range(3, maxOps)
	val := func() string { return Pick(r, uvVals) }
	for i := 0; i < k; i++ {
		slot := r.Intn(n)
		undisciplined := r.Chance(4)
		switch c := r.Intn(100); {
		case c < 22: // declare
			if !undisciplined {
				// a slot that is dead or not captured
				for t := 0; t < 8 && live[slot] && captured[slot]; t++ {
					slot = r.Intn(n)
				}
				if live[slot] && captured[slot] {
					continue
				}
			}
			live[slot], captured[slot] = true, false
			ops = append(ops, Op{Args: []string{"declare", strconv.Itoa(slot), val()}})
		case c < 36: // write
			if !undisciplined && !live[slot] {
				continue
			}
			ops = append(ops, Op{Args: []string{"write", strconv.Itoa(slot), val()}})
		case c < 50:
			if !undisciplined && !live[slot] {
				continue
			}
			ops = append(ops, Op{Args: []string{"read", strconv.Itoa(slot)}})
		case c < 68:
			if !undisciplined && !live[slot] {
				continue
			}
			captured[slot] = true
			ncaps++
			ops = append(ops, Op{Args: []string{"capture", strconv.Itoa(slot)}})
		case c < 78: // close ≥ k (boundary-heavy: 0, n, a live slot, slot+1)
			kk := Pick(r, []int{0, n, slot, slot + 1, r.Intn(n + 1)})
			for j := kk; j < n; j++ {
				live[j], captured[j] = false, false
			}
			if r.Bool() {
				ops = append(ops, Op{Args: []string{"close", strconv.Itoa(kk)}})
			} else {
				lb := r.Intn(kk + 1)
				ops = append(ops, Op{Args: []string{"closev", strconv.Itoa(lb), strconv.Itoa(kk - lb)}})
			}
		case c < 90:
			if ncaps == 0 {
				continue
			}
			ops = append(ops, Op{Args: []string{"uvread", strconv.Itoa(r.Intn(ncaps))}})
		default:
			if ncaps == 0 {
				continue
			}
			ops = append(ops, Op{Args: []string{"uvwrite", strconv.Itoa(r.Intn(ncaps)), val()}})
		}
	}
	// read everything back at the end
	for i := 0; i < ncaps; i++ {
		ops = append(ops, Op{Args: []string{"uvread", strconv.Itoa(i)}})
	}
	return ops
}

// raw sequences on the list + the opcode handlers (Impl = Model only), incl. rare out-of-range accesses
func genRawCase(r *Rng, maxOps int) []Op {
	n := r.Range(3, 14)
	scratch := n - 1
	ops := []Op{{Args: []string{"new", strconv.Itoa(n)}}}
	nuv, nfn, nenv := 0, 1, 1
	fnUps := []int{0}
	names := []string{"x", "y", "print"}
	val := func() string { return Pick(r, uvVals) }
	k := r.Range(3, maxOps)
	for i := 0; i < k; i++ {
		idx := r.Intn(n)
		if r.Chance(2) {
			idx = uvRegCap + r.Intn(3) // out of the allocated array: Value()/findUpvalue on it panics later
		}
		switch c := r.Intn(100); {
		case c < 14:
			ops = append(ops, Op{Args: []string{"find", strconv.Itoa(idx)}})
			nuv++
		case c < 24:
			ops = append(ops, Op{Args: []string{"closefrom", strconv.Itoa(Pick(r, []int{0, idx, idx + 1, n}))}})
		case c < 32:
			lb := r.Intn(idx + 1)
			ops = append(ops, Op{Args: []string{"vmclose", strconv.Itoa(r.Intn(nfn)), strconv.Itoa(lb), strconv.Itoa(idx - lb)}})
		case c < 42:
			if nuv > 0 {
				ops = append(ops, Op{Args: []string{"uvget", strconv.Itoa(r.Intn(nuv))}})
			}
		case c < 50:
			if nuv > 0 {
				ops = append(ops, Op{Args: []string{"uvset", strconv.Itoa(r.Intn(nuv)), val()}})
			}
		case c < 55:
			if nuv > 0 {
				ops = append(ops, Op{Args: []string{"isclosed", strconv.Itoa(r.Intn(nuv))}})
			}
		case c < 63:
			if idx < n {
				ops = append(ops, Op{Args: []string{"regset", strconv.Itoa(idx), val()}})
			}
		case c < 68:
			ops = append(ops, Op{Args: []string{"regget", strconv.Itoa(idx)}})
		case c < 80: // closure with a capture list
			cur := r.Intn(nfn)
			lb := r.Intn(n)
			ncap := r.Intn(4)
			var caps []string
			for j := 0; j < ncap; j++ {
				if fnUps[cur] > 0 && r.Chance(40) {
					caps = append(caps, "u"+strconv.Itoa(r.Intn(fnUps[cur])))
				} else if lb < n {
					caps = append(caps, "m"+strconv.Itoa(r.Intn(n-lb)))
				}
			}
			cs := "-"
			if len(caps) > 0 {
				cs = strings.Join(caps, ",")
			}
			ops = append(ops, Op{Args: []string{"closure", strconv.Itoa(cur), strconv.Itoa(lb), strconv.Itoa(scratch - lb), cs}})
			for _, c := range caps {
				if c[0] == 'm' {
					nuv++ // upper bound on the number of handles; harmless when the upvalue was shared
				}
			}
			fnUps = append(fnUps, len(caps))
			nfn++
		case c < 86:
			cur := r.Intn(nfn)
			if fnUps[cur] > 0 {
				lb := r.Intn(n)
				ops = append(ops, Op{Args: []string{Pick(r, []string{"getupval", "setupval"}), strconv.Itoa(cur), strconv.Itoa(lb), strconv.Itoa(r.Intn(n - lb)), strconv.Itoa(r.Intn(fnUps[cur]))}})
			}
		case c < 89:
			ops = append(ops, Op{Args: []string{"newenv"}})
			nenv++
		case c < 92:
			ops = append(ops, Op{Args: []string{"setfenv", strconv.Itoa(r.Intn(nfn)), strconv.Itoa(r.Intn(nenv))}})
		case c < 94:
			ops = append(ops, Op{Args: []string{"getfenv", strconv.Itoa(r.Intn(nfn))}})
		case c < 96:
			ops = append(ops, Op{Args: []string{"envset", strconv.Itoa(r.Intn(nenv)), Pick(r, names), val()}})
		case c < 98:
			lb := r.Intn(n)
			ops = append(ops, Op{Args: []string{Pick(r, []string{"getglobal", "setglobal"}), strconv.Itoa(r.Intn(nfn)), strconv.Itoa(lb), strconv.Itoa(r.Intn(n - lb)), Pick(r, names)}})
		default:
			ops = append(ops, Op{Args: []string{"envget", strconv.Itoa(r.Intn(nenv)), Pick(r, names)}})
		}
	}
	return ops
}

// ---------- (2) monitor over real program runs ----------

const probePrelude = "probe = probe or function() end "

func snapLine(kind string, L *lua.LState) string {
	s := L.VerifSnapshot()
	var fr, op, cl []string
	for _, f := range L.VerifFrames() {
		if !f.IsG {
			fr = append(fr, fmt.Sprintf("%d:%d", f.LocalBase, f.NumRegs))
		}
	}
	for i, x := range s.OpenUpvalues {
		op = append(op, strconv.Itoa(x))
		if s.OpenClosed[i] {
			cl = append(cl, "1")
		} else {
			cl = append(cl, "0")
		}
	}
	j := func(l []string) string {
		if len(l) == 0 {
			return "-"
		}
		return strings.Join(l, ",")
	}
	return fmt.Sprintf("C03M snap %s %d %s %s %s", kind, s.Top, j(fr), j(op), j(cl))
}

// runMonitored runs src with probe() installed; returns the snapshot lines and the outcome.
func runMonitored(src string) ([]string, LuaOutcome) {
	var snaps []string
	var mainL *lua.LState
	threads := []*lua.LState{}
	seen := map[*lua.LState]bool{}
	o := runLuaPost(src, 5*time.Second, func(L *lua.LState) {
		mainL = L
		seen[L] = true
		L.SetGlobal("probe", L.NewFunction(func(T *lua.LState) int {
			if !seen[T] {
				seen[T] = true
				threads = append(threads, T)
			}
			if len(snaps) < 400 {
				snaps = append(snaps, snapLine("probe", T))
				if T != mainL {
					// the resumer's list must be intact while a coroutine runs
					snaps = append(snaps, snapLine("susp", mainL))
				}
			}
			return 0
		}))
	}, func(L *lua.LState) {
		snaps = append(snaps, snapLine("final", mainL))
		for _, T := range threads {
			if T.VerifSnapshot().Dead {
				snaps = append(snaps, snapLine("dead", T))
			} else {
				snaps = append(snaps, snapLine("susp", T))
			}
		}
	})
	return snaps, o
}

func execC03Prog(op Op) []string {
	idx := atoi(op.Args[1])
	pc := getProg(idx)
	snaps, o := runMonitored(pc.Src)
	out := []string{"C03M src " + hexs(pc.Src)}
	if o.Err == "gopanic" || o.Err == "timeout" || o.Err == "syntax" {
		return append(out, fmt.Sprintf("X %s => %s", o.Err, strings.ReplaceAll(o.Msg, "\n", " ")))
	}
	out = append(out, snaps...)
	if i := strings.Index(pc.Src, "--expect: "); i >= 0 {
		// golden outcome of a hand-checked corpus program (used where Spec/Sem leaves the fragment, e.g. getfenv/setfenv levels >= 2)
		exp := pc.Src[i+len("--expect: "):]
		if j := strings.Index(exp, "\n"); j >= 0 {
			exp = exp[:j]
		}
		out = append(out, "C03M golden "+strings.Join(strings.Fields(exp), "|")+" => "+strings.Join(outcomeTokens(o, nil), "|"))
	}
	out = append(out, "S run 400000 - "+pc.Sexp+" => "+strings.Join(outcomeTokens(o, nil), " "))
	return out
}

func execC03M(ops []Op) []string {
	if len(ops) > 0 && ops[0].Args[0] == "prog" {
		var out []string
		for _, op := range ops {
			out = append(out, execC03Prog(op)...)
		}
		return out
	}
	if len(ops) > 0 && ops[0].Args[0] == "cc" {
		var out []string
		for _, op := range ops {
			out = append(out, execCloseCC(op)...)
		}
		return out
	}
	if len(ops) > 0 && ops[0].Args[0] == "src" { // replay of a program case: the source travels in the first request
		b, _ := hex.DecodeString(ops[0].Args[1])
		sx, err := LuaToSexp(string(b))
		if err != nil {
			return []string{"X syntax => " + err.Error()}
		}
		return execC03Prog(Op{Args: []string{"prog", strconv.Itoa(storeProg(ProgCase{Src: string(b), Sexp: sx}))}})
	}
	return execUvSeq(ops)
}

// ----- generated programs: capture × exit × reuse -----

type progShape struct {
	scope, exit, invoke, errKind string
	pad1, pad2                   int
	nested, setter, param, inner bool
	resumes                      int
}

func (s progShape) key() string {
	return fmt.Sprintf("%s/%s/%s/%s/%d%d/%v%v%v%v/%d", s.scope, s.exit, s.invoke, s.errKind, s.pad1, s.pad2, s.nested, s.setter, s.param, s.inner, s.resumes)
}

func genShape(r *Rng) progShape {
	s := progShape{
		scope:   Pick(r, []string{"do", "fornum", "while", "repeat", "forin", "fornum", "while", "gotoloop"}),
		exit:    Pick(r, []string{"fall", "break", "gotoout", "gotocont", "return", "tailcall", "tailhost", "error", "error", "error", "yield"}),
		invoke:  Pick(r, []string{"direct", "pcall", "xpcall", "pcall_in_xpcall", "xpcall_in_pcall", "co", "co", "wrap", "pcall_then_error"}),
		errKind: Pick(r, []string{"str", "tbl", "rt", "nilerr"}),
		pad1:    r.Intn(4), pad2: r.Intn(3),
		nested: r.Chance(40), setter: r.Chance(60), param: r.Chance(40), inner: r.Chance(35),
		resumes: r.Range(1, 4),
	}
	if s.scope == "do" && (s.exit == "break" || s.exit == "gotocont") {
		s.exit = "gotoout"
	}
	if s.scope == "gotoloop" {
		s.inner = false
		if s.exit == "break" || s.exit == "gotocont" {
			s.exit = "gotoout"
		}
	}
	if s.scope == "repeat" && s.exit == "gotocont" {
		s.exit = "break"
	}
	if s.exit == "yield" && s.invoke != "co" && s.invoke != "wrap" {
		s.invoke = "co"
	}
	if s.exit == "error" && s.invoke == "direct" {
		s.invoke = "pcall"
	}
	return s
}

// renderScenario emits the function s<k> and its invocation.
func renderScenario(b *strings.Builder, k int, s progShape, r *Rng) {
	w := func(f string, a ...interface{}) { fmt.Fprintf(b, f+"\n", a...) }
	fn := fmt.Sprintf("s%d", k)
	w("local function %s(a1)", fn)
	for i := 0; i < s.pad1; i++ {
		w("  local p%d = %d", i, 500+i)
	}
	w("  local outer = %d", 10*k)
	if s.param {
		w("  K[#K+1] = function() a1 = a1 + 1 return a1 + outer end")
	} else {
		w("  K[#K+1] = function() return outer end")
	}
	switch s.scope {
	case "do":
		w("  do local i = 2")
	case "fornum":
		w("  for i = 1, 3 do")
	case "while":
		w("  local i = 0")
		w("  while i < 3 do i = i + 1")
	case "repeat":
		w("  local i = 0")
		w("  repeat i = i + 1")
	case "forin":
		w("  for i, v0 in ipairs({7, 8, 9}) do")
	case "gotoloop":
		// (own block: no local of it is captured before the first backward goto is compiled)
		w("  do local i = 0 local once = true")
		w("  ::top::")
	}
	if s.inner {
		// the captured locals live in a block nested inside the loop body; the exit statement leaves both
		w("    do")
	}
	for i := 0; i < s.pad2; i++ {
		w("    local q%d = %d", i, 600+i)
	}
	w("    local x = i * 10 + %d", k)
	w("    local y = x + 1")
	if s.scope == "gotoloop" {
		// a loop made of labels: the first backward goto is compiled before the closures below capture x and y
		w("    ::mid::")
		w("    i = i + 1")
		w("    if i == 2 and once then once = false goto top end")
	}
	w("    K[#K+1] = function() x = x + 1 return x end")
	w("    K[#K+1] = function() return x + y + outer end")
	if s.setter {
		w("    S[#S+1] = function(v) x = v y = v outer = outer + 1 end")
	}
	if s.nested {
		w("    K[#K+1] = (function() local z = x return function() z = z + x return z end end)()")
	}
	w("    probe()")
	cond := "i == 2"
	if s.scope == "gotoloop" {
		cond = "i == 3"
	}
	switch s.exit {
	case "fall":
	case "break":
		w("    if %s then break end", cond)
	case "gotoout":
		w("    if %s then goto out end", cond)
	case "gotocont":
		w("    if %s then goto cont end", cond)
		w("    outer = outer + 1")
	case "return":
		w("    if %s then return x end", cond)
	case "tailcall":
		w("    if %s then return ident(x, function() return y end) end", cond)
	case "tailhost":
		w("    if %s then return hostid(x) end", cond)
	case "error":
		switch s.errKind {
		case "str":
			w("    if %s then error(\"boom\") end", cond)
		case "tbl":
			w("    if %s then error({code = x}) end", cond)
		case "nilerr":
			w("    if %s then error() end", cond)
		default:
			w("    if %s then local t = nil; t.f = x end", cond)
		}
	case "yield":
		w("    local got = coroutine.yield(x)")
		w("    if got then x = x + got end")
	}
	if s.inner {
		w("    end")
	}
	if s.exit == "gotocont" {
		w("    ::cont::")
	}
	switch s.scope {
	case "repeat":
		w("  until i >= 3 or x < 0")
	case "gotoloop":
		w("    if i == 1 then goto mid end")
		w("    if i < 4 then goto top end")
		w("  end")
	default:
		w("  end")
	}
	if s.exit == "gotoout" {
		w("  ::out::")
	}
	w("  outer = outer + 100")
	w("  probe()")
	w("  return outer")
	w("end")
	// invocation
	switch s.invoke {
	case "direct":
		w("emit(\"r\", %s(%d))", fn, k)
	case "pcall":
		w("do local ok, e = pcall(%s, %d) probe() emit(\"p\", ok, type(e)) end", fn, k)
	case "xpcall":
		w("do local ok, e = xpcall(function() return %s(%d) end, handler) probe() emit(\"x\", ok, type(e)) end", fn, k)
	case "pcall_in_xpcall":
		w("do local ok, e = xpcall(function() local a, b = pcall(%s, %d) probe() mv = mv + 1 error(\"after\") end, handler) probe() emit(\"px\", ok, type(e)) end", fn, k)
	case "xpcall_in_pcall":
		w("do local ok, e = pcall(function() local a, b = xpcall(function() return %s(%d) end, handler) probe() mv = mv + 1 error({}) end) probe() emit(\"xp\", ok, type(e)) end", fn, k)
	case "pcall_then_error":
		w("do local ok, e = pcall(function() local r = %s(%d) local t = nil; t.x = r end) probe() emit(\"pe\", ok, type(e)) end", fn, k)
	case "co":
		w("local co%d = coroutine.create(%s)", k, fn)
		for i := 0; i < s.resumes; i++ {
			w("do local ok, v = coroutine.resume(co%d, %d) probe() emit(\"co\", ok, type(v), coroutine.status(co%d)) end", k, i+1, k)
			if i == 0 {
				w("mv = mv + 1 clobber(%d) use()", k)
			}
		}
	case "wrap":
		w("local w%d = coroutine.wrap(%s)", k, fn)
		for i := 0; i < s.resumes; i++ {
			w("do local ok, v = pcall(w%d, %d) probe() emit(\"w\", ok, type(v)) end", k, i+1)
		}
	}
	w("mv = mv + 1")
	w("clobber(%d)", k+r.Intn(3))
	w("use()")
}

func genProgram(r *Rng) (string, string) {
	var b strings.Builder
	b.WriteString(probePrelude + "\n")
	b.WriteString(`K = {} S = {}
local mv = 1
K[1] = function() return mv end
local hc = 0
local function handler(e) local he = hc hc = hc + 1 K[#K+1] = function() he = he + 1 return he + hc end probe() return "H" end
function ident(...) return ... end
function clobber(n)
  local a, b, c, d, e, f, g, h, i, j, k, l = 901, 902, 903, 904, 905, 906, 907, 908, 909, 910, 911, 912
  if n > 0 then return clobber(n - 1) + a end
  return ident(a, b, c, d, e, f, g, h, i, j, k, l)
end
local used = 0
local function use()
  local j1, j2, j3, j4, j5, j6 = 801, 802, 803, 804, 805, 806
  for i = used + 1, #S do S[i](i) end
  for i = 1, #K do emit(i, K[i]()) end
  used = #S
  probe()
end
`)
	n := r.Range(1, 3)
	var keys []string
	for k := 1; k <= n; k++ {
		s := genShape(r)
		keys = append(keys, s.key())
		renderScenario(&b, k, s, r)
	}
	b.WriteString("use() emit(mv, hc)\n")
	return b.String(), strings.Join(keys, "+")
}

// corpus/C03M/*.cc: one `nparams program` per line (# comments)
func loadCCCorpus() [][]string {
	files, _ := filepath.Glob(filepath.Join(verifRoot(), "corpus", "C03M", "*.cc"))
	sort.Strings(files)
	var out [][]string
	for _, f := range files {
		b, err := os.ReadFile(f)
		if err != nil {
			continue
		}
		for _, line := range strings.Split(string(b), "\n") {
			fs := strings.Fields(line)
			if len(fs) == 2 && !strings.HasPrefix(fs[0], "#") {
				out = append(out, []string{"cc", fs[0], fs[1]})
			}
		}
	}
	return out
}

func loadLuaCorpus(prop string) []string {
	files, _ := filepath.Glob(filepath.Join(verifRoot(), "corpus", prop, "*.lua"))
	sort.Strings(files)
	return files
}

func runC03M(run *Run) {
	if !replayMode.on || wholeRun {
		for _, line := range c03ThreadEnv() {
			run.Failures = append(run.Failures, Failure{CaseIdx: -9060, Kind: "CRASH", Line: line, Reply: line, Lines: []string{line}})
		}
		run.Extra["thread_environment_programs"] = len(c03ThreadEnvProgs)
	}
	nCells, nRaw, nProg, maxOps := 6000, 4000, 1200, 40
	if run.Tier == "thorough" {
		nCells, nRaw, nProg, maxOps = 60000, 40000, 6000, 90
	}
	run.Rule = "(1) operation sequences on the real open-upvalue list and opcode handlers via the hook VerifUpvalMachine: traces over the Spec/Cells alphabet (declare/write/read/capture/close>=k/uvread/uvwrite, ~96% disciplined steps, boundary-heavy close levels) replayed on the Lean Model (exact, incl. the chain after every step) and on the cell semantics while disciplined; raw find/close/Value/SetValue/OP_CLOSURE capture lists/OP_GETUPVAL/OP_SETUPVAL/OP_CLOSE/OP_GETGLOBAL/OP_SETGLOBAL/setfenv sequences incl. out-of-range indices (Model only). (2) monitor: corpus/C03M/*.lua + generated capture x exit x reuse programs; every probe() snapshot judged by the Lean image of the invariant, outcome judged by Spec/Sem. (3) compile side (request cc): generated programs of the abstract scoping language of Model/CloseCompile.lean (blocks, locals, closures capturing chosen visible locals, while/repeat with capturing until/numeric for/generic for, break, labels and gotos: continue-style, behind compound statements, backward, junk targets; return) rendered to Lua, compiled by the real parse.Parse+lua.Compile and reduced to the skeleton CLOSE a / JMP target / FORPREP / FORLOOP / TFORLOOP / RETURN / CLOSURE capture list / NOP; compared token by token with the Lean compile model (compileFunction, finalize, assemble), whose output is also decided by the proved-sound certificate checker closeDiscipline (a TEST for programs with labels/gotos; goto-free programs are covered by theorem compile_establishes_discipline_partial). distinct = distinct op-kind skeletons (sequences) / distinct shape keys (programs) / distinct statement-kind skeletons (cc)"
	run.Assume = []string{
		"the `next` chain of the open list is modelled as a Lean list of handles (acyclic by construction; the hook walks the real chain on every step)",
		"Go nil above registry top and LNil are one value in the model; the sequences initialise every register they use",
		"registry growth is outside this model (Model/Registry); sequences stay inside the allocated array",
		"OP_RETURN / OP_TAILCALL / PCall recovery / threadRun closing are tied through monitored program runs, not single-stepped",
		"S-expressions of monitored programs come from gopher-lua's own parser (the property is not about parsing)",
		"compile side: one activation with LocalBase 0; expressions are opaque; variables are identified with their registers (the renderer gives every declaration a unique name); the ghost certificate (label types, goto states) is produced by the model, checked by closeDiscipline, never compared with the implementation",
	}
	root := NewRng(uint64(run.Seed))
	var cases []Case
	onlyCC := os.Getenv("C03M_ONLY") == "cc" // developer switch: only the compile-side part (3)
	if onlyCC {
		nCells, nRaw, nProg = 0, 0, 0
	}
	for i, c := range loadCorpus("C03M") {
		if onlyCC {
			break
		}
		cases = append(cases, Case{Idx: -1 - i, Ops: c, Note: "corpus"})
	}
	for i := 0; i < nCells; i++ {
		cases = append(cases, Case{Idx: i, Ops: genCellsCase(root.Fork(uint64(i)), maxOps)})
	}
	for i := 0; i < nRaw; i++ {
		cases = append(cases, Case{Idx: 1000000 + i, Ops: genRawCase(root.Fork(uint64(1000000+i)), maxOps)})
	}
	runCases(run, cases, execC03M, classifyNone)

	// programs
	cases = nil
	shapes := map[string]bool{}
	for i, f := range loadLuaCorpus("C03M") {
		if onlyCC {
			break
		}
		b, err := os.ReadFile(f)
		if err != nil {
			continue
		}
		src := probePrelude + string(b)
		sx, err := LuaToSexp(src)
		if err != nil {
			run.Failures = append(run.Failures, Failure{CaseIdx: -5000 - i, Kind: "HARNESS", Reply: "corpus program does not parse: " + f + ": " + err.Error()})
			continue
		}
		shapes["corpus:"+filepath.Base(f)] = true
		cases = append(cases, Case{Idx: 2000000 + i, Ops: []Op{{Args: []string{"prog", strconv.Itoa(storeProg(ProgCase{Src: src, Sexp: sx, Note: f}))}}}})
	}
	for i := 0; i < nProg; i++ {
		src, key := genProgram(root.Fork(uint64(3000000 + i)))
		if d := os.Getenv("C03M_DUMP"); d != "" && i < 40 {
			os.WriteFile(filepath.Join(d, fmt.Sprintf("gen_%d.lua", i)), []byte(src), 0o644)
		}
		sx, err := LuaToSexp(src)
		if err != nil {
			run.Failures = append(run.Failures, Failure{CaseIdx: 3000000 + i, Kind: "HARNESS", Reply: "generated program does not parse: " + err.Error()})
			continue
		}
		shapes[key] = true
		cases = append(cases, Case{Idx: 3000000 + i, Ops: []Op{{Args: []string{"prog", strconv.Itoa(storeProg(ProgCase{Src: src, Sexp: sx}))}}}})
	}
	before := run.Evals
	runCases(run, cases, execC03M, classifyNone)
	for k := range shapes {
		run.Distinct["prog:"+k] = true
	}
	nmon := len(cases)

	// (3) compile side: abstract scoping programs, real compiler vs compile model (c03_close.go)
	nCC := 2500
	if run.Tier == "thorough" {
		nCC = 40000
	}
	cases = nil
	ccShapes := map[string]bool{}
	for i, f := range loadCCCorpus() {
		cases = append(cases, Case{Idx: 5000000 + i, Ops: []Op{{Args: f}}, Note: "corpus"})
	}
	for i := 0; i < nCC; i++ {
		np, ss := genCloseProgram(root.Fork(uint64(6000000 + i)))
		prog := clcEncode(ss)
		if prog == "" {
			prog = "-"
		}
		ccShapes[clcKey(ss)] = true
		cases = append(cases, Case{Idx: 6000000 + i, Ops: []Op{{Args: []string{"cc", strconv.Itoa(np), prog}}}})
	}
	beforeCC := run.Evals
	runCases(run, cases, execC03M, classifyNone)
	for k := range ccShapes {
		run.Distinct["cc:"+k] = true
	}
	run.Extra["close_compile_programs"] = run.Evals - beforeCC
	run.Extra["close_compile_shapes"] = len(ccShapes)
	run.Extra["programs_monitored"] = nmon
	run.Extra["program_requests(snapshots+outcomes)"] = run.Evals - before
	run.Extra["program_shapes"] = len(shapes)
}

// runLuaPost is runLuaFull with a hook that runs after the chunk ended and before the state is closed.
func runLuaPost(src string, timeout time.Duration, setup func(L *lua.LState), post func(L *lua.LState)) (out LuaOutcome) {
	L := lua.NewState()
	defer L.Close()
	defer func() {
		if out.Err == "" || out.Err == "runtime" {
			post(L)
		}
	}()
	rt := NewRefTable()
	L.SetGlobal("emit", L.NewFunction(func(L *lua.LState) int {
		n := L.GetTop()
		parts := make([]string, n)
		for i := 1; i <= n; i++ {
			parts[i-1] = encVal(L.Get(i), rt)
		}
		out.Emits = append(out.Emits, strings.Join(parts, ","))
		return 0
	}))
	if setup != nil {
		setup(L)
	}
	ctx, cancel := newBudgetCtxWithBackstop(int64(timeout/time.Millisecond)*20000, 2*time.Minute)
	defer cancel()
	L.SetContext(ctx)
	defer func() {
		if r := recover(); r != nil {
			out.Err = "gopanic"
			out.Msg = fmt.Sprint(r)
		}
	}()
	fn, err := L.LoadString(src)
	if err != nil {
		out.Err, out.Msg = "syntax", err.Error()
		return
	}
	base := L.GetTop()
	L.Push(fn)
	L.SetGlobal("hostid", L.NewFunction(func(L *lua.LState) int { return L.GetTop() }))
	if err := L.PCall(0, lua.MultRet, nil); err != nil {
		out.Err, out.Msg = "runtime", err.Error()
		if ctx.Err() != nil {
			out.Err = "timeout"
			return
		}
		out.ErrTok = "-:s" + hexs(err.Error())
		if ae, ok := err.(*lua.ApiError); ok {
			if ae.Type == lua.ApiErrorPanic {
				out.Err = "gopanic"
				return
			}
			if s, ok := ae.Object.(lua.LString); ok {
				m := posRe.FindStringSubmatch(string(s))
				if m != nil {
					out.ErrTok = m[1] + ":s" + hexs(string(s)[len(m[0]):])
				} else {
					out.ErrTok = "-:s" + hexs(string(s))
				}
			} else if ae.Object != nil {
				out.ErrTok = "-:" + encVal(ae.Object, rt)
			}
		}
		return
	}
	for i := base + 1; i <= L.GetTop(); i++ {
		out.Results = append(out.Results, encVal(L.Get(i), rt))
	}
	return
}
