package main

// C03, environments of threads: a coroutine starts with the thread environment of the thread that CREATES it (lua_newthread
// copies the creator's global table), keeps it when the creator's is replaced later, and hands it on to coroutines it creates
// itself; chunks loaded inside a thread and getfenv(0) see that environment. Expected values by construction from the
// manual (§3.7 lua_newthread, §5.1 setfenv level 0); wave-6 seeded change C03-m11 gave every new thread the global table.

import (
	"fmt"
	"strings"

	lua "github.com/yuin/gopher-lua"
)

var c03ThreadEnvProgs = []struct{ src, want string }{
	{`local E = setmetatable({tag = 'E'}, {__index = _G})
setfenv(0, E)
local co = coroutine.create(function() return getfenv(0).tag, loadstring('return tag')() end)
return select(2, coroutine.resume(co))`, "E,E"},
	{`local E = setmetatable({tag = 'E'}, {__index = _G})
setfenv(0, E)
local f = coroutine.wrap(function() coroutine.yield(getfenv(0).tag) return loadstring('return tag')() end)
return f(), f()`, "E,E"},
	{`tag = 'G'
local E = setmetatable({tag = 'E'}, {__index = _G})
local before = coroutine.create(function() return getfenv(0).tag end)
setfenv(0, E)
local after = coroutine.create(function() return getfenv(0).tag end)
return select(2, coroutine.resume(before)), select(2, coroutine.resume(after))`, "G,E"},
	{`tag = 'G'
local E = setmetatable({tag = 'E'}, {__index = _G})
local outer = coroutine.wrap(function()
  setfenv(0, E)                       -- the coroutine's own thread environment
  local inner = coroutine.wrap(function() return getfenv(0).tag, loadstring('return tag')() end)
  return inner()
end)
local a, b = outer()
return a, b, getfenv(0).tag`, "E,E,G"},
}

func c03ThreadEnv() []string {
	var bad []string
	for i, p := range c03ThreadEnvProgs {
		got := func() (res string) {
			defer func() {
				if r := recover(); r != nil {
					res = fmt.Sprint("GOPANIC ", r)
				}
			}()
			L := lua.NewState()
			defer L.Close()
			if err := L.DoString(p.src); err != nil {
				return "ERR " + strings.ReplaceAll(err.Error(), "\n", " ")
			}
			var parts []string
			for k := 1; k <= L.GetTop(); k++ {
				parts = append(parts, L.Get(k).String())
			}
			return strings.Join(parts, ",")
		}()
		if got != p.want {
			bad = append(bad, fmt.Sprintf("X thread-environment => program %d got=%s want=%s src=%q", i, strings.ReplaceAll(got, " ", "_"), p.want, p.src))
		}
	}
	return bad
}
