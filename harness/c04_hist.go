package main

// C04M — two bounded-exhaustive families of the mechanism tie (same request language, same Lean engine as
// c04_mech.go):
//
//  (4) handler LIFE CYCLES.  The property says the handler is chosen when the operation runs: whatever was done to
//      a metatable before (a handler installed, replaced, removed, looked up while absent, installed again; the
//      metatable detached, exchanged for another one and put back; unrelated keys added) the next operation must
//      see exactly the metatable's present content.  Every history of `histLen` steps over the five actions
//      I(nstall the next handler) R(emove) X(other metatable / back) Z(no metatable / back) N(ew unrelated key) is
//      run in a world where one metatable is shared by two tables, two userdata and all strings, with EVERY event
//      triggered after EVERY step (through register / constant / API / hook forms in rotation), handlers written
//      through the Go API, rawset, OP_SETTABLEKS, OP_SETTABLE, SetField and SetTable in rotation.  The Model and
//      the Spec have no memory: any cache in the implementation that survives one of the steps shows up as
//      Impl ≠ Model and as a Spec failure.
//
//  (5) METHOD-CALL syntax.  `recv:name(args)` (OP_SELF) is `recv.name(recv, args)` (OP_GETTABLEKS + call) for
//      every kind of receiver (strings, numbers, booleans, nil, functions, threads, channels with per-type
//      metatables, tables, userdata) and every shape of the `__index` path behind it: no metatable, a metatable
//      without `__index`, a function, a chain of 1..4 tables ending in nothing / a function / a metatable without
//      `__index`, the method stored at every link of the chain, as a function, a callable object or a
//      non-callable value; in call and tail position, with and without arguments, receiver in a register or a literal.

import (
	"fmt"
	"strconv"
)

var histEvents = []string{"__index", "__newindex", "__add", "__sub", "__mul", "__div", "__mod", "__pow", "__unm", "__len",
	"__concat", "__eq", "__lt", "__le", "__call", "__tostring", "__metatable"}

const histActions = 5 // I R X Z N

func histName(hist []int) string {
	s := ""
	for _, a := range hist {
		s += string("IRXZN"[a])
	}
	return s
}

func pickRot(i int, xs ...string) string { return xs[((i%len(xs))+len(xs))%len(xs)] }

// genHistoryCase: see (4).  `idx` only rotates the secondary dimensions (which events take part, which write path
// installs a handler, which execution mode triggers an event).
func genHistoryCase(idx int, hist []int) []Op {
	g := &metaGen{}
	g.add("fn", "1", "i42")
	g.add("fn", "2", "F")
	g.add("fn", "3", "i0")
	g.add("fn", "4", c04sx("R"))
	g.add("fn", "5", "i7")
	A, B, U, V, S := "t1", "t2", "u1", "u2", c04sx("abc")
	k := c04sx("k")
	g.add("tbl", "1")
	g.add("tbl", "2")
	g.add("ud", "1")
	g.add("ud", "2")
	g.add("tbl", "5") // the table-valued __index / __newindex target
	g.add("set", "5", k, "i99")
	g.add("tbl", "21") // the metatable whose history is played
	g.add("tbl", "22") // the other metatable: every event, its own handler
	for _, ev := range histEvents {
		if ev == "__metatable" {
			g.add("set", "22", c04sx(ev), c04sx("M2"))
		} else {
			g.add("set", "22", c04sx(ev), "g5")
		}
	}
	// which events take part in the history: all / the even ones (odd ones never present) / the odd ones (even
	// ones always present with a handler of their own) — so that e.g. `<=` also meets "no __le, __lt comes and goes"
	variant := idx % 3
	participates := func(p int) bool {
		return variant == 0 || variant == 1 && p%2 == 0 || variant == 2 && p%2 == 1
	}
	if variant == 2 {
		for p, ev := range histEvents {
			if p%2 == 0 {
				g.add("set", "21", c04sx(ev), "g4")
			}
		}
	}
	for _, o := range []string{A, B, U, V, S} {
		g.add("mt", o, "t21")
	}
	value := func(ev string, n int) string {
		switch n % 3 {
		case 0:
			return "g1"
		case 1:
			return "g2"
		}
		switch ev {
		case "__index", "__newindex":
			return "t5"
		case "__metatable":
			return c04sx("locked")
		}
		return "g3"
	}
	write := func(ev, val string, x int) {
		if x%3 != 0 {
			g.add("set", "21", c04sx(ev), val) // Go API RawSet
			return
		}
		switch (x / 3) % 5 {
		case 0:
			g.add("rawset", "lua", "t21", c04sx(ev), val)
		case 1:
			g.add("newindex", "luak", "t21", c04sx(ev), val) // mt.__ev = h
		case 2:
			g.add("newindex", "lua", "t21", c04sx(ev), val) // mt[k] = h
		case 3:
			g.add("newindex", "apif", "t21", c04sx(ev), val)
		default:
			g.add("newindex", "api", "t21", c04sx(ev), val)
		}
	}
	trigger := func(st int) {
		r := idx + st
		nk, mk := c04sx(fmt.Sprintf("n%d", st)), c04sx(fmt.Sprintf("m%d", st)) // keys absent so far
		g.add("index", pickRot(r, "luak", "lua", "apif", "api", "global"), A, k)
		g.add("index", pickRot(r+1, "lua", "luak", "api"), B, k)
		g.add("index", pickRot(r, "api", "luak", "lua", "apif"), U, k)
		g.add("index", "luak", S, k)
		g.add("self", pickRot(r, "lua", "tail", "dot", "dotr"), A, k)
		g.add("self", pickRot(r+1, "lua", "lit", "tail"), S, k, "i1")
		g.add("newindex", pickRot(r, "luak", "lua", "apif", "api", "global"), A, nk, "i5")
		g.add("newindex", pickRot(r+2, "lua", "luak", "api"), B, mk, "i5")
		g.add("newindex", pickRot(r+1, "apif", "lua", "luak"), U, nk, "i5")
		g.add("arith", "lua", "add", A, "i1")
		g.add("arith", "luakl", "sub", "i1", A)
		g.add("arith", "lua", "mul", A, B)
		g.add("arith", "hook", "div", U, "i2")
		g.add("arith", "luakr", "mod", A, "i2")
		g.add("arith", "lua", "pow", "i2", U)
		g.add("unm", "lua", pickRot(r, A, U))
		g.add("len", "lua", U)
		g.add("concat", pickRot(r, "lua", "hook", "api"), A, c04sx("x"))
		g.add("concat", "lua", c04sx("x"), U)
		g.add("eq", pickRot(r, "lua", "luane", "api"), A, B)
		g.add("eq", pickRot(r+1, "lua", "luane", "api"), U, V)
		g.add("lt", pickRot(r, "lua", "luagt", "luaif", "api"), A, B)
		g.add("lt", "lua", V, U)
		g.add("le", pickRot(r, "lua", "luage", "luaif"), A, B)
		g.add("le", "lua", V, U)
		g.add("call", pickRot(r, "lua", "luav", "tail", "api", "pcall"), A, "i1")
		g.add("call", pickRot(r+1, "lua", "tail", "iter"), U, "i1", "nil")
		g.add("tostring", pickRot(r, "lua", "api"), pickRot(r+1, A, U))
		g.add("getmt", pickRot(r, "lua", "api"), pickRot(r, A, U, B))
	}
	cur, nInst := "t21", 0
	for st, act := range hist {
		switch act {
		case 0: // I: install the next handler for every participating event (a replacement when one is present)
			for p, ev := range histEvents {
				if participates(p) {
					write(ev, value(ev, nInst), idx+st+p)
				}
			}
			nInst++
		case 1: // R: remove
			for p, ev := range histEvents {
				if participates(p) {
					write(ev, "nil", idx+st+p)
				}
			}
		case 2: // X: the first table and the first userdata get the other metatable / the original one back
			if cur == "t22" {
				cur = "t21"
			} else {
				cur = "t22"
			}
			g.add("mt", A, cur)
			g.add("mt", U, cur)
		case 3: // Z: … lose their metatable / get the original one back
			if cur == "nil" {
				cur = "t21"
			} else {
				cur = "nil"
			}
			g.add("mt", A, cur)
			g.add("mt", U, cur)
		case 4: // N: a key that is no event appears in the metatable
			g.add("set", "21", c04sx(fmt.Sprintf("extra%d", st)), "i1")
		}
		trigger(st)
	}
	return g.ops
}

func enumHistories(n int) [][]int {
	total := 1
	for i := 0; i < n; i++ {
		total *= histActions
	}
	out := make([][]int, 0, total)
	for x := 0; x < total; x++ {
		h := make([]int, n)
		y := x
		for i := n - 1; i >= 0; i-- {
			h[i] = y % histActions
			y /= histActions
		}
		out = append(out, h)
	}
	return out
}

// ---------- method-call syntax ----------

var selfReceivers = []string{c04sx("abc"), c04sx("10"), "i5", "T", "nil", "t1", "u1", "g9", "h1", "c1"}

// genSelfCase: see (5).  The receiver's metatable is t20 {__index = t31}, link j (t30+j) has metatable t(20+j)
// {__index = t(31+j)}; `ending` says what the LAST object (the receiver itself when L = 0) has: 0 no metatable,
// 1 a metatable whose __index is a function delivering the method, 2 a metatable without __index.  `place` = the
// link that holds the method raw (-1 nowhere, 0 the receiver — tables only), `val` = what is stored there
// (0 a function, 1 a callable object, 2 a number).
func genSelfCase(recv string, L, ending, place, val int) []Op {
	g := &metaGen{}
	g.add("fn", "2", "i42")       // the method
	g.add("fn", "1", "g2")        // an __index function: delivers the method
	g.add("fn", "3", c04sx("M")) // __call of the callable object
	g.add("fn", "9", "nil")
	switch recv[0] {
	case 't':
		g.add("tbl", recv[1:])
	case 'u':
		g.add("ud", recv[1:])
	}
	g.add("tbl", "9")
	g.add("tbl", "19")
	g.add("set", "19", c04sx("__call"), "g3")
	g.add("mt", "t9", "t19")
	key := c04sx("k")
	obj := func(j int) string {
		if j == 0 {
			return recv
		}
		return "t" + strconv.Itoa(30+j)
	}
	mtid := func(j int) string { return strconv.Itoa(20 + j) }
	for j := 1; j <= L; j++ {
		g.add("tbl", strconv.Itoa(30+j))
	}
	for j := 0; j < L; j++ {
		g.add("tbl", mtid(j))
		g.add("set", mtid(j), c04sx("__index"), obj(j+1))
		g.add("mt", obj(j), "t"+mtid(j))
	}
	switch ending {
	case 1:
		g.add("tbl", mtid(L))
		g.add("set", mtid(L), c04sx("__index"), "g1")
		g.add("mt", obj(L), "t"+mtid(L))
	case 2:
		g.add("tbl", mtid(L))
		g.add("set", mtid(L), c04sx("__newindex"), "g1")
		g.add("mt", obj(L), "t"+mtid(L))
	}
	if place >= 0 {
		g.add("set", obj(place)[1:], key, []string{"g2", "t9", "i7"}[val])
	}
	for _, m := range []string{"lua", "tail", "lit", "dot", "dotr"} {
		g.add("self", m, recv, key)
	}
	g.add("self", "lua", recv, key, "i1")
	g.add("self", "tail", recv, key, "i1", "nil")
	g.add("self", "lit", recv, key, "F", "i2")
	g.add("self", "dot", recv, key, "i1")
	g.add("index", "luak", recv, key)
	g.add("index", "lua", recv, key)
	// a name that is stored nowhere: only an __index function can deliver it
	g.add("self", "lua", recv, c04sx("zz"))
	g.add("self", "dot", recv, c04sx("zz"))
	return g.ops
}

func enumSelfCases() [][]Op {
	var out [][]Op
	for _, recv := range selfReceivers {
		for L := 0; L <= 4; L++ {
			for ending := 0; ending <= 2; ending++ {
				places := []int{-1}
				if recv[0] == 't' {
					places = append(places, 0)
				}
				for j := 1; j <= L; j++ {
					places = append(places, j)
				}
				for _, place := range places {
					vals := []int{0}
					if place >= 0 && (place == L || place <= 1) {
						vals = []int{0, 1, 2}
					}
					for _, val := range vals {
						out = append(out, genSelfCase(recv, L, ending, place, val))
					}
				}
			}
		}
	}
	return out
}
