package main

// C04M — mechanism-level correspondence for C04 (metamethod selection).
// Operands (tables / userdata with metatables holding any subset of events, per-type metatables, chains) are
// built in Go; handlers are Go functions that log (handler id, arguments in order) and return distinctive
// values (first result + a second truthy result 777).  Every operation is executed on the REAL interpreter,
// through Lua chunks (register and constant operand forms), through the Go API (GetTable, SetTable, GetField,
// SetField, Equal, RawEqual, LessThan, Concat, ObjLen, CallByParam, ToStringMeta, Get/SetMetatable) and through
// the verif hooks (metatable, metaOp1, metaOp2, metaCall, objectArith, stringConcat).  The log + result is
// compared by the Lean engine `C04M` with the Model action (exact) and the Spec action (property).

import (
	"context"
	"encoding/hex"
	"fmt"
	"math"
	"os"
	"strconv"
	"strings"
	"time"

	lua "github.com/yuin/gopher-lua"
)

type metaWorld struct {
	L      *lua.LState
	objs   map[string]lua.LValue
	names  map[interface{}]string
	log    []string
	chunks map[string]*lua.LFunction
	fnRet  map[string]lua.LValue
	cancel context.CancelFunc
}

func newMetaWorld() *metaWorld {
	L := lua.NewState()
	ctx, cancel := hangCtx(20 * time.Second)
	L.SetContext(ctx)
	w := &metaWorld{L: L, objs: map[string]lua.LValue{}, names: map[interface{}]string{}, chunks: map[string]*lua.LFunction{},
		fnRet: map[string]lua.LValue{}, cancel: cancel}
	// the engine starts from a store without per-type metatables: drop the string library's metatable
	L.SetMetatable(lua.LString(""), lua.LNil)
	L.SetMetatable(lua.LChannel(nil), lua.LNil) // the channel library installs one for channels too
	return w
}

func (w *metaWorld) close() { w.cancel(); w.L.Close() }

func (w *metaWorld) bind(tok string, v lua.LValue) lua.LValue {
	w.objs[tok] = v
	w.names[v] = tok
	return v
}

func (w *metaWorld) dec(tok string) lua.LValue {
	switch {
	case tok == "nil":
		return lua.LNil
	case tok == "T":
		return lua.LTrue
	case tok == "F":
		return lua.LFalse
	case tok == "nan":
		return lua.LNumber(math.NaN())
	}
	if v, ok := w.objs[tok]; ok {
		return v
	}
	switch tok[0] {
	case 'i':
		f, _ := strconv.ParseFloat(tok[1:], 64)
		return lua.LNumber(f)
	case 'f':
		b, _ := strconv.ParseUint(tok[1:], 10, 64)
		return lua.LNumber(math.Float64frombits(b))
	case 's':
		b, _ := hex.DecodeString(tok[1:])
		return lua.LString(string(b))
	case 't':
		return w.bind(tok, w.L.NewTable())
	case 'u':
		return w.bind(tok, w.L.NewUserData())
	case 'h':
		th, _ := w.L.NewThread()
		return w.bind(tok, th)
	case 'c':
		return w.bind(tok, lua.LChannel(make(chan lua.LValue)))
	case 'g':
		return w.defFn(tok, lua.LNil)
	}
	panic("bad token " + tok)
}

// defFn: a handler logs "C <fn> <nargs> <args…>" and returns (ret, 777).
func (w *metaWorld) defFn(tok string, ret lua.LValue) lua.LValue {
	w.fnRet[tok] = ret
	if v, ok := w.objs[tok]; ok {
		return v
	}
	fn := w.L.NewFunction(func(L *lua.LState) int {
		n := L.GetTop()
		parts := []string{"C", tok, strconv.Itoa(n)}
		for i := 1; i <= n; i++ {
			parts = append(parts, w.enc(L.Get(i)))
		}
		w.log = append(w.log, strings.Join(parts, " "))
		L.Push(w.fnRet[tok])
		L.Push(lua.LNumber(777))
		return 2
	})
	// every second handler is a Lua closure around the Go logger, so that both kinds of callee (Go function /
	// Lua function — OP_CALL and OP_TAILCALL treat them on different paths) occur as handlers
	if id, _ := strconv.Atoi(tok[1:]); id%2 == 0 {
		w.L.Push(w.chunk("function(g) return function(...) return g(...) end end"))
		w.L.Push(fn)
		w.L.Call(1, 1)
		lf := w.L.Get(-1).(*lua.LFunction)
		w.L.Pop(1)
		return w.bind(tok, lf)
	}
	return w.bind(tok, fn)
}

func (w *metaWorld) enc(v lua.LValue) string {
	switch x := v.(type) {
	case *lua.LNilType:
		return "nil"
	case lua.LBool:
		if bool(x) {
			return "T"
		}
		return "F"
	case lua.LNumber:
		return encNum(float64(x))
	case lua.LString:
		return "s" + hex.EncodeToString([]byte(string(x)))
	case nil:
		return "GONIL"
	case lua.LChannel:
		for tok, o := range w.objs {
			if c, ok := o.(lua.LChannel); ok && c == x {
				return tok
			}
		}
		return "c?"
	}
	if n, ok := w.names[v]; ok {
		return n
	}
	return "unknown:" + v.Type().String()
}

func errKind(msg string) string {
	switch {
	case strings.Contains(msg, "attempt to index"):
		return "index"
	case strings.Contains(msg, "cannot perform concat"):
		return "concat"
	case strings.Contains(msg, "cannot perform"):
		return "arith"
	case strings.Contains(msg, "attempt to compare"):
		return "compare"
	case strings.Contains(msg, "attempt to call"):
		return "call"
	case strings.Contains(msg, "__unm undefined"):
		return "unm"
	case strings.Contains(msg, "__len undefined"):
		return "len"
	case strings.Contains(msg, "too many recursions"):
		return "loop"
	case strings.Contains(msg, "protected metatable"):
		return "protected"
	case strings.Contains(msg, "bad argument"), strings.Contains(msg, "cannot set metatable to a nil"),
		strings.Contains(msg, "metatable must be"):
		return "badarg"
	}
	return "other:" + hexs(msg)
}

// protect runs f inside a host function under a protected call (the documented way to use the raising API).
// Returns results, or the error kind; Go panics that are not Lua errors are reported as crashes.
func (w *metaWorld) protect(f func() []lua.LValue) (res []lua.LValue, kind string, crash string) {
	L := w.L
	fn := L.NewFunction(func(L *lua.LState) int {
		rs := f()
		for _, r := range rs {
			L.Push(r)
		}
		return len(rs)
	})
	return w.pcall(fn)
}

func (w *metaWorld) pcall(fn *lua.LFunction, args ...lua.LValue) (res []lua.LValue, kind string, crash string) {
	L := w.L
	top := L.GetTop()
	err := L.CallByParam(lua.P{Fn: fn, NRet: lua.MultRet, Protect: true}, args...)
	if err != nil {
		L.SetTop(top)
		if ae, ok := err.(*lua.ApiError); ok {
			if ae.Type == lua.ApiErrorPanic {
				return nil, "", "gopanic " + hexs(err.Error())
			}
			return nil, errKind(ae.Object.String()), ""
		}
		return nil, errKind(err.Error()), ""
	}
	for i := top + 1; i <= L.GetTop(); i++ {
		res = append(res, L.Get(i))
	}
	L.SetTop(top)
	return res, "", ""
}

func (w *metaWorld) chunk(src string) *lua.LFunction {
	if f, ok := w.chunks[src]; ok {
		return f
	}
	fn, err := w.L.LoadString("return " + src)
	if err != nil {
		panic("chunk does not compile: " + src + ": " + err.Error())
	}
	w.L.Push(fn)
	w.L.Call(0, 1)
	f := w.L.Get(-1).(*lua.LFunction)
	w.L.Pop(1)
	w.chunks[src] = f
	return f
}

var arithSym = map[string]string{"add": "+", "sub": "-", "mul": "*", "div": "/", "mod": "%", "pow": "^"}

// c04LuaLit renders a wire token as a Lua literal (only nonnegative numbers and printable strings are used as constants).
func c04LuaLit(tok string) (string, bool) {
	switch {
	case tok == "nil":
		return "nil", true
	case tok == "T":
		return "true", true
	case tok == "F":
		return "false", true
	case tok[0] == 'i':
		if tok[1] == '-' {
			return "", false
		}
		return tok[1:], true
	case tok[0] == 's':
		b, _ := hex.DecodeString(tok[1:])
		for _, c := range b {
			if c < 32 || c > 126 || c == '"' || c == '\\' {
				return "", false
			}
		}
		return "\"" + string(b) + "\"", true
	}
	return "", false
}

func c04IsIdent(tok string) (string, bool) {
	if tok[0] != 's' {
		return "", false
	}
	b, _ := hex.DecodeString(tok[1:])
	if len(b) == 0 {
		return "", false
	}
	for i, c := range b {
		if !(c == '_' || c >= 'a' && c <= 'z' || c >= 'A' && c <= 'Z' || i > 0 && c >= '0' && c <= '9') {
			return "", false
		}
	}
	s := string(b)
	switch s {
	case "and", "break", "do", "else", "elseif", "end", "false", "for", "function", "if", "in", "local", "nil", "not", "or",
		"repeat", "return", "then", "true", "until", "while", "goto":
		return "", false
	}
	return s, true
}

func params(n int) string {
	ps := make([]string, n)
	for i := range ps {
		ps[i] = "x" + strconv.Itoa(i)
	}
	return strings.Join(ps, ", ")
}

// runOp executes one operation; returns (results, error kind, crash, extra post-processing marker).
// mode fallbacks: when a constant form is not expressible for the operands the register form is used and
// the request is relabelled accordingly (the second return value is the mode actually executed).
func (w *metaWorld) runOp(kind, mode string, a []string) (res []lua.LValue, ek string, crash string, usedMode string, post string) {
	L := w.L
	v := make([]lua.LValue, len(a))
	first := 0
	if kind == "arith" || kind == "metaop1" || kind == "metaop2" {
		first = 1
	}
	for i := first; i < len(a); i++ {
		v[i] = w.dec(a[i])
	}
	usedMode = mode
	lcall := func(src string, args ...lua.LValue) {
		res, ek, crash = w.pcall(w.chunk(src), args...)
	}
	api := func(f func() []lua.LValue) { res, ek, crash = w.protect(f) }
	one := func(x lua.LValue) []lua.LValue { return []lua.LValue{x} }
	switch kind {
	case "index":
		o, k := v[0], v[1]
		switch mode {
		case "luak":
			if id, ok := c04IsIdent(a[1]); ok {
				lcall("function(a) return a."+id+" end", o)
			} else if lit, ok := c04LuaLit(a[1]); ok && a[1] != "nil" {
				lcall("function(a) return a["+lit+"] end", o)
				if a[1][0] == 's' {
					usedMode = "luak" // string constant keys always compile to GETTABLEKS
				} else {
					usedMode = "lua"
				}
			} else {
				usedMode = "lua"
				lcall("function(a, k) return a[k] end", o, k)
			}
		case "global":
			id, ok := c04IsIdent(a[1])
			if _, ist := o.(*lua.LTable); ok && ist {
				f := w.L.NewFunctionFromProto(w.chunk("function() return " + id + " end").Proto)
				f.Env = o.(*lua.LTable)
				res, ek, crash = w.pcall(f)
			} else {
				usedMode = "lua"
				lcall("function(a, k) return a[k] end", o, k)
			}
		case "api":
			api(func() []lua.LValue { return one(L.GetTable(o, k)) })
		case "apif":
			if s, ok := k.(lua.LString); ok {
				api(func() []lua.LValue { return one(L.GetField(o, string(s))) })
			} else {
				usedMode = "api"
				api(func() []lua.LValue { return one(L.GetTable(o, k)) })
			}
		case "apig": // (used by C10's objspec family) LState.GetGlobal with `o` installed as the globals table
			s, isStr := k.(lua.LString)
			if tb, ok := o.(*lua.LTable); ok && isStr {
				orig := L.G.Global
				L.G.Global = tb
				api(func() []lua.LValue { return one(L.GetGlobal(string(s))) })
				L.G.Global = orig
			} else {
				usedMode = "api"
				api(func() []lua.LValue { return one(L.GetTable(o, k)) })
			}
		default:
			usedMode = "lua"
			lcall("function(a, k) return a[k] end", o, k)
		}
	case "self":
		// method-call syntax obj:name(args) (OP_SELF + OP_CALL / OP_TAILCALL) and its definition
		// obj.name(obj, args) (OP_GETTABLEKS / OP_GETTABLE + OP_CALL); the name is always an identifier
		o, k, args := v[0], v[1], v[2:]
		id, ok := c04IsIdent(a[1])
		if !ok {
			panic("self: method name is not an identifier: " + a[1])
		}
		n := len(args)
		all := append([]lua.LValue{o}, args...)
		switch mode {
		case "tail":
			lcall("function(a"+commaParams(n)+") return a:"+id+"("+params(n)+") end", all...)
			if len(res) > 2 {
				res = res[:2]
			}
		case "dot":
			lcall("function(a"+commaParams(n)+") local p, q = a."+id+"(a"+commaParams(n)+") return p, q end", all...)
		case "dotr":
			lcall("function(a, k"+commaParams(n)+") local p, q = a[k](a"+commaParams(n)+") return p, q end", append([]lua.LValue{o, k}, args...)...)
		case "lit":
			// the receiver as a literal: (5):m(), ("abc"):m(), (nil):m()
			if lit, ok := c04LuaLit(a[0]); ok {
				lcall("function("+params(n)+") local p, q = ("+lit+"):"+id+"("+params(n)+") return p, q end", args...)
			} else {
				usedMode = "lua"
				lcall("function(a"+commaParams(n)+") local p, q = a:"+id+"("+params(n)+") return p, q end", all...)
			}
		default:
			usedMode = "lua"
			lcall("function(a"+commaParams(n)+") local p, q = a:"+id+"("+params(n)+") return p, q end", all...)
		}
	case "newindex":
		o, k, val := v[0], v[1], v[2]
		switch mode {
		case "luak":
			if id, ok := c04IsIdent(a[1]); ok {
				lcall("function(a, v) a."+id+" = v end", o, val)
			} else {
				usedMode = "lua"
				lcall("function(a, k, v) a[k] = v end", o, k, val)
			}
		case "global":
			id, ok := c04IsIdent(a[1])
			if _, ist := o.(*lua.LTable); ok && ist {
				f := w.L.NewFunctionFromProto(w.chunk("function(v) " + id + " = v end").Proto)
				f.Env = o.(*lua.LTable)
				res, ek, crash = w.pcall(f, val)
			} else {
				usedMode = "lua"
				lcall("function(a, k, v) a[k] = v end", o, k, val)
			}
		case "api":
			api(func() []lua.LValue { L.SetTable(o, k, val); return nil })
		case "apif":
			if s, ok := k.(lua.LString); ok {
				api(func() []lua.LValue { L.SetField(o, string(s), val); return nil })
			} else {
				usedMode = "api"
				api(func() []lua.LValue { L.SetTable(o, k, val); return nil })
			}
		case "apig": // (used by C10's objspec family) LState.SetGlobal with `o` installed as the globals table
			s, isStr := k.(lua.LString)
			if tb, ok := o.(*lua.LTable); ok && isStr {
				orig := L.G.Global
				L.G.Global = tb
				api(func() []lua.LValue { L.SetGlobal(string(s), val); return nil })
				L.G.Global = orig
			} else {
				usedMode = "api"
				api(func() []lua.LValue { L.SetTable(o, k, val); return nil })
			}
		default:
			usedMode = "lua"
			lcall("function(a, k, v) a[k] = v end", o, k, val)
		}
	case "arith":
		sym := arithSym[a[0]]
		x, y := v[1], v[2]
		litOK := func(tok string) (string, bool) {
			if tok[0] != 'i' && tok[0] != 's' {
				return "", false
			}
			return c04LuaLit(tok)
		}
		switch mode {
		case "luakl":
			if lit, ok := litOK(a[1]); ok {
				lcall("function(b) return "+lit+" "+sym+" b end", y)
			} else {
				usedMode = "lua"
				lcall("function(a, b) return a "+sym+" b end", x, y)
			}
		case "luakr":
			if lit, ok := litOK(a[2]); ok {
				lcall("function(a) return a "+sym+" "+lit+" end", x)
			} else {
				usedMode = "lua"
				lcall("function(a, b) return a "+sym+" b end", x, y)
			}
		case "hook":
			api(func() []lua.LValue { return one(L.VerifObjectArith(a[0], x, y)) })
		default:
			usedMode = "lua"
			lcall("function(a, b) return a "+sym+" b end", x, y)
		}
	case "unm":
		usedMode = "lua"
		lcall("function(a) return -a end", v[0])
	case "len":
		if mode == "api" {
			api(func() []lua.LValue { return one(lua.LNumber(L.ObjLen(v[0]))) })
		} else {
			usedMode = "lua"
			lcall("function(a) return #a end", v[0])
		}
	case "concat":
		switch mode {
		case "api":
			api(func() []lua.LValue { return one(lua.LString(L.Concat(v...))) })
		case "hook":
			api(func() []lua.LValue { return one(L.VerifStringConcat(v...)) })
		default:
			usedMode = "lua"
			ps := make([]string, len(v))
			for i := range ps {
				ps[i] = "x" + strconv.Itoa(i)
			}
			lcall("function("+params(len(v))+") return "+strings.Join(ps, " .. ")+" end", v...)
		}
	case "eq":
		switch mode {
		case "luane":
			lcall("function(a, b) return a ~= b end", v[0], v[1])
			post = "not"
		case "luak":
			if lit, ok := c04LuaLit(a[1]); ok {
				lcall("function(a) return a == "+lit+" end", v[0])
			} else {
				usedMode = "lua"
				lcall("function(a, b) return a == b end", v[0], v[1])
			}
		case "api":
			api(func() []lua.LValue { return one(lua.LBool(L.Equal(v[0], v[1]))) })
		default:
			usedMode = "lua"
			lcall("function(a, b) return a == b end", v[0], v[1])
		}
	case "rawequal":
		if mode == "api" {
			api(func() []lua.LValue { return one(lua.LBool(L.RawEqual(v[0], v[1]))) })
		} else {
			usedMode = "lua"
			lcall("function(a, b) return rawequal(a, b) end", v[0], v[1])
		}
	case "lt":
		switch mode {
		case "luagt":
			lcall("function(a, b) return b > a end", v[0], v[1])
		case "luaif":
			lcall("function(a, b) if a < b then return true else return false end end", v[0], v[1])
		case "api":
			api(func() []lua.LValue { return one(lua.LBool(L.LessThan(v[0], v[1]))) })
		default:
			usedMode = "lua"
			lcall("function(a, b) return a < b end", v[0], v[1])
		}
	case "le":
		switch mode {
		case "luage":
			lcall("function(a, b) return b >= a end", v[0], v[1])
		case "luaif":
			lcall("function(a, b) if a <= b then return true else return false end end", v[0], v[1])
		default:
			usedMode = "lua"
			lcall("function(a, b) return a <= b end", v[0], v[1])
		}
	case "call":
		f, args := v[0], v[1:]
		n := len(args)
		all := append([]lua.LValue{f}, args...)
		switch mode {
		case "luav":
			lcall("function(f, ...) local a, b = f(...) return a, b end", all...)
		case "tail":
			lcall("function(f"+commaParams(n)+") return f("+params(n)+") end", all...)
			if len(res) > 2 {
				res = res[:2]
			}
		case "iter":
			if n == 2 {
				lcall("function(f, s, c) for a, b in f, s, c do return a, b end return 'END' end", all...)
				if ek == "" && crash == "" && len(res) == 1 && res[0] == lua.LString("END") {
					post = "END"
				}
			} else {
				usedMode = "lua"
				lcall("function(f"+commaParams(n)+") local a, b = f("+params(n)+") return a, b end", all...)
			}
		case "api":
			top := L.GetTop()
			err := L.CallByParam(lua.P{Fn: f, NRet: 2, Protect: true}, args...)
			if err != nil {
				L.SetTop(top)
				if ae, ok := err.(*lua.ApiError); ok && ae.Type == lua.ApiErrorPanic {
					crash = "gopanic " + hexs(err.Error())
				} else if ae, ok := err.(*lua.ApiError); ok {
					ek = errKind(ae.Object.String())
				} else {
					ek = errKind(err.Error())
				}
			} else {
				res = []lua.LValue{L.Get(top + 1), L.Get(top + 2)}
				L.SetTop(top)
			}
		case "pcall":
			lcall("function(f"+commaParams(n)+") return pcall(f"+commaParams(n)+") end", all...)
			if ek == "" && crash == "" && len(res) >= 1 {
				if res[0] == lua.LTrue {
					res = res[1:]
					if len(res) > 2 {
						res = res[:2]
					}
				} else {
					ek = errKind(res[1].String())
					res = nil
				}
			}
		default:
			usedMode = "lua"
			lcall("function(f"+commaParams(n)+") local a, b = f("+params(n)+") return a, b end", all...)
		}
	case "tostring":
		if mode == "api" {
			api(func() []lua.LValue { return one(L.ToStringMeta(v[0])) })
		} else {
			usedMode = "lua"
			lcall("function(a) return tostring(a) end", v[0])
		}
		post = "PRIM"
	case "getmt":
		if mode == "api" {
			api(func() []lua.LValue { return one(L.GetMetatable(v[0])) })
		} else {
			usedMode = "lua"
			lcall("function(a) return getmetatable(a) end", v[0])
		}
	case "setmt":
		if mode == "api" {
			api(func() []lua.LValue { L.SetMetatable(v[0], v[1]); return one(v[0]) })
		} else {
			usedMode = "lua"
			lcall("function(a, m) return setmetatable(a, m) end", v[0], v[1])
		}
	case "rawget":
		usedMode = "lua"
		lcall("function(t, k) return rawget(t, k) end", v[0], v[1])
	case "rawset":
		usedMode = "lua"
		lcall("function(t, k, v) rawset(t, k, v) end", v[0], v[1], v[2])
	case "metatable":
		usedMode = "hook"
		api(func() []lua.LValue { return one(L.VerifMetatable(v[0], v[1] == lua.LTrue)) })
	case "metaop1":
		usedMode = "hook"
		api(func() []lua.LValue { return one(L.VerifMetaOp1(v[1], a[0])) })
	case "metaop2":
		usedMode = "hook"
		api(func() []lua.LValue { return one(L.VerifMetaOp2(v[1], v[2], a[0])) })
	case "metacall":
		usedMode = "hook"
		api(func() []lua.LValue {
			fn, meta := L.VerifMetaCall(v[0])
			var r lua.LValue = lua.LNil
			if fn != nil {
				r = fn
			}
			return []lua.LValue{r, lua.LBool(meta)}
		})
	default:
		panic("bad kind " + kind)
	}
	return
}

func commaParams(n int) string {
	if n == 0 {
		return ""
	}
	return ", " + params(n)
}

func execMeta(ops []Op) []string {
	w := newMetaWorld()
	defer w.close()
	var out []string
	for _, op := range ops {
		a := op.Args
		switch a[0] {
		case "fn":
			w.defFn("g"+a[1], w.dec(a[2]))
			out = append(out, "C04M fn "+a[1]+" "+a[2])
		case "tbl":
			w.dec("t" + a[1])
			out = append(out, "C04M tbl "+a[1])
		case "ud":
			w.dec("u" + a[1])
			out = append(out, "C04M ud "+a[1])
		case "set":
			w.dec("t"+a[1]).(*lua.LTable).RawSet(w.dec(a[2]), w.dec(a[3]))
			out = append(out, "C04M set "+strings.Join(a[1:], " "))
		case "mt":
			w.L.SetMetatable(w.dec(a[1]), w.dec(a[2]))
			out = append(out, "C04M mt "+a[1]+" "+a[2])
		default:
			kind, mode := a[0], a[1]
			w.log = nil
			res, ek, crash, used, post := w.runOp(kind, mode, a[2:])
			if crash != "" {
				out = append(out, "X "+crash+" => "+strings.Join(a, " "))
				continue
			}
			var reply []string
			reply = append(reply, w.log...)
			if ek != "" {
				reply = append(reply, "E "+ek)
			} else {
				parts := []string{"R"}
				for i, r := range res {
					tok := w.enc(r)
					switch {
					case post == "not" && i == 0:
						if tok == "T" {
							tok = "F"
						} else if tok == "F" {
							tok = "T"
						}
					case post == "PRIM" && len(w.log) == 0:
						if s, ok := r.(lua.LString); ok && string(s) == w.dec(a[2]).String() {
							tok = "PRIM"
						}
					case post == "END":
						tok = "END"
					case kind == "len" && len(w.log) == 0:
						// which border a table's primitive length is belongs to C09: only check that it is one
						if tb, ok := w.dec(a[2]).(*lua.LTable); ok {
							if n, ok := r.(lua.LNumber); ok && float64(n) == math.Trunc(float64(n)) && n >= 0 {
								k := int(n)
								if (k == 0 || tb.RawGetInt(k) != lua.LNil) && tb.RawGetInt(k+1) == lua.LNil {
									tok = "BORDER"
								}
							}
						}
					}
					parts = append(parts, tok)
				}
				reply = append(reply, strings.Join(parts, " "))
			}
			out = append(out, "C04M op "+kind+" "+used+" "+strings.Join(a[2:], " ")+" => "+strings.Join(reply, " "))
			if kind == "newindex" || kind == "rawset" {
				// observe where the store landed: the key is read back raw from every (small-numbered) table
				for id := 1; id <= 12; id++ {
					tok := "t" + strconv.Itoa(id)
					if tb, ok := w.objs[tok].(*lua.LTable); ok && a[3] != "nil" && a[3] != "nan" {
						out = append(out, "C04M op rawget lua "+tok+" "+a[3]+" => R "+w.enc(tb.RawGet(w.dec(a[3]))))
					}
				}
			}
		}
	}
	return out
}

// ---------- generators ----------

var metaEvents = []string{"__index", "__newindex", "__add", "__sub", "__mul", "__div", "__mod", "__pow", "__unm", "__len",
	"__concat", "__eq", "__lt", "__le", "__call", "__tostring", "__metatable"}

func c04sx(s string) string { return "s" + hex.EncodeToString([]byte(s)) }

// handler return values: falsy, truthy non-booleans (0, ""), numbers, numeric strings, objects
var metaRets = []string{"nil", "F", "T", "i0", "s", "i42", c04sx("10"), c04sx("R"), "t1", "u1", "i-1"}

var metaPrims = []string{"nil", "T", "F", "i0", "i5", "i-3", "i2", encNum(1.5), c04sx("10"), c04sx("abc"), c04sx(""), c04sx("3"), c04sx("0x10"),
	c04sx("k"), c04sx("x"), "i1"}

var metaArithOps = []string{"add", "sub", "mul", "div", "mod", "pow"}

type metaGen struct {
	r   *Rng
	ops []Op
}

func (g *metaGen) add(args ...string) { g.ops = append(g.ops, Op{Args: args}) }

// genMetaCase: a random world (objects, metatables with random event subsets, per-type metatables, raw
// contents, chains) followed by random operations over it.
func genMetaCase(r *Rng, nops int) []Op {
	g := &metaGen{r: r}
	nfn := r.Range(3, 9)
	for i := 1; i <= nfn; i++ {
		g.add("fn", strconv.Itoa(i), Pick(r, metaRets))
	}
	fn := func() string { return "g" + strconv.Itoa(r.Range(1, nfn)) }
	ntb, nud := r.Range(2, 4), r.Range(1, 3)
	for i := 1; i <= ntb; i++ {
		g.add("tbl", strconv.Itoa(i))
	}
	for i := 1; i <= nud; i++ {
		g.add("ud", strconv.Itoa(i))
	}
	obj := func() string {
		if r.Chance(60) {
			return "t" + strconv.Itoa(r.Range(1, ntb))
		}
		return "u" + strconv.Itoa(r.Range(1, nud))
	}
	keys := []string{c04sx("k"), c04sx("x"), "i1", "i2", "T", c04sx("10")}
	// raw contents
	for i := 1; i <= ntb; i++ {
		if r.Chance(50) {
			n := r.Range(1, 3)
			for j := 1; j <= n; j++ {
				g.add("set", strconv.Itoa(i), "i"+strconv.Itoa(j), Pick(r, []string{"i7", c04sx("v"), "T", "F"}))
			}
		}
		if r.Chance(50) {
			g.add("set", strconv.Itoa(i), Pick(r, keys), Pick(r, []string{"i9", c04sx("w"), "F", "t1", fn()}))
		}
	}
	// metatables 11.. : random subsets of events
	nmt := r.Range(1, 4)
	for m := 0; m < nmt; m++ {
		id := strconv.Itoa(11 + m)
		g.add("tbl", id)
		dens := Pick(r, []int{15, 35, 70})
		for _, ev := range metaEvents {
			if !r.Chance(dens) {
				continue
			}
			var val string
			switch {
			case ev == "__metatable":
				if !r.Chance(30) {
					continue
				}
				val = Pick(r, []string{"F", c04sx("locked"), "t1", "i0"})
			case (ev == "__index" || ev == "__newindex") && r.Chance(55):
				val = Pick(r, []string{obj(), obj(), "t" + strconv.Itoa(r.Range(1, ntb)), c04sx("str"), "i5"})
			case r.Chance(6):
				// handler slot holding something that is neither nil nor a function
				val = Pick(r, []string{"F", "i5", "t1", "t" + id, c04sx("h")})
			default:
				val = fn()
			}
			g.add("set", id, c04sx(ev), val)
		}
	}
	mt := func() string { return "t" + strconv.Itoa(11+r.Intn(nmt)) }
	for i := 1; i <= ntb; i++ {
		if r.Chance(75) {
			g.add("mt", "t"+strconv.Itoa(i), mt())
		}
	}
	for i := 1; i <= nud; i++ {
		if r.Chance(80) {
			g.add("mt", "u"+strconv.Itoa(i), mt())
		}
	}
	// per-type metatables (host-attached): strings, numbers, booleans, nil, functions, threads
	for _, rep := range []string{c04sx("a"), "i0", "T", "nil", "g1", "h1", "c1"} {
		if r.Chance(8) {
			g.add("mt", rep, mt())
		}
	}
	operand := func() string {
		switch c := r.Intn(100); {
		case c < 55:
			return obj()
		case c < 85:
			return Pick(r, metaPrims)
		case c < 90:
			return fn()
		case c < 93:
			return "h1"
		case c < 95:
			return "c1"
		default:
			return "t" + strconv.Itoa(11+r.Intn(nmt))
		}
	}
	// a few (metatable, event) slots that are rewritten again and again during the operations
	type slot struct{ mt, ev string }
	hot := make([]slot, 3)
	for i := range hot {
		hot[i] = slot{strconv.Itoa(11 + r.Intn(nmt)), Pick(r, metaEvents)}
	}
	for n := 0; n < nops; n++ {
		if r.Chance(12) {
			// the world changes between operations: a handler is installed / replaced / removed (through every
			// write path), an object gets another metatable or none
			if r.Chance(25) {
				g.add("mt", obj(), Pick(r, []string{"nil", mt(), mt()}))
				continue
			}
			sl := Pick(r, hot)
			if r.Chance(30) {
				sl = slot{strconv.Itoa(11 + r.Intn(nmt)), Pick(r, metaEvents)}
			}
			var val string
			switch {
			case r.Chance(40):
				val = "nil"
			case sl.ev == "__metatable":
				val = Pick(r, []string{"F", c04sx("locked"), "i0"})
			case (sl.ev == "__index" || sl.ev == "__newindex") && r.Chance(45):
				val = obj()
			default:
				val = fn()
			}
			switch r.Intn(6) {
			case 0:
				g.add("rawset", "lua", "t"+sl.mt, c04sx(sl.ev), val)
			case 1:
				g.add("newindex", Pick(r, []string{"lua", "luak", "api", "apif"}), "t"+sl.mt, c04sx(sl.ev), val)
			default:
				g.add("set", sl.mt, c04sx(sl.ev), val)
			}
			continue
		}
		if r.Chance(5) {
			a := []string{"self", Pick(r, []string{"lua", "tail", "lit", "dot", "dotr"}), operand(), Pick(r, []string{c04sx("k"), c04sx("x")})}
			for i, na := 0, r.Range(0, 2); i < na; i++ {
				a = append(a, Pick(r, []string{"i1", c04sx("arg"), "nil", "t1", "F"}))
			}
			g.add(a...)
			continue
		}
		switch c := r.Intn(100); {
		case c < 14:
			g.add("index", Pick(r, []string{"lua", "luak", "global", "api", "apif"}), operand(), Pick(r, keys))
		case c < 26:
			g.add("newindex", Pick(r, []string{"lua", "luak", "global", "api", "apif"}), operand(), Pick(r, keys),
				Pick(r, []string{"i33", c04sx("nv"), "nil", "F", "t1"}))
		case c < 42:
			op, x, y := Pick(r, metaArithOps), operand(), operand()
			if op == "pow" {
				// keep `^` on operands whose power is exact in every libm (the tie is about dispatch, not pow rounding)
				for _, p := range []*string{&x, &y} {
					if (*p)[0] == 'f' {
						*p = "i2"
					} else if *p == "i-3" {
						*p = "i3"
					}
				}
			}
			g.add("arith", Pick(r, []string{"lua", "lua", "luakl", "luakr", "hook"}), op, x, y)
		case c < 46:
			g.add("unm", "lua", operand())
		case c < 51:
			g.add("len", Pick(r, []string{"lua", "lua", "api"}), operand())
		case c < 62:
			n := Pick(r, []int{2, 2, 3, 3, 4, 5})
			a := []string{"concat", Pick(r, []string{"lua", "lua", "hook", "api"})}
			for i := 0; i < n; i++ {
				if r.Chance(45) {
					a = append(a, Pick(r, []string{c04sx("a"), c04sx("b"), "i1", "i20", c04sx("")}))
				} else {
					a = append(a, operand())
				}
			}
			// concatenating non-integral numbers would compare number formatting (C16), not dispatch
			for i := 2; i < len(a); i++ {
				if a[i][0] == 'f' {
					a[i] = "i4"
				}
			}
			g.add(a...)
		case c < 70:
			g.add("eq", Pick(r, []string{"lua", "luane", "luak", "api"}), operand(), operand())
		case c < 73:
			g.add("rawequal", Pick(r, []string{"lua", "api"}), operand(), operand())
		case c < 80:
			g.add("lt", Pick(r, []string{"lua", "luagt", "luaif", "api"}), operand(), operand())
		case c < 87:
			g.add("le", Pick(r, []string{"lua", "luage", "luaif"}), operand(), operand())
		case c < 93:
			mode := Pick(r, []string{"lua", "luav", "tail", "iter", "api", "pcall"})
			a := []string{"call", mode, operand()}
			na := r.Range(0, 3)
			if mode == "iter" {
				na = 2
			}
			for i := 0; i < na; i++ {
				a = append(a, Pick(r, []string{"i1", c04sx("arg"), "nil", "t1", "F"}))
			}
			g.add(a...)
		case c < 95:
			g.add("tostring", Pick(r, []string{"lua", "api"}), operand())
		case c < 97:
			g.add("getmt", Pick(r, []string{"lua", "api"}), operand())
		case c < 98:
			g.add("setmt", Pick(r, []string{"lua", "lua", "api"}), operand(), Pick(r, []string{"nil", mt(), mt(), "i5"}))
		case c < 99:
			if r.Bool() {
				g.add("rawget", "lua", operand(), Pick(r, keys))
			} else {
				g.add("rawset", "lua", operand(), Pick(r, keys), Pick(r, []string{"i44", "nil"}))
			}
		default:
			switch r.Intn(4) {
			case 0:
				g.add("metatable", "hook", operand(), Pick(r, []string{"T", "F"}))
			case 1:
				g.add("metaop1", "hook", Pick(r, metaEvents), operand())
			case 2:
				g.add("metaop2", "hook", Pick(r, metaEvents), operand(), operand())
			default:
				g.add("metacall", "hook", operand())
			}
		}
	}
	return g.ops
}

// the representatives of the operator × type² matrix
var matrixReps = []string{"nil", "F", "i5", "i0", c04sx("10"), c04sx("abc"), "g9", "u1", "u2", "t1", "t2", "h1", "c1"}

// genMatrixCase: operands X (left) and Y (right) with handler placement `pl` for every event:
//
//	0 none, 1 left only, 2 right only, 3 both the same handler, 4 both different handlers,
//	5 same handler through two different metatables
//
// and every binary/unary operator in every execution mode.
func genMatrixCase(x, y string, pl int) []Op {
	g := &metaGen{}
	g.add("fn", "1", "i42")
	g.add("fn", "2", "F")
	g.add("fn", "3", "i0") // truthy non-boolean
	g.add("fn", "9", "nil")
	for _, t := range []string{"1", "2"} {
		g.add("tbl", t)
		g.add("ud", t)
	}
	g.add("tbl", "11")
	g.add("tbl", "12")
	evs := []string{"__add", "__sub", "__mul", "__div", "__mod", "__pow", "__unm", "__len", "__concat", "__eq", "__lt", "__le", "__call", "__tostring", "__index", "__newindex"}
	hasMT := func(tok string) bool { return tok[0] == 't' || tok[0] == 'u' }
	setAll := func(mtid, fnid string) {
		for _, ev := range evs {
			g.add("set", mtid, c04sx(ev), "g"+fnid)
		}
	}
	switch pl {
	case 1:
		setAll("11", "1")
	case 2:
		setAll("12", "2")
	case 3:
		setAll("11", "2")
	case 4:
		setAll("11", "2")
		setAll("12", "3")
	case 5:
		setAll("11", "1")
		setAll("12", "1")
	}
	if hasMT(x) && pl != 0 && pl != 2 {
		g.add("mt", x, "t11")
	}
	if hasMT(y) && pl != 0 && pl != 1 {
		if pl == 3 {
			g.add("mt", y, "t11")
		} else {
			g.add("mt", y, "t12")
		}
	}
	for _, op := range metaArithOps {
		for _, m := range []string{"lua", "luakl", "luakr", "hook"} {
			g.add("arith", m, op, x, y)
		}
	}
	for _, m := range []string{"lua", "hook", "api"} {
		g.add("concat", m, x, y)
	}
	g.add("concat", "lua", x, c04sx("s"), y)
	g.add("concat", "lua", c04sx("p"), x, y, "i1")
	for _, m := range []string{"lua", "luane", "luak", "api"} {
		g.add("eq", m, x, y)
	}
	g.add("rawequal", "lua", x, y)
	g.add("rawequal", "api", x, y)
	for _, m := range []string{"lua", "luagt", "luaif", "api"} {
		g.add("lt", m, x, y)
	}
	for _, m := range []string{"lua", "luage", "luaif"} {
		g.add("le", m, x, y)
	}
	g.add("unm", "lua", x)
	g.add("len", "lua", x)
	g.add("len", "api", x)
	g.add("tostring", "lua", x)
	g.add("tostring", "api", x)
	for _, m := range []string{"lua", "luav", "tail", "api", "pcall"} {
		g.add("call", m, x, y)
	}
	g.add("call", "iter", x, y, "i1")
	g.add("index", "lua", x, y)
	g.add("index", "api", x, y)
	g.add("index", "luak", x, c04sx("k"))
	g.add("newindex", "lua", x, c04sx("k"), y)
	g.add("newindex", "apif", x, c04sx("k"), y)
	g.add("metaop2", "hook", "__add", x, y)
	g.add("metaop1", "hook", "__lt", x)
	g.add("metacall", "hook", x)
	g.add("getmt", "lua", x)
	return g.ops
}

// genChainCase: __index / __newindex chains of exact depth d through tables (and a userdata link), ending in
// nothing / a raw value / a function handler.
func genChainCase(d int, ending int, ud bool) []Op {
	g := &metaGen{}
	g.add("fn", "1", c04sx("H"))
	// objects 1..d, metatable of object i is table 1000+i with __index = __newindex = object i+1
	for i := 1; i <= d; i++ {
		g.add("tbl", strconv.Itoa(i))
	}
	link := func(i int) string {
		if ud && i == 2 && d >= 3 {
			return "u2"
		}
		return "t" + strconv.Itoa(i)
	}
	if ud && d >= 3 {
		g.add("ud", "2")
	}
	for i := 1; i < d; i++ {
		m := strconv.Itoa(1000 + i)
		g.add("tbl", m)
		g.add("set", m, c04sx("__index"), link(i+1))
		g.add("set", m, c04sx("__newindex"), link(i+1))
		g.add("mt", link(i), "t"+m)
	}
	switch ending {
	case 1:
		if link(d)[0] == 't' {
			g.add("set", strconv.Itoa(d), c04sx("k"), "i99")
		}
	case 2:
		m := strconv.Itoa(1000 + d)
		g.add("tbl", m)
		g.add("set", m, c04sx("__index"), "g1")
		g.add("set", m, c04sx("__newindex"), "g1")
		g.add("mt", link(d), "t"+m)
	case 3: // cycle back to the first object
		m := strconv.Itoa(1000 + d)
		g.add("tbl", m)
		g.add("set", m, c04sx("__index"), "t1")
		g.add("set", m, c04sx("__newindex"), "t1")
		g.add("mt", link(d), "t"+m)
	}
	for _, m := range []string{"lua", "luak", "api", "apif", "global"} {
		g.add("index", m, "t1", c04sx("k"))
	}
	g.add("index", "lua", "t1", "i1")
	for _, m := range []string{"lua", "tail", "dot", "dotr"} {
		g.add("self", m, "t1", c04sx("k"), "i1")
	}
	for _, m := range []string{"lua", "luak", "api", "apif", "global"} {
		g.add("newindex", m, "t1", c04sx("k"), "i5")
		g.add("index", "lua", "t1", c04sx("k"))
		g.add("rawset", "lua", link(d), c04sx("k"), "nil")
	}
	return g.ops
}

func init() { props["C04M"] = runC04M }

func runC04M(run *Run) {
	nRandom, nOps := 1500, 30
	if run.Tier == "thorough" {
		nRandom, nOps = 40000, 60
	}
	run.Rule = "mechanism tie for metamethod dispatch: (1) bounded-exhaustive operator × type² matrix [a TEST: 13 operand representatives² × 6 handler placements × every operator × every execution mode (Lua register / constant forms, Go API, verif hooks)], (2) __index/__newindex chains of depth 1..6, 99, 100, 101 and cycles, (3) random worlds (metatables with random event subsets incl. non-function slots, __metatable, per-type metatables, raw contents) × random operations incl. method calls, interleaved with handler installs / replacements / removals through every write path and metatable exchanges, (4) handler life cycles [a TEST: every history of 4 (thorough: 5) steps over install-next / remove / other-metatable-and-back / no-metatable-and-back / unrelated-new-key on one metatable shared by two tables, two userdata and all strings, every event triggered after every step], (5) method-call syntax [a TEST: obj:name(…) = obj.name(obj, …) for 10 receiver kinds × __index chains of length 0..4 × 3 endings × every position and kind of the stored method × call/tail/literal-receiver forms]; every request executed on the real interpreter, handler log + result compared with the Lean Model action (exact) and Spec action; distinct = distinct (kind, first-operand class) skeletons"
	run.Assume = []string{
		"numeric primitives (float arithmetic, string→number, number→string, string order) are parameters of Model and Spec; the driver instantiates them with IEEE doubles and the tie only uses operands on which Go and the driver agree exactly (small integers, halves, plain decimal / 0x numerals)",
		"LTable.Metatable / LUserData.Metatable only hold nil or a table (LState.SetMetatable is the only writer used)",
		"raw table access (RawGet/RawGetString/RawSet) is C09's model; here tables are finite maps",
		"handlers are opaque: a handler's effect is its log entry and its return values (ret, 777)"}
	root := NewRng(uint64(run.Seed))
	var cases []Case
	for i, c := range loadCorpus("C04M") {
		cases = append(cases, Case{Idx: -1 - i, Ops: c, Note: "corpus"})
	}
	idx := 0
	for _, x := range matrixReps {
		for _, y := range matrixReps {
			for pl := 0; pl <= 5; pl++ {
				cases = append(cases, Case{Idx: 1000000 + idx, Ops: genMatrixCase(x, y, pl), Note: "matrix"})
				idx++
			}
		}
	}
	run.Extra["matrix_cases"] = idx
	idx = 0
	for _, d := range []int{1, 2, 3, 4, 5, 6, 98, 99, 100, 101, 102} {
		for ending := 0; ending <= 3; ending++ {
			for _, ud := range []bool{false, true} {
				cases = append(cases, Case{Idx: 2000000 + idx, Ops: genChainCase(d, ending, ud), Note: "chain"})
				idx++
			}
		}
	}
	run.Extra["chain_cases"] = idx
	// (4) handler life cycles: every history of histLen steps
	histLen := 4
	if run.Tier == "thorough" {
		histLen = 5
	}
	for i, h := range enumHistories(histLen) {
		cases = append(cases, Case{Idx: 3000000 + i, Ops: genHistoryCase(i, h), Note: "history:" + histName(h)})
		run.Hist["history"]++
	}
	run.Extra["history_cases"] = run.Hist["history"]
	// (5) method-call syntax = index + call, every receiver kind × every __index shape
	for i, ops := range enumSelfCases() {
		cases = append(cases, Case{Idx: 4000000 + i, Ops: ops, Note: "self"})
		run.Hist["selfcase"]++
	}
	run.Extra["self_cases"] = run.Hist["selfcase"]
	for i := 0; i < nRandom; i++ {
		r := root.Fork(uint64(i))
		cases = append(cases, Case{Idx: i, Ops: genMetaCase(r, r.Range(8, nOps))})
	}
	run.Extra["random_cases"] = nRandom
	runCases(run, cases, execMeta, classifyNone)
	if os.Getenv("VERIF_DEBUG") != "" {
		n := 0
		for _, f := range run.Failures {
			if f.Finding == "" && n < 40 {
				n++
				fmt.Fprintf(os.Stderr, "DEBUG case=%d kind=%s\n   %s\n   -> %s\n", f.CaseIdx, f.Kind, f.Line, f.Reply)
			}
		}
	}
}
