package main

// C04 — program-level shape families judged by the Lean reference semantics (Spec/Sem, manual §2.8), in Lua source:
//
//   EnumHandlerHistoryShapes   the handler is looked up WHEN THE OPERATION RUNS: every history of n steps over
//                              install-next / remove / other-metatable-and-back / no-metatable-and-back /
//                              unrelated-new-key on one metatable shared by two tables, handlers written as
//                              `mt.__ev = h`, `mt[ev] = h`, `rawset(mt, ev, h)` or by a table constructor (a new
//                              metatable attached with setmetatable) in rotation, every event triggered after
//                              every step.
//   EnumMethodCallShapes       `recv:name(…)` is `recv.name(recv, …)`: string receivers (literal, local, upvalue,
//                              global, call result, concatenation) behind every shape of the string metatable's
//                              `__index` (the library table, a method added to it, setmetatable(string, {__index =
//                              table | function | chain of 1..4 tables | chain ending in a function}), the string
//                              metatable's own __index replaced by a function / another table / nil) and table
//                              receivers behind __index chains of length 0..4 with every ending; in expression,
//                              statement, argument, return (tail) position.
//
// The mechanism-level twins (harness/c04_hist.go) run the same two classes through the Lean Model with receivers /
// write paths a Lua program of the reference fragment cannot express (per-type metatables of numbers, booleans, nil,
// functions; userdata; Go API writes).

import (
	"fmt"
	"strings"
)

// (order: `__lt` at an even, `__le` at an odd position, so that the variant "even events take part, odd ones are never
// present" plays the history on `__lt` with `<=` falling back to it; `__tostring` last — see `ts` below)
var progHistEvents = []string{"__index", "__newindex", "__add", "__sub", "__mul", "__div", "__mod", "__pow", "__unm",
	"__concat", "__call", "__eq", "__lt", "__le", "__tostring"}

const progHistPrelude = `local function H(tag, ret) return function(...) emit('h', tag, select('#', ...), ...) return ret end end
local function try(tag, f) local r = {pcall(f)} if r[1] then emit(tag, true, r[2], r[3]) else emit(tag, false) end end
local T5 = {k = 'fromT5'}
local M = {}
local M2 = {__index = H('o.index', 'o'), __newindex = H('o.newindex', 'o'), __add = H('o.add', 'o'), __sub = H('o.sub', 'o'),
  __mul = H('o.mul', 'o'), __div = H('o.div', 'o'), __mod = H('o.mod', 'o'), __pow = H('o.pow', 'o'), __unm = H('o.unm', 'o'),
  __concat = H('o.concat', 'o'), __eq = H('o.eq', true), __lt = H('o.lt', true), __le = H('o.le', false), __call = H('o.call', 'o'),
  __tostring = H('o.tostring', 'o')}
local a, b = setmetatable({}, M), setmetatable({}, M)
local function probe(step, ts)
  emit('step', step)
  try('idx', function() return a.k end)
  try('idx2', function() return b[step] end)
  try('self', function() return a:k(step) end)
  try('new', function() a['n' .. step] = 5 return rawget(a, 'n' .. step) end)
  try('new2', function() b.fresh = step local v = rawget(b, 'fresh') rawset(b, 'fresh', nil) return v end)
  try('fromT5', function() return rawget(T5, 'n' .. step), rawget(T5, 'fresh') end)
  try('add', function() return a + 1 end)
  try('sub', function() return 1 - a end)
  try('mul', function() return a * b end)
  try('div', function() return b / 2 end)
  try('mod', function() return a % 2 end)
  try('pow', function() return 2 ^ a end)
  try('unm', function() return -a end)
  try('cat', function() return a .. 'x' end)
  try('cat2', function() return 'x' .. b end)
  try('eq', function() return a == b end)
  try('ne', function() return b ~= a end)
  try('lt', function() return a < b end)
  try('le', function() return a <= b end)
  try('gt', function() return a > b end)
  try('ge', function() return b >= a end)
  try('call', function() return a(1, step) end)
  try('callb', function() return b() end)
  if ts then try('tostr', function() return tostring(a) end) end
end
`

// EnumHandlerHistoryShapes: every history of n steps, each with the four rotations of the write paths (4·5^n programs).
func EnumHandlerHistoryShapes(n int) []*Program {
	var out []*Program
	short := func(ev string) string { return ev[2:] }
	hists := enumHistories(n)
	for x := 0; x < 4*len(hists); x++ {
		hist, idx := hists[x/4], x/4+x%4 // idx rotates the write paths and the participating events
		var sb strings.Builder
		sb.WriteString(progHistPrelude)
		variant := idx % 3 // as in genHistoryCase: all events / even ones (odd never present) / odd ones (even always present)
		participates := func(p int) bool {
			return variant == 0 || variant == 1 && p%2 == 0 || variant == 2 && p%2 == 1
		}
		static := map[string]string{}
		if variant == 2 {
			for p, ev := range progHistEvents {
				if p%2 == 0 {
					static[ev] = fmt.Sprintf("H('s.%s', 's')", short(ev))
					fmt.Fprintf(&sb, "M.%s = %s\n", ev, static[ev])
				}
			}
		}
		value := func(ev string, k int) string {
			tag := fmt.Sprintf("%s%d", short(ev), k)
			switch {
			case k%3 == 0 || ev == "__tostring":
				return fmt.Sprintf("H('%s', '%s')", tag, tag)
			case k%3 == 1:
				return fmt.Sprintf("H('%s', false)", tag)
			case ev == "__index" || ev == "__newindex":
				return "T5"
			}
			return fmt.Sprintf("H('%s', 0)", tag)
		}
		cur, inst, nInst := "M", false, 0
		// write the participating events of M (val(ev) == "nil": remove) through the write path `via`
		write := func(via int, val func(ev string) string) {
			switch via {
			case 0:
				for p, ev := range progHistEvents {
					if participates(p) {
						fmt.Fprintf(&sb, "M.%s = %s\n", ev, val(ev))
					}
				}
			case 1:
				for p, ev := range progHistEvents {
					if participates(p) {
						fmt.Fprintf(&sb, "do local key = '%s' M[key] = %s end\n", ev, val(ev))
					}
				}
			case 2:
				for p, ev := range progHistEvents {
					if participates(p) {
						fmt.Fprintf(&sb, "rawset(M, '%s', %s)\n", ev, val(ev))
					}
				}
			default:
				// a NEW metatable written by a constructor takes the place of M
				var fs []string
				for p, ev := range progHistEvents {
					if participates(p) {
						if v := val(ev); v != "nil" {
							fs = append(fs, ev+" = "+v)
						}
					} else if s, ok := static[ev]; ok {
						fs = append(fs, ev+" = "+s)
					}
				}
				fmt.Fprintf(&sb, "M = {%s}\nsetmetatable(b, M)\n", strings.Join(fs, ", "))
				if cur == "M" {
					sb.WriteString("setmetatable(a, M)\n")
				}
			}
		}
		for st, act := range hist {
			switch act {
			case 0:
				k := nInst
				write((idx+st)%4, func(ev string) string { return value(ev, k) })
				nInst++
				inst = true
			case 1:
				write((idx+st)%4, func(string) string { return "nil" })
				inst = false
			case 2:
				if cur == "M2" {
					cur = "M"
				} else {
					cur = "M2"
				}
				fmt.Fprintf(&sb, "setmetatable(a, %s)\n", cur)
			case 3:
				if cur == "nil" {
					cur = "M"
				} else {
					cur = "nil"
				}
				fmt.Fprintf(&sb, "setmetatable(a, %s)\n", cur)
			case 4:
				fmt.Fprintf(&sb, "M.extra%d = 1\n", st)
			}
			// tostring(a) without a handler is the address of the table: outside the reference fragment
			_, tsStatic := static["__tostring"]
			ts := cur == "M2" || cur == "M" && (tsStatic || inst && participates(len(progHistEvents)-1))
			fmt.Fprintf(&sb, "probe(%d, %v)\n", st+1, ts)
		}
		sb.WriteString("return 'end'")
		out = append(out, shapeProgram(sb.String(), "shape:handler-history", "hist:"+histName(hist), fmt.Sprintf("variant:%d", variant)))
	}
	return out
}

// ---------- method-call syntax ----------

const progSelfPrelude = `local function try(tag, f) local r = {pcall(f)} if r[1] then emit(tag, true, r[2], r[3], r[4], r[5]) else emit(tag, false) end end
local function Mth(tag) return function(self, ...) emit('m', tag, self, select('#', ...), ...) return tag, ... end end
local function F(tag) return function(t, k) emit('indexfn', tag, t, k) return Mth(tag .. '.' .. k) end end
`

// the forms of one method call on receiver expression r (evaluated repeatedly; `pre` = statements at the start of
// each closure, e.g. the declaration of a local that r names)
func selfForms(sb *strings.Builder, tag, pre, r, name string) {
	fmt.Fprintf(sb, "try('%s:colon', function() %s local x, y, z = %s:%s(1, 2) return x, y, z end)\n", tag, pre, r, name)
	fmt.Fprintf(sb, "try('%s:dot', function() %s local x, y, z = %s.%s(%s, 1, 2) return x, y, z end)\n", tag, pre, r, name, r)
	fmt.Fprintf(sb, "try('%s:tail', function() %s return %s:%s(3) end)\n", tag, pre, r, name)
	fmt.Fprintf(sb, "try('%s:dottail', function() %s return %s.%s(%s, 3) end)\n", tag, pre, r, name, r)
	fmt.Fprintf(sb, "try('%s:stmt', function() %s %s:%s() return 'done' end)\n", tag, pre, r, name)
	fmt.Fprintf(sb, "try('%s:arg', function() %s return hostid(%s:%s(4, 5, 6)) end)\n", tag, pre, r, name)
	fmt.Fprintf(sb, "try('%s:fetch', function() %s local f = %s.%s return f == %s['%s'], type(f) end)\n", tag, pre, r, name, r, name)
}

// EnumMethodCallShapes: see the head of the file.
func EnumMethodCallShapes() []*Program {
	var out []*Program
	chain := func(root string, n int, end string) string {
		// root's metatable {__index = e1}, e1's {__index = e2} …; the method `shout` lives in the last link; `end` is
		// the __index of the last link's metatable ("" = the last link has no metatable)
		var sb strings.Builder
		prev := root
		for i := 1; i <= n; i++ {
			fmt.Fprintf(&sb, "local e%d = {}\nsetmetatable(%s, {__index = e%d})\n", i, prev, i)
			prev = fmt.Sprintf("e%d", i)
		}
		if n > 0 {
			fmt.Fprintf(&sb, "%s.shout = Mth('shout@%d')\n", prev, n)
		}
		if end != "" {
			fmt.Fprintf(&sb, "setmetatable(%s, {__index = %s})\n", prev, end)
		}
		return sb.String()
	}
	type setup struct{ name, code string }
	// --- string receivers
	strSetups := []setup{
		{"lib", ""},
		{"lib-added", "string.shout = Mth('shout@lib')\n"},
		{"lib-index-fn", "setmetatable(string, {__index = F('behind-lib')})\n"},
		{"lib-no-index", "setmetatable(string, {__newindex = F('never')})\n"},
		{"strmeta-fn", "getmetatable('').__index = F('strmeta')\n"},
		{"strmeta-table", "getmetatable('').__index = {shout = Mth('shout@other'), upper = Mth('upper@other')}\n"},
		{"strmeta-nil", "getmetatable('').__index = nil\n"},
	}
	for n := 1; n <= 4; n++ {
		strSetups = append(strSetups,
			setup{fmt.Sprintf("lib-chain%d", n), chain("string", n, "")},
			setup{fmt.Sprintf("lib-chain%d-fn", n), chain("string", n, "F('end-of-chain')")})
		other := fmt.Sprintf("local other = {upper = Mth('upper@other')}\ngetmetatable('').__index = other\n")
		strSetups = append(strSetups,
			setup{fmt.Sprintf("strmeta-chain%d", n), other + chain("other", n, "")},
			setup{fmt.Sprintf("strmeta-chain%d-fn", n), other + chain("other", n, "F('end-of-chain')")})
	}
	recvs := []struct{ tag, pre, expr string }{
		{"lit", "", "('abc')"}, {"local", "local l = 'loc'", "l"}, {"upval", "", "s"}, {"global", "", "gs"},
		{"call", "", "('x'):rep(2)"}, {"concat", "", "(s .. '!')"},
	}
	for _, su := range strSetups {
		for _, late := range []bool{false, true} {
			var sb strings.Builder
			sb.WriteString(progSelfPrelude)
			sb.WriteString("gs = 'glob'\nlocal s = 'abc'\n")
			if late {
				// the library is used through method syntax BEFORE the setup changes the lookup path
				sb.WriteString("try('before', function() return s:upper(), ('x'):rep(3), s:len() end)\n")
			}
			sb.WriteString("do\n" + su.code + "end\n")
			for _, rc := range recvs {
				if rc.tag == "call" && strings.HasPrefix(su.name, "strmeta") {
					continue // `rep` is not reachable on these paths: the receiver expression itself would fail
				}
				for _, name := range []string{"upper", "shout", "nope"} {
					selfForms(&sb, rc.tag+"."+name, rc.pre, rc.expr, name)
				}
			}
			sb.WriteString("return 'end'")
			out = append(out, shapeProgram(sb.String(), "shape:method-call", "recv:string", "setup:"+su.name, fmt.Sprintf("late:%v", late)))
		}
	}
	// --- table receivers: the method raw in the receiver / at the end of a chain of length 1..4 / delivered by a function
	for n := 0; n <= 4; n++ {
		for _, end := range []string{"", "F('end-of-chain')", "{}"} {
			for _, own := range []bool{false, true} {
				var sb strings.Builder
				sb.WriteString(progSelfPrelude)
				sb.WriteString("local obj = {}\ngobj = obj\n")
				if own {
					sb.WriteString("obj.upper = Mth('upper@own')\n")
				}
				sb.WriteString("do\n" + chain("obj", n, end) + "end\n")
				for _, rc := range []struct{ tag, pre, expr string }{{"upval", "", "obj"}, {"local", "local l = obj", "l"}, {"global", "", "gobj"},
					{"paren", "", "(obj)"}, {"field", "", "({o = obj}).o"}} {
					for _, name := range []string{"upper", "shout", "nope"} {
						selfForms(&sb, rc.tag+"."+name, rc.pre, rc.expr, name)
					}
				}
				sb.WriteString("return 'end'")
				out = append(out, shapeProgram(sb.String(), "shape:method-call", "recv:table", fmt.Sprintf("chain:%d", n), "end:"+end, fmt.Sprintf("own:%v", own)))
			}
		}
	}
	return out
}
