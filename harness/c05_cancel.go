package main

// C05M stream (C) — CANCELLATION as the error: a done context, however it came to be the context of the running
// thread, raises an error that behaves like every other error of the property.
//
// Streams (A)/(B) inject ONE fault through a one-shot context that was attached before the run.  A real context
// stays done, and a host function may REPLACE the context of the state that is running it (a `deadline()` /
// `settimeout()` builtin: L.SetContext(new), L.RemoveContext()+L.SetContext(new), a child of the old context, two
// replacements in a row).  What the property says about that error does not depend on how the context got there:
//
//   * it is raised at the next instruction boundary of WHATEVER Lua code runs on the thread whose attached context
//     is done (the activation that was already running when the context was attached as much as one entered later),
//   * it is delivered once to the nearest enclosing pcall / xpcall (handler exactly once) / coroutine.resume /
//     Go-side PCall (DoString, CallByParam{Protect}) as the string `<chunk>:<line>: context canceled`, the
//     bookkeeping is restored (C05M pc), and — the context still being done — the very next instruction raises it
//     again: every enclosing protected call fails in turn and DoString returns the error.  A pcall never "swallows"
//     a cancellation so that the script carries on,
//   * a context that is NOT (any longer) attached to a thread has no effect on it at all.
//
// Family (bounded-exhaustive, every quick run): program shapes (protected-call nesting around the point where the
// cancellation is noticed: none, pcall, xpcall, nested both ways, retry loop, inside a handler, coroutine create /
// wrap, pcall inside a coroutine, metamethod, iterator, sort comparator, gsub callback, re-entrant DoString /
// CallByParam / unprotected Call from a host function) x the `site(i)` call at which the host replaces the context
// of the thread that calls it (none, or each marked point: before the nest, in each body, in the coroutine, in the
// re-entrant chunk, in the handler, after the nest) x the way of replacing x what is cancelled and when:
//     newk   the newest root context, inside the k-th VM poll, k sweeping EVERY instruction boundary of the run
//     oldk   the context attached before the run, inside the k-th poll, every k after the replacement
//     pre    the new context is already cancelled when it is attached
//     host / hostold   the newest / the first context, by the host function at site e (every pair of sites)
//     none   nothing is cancelled: the replacement itself must be invisible
// Scope: the state has a context before it runs anything, and a host function never returns to Lua code with the
// context removed (first attaching a context to / removing it from a state that is running are the recorded C11
// findings C11-setcontext-under-running-loop / C11-removecontext-under-running-loop, not this property's business).
// Contexts are real cancelCtx values behind a counting wrapper (the wrapper forwards Done/Value, so coroutines'
// derived contexts are cancelled synchronously): no timers, no goroutines, the k-th poll is the k-th poll on every
// machine.
//
// Oracle = ground truth kept by the harness, independent of the interpreter: every wrapper knows the roots it
// descends from, `done(thread)` = one of the roots of the thread's attached wrapper has been cancelled.
//   carried-on   host calls made BY LUA CODE on a thread whose context is done            (must be 0)
//   chunk        done(main) at the end => DoString returned the context's error (ApiErrorRun, position-prefixed);
//                no live thread affected => the run is identical to the fault-free run
//   acts         every pcall/xpcall/dostring/callp activation that ends with done(thread) failed with the context's
//                error (xpcall: handler called exactly once, with that error when it struck in the body); every resume
//                of a live coroutine that ends with done(coroutine) returned (false, error) and the coroutine is dead;
//                a wrapped coroutine whose context is done does not return normally; no protected call is left by a
//                raise; running thread = current thread after every one of them
//   prefix       the side effects up to the cancellation are a prefix of the fault-free side effects
//   final/probe  bookkeeping after the chunk returned to Go; a probe chunk behaves as after the fault-free run
//   truth        ground truth = Err() of the attached context for every live thread observed (a coroutine's context
//                descends from the context its creator had when it was created; otherwise a harness error)
// plus `C05M pc` (Lean model + restoration property) for every pcall/xpcall activation open at the cancellation.

import (
	"context"
	"fmt"
	"regexp"
	"strconv"
	"strings"
	"sync"
	"sync/atomic"
	"time"

	lua "github.com/yuin/gopher-lua"
	"github.com/yuin/gopher-lua/parse"
)

type ccShape struct {
	Name  string
	Sites int
	Src   string
}

// Conventions: site(i) marks a point (never in tail position: a tail-called host function may be the last thing an
// activation does, with no instruction boundary after it); every body/handler/callback is a Lua function; all loops
// are bounded, so that a tree which ignores the cancellation still terminates.
var ccShapes = []ccShape{
	{"flat", 2, `
emit("a") site(1)
local s = 0
for i = 1, 3 do s = s + i end
emit("b", s) site(2) emit("c")
return s`},
	{"pcall", 3, `
emit("top") site(1)
local ok, e = pcall(function()
  emit("in") site(2)
  local s = 0
  for i = 1, 2 do s = s + i end
  emit("in2", s)
end)
emit("after", ok) site(3) emit("end")
return ok`},
	{"xpcall", 3, `
local function H(m) emit("H") return m end
emit("top") site(1)
local ok, e = xpcall(function() emit("in") site(2) emit("in2") end, H)
emit("after", ok) site(3) emit("end")`},
	{"pcall-in-pcall", 5, `
site(1)
local ok = pcall(function()
  emit("o1") site(2)
  local ok2 = pcall(function() emit("i1") site(3) emit("i2") end)
  emit("o2", ok2) site(4) emit("o3")
end)
emit("after", ok) site(5) emit("end")`},
	{"xpcall-in-pcall", 5, `
local function H(m) emit("H") return m end
site(1)
local ok = pcall(function()
  emit("o1") site(2)
  local ok2 = xpcall(function() emit("i1") site(3) emit("i2") end, H)
  emit("o2", ok2) site(4) emit("o3")
end)
emit("after", ok) site(5) emit("end")`},
	{"pcall-in-xpcall", 5, `
local function H(m) emit("H") return "h" end
site(1)
local ok, r = xpcall(function()
  emit("o1") site(2)
  local ok2 = pcall(function() emit("i1") site(3) emit("i2") end)
  emit("o2", ok2) site(4) emit("o3")
end, H)
emit("after", ok, r) site(5) emit("end")`},
	{"three-deep", 4, `
local function H(m) emit("H") return m end
local ok1 = pcall(function()
  site(1)
  local ok2 = xpcall(function()
    site(2)
    local ok3 = pcall(function() emit("d3") site(3) emit("d3b") end)
    emit("d2", ok3)
  end, H)
  emit("d1", ok2)
end)
emit("after", ok1) site(4) emit("end")`},
	{"retry-loop", 4, `
for n = 1, 3 do
  local ok = pcall(function() emit("try", n) site(n) emit("done", n) end)
  emit("r", n, ok)
end
site(4) emit("end")`},
	{"swallow-and-go-on", 3, `
site(1)
pcall(function() emit("w1") site(2) emit("w2") end)
local n = 0
for i = 1, 4 do n = n + i emit("step", i) end
pcall(function() emit("w3") site(3) emit("w4") end)
emit("end", n)`},
	{"site-in-handler", 3, `
local function H(m) emit("H1") site(2) emit("H2") return "h" end
site(1)
local ok, r = xpcall(function() emit("in") error("boom") end, H)
emit("after", ok, r) site(3) emit("end")`},
	{"coroutine-create", 5, `
site(1)
local co = coroutine.create(function(a)
  emit("c1", a) site(2)
  local b = coroutine.yield(1)
  emit("c2", b) site(3) emit("c3")
  return 9
end)
emit("r1", coroutine.resume(co, 5)) site(4)
emit("r2", coroutine.resume(co, 6)) site(5)
emit("end", coroutine.status(co))`},
	{"coroutine-made-first", 4, `
local co = coroutine.create(function()
  emit("c1") site(2)
  coroutine.yield()
  emit("c2") site(3)
end)
site(1)
emit("r1", coroutine.resume(co))
local ok = pcall(function() emit("p") emit("r2", coroutine.resume(co)) emit("p2") end)
emit("after", ok) site(4) emit("end")`},
	{"wrap-in-pcall", 4, `
local gen = coroutine.wrap(function()
  emit("g1") site(1) coroutine.yield(1)
  emit("g2") site(2) coroutine.yield(2)
  emit("g3")
end)
local ok, e = pcall(function() emit("v", gen()) site(3) emit("v", gen()) emit("v", gen()) end)
emit("after", ok) site(4) emit("end")`},
	{"pcall-in-coroutine", 5, `
local co = coroutine.create(function()
  emit("c1") site(1)
  local ok = pcall(function() emit("p1") site(2) emit("p2") end)
  emit("c2", ok) site(3)
  coroutine.yield()
  emit("c3")
end)
site(4) emit("r", coroutine.resume(co)) site(5) emit("r", coroutine.resume(co)) emit("end")`},
	{"coroutine-in-coroutine", 4, `
local outer = coroutine.create(function()
  emit("o1") site(1)
  local inner = coroutine.create(function() emit("i1") site(2) coroutine.yield() emit("i2") site(3) end)
  emit("o2", coroutine.resume(inner))
  emit("o3", coroutine.resume(inner))
  site(4) emit("o4")
end)
emit("r", coroutine.resume(outer)) emit("end", coroutine.status(outer))`},
	{"metamethod-index", 4, `
local t = setmetatable({}, {__index = function(t, k) emit("idx", k) site(2) emit("idx2") return k end})
site(1)
local ok = pcall(function() emit("b") local x = t.a emit("x", x) site(3) local y = t.b emit("y", y) end)
emit("after", ok) site(4) emit("end")`},
	{"iterator", 3, `
local function iter(n, i) if i < n then emit("it", i) site(2) return i + 1 end end
site(1)
local ok = xpcall(function() for i in iter, 3, 0 do emit("body", i) end emit("loop-end") end, function(m) emit("H") return m end)
emit("after", ok) site(3) emit("end")`},
	{"sort-comparator", 3, `
local t = {3, 1, 2}
site(1)
local ok = pcall(table.sort, t, function(a, b) emit("cmp") site(2) return a < b end)
emit("after", ok, t[1]) site(3) emit("end")`},
	{"gsub-callback", 3, `
site(1)
local ok, r = pcall(function() local r = ("ab"):gsub(".", function(c) emit("cb", c) site(2) return c:upper() end) emit("r", r) end)
emit("after", ok) site(3) emit("end")`},
	{"dostring", 5, `
site(1)
local ok, e = dostring([[
  emit("n1") site(2)
  local ok2 = pcall(function() emit("n2") site(3) emit("n3") end)
  emit("n4", ok2) site(4) emit("n5")
]])
emit("after", ok) site(5) emit("end")`},
	{"callp", 4, `
site(1)
local ok = callp(function()
  emit("q1") site(2)
  local ok2 = callp(function() emit("q2") site(3) emit("q3") end)
  emit("q4", ok2)
end)
emit("after", ok) site(4) emit("end")`},
	{"host-call-in-pcall", 4, `
site(1)
local ok = pcall(function()
  emit("u1")
  call(function() emit("u2") site(2) emit("u3") end)
  emit("u4") site(3) emit("u5")
end)
emit("after", ok) site(4) emit("end")`},
}

var ccWays = []string{"set", "rmset", "child", "twice"}

var ccErrRe = regexp.MustCompile(`^<string>:\d+: context canceled$`)

func ccIsCtxErr(v lua.LValue) bool {
	s, ok := v.(lua.LString)
	return ok && ccErrRe.MatchString(string(s))
}

// ---- deterministic contexts ----

type ccRoot struct {
	cancel    context.CancelFunc
	cancelled bool
}

// ccCtx: a real cancelCtx (or a context derived from one) behind a wrapper that counts the VM's polls.  Done and
// Value are forwarded, so context.WithCancel(wrapper) registers the child with the real parent directly and a
// cancellation reaches derived (coroutine) contexts synchronously.
type ccCtx struct {
	inner context.Context
	w     *ccWorld
	anc   []*ccRoot // the roots this context descends from (ground truth of "is done")
}

func (c *ccCtx) Deadline() (time.Time, bool)     { return c.inner.Deadline() }
func (c *ccCtx) Err() error                      { return c.inner.Err() }
func (c *ccCtx) Value(k interface{}) interface{} { return c.inner.Value(k) }
func (c *ccCtx) Done() <-chan struct{} {
	if fromVMPoll() {
		c.w.poll()
	}
	return c.inner.Done()
}

var _ context.Context = (*ccCtx)(nil)

type ccSpec struct {
	shape int
	site  int    // site(i) that replaces the context (0 = never)
	way   string // set | rmset | child | twice
	mode  string // none | newk | oldk | pre | host | hostold
	n     int    // k (newk/oldk) or e (host/hostold)
}

func (s ccSpec) tag() string {
	return fmt.Sprintf("%s/%d/%s/%s/%d", ccShapes[s.shape].Name, s.site, s.way, s.mode, s.n)
}

type ccAct struct {
	id         int
	kind       string // pcall | xpcall | dostring | callp | resume | wrapcall
	th         *lua.LState
	target     *lua.LState // resume / wrapcall: the coroutine
	enterT     int
	exitT      int
	aborted    bool
	doneAtExit bool // ground truth of th (protected calls) / of target (resume, wrapcall) when the call came back
	tDeadEnter bool
	tDeadExit  bool
	fail       bool
	nres       int
	payload    lua.LValue
	pre, post  lua.VerifSnapshot
	prePM      int
	postPM     int
	isCur      bool
	hCalls     int
	hArg       lua.LValue
	hEnterT    int
}

type ccWorld struct {
	L          *lua.LState
	rt         *RefTable
	spec       ccSpec
	trace      []string
	acts       []*ccAct
	clock      int
	polls      int
	roots      []*ccRoot
	threads    []*lua.LState
	fired      bool
	fireT      int
	fireE      int
	deadAtFire map[*lua.LState]bool
	rearms     int
	rearmPoll  int
	carried    int
	carriedAt  string
	truthBad   string
	probing    bool
}

func (w *ccWorld) tick() int { w.clock++; return w.clock }

func (w *ccWorld) newRoot(parent context.Context, anc []*ccRoot) *ccCtx {
	inner, cancel := context.WithCancel(parent)
	r := &ccRoot{cancel: cancel}
	w.roots = append(w.roots, r)
	return &ccCtx{inner: inner, w: w, anc: append(append([]*ccRoot{}, anc...), r)}
}

func (w *ccWorld) poll() {
	if w.probing {
		return
	}
	w.polls++
	if !w.fired && w.polls == w.spec.n {
		switch w.spec.mode {
		case "newk":
			w.fire(w.roots[len(w.roots)-1])
		case "oldk":
			w.fire(w.roots[0])
		}
	}
}

func (w *ccWorld) fire(r *ccRoot) {
	w.fired = true
	w.fireT = w.tick()
	w.fireE = len(w.trace)
	w.deadAtFire = map[*lua.LState]bool{}
	for _, th := range w.threads {
		if th.Dead {
			w.deadAtFire[th] = true
		}
	}
	r.cancelled = true
	r.cancel()
}

// done: ground truth — has a root of the thread's attached context been cancelled?
func (w *ccWorld) done(L *lua.LState) bool {
	c, ok := L.Context().(*ccCtx)
	if !ok {
		if !w.probing && w.truthBad == "" {
			w.truthBad = "a thread without a harness context"
		}
		return false
	}
	d := false
	for _, r := range c.anc {
		if r.cancelled {
			d = true
		}
	}
	if !L.Dead && d != (c.inner.Err() != nil) && w.truthBad == "" {
		w.truthBad = fmt.Sprintf("ground truth %v but Err() = %v", d, c.inner.Err())
	}
	return d
}

// fromLua: a host function was called by Lua code running on L — an instruction has just been executed there.
func (w *ccWorld) fromLua(L *lua.LState, label string) {
	if w.probing {
		return
	}
	if w.done(L) {
		w.carried++
		if w.carriedAt == "" {
			w.carriedAt = label
		}
	}
}

func (w *ccWorld) rearm(L *lua.LState) {
	w.rearms++
	if w.rearms == 1 {
		w.rearmPoll = w.polls
	}
	old, _ := L.Context().(*ccCtx)
	var c *ccCtx
	switch w.spec.way {
	case "child":
		c = w.newRoot(old, old.anc)
	case "twice":
		// an intermediate context that is cancelled and replaced before any instruction could poll it
		tmp := w.newRoot(context.Background(), nil)
		L.SetContext(tmp)
		tmp.anc[0].cancel()
		w.roots = w.roots[:len(w.roots)-1]
		c = w.newRoot(context.Background(), nil)
	default:
		c = w.newRoot(context.Background(), nil)
	}
	if w.spec.mode == "pre" && !w.fired {
		// cancelled before the replacement: the context is already done when it is attached
		w.fire(c.anc[len(c.anc)-1])
	}
	if w.spec.way == "rmset" {
		L.RemoveContext()
	}
	L.SetContext(c)
}

func (w *ccWorld) install() {
	L := w.L
	L.SetGlobal("emit", L.NewFunction(func(L *lua.LState) int {
		n := L.GetTop()
		parts := make([]string, n)
		for i := 1; i <= n; i++ {
			parts[i-1] = encVal(L.Get(i), w.rt)
		}
		ev := "E:" + strings.Join(parts, ",")
		w.fromLua(L, ev)
		w.trace = append(w.trace, ev)
		return 0
	}))
	L.SetGlobal("site", L.NewFunction(func(L *lua.LState) int {
		i := L.CheckInt(1)
		ev := "S:" + strconv.Itoa(i)
		w.fromLua(L, ev)
		w.trace = append(w.trace, ev)
		if w.probing {
			return 0
		}
		if i == w.spec.site {
			w.rearm(L)
		}
		if !w.fired && i == w.spec.n {
			switch w.spec.mode {
			case "host":
				w.fire(w.roots[len(w.roots)-1])
			case "hostold":
				w.fire(w.roots[0])
			}
		}
		return 0
	}))
	enter := func(L *lua.LState, kind string, target *lua.LState) *ccAct {
		a := &ccAct{id: len(w.acts), kind: kind, th: L, target: target}
		if w.probing {
			return a
		}
		w.fromLua(L, kind)
		a.enterT, a.pre, a.prePM = w.tick(), L.VerifSnapshot(), L.VerifPanicMode()
		if target != nil {
			a.tDeadEnter = target.Dead
		}
		w.acts = append(w.acts, a)
		return a
	}
	exit := func(L *lua.LState, a *ccAct, n int) {
		if w.probing {
			return
		}
		a.exitT = w.tick()
		a.post, a.postPM = L.VerifSnapshot(), L.VerifPanicMode()
		a.nres = n
		a.isCur = L.VerifIsCurrentThread()
		if n >= 1 {
			a.fail = L.Get(L.GetTop()-n+1) == lua.LFalse
		}
		if a.fail && n >= 2 {
			a.payload = L.Get(L.GetTop() - n + 2)
		}
		if a.target != nil {
			a.doneAtExit, a.tDeadExit = w.done(a.target), a.target.Dead
		} else {
			a.doneAtExit = w.done(L)
		}
	}
	abortGuard := func(a *ccAct, done *bool) {
		if !*done && !w.probing {
			a.aborted = true
			if a.target != nil {
				a.doneAtExit, a.tDeadExit = w.done(a.target), a.target.Dead
			}
		}
	}
	origP := L.GetGlobal("pcall").(*lua.LFunction).GFunction
	origX := L.GetGlobal("xpcall").(*lua.LFunction).GFunction
	co := L.GetGlobal("coroutine").(*lua.LTable)
	origR := co.RawGetString("resume").(*lua.LFunction).GFunction
	origC := co.RawGetString("create").(*lua.LFunction).GFunction
	origW := co.RawGetString("wrap").(*lua.LFunction).GFunction
	// the wrapper runs baselib's own function in the wrapper's frame (as in stream B)
	protect := func(kind string, orig lua.LGFunction) lua.LGFunction {
		return func(L *lua.LState) int {
			a := enter(L, kind, nil)
			done := false
			defer abortGuard(a, &done)
			if kind == "xpcall" && L.GetTop() >= 2 {
				if h, ok := L.Get(2).(*lua.LFunction); ok {
					L.Replace(2, L.NewFunction(func(L *lua.LState) int {
						a.hCalls++
						a.hEnterT = w.tick()
						a.hArg = L.Get(1)
						top := L.GetTop()
						L.Push(h)
						for i := 1; i <= top; i++ {
							L.Push(L.Get(i))
						}
						L.Call(top, 1)
						return 1
					}))
				}
			}
			n := orig(L)
			done = true
			exit(L, a, n)
			return n
		}
	}
	L.SetGlobal("pcall", L.NewFunction(protect("pcall", origP)))
	L.SetGlobal("xpcall", L.NewFunction(protect("xpcall", origX)))
	// Go-side protected calls made by a host function while Lua code is running (re-entrant DoString / CallByParam)
	goProtected := func(kind string, body func(L *lua.LState) error) lua.LGFunction {
		return func(L *lua.LState) int {
			a := enter(L, kind, nil)
			done := false
			defer abortGuard(a, &done)
			err := body(L)
			L.SetTop(0)
			n := 1
			if err == nil {
				L.Push(lua.LTrue)
			} else {
				L.Push(lua.LFalse)
				if ae, ok := err.(*lua.ApiError); ok && ae.Object != nil {
					L.Push(ae.Object)
				} else {
					L.Push(lua.LString("GO:" + err.Error()))
				}
				n = 2
			}
			done = true
			exit(L, a, n)
			return n
		}
	}
	L.SetGlobal("dostring", L.NewFunction(goProtected("dostring", func(L *lua.LState) error {
		src := L.CheckString(1)
		top := L.GetTop()
		err := L.DoString(src)
		L.SetTop(top)
		return err
	})))
	L.SetGlobal("callp", L.NewFunction(goProtected("callp", func(L *lua.LState) error {
		return L.CallByParam(lua.P{Fn: L.CheckFunction(1), NRet: 0, Protect: true})
	})))
	L.SetGlobal("call", L.NewFunction(func(L *lua.LState) int {
		w.fromLua(L, "call")
		L.Push(L.CheckFunction(1))
		L.Call(0, 0)
		return 0
	}))
	co.RawSetString("resume", L.NewFunction(func(L *lua.LState) int {
		th, _ := L.Get(1).(*lua.LState)
		a := enter(L, "resume", th)
		done := false
		defer abortGuard(a, &done)
		n := origR(L)
		done = true
		exit(L, a, n)
		return n
	}))
	// a new coroutine gets the context NewThread derived for it, behind a counting wrapper with its creator's roots
	adopt := func(L, th *lua.LState) {
		if cr, ok := L.Context().(*ccCtx); ok && th.Context() != nil {
			th.SetContext(&ccCtx{inner: th.Context(), w: w, anc: cr.anc})
			w.threads = append(w.threads, th)
		}
	}
	co.RawSetString("create", L.NewFunction(func(L *lua.LState) int {
		w.fromLua(L, "create")
		n := origC(L)
		if th, ok := L.Get(-1).(*lua.LState); ok {
			adopt(L, th)
		}
		return n
	}))
	co.RawSetString("wrap", L.NewFunction(func(L *lua.LState) int {
		w.fromLua(L, "wrap")
		origW(L)
		wf := L.Get(-1).(*lua.LFunction)
		th := wf.Upvalues[0].Value().(*lua.LState)
		adopt(L, th)
		L.Pop(1)
		L.Push(L.NewFunction(func(L *lua.LState) int {
			a := enter(L, "wrapcall", th)
			done := false
			defer abortGuard(a, &done)
			nargs := L.GetTop()
			L.Insert(wf, 1)
			L.Call(nargs, lua.MultRet)
			done = true
			n := L.GetTop()
			if !w.probing {
				a.exitT = w.tick()
				a.isCur = L.VerifIsCurrentThread()
				a.doneAtExit, a.tDeadExit = w.done(th), th.Dead
			}
			return n
		}))
		return 1
	}))
}

type ccResult struct {
	w        *ccWorld
	err      error
	results  []string
	final    lua.VerifSnapshot
	finalPM  int
	panicked string
	probe    []string
	mainDone bool
	affected bool
}

func ccRun(spec ccSpec) (res *ccResult) {
	// a small state (the family runs ~20000 of them per quick check): only the libraries the shapes use
	L := lua.NewState(lua.Options{SkipOpenLibs: true, CallStackSize: 64, RegistrySize: 1024})
	defer L.Close()
	w := &ccWorld{L: L, rt: NewRefTable(), spec: spec}
	res = &ccResult{w: w}
	for _, lib := range []struct {
		name string
		open lua.LGFunction
	}{{lua.BaseLibName, lua.OpenBase}, {lua.TabLibName, lua.OpenTable}, {lua.StringLibName, lua.OpenString}, {lua.CoroutineLibName, lua.OpenCoroutine}} {
		L.Push(L.NewFunction(lib.open))
		L.Push(lua.LString(lib.name))
		L.Call(1, 0)
	}
	defer func() {
		if r := recover(); r != nil {
			s := fmt.Sprint(r)
			if len(s) > 200 {
				s = s[:200]
			}
			res.panicked = strings.ReplaceAll(s, "\n", " | ")
		}
	}()
	L.SetContext(w.newRoot(context.Background(), nil)) // the state has a context before it runs anything
	w.install()
	// (= DoString: Load + PCall; the chunk is compiled once and its prototype shared by all runs)
	L.Push(L.NewFunctionFromProto(ccProto(ccShapes[spec.shape].Src)))
	res.err = L.PCall(0, lua.MultRet, nil)
	for i := 1; i <= L.GetTop(); i++ {
		res.results = append(res.results, encVal(L.Get(i), w.rt))
	}
	L.SetTop(0)
	res.final, res.finalPM = L.VerifSnapshot(), L.VerifPanicMode()
	res.mainDone = w.done(L)
	res.affected = res.mainDone
	for _, th := range w.threads {
		if !w.deadAtFire[th] && w.done(th) {
			res.affected = true
		}
	}
	// continuation probe in the same state under a fresh context
	w.probing = true
	L.SetContext(context.Background())
	before := len(w.trace)
	L.Push(L.NewFunctionFromProto(ccProto(ccProbeSrc)))
	if err := L.PCall(0, lua.MultRet, nil); err != nil {
		res.probe = []string{"probe-error:" + hexs2(err.Error())}
	} else {
		res.probe = append([]string{}, w.trace[before:]...)
	}
	w.trace = w.trace[:before]
	return
}

// ccProbeSrc: what a chunk run afterwards in the same state must still be able to do (compared with the same probe
// after the fault-free run).
const ccProbeSrc = `
local out = {}
local function rec(n) if n == 0 then return 0 end return 1 + rec(n - 1) end
out[#out+1] = rec(30)
local c = 0
local function inc() c = c + 1 return c end
inc(); inc()
out[#out+1] = c
out[#out+1] = tostring(pcall(error, "p"))
out[#out+1] = select(2, pcall(error, {}, 1)) ~= nil
local co = coroutine.create(function(a) local b = coroutine.yield(a + 1) return b * 2 end)
out[#out+1] = select(2, coroutine.resume(co, 1))
out[#out+1] = select(2, coroutine.resume(co, 21))
out[#out+1] = coroutine.status(co)
out[#out+1] = select(2, xpcall(function() local t = nil; return t.x end, function(m) return "H" end))
out[#out+1] = (coroutine.running() == nil)
out[#out+1] = select(2, callp(function() local t = {} ; t.x.y = 1 end))
for i = 1, #out do emit(out[i]) end
`

var ccProtos sync.Map // source → *lua.FunctionProto

func ccProto(src string) *lua.FunctionProto {
	if v, ok := ccProtos.Load(src); ok {
		return v.(*lua.FunctionProto)
	}
	chunk, err := parse.Parse(strings.NewReader(src), "<string>")
	if err != nil {
		panic("cancellation family: program does not parse: " + err.Error())
	}
	proto, err := lua.Compile(chunk, "<string>")
	if err != nil {
		panic("cancellation family: program does not compile: " + err.Error())
	}
	ccProtos.Store(src, proto)
	return proto
}

var ccFFCache sync.Map // (shape, site, way) → *ccResult of the run in which nothing is cancelled

func ccFaultFree(shape, site int, way string) *ccResult {
	if site == 0 {
		way = "set"
	}
	key := fmt.Sprintf("%d/%d/%s", shape, site, way)
	if v, ok := ccFFCache.Load(key); ok {
		return v.(*ccResult)
	}
	r := ccRun(ccSpec{shape: shape, site: site, way: way, mode: "none"})
	ccFFCache.Store(key, r)
	return r
}

func ccErrToken(err error) string {
	if err == nil {
		return "ok"
	}
	if ae, ok := err.(*lua.ApiError); ok && ae.Type == lua.ApiErrorRun && ccIsCtxErr(ae.Object) {
		return "cancelled"
	}
	m := err.Error()
	if len(m) > 60 {
		m = m[:60]
	}
	return "other:" + hexs2(m)
}

func ccSameStrings(a, b []string) bool {
	if len(a) != len(b) {
		return false
	}
	for i := range a {
		if a[i] != b[i] {
			return false
		}
	}
	return true
}

// what the family exercised (evidence: the oracle's clauses are not vacuous)
var ccStat struct {
	fired, chunkCancelled, chunkAsFaultFree, chunkAny int64
	protectedUnderDone, resumeUnderDone, wrapRaised   int64
	pcLines, firedInCoroutine                         int64
}

// execCancel: one member of the family → request lines.
func execCancel(op Op) []string {
	spec := ccSpec{shape: c05atoi(op.Args[1]), site: c05atoi(op.Args[2]), way: op.Args[3], mode: op.Args[4], n: c05atoi(op.Args[5])}
	tag := spec.tag()
	// reference: the same program with the same replacement and nothing cancelled; for mode none (is the
	// replacement itself invisible?) the program without any replacement
	ref := ccFaultFree(spec.shape, spec.site, spec.way)
	if spec.mode == "none" {
		ref = ccFaultFree(spec.shape, 0, "set")
	}
	if ref.panicked != "" {
		return []string{"X fault-free-run cancel:" + tag + " => " + ref.panicked}
	}
	if len(ref.probe) == 0 || strings.HasPrefix(ref.probe[0], "probe-error") {
		return []string{"X fault-free-probe cancel:" + tag + " => " + strings.Join(ref.probe, ",")}
	}
	fr := ccRun(spec)
	if fr.panicked != "" {
		return []string{"X gopanic-escaped-DoString cancel:" + tag + " => " + fr.panicked}
	}
	w := fr.w
	var out []string
	var exp, obs []string
	add := func(name, e, o string) {
		exp = append(exp, name+"="+e)
		obs = append(obs, name+"="+o)
	}
	// carried-on
	o := strconv.Itoa(w.carried)
	if w.carried > 0 {
		o += "@" + w.carriedAt
	}
	add("carried-on", "0", o)
	// chunk
	switch {
	case fr.mainDone:
		atomic.AddInt64(&ccStat.chunkCancelled, 1)
		add("chunk", "cancelled", ccErrToken(fr.err))
	case !fr.affected:
		if w.fired {
			atomic.AddInt64(&ccStat.chunkAsFaultFree, 1)
		}
		o := "as-fault-free"
		if fr.err != nil {
			o = "err:" + ccErrToken(fr.err)
		} else if !ccSameStrings(w.trace, ref.w.trace) {
			o = "trace-differs"
		} else if !ccSameStrings(fr.results, ref.results) {
			o = "results-differ"
		}
		add("chunk", "as-fault-free", o)
	default:
		atomic.AddInt64(&ccStat.chunkAny, 1)
		add("chunk", "any", "any")
	}
	if w.fired {
		atomic.AddInt64(&ccStat.fired, 1)
	}
	// activations
	bad := "ok"
	note := func(a *ccAct, what string) {
		if bad == "ok" {
			bad = fmt.Sprintf("%s#%d:%s", a.kind, a.id, what)
		}
	}
	for _, a := range w.acts {
		switch a.kind {
		case "pcall", "xpcall", "dostring", "callp":
			if a.aborted || a.exitT == 0 {
				note(a, "left-by-a-raise")
				continue
			}
			if a.kind == "xpcall" && a.hCalls > 1 {
				note(a, fmt.Sprintf("handler-called-%d-times", a.hCalls))
			}
			if !a.doneAtExit {
				continue
			}
			atomic.AddInt64(&ccStat.protectedUnderDone, 1)
			switch {
			case !a.fail:
				note(a, "returned-true-under-a-done-context")
			case !ccIsCtxErr(a.payload):
				note(a, "delivered:"+encVal(a.payload, w.rt))
			case a.kind == "xpcall" && a.hCalls != 1:
				note(a, fmt.Sprintf("handler-called-%d-times", a.hCalls))
			case a.kind == "xpcall" && a.hEnterT > w.fireT && !ccIsCtxErr(a.hArg):
				note(a, "handler-received:"+encVal(a.hArg, w.rt))
			}
			if !a.isCur {
				note(a, "running-thread-is-not-current")
			}
		case "resume":
			if a.aborted || a.exitT == 0 {
				note(a, "left-by-a-raise")
				continue
			}
			if !a.isCur {
				note(a, "running-thread-is-not-current")
			}
			if a.target == nil || a.tDeadEnter || !a.doneAtExit {
				continue
			}
			atomic.AddInt64(&ccStat.resumeUnderDone, 1)
			switch {
			case !a.fail:
				note(a, "returned-true-under-a-done-context")
			case !ccIsCtxErr(a.payload):
				note(a, "delivered:"+encVal(a.payload, w.rt))
			case !a.tDeadExit:
				note(a, "failed-coroutine-is-not-dead")
			}
		case "wrapcall":
			if !a.aborted && a.exitT > 0 && !a.tDeadEnter && a.doneAtExit {
				note(a, "returned-under-a-done-context")
			} else if a.aborted && a.doneAtExit {
				atomic.AddInt64(&ccStat.wrapRaised, 1)
			}
		}
	}
	add("acts", "ok", bad)
	// prefix
	pf := "ok"
	if w.fired {
		if w.fireE > len(ref.w.trace) || !ccSameStrings(w.trace[:w.fireE], ref.w.trace[:w.fireE]) {
			pf = "not-a-prefix"
		}
	}
	add("prefix", "ok", pf)
	add("final", "0,0,-1,-1,0,0,-", strings.ReplaceAll(snapTokens(fr.final, fr.finalPM), " ", ","))
	pr := "ok"
	if !ccSameStrings(fr.probe, ref.probe) {
		pr = strings.Join(fr.probe, ",")
		if len(pr) > 120 {
			pr = pr[:120]
		}
	}
	add("probe", "ok", pr)
	tr := "ok"
	if w.truthBad != "" {
		tr = strings.ReplaceAll(w.truthBad, " ", "_")
	}
	add("truth", "ok", tr)
	out = append(out, fmt.Sprintf("C05M same cancel:%s %d %s => %s", tag, len(exp), strings.Join(exp, " "), strings.Join(obs, " ")))
	// bookkeeping before/after every pcall/xpcall that was open when the context became done (model + property)
	if w.fired {
		for _, a := range w.acts {
			if (a.kind == "pcall" || a.kind == "xpcall") && a.exitT > 0 && a.enterT < w.fireT && w.fireT < a.exitT {
				oc, nres := "ok", a.nres-1
				if a.fail {
					oc, nres = "fail", 0
				}
				atomic.AddInt64(&ccStat.pcLines, 1)
				out = append(out, fmt.Sprintf("C05M pc %s %s %s %d => %s", a.kind, oc, snapTokens(a.pre, a.prePM), nres, snapTokens(a.post, a.postPM)))
			}
		}
	}
	return out
}

// ccCases enumerates the family.  sweepWays: the ways of replacing that get the full per-instruction sweeps.
func ccCases(thorough bool) (cases [][]Op, stats map[string]int) {
	stats = map[string]int{}
	mk := func(shape, site int, way, mode string, n int) {
		cases = append(cases, []Op{{Args: []string{"cancel", strconv.Itoa(shape), strconv.Itoa(site), way, mode, strconv.Itoa(n)}}})
		stats[mode]++
	}
	sweepWays := ccWays[:3]
	if thorough {
		sweepWays = ccWays
	}
	for si, sh := range ccShapes {
		base := ccFaultFree(si, 0, "set")
		if base.panicked != "" {
			mk(si, 0, "set", "none", 0)
			continue
		}
		// no replacement: the context attached before the run is cancelled inside its k-th poll, every k
		for k := 1; k <= base.w.polls+1; k++ {
			mk(si, 0, "set", "newk", k)
		}
		for e := 1; e <= sh.Sites; e++ {
			mk(si, 0, "set", "host", e)
		}
		for site := 1; site <= sh.Sites; site++ {
			for _, way := range ccWays {
				ff := ccFaultFree(si, site, way)
				mk(si, site, way, "none", 0)
				if ff.panicked != "" {
					continue
				}
				mk(si, site, way, "pre", 0)
				for e := 1; e <= sh.Sites; e++ {
					mk(si, site, way, "host", e)
					mk(si, site, way, "hostold", e)
				}
			}
			for _, way := range sweepWays {
				ff := ccFaultFree(si, site, way)
				if ff.panicked != "" {
					continue
				}
				// the cancellation strikes shortly before the replacement (2 boundaries) and at EVERY boundary after it
				lo := ff.w.rearmPoll - 1
				if lo < 1 {
					lo = 1
				}
				for k := lo; k <= ff.w.polls+1; k++ {
					mk(si, site, way, "newk", k)
				}
				for k := ff.w.rearmPoll + 1; k <= ff.w.polls; k++ {
					mk(si, site, way, "oldk", k)
				}
			}
		}
	}
	return
}
