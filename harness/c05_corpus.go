package main

// Corpus of the C05M fault enumeration: small terminating Lua programs that nest pcall / xpcall / coroutines /
// metamethods / iterators / sort comparators / gsub callbacks, log through emit(...) and call the host function
// hostf(...) at the points where host-side faults are injected.
//
// Cut = the bodies of the protected calls have no side effect besides emit and their own locals, so the
// continuation after a caught fault must equal the fault-free run in which the catching call is replaced by
// its (false, msg) result.

type c05Prog struct {
	Name string
	Src  string
	Cut  bool
}

var c05Corpus = []c05Prog{
	{"plain-pcall", `
local a, b = 1, 2
local ok, m = pcall(function(x, y)
  emit("in", x, y)
  local s = 0
  for i = 1, 3 do s = s + hostf(i) end
  emit("sum", s)
  return s
end, a, b)
emit("after", ok, type(m), a, b)
return ok
`, true},
	{"caller-locals-and-upvalues", `
local x, y = 1, 10
local function getx() return x end
local function bump() y = y + 1 return y end
local ok = pcall(function()
  emit("body", getx(), hostf(5))
  local z = hostf(6) + 1
  emit("z", z)
end)
x = 2
emit("shared", ok, getx(), bump(), bump(), y)
x = x + 40
emit("shared2", getx())
`, true},
	{"upvalue-written-inside", `
local n = 0
local function inc() n = n + 1 return n end
local ok = pcall(function()
  inc(); emit("n1", n)
  hostf(1)
  inc(); emit("n2", n)
  hostf(2)
  inc(); emit("n3", n)
end)
emit("after", ok, n == inc() - 1)
`, false},
	{"nested-pcall", `
local function lvl3() emit("l3"); hostf(3); emit("l3b"); return 3 end
local function lvl2() local ok, v = pcall(lvl3); emit("l2", ok, type(v)); hostf(2); return ok and v or -1 end
local function lvl1() local ok, v = pcall(lvl2); emit("l1", ok, type(v)); hostf(1); return v end
local ok, v = pcall(lvl1)
emit("top", ok, type(v))
`, true},
	{"xpcall-handler", `
local function handler(m) emit("handler", type(m)); return "H" end
local ok, r = xpcall(function()
  emit("b1"); hostf(1); emit("b2")
  local t = {}
  for i = 1, 3 do t[i] = hostf(i) * 2 end
  emit("b3", #t)
  return "done"
end, handler)
emit("after", ok, r)
`, true},
	{"xpcall-handler-sees-stack", `
local depth = 0
local function handler(m)
  local tb = debug.traceback("t", 1)
  emit("handler", type(m), #tb > 0)
  return {m}
end
local function deep(n) if n == 0 then hostf(9); emit("bottom") return 0 end return 1 + deep(n - 1) end
local ok, r = xpcall(function() return deep(4) end, handler)
emit("after", ok, type(r))
`, true},
	{"pcall-inside-xpcall", `
local function h(m) emit("outer-handler"); return "OH" end
local ok, r = xpcall(function()
  local v = 5
  local f = function() return v end
  local ok2, m2 = pcall(function() emit("inner"); hostf(1); emit("inner2") end)
  emit("mid", ok2, f())
  v = 42
  hostf(2)
  emit("mid2", f())
  return f()
end, h)
emit("after", ok, r)
`, true},
	{"xpcall-inside-pcall-failing-handler", `
local ok, r = pcall(function()
  local ok2, r2 = xpcall(function() emit("b"); hostf(1); emit("b2") end,
                         function(m) emit("h"); hostf(2); emit("h2"); return "HR" end)
  emit("inner", ok2, type(r2))
  hostf(3)
  return 1
end)
emit("after", ok, type(r))
`, true},
	{"error-values", `
local vals = { "s", 42, false, {}, function() end }
for i = 1, #vals do
  local ok, e = pcall(error, vals[i])
  emit("v", i, ok, type(e), rawequal(e, vals[i]) or type(e) == "string")
  hostf(i)
end
local ok, e = pcall(error)
emit("nil", ok, e)
local ok2, e2 = pcall(error, "lvl2", 2)
emit("l2", ok2, e2)
`, true},
	{"runtime-faults", `
local function try(f, ...) local ok, m = pcall(f, ...) emit(ok, type(m)) hostf(1) end
try(function() local t = nil; return t.x end)
try(function() return 1 + {} end)
try(function() return #5 end)
try(function() return ("x")() end)
try(function() return {} < {} end)
try(function() local a = "a" .. {} end)
try(string.rep)
try(setmetatable, 1, 2)
emit("end")
`, true},
	{"coroutine-basic", `
local co = coroutine.create(function(a)
  emit("co1", a)
  local b = coroutine.yield(hostf(a + 1))
  emit("co2", b)
  local c = coroutine.yield(hostf(b + 1))
  emit("co3", c)
  return "fin"
end)
local r = {}
for i = 1, 4 do
  local ok, v = coroutine.resume(co, i * 10)
  r[#r + 1] = tostring(ok)
  emit("res", i, ok, type(v), coroutine.status(co))
end
emit("end", table.concat(r, ","))
`, false},
	{"coroutine-error-inside", `
local escaped
local co = coroutine.create(function()
  local secret = 7
  escaped = function() return secret end
  emit("in"); hostf(1)
  secret = 8
  emit("in2"); hostf(2)
  error("co-fail")
end)
local ok, m = coroutine.resume(co)
emit("out", ok, type(m), coroutine.status(co), escaped and escaped())
local ok2, m2 = coroutine.resume(co)
emit("again", ok2, m2)
`, false},
	{"wrap-error-propagates", `
local gen = coroutine.wrap(function()
  for i = 1, 3 do emit("gen", i); coroutine.yield(hostf(i)) end
  error("gen-done")
end)
local got = {}
local ok, m = pcall(function()
  for i = 1, 5 do got[#got + 1] = gen() end
end)
emit("after", ok, #got, coroutine.running() == nil)
local ok2, m2 = pcall(gen)
emit("dead", ok2, type(m2))
`, false},
	{"wrap-inside-coroutine", `
local outer = coroutine.create(function()
  local me = coroutine.running()
  local w = coroutine.wrap(function() emit("w"); hostf(1); error("w-fail") end)
  local ok, m = pcall(w)
  emit("caught", ok, coroutine.running() == me, coroutine.status(me))
  local v = coroutine.yield("y")
  emit("resumed", v)
  return "ret"
end)
emit(coroutine.resume(outer))
emit(coroutine.status(outer))
emit(coroutine.resume(outer, 5))
emit(coroutine.status(outer))
`, false},
	{"pcall-inside-coroutine", `
local co = coroutine.create(function()
  local acc = {}
  for i = 1, 3 do
    local ok, v = pcall(function() emit("try", i); return hostf(i) * i end)
    acc[#acc + 1] = ok and v or -1
  end
  coroutine.yield(#acc)
  return acc[1] + acc[2] + acc[3]
end)
emit(coroutine.resume(co))
emit(coroutine.resume(co))
emit(coroutine.status(co))
`, true},
	{"metamethod-index", `
local mt = { __index = function(t, k) emit("idx", k); hostf(1); if k == "bad" then error("no " .. k) end return k .. "!" end }
local t = setmetatable({}, mt)
local ok, v = pcall(function() return t.a .. t.b end)
emit("r1", ok, type(v))
local ok2, v2 = pcall(function() return t.a .. t.bad .. t.c end)
emit("r2", ok2, type(v2))
emit("r3", t.z)
`, true},
	{"metamethod-arith-call", `
local V = {}
V.__add = function(a, b) emit("add"); hostf(1); return setmetatable({ n = a.n + b.n }, V) end
V.__call = function(self, x) emit("call", x); hostf(2); return self.n + x end
V.__eq = function(a, b) emit("eq"); return a.n == b.n end
local a, b = setmetatable({ n = 1 }, V), setmetatable({ n = 2 }, V)
local ok, r = pcall(function() local c = a + b; return c(10), c == a end)
emit("r", ok, type(r))
local ok2, r2 = pcall(function() return (a + b + a)(1) end)
emit("r2", ok2, type(r2))
`, true},
	{"metamethod-newindex", `
local log = {}
local t = setmetatable({}, { __newindex = function(t, k, v) emit("ni", k); hostf(1); rawset(t, k, v) end })
local ok = pcall(function() t.a = 1; t.b = 2; t.a = 3 end)
emit("r", ok, t.a, t.b)
`, false},
	{"iterator-generic-for", `
local function range(n)
  local i = 0
  return function() i = i + 1; hostf(i); if i <= n then return i end end
end
local ok, m = pcall(function()
  local s = 0
  for v in range(4) do s = s + v; emit("it", v) end
  return s
end)
emit("r", ok, type(m))
local ok2 = pcall(function() for k, v in pairs(setmetatable({}, {})) do end; for i, v in ipairs({ 1, 2 }) do emit("ip", i); hostf(i) end end)
emit("r2", ok2)
`, true},
	{"sort-comparator", `
local t = { 5, 2, 8, 1, 9, 3 }
local ok, m = pcall(table.sort, t, function(a, b) hostf(a); return a < b end)
emit("sorted", ok, type(m), #t)
local u = { 3, 1, 2 }
local ok2 = pcall(table.sort, u, function(a, b) if a == 2 then error("cmp") end return a < b end)
emit("cmp-error", ok2, #u)
local n = 0
for i = 1, #t do n = n + t[i] end
emit("sum-preserved", n)
`, false},
	{"gsub-callback", `
local ok, r = pcall(string.gsub, "a1b2c3", "%d", function(d) emit("cb", d); hostf(tonumber(d)); return "<" .. d .. ">" end)
emit("r", ok, type(r))
local ok2, r2 = pcall(string.gsub, "xyz", "%w", function(c) if c == "y" then error({ c }) end return c:upper() end)
emit("r2", ok2, type(r2))
local ok3, r3 = pcall(function() return (("k=v"):gsub("(%w+)=(%w+)", function(k, v) return hostf(v) .. "=" .. k end)) end)
emit("r3", ok3, r3)
`, true},
	{"tostring-metamethod-reentry", `
local obj = setmetatable({}, { __tostring = function() emit("ts"); hostf(1); return "OBJ" end })
local ok, s = pcall(tostring, obj)
emit("r", ok, s)
local ok2, s2 = pcall(function() return "x" .. tostring(obj) .. tostring(obj) end)
emit("r2", ok2, s2)
`, true},
	{"deep-recursion-unwind", `
local function down(n) if n == 0 then hostf(0); emit("bottom"); return 0 end local r = down(n - 1); return r + 1 end
local ok, v = pcall(down, 30)
emit("r", ok, type(v))
local ok2, v2 = pcall(down, 5)
emit("r2", ok2, type(v2))
`, true},
	{"varargs-and-multiple-results", `
local function pack(...) return { n = select("#", ...), ... } end
local r = pack(pcall(function(...) emit("args", select("#", ...)); hostf(1); return ... end, 1, nil, 3, nil))
emit("r", r.n, r[1], r[2], r[4])
local r2 = pack(pcall(function() hostf(2); return end))
emit("r2", r2.n, r2[1])
local r3 = pack(xpcall(function() return hostf(3), 2, 3 end, function(m) return m end))
emit("r3", r3.n, r3[1])
`, true},
	{"closures-created-in-failed-call", `
local keep = {}
local ok = pcall(function()
  for i = 1, 3 do
    local v = i * 10
    keep[#keep + 1] = function() v = v + 1; return v end
    emit("made", i); hostf(i)
  end
end)
local a, b, c = 100, 200, 300
local function use(x, y, z) return x + y + z end
emit("reuse", use(a, b, c))
for i = 1, #keep do emit("k", i, keep[i](), keep[i]()) end
`, false},
	{"closure-escapes-from-xpcall-body", `
local esc
local ok = xpcall(function()
  local secret = 42
  esc = function() return secret end
  emit("set"); hostf(1)
  secret = 43
  hostf(2)
end, function(m) emit("h", esc and esc()); return m end)
local pad1, pad2, pad3 = 5, 6, 7
emit("after", ok, esc and esc(), pad1 + pad2 + pad3)
`, false},
	{"tail-calls", `
local function t3(x) hostf(3); emit("t3", x); return x end
local function t2(x) hostf(2); return t3(x + 1) end
local function t1(x) return t2(x + 1) end
local ok, v = pcall(t1, 1)
emit("r", ok, type(v))
local ok2, v2 = pcall(function() return pcall(t1, 5) end)
emit("r2", ok2, v2)
`, true},
	{"error-rethrow", `
local function inner() emit("inner"); hostf(1); error({ code = 7 }) end
local ok, e = pcall(function()
  local ok2, e2 = pcall(inner)
  emit("mid", ok2, type(e2))
  hostf(2)
  error(e2, 0)
end)
emit("outer", ok, type(e))
`, true},
	{"assert-and-error-levels", `
local function f() hostf(1); assert(false, "assert-msg") end
local function g() hostf(2); assert(nil) end
local function lvl() error("pos", 2) end
local function callsLvl()
  lvl()
end
emit(pcall(f))
emit(pcall(g))
emit(pcall(callsLvl))
emit(pcall(error, "nopos", 0))
emit(pcall(assert, 1, 2, 3))
`, true},
	{"loops-with-pcall", `
local total = 0
for i = 1, 6 do
  local ok, v = pcall(function(n) if n % 3 == 0 then error("bad" .. n) end return hostf(n) * 2 end, i)
  if ok then total = total + v else emit("fail", i) end
end
emit("total", total)
local i = 0
while i < 3 do i = i + 1; local ok = pcall(hostf, i); emit("w", i, ok) end
repeat i = i - 1; emit("rp", i, (pcall(hostf, i))) until i == 0
`, true},
	{"string-methods-under-pcall", `
local ok, r = pcall(function()
  local s = ("hello world"):upper():sub(1, 5)
  emit(s); hostf(1)
  local parts = {}
  for w in ("a,b,c"):gmatch("[^,]+") do parts[#parts + 1] = w; hostf(#parts) end
  emit(table.concat(parts, "-"))
  return s:len()
end)
emit("r", ok, type(r))
`, true},
	{"select-unpack-reentry", `
local ok, a, b, c = pcall(unpack, { hostf(1), hostf(2), hostf(3) })
emit("r", ok, a, b, c)
local ok2, n = pcall(select, "#", hostf(4), hostf(5))
emit("r2", ok2, n)
local ok3, e3 = pcall(select, 0)
emit("r3", ok3, type(e3))
`, true},
	{"setfenv-and-globals", `
G1 = 1
local ok = pcall(function() G1 = 2; emit("g", G1); hostf(1); G1 = 3; emit("g", G1); hostf(2) end)
emit("after", ok, G1 >= 2)
local env = setmetatable({}, { __index = _G })
local f = setfenv(function() X = hostf(5); emit("x", X) return X end, env)
local ok2, v = pcall(f)
emit("r2", ok2, type(v), rawget(_G, "X"))
`, false},
	{"xpcall-nested-handlers", `
local function h1(m) emit("h1"); return "1:" .. tostring(type(m)) end
local function h2(m) emit("h2"); return "2:" .. tostring(type(m)) end
local ok, r = xpcall(function()
  local ok2, r2 = xpcall(function() emit("i"); hostf(1); emit("i2") end, h2)
  emit("inner", ok2, r2)
  hostf(2)
  emit("o2")
  return "fine"
end, h1)
emit("outer", ok, r)
`, true},
	{"handler-that-errors", `
local ok, r = xpcall(function() emit("b"); hostf(1); error("first") end, function(m) emit("h"); error("second") end)
emit("r", ok, type(r))
local ok2, r2 = xpcall(function() hostf(2); return 1 end, function(m) return m end)
emit("r2", ok2, type(r2))
`, true},
	{"coroutine-in-pcall-in-coroutine", `
local function worker(tag)
  return coroutine.create(function(n)
    for i = 1, n do emit(tag, i); hostf(i); coroutine.yield(i) end
    return tag
  end)
end
local main = coroutine.create(function()
  local w = worker("w")
  local ok, v = pcall(function()
    local s = 0
    for i = 1, 4 do local ok, x = coroutine.resume(w, 2); s = s + ((ok and type(x) == "number") and x or 0) end
    return s
  end)
  emit("inner", ok, type(v), coroutine.status(w))
  return ok
end)
emit(coroutine.resume(main))
emit(coroutine.status(main))
`, false},
	{"many-locals-register-reuse", `
local function body()
  local a, b, c, d, e, f, g, h = 1, 2, 3, 4, 5, 6, 7, 8
  local cl = function() return a + h end
  emit("b", cl()); hostf(1)
  do local x, y, z = 9, 10, 11; emit("blk", x + y + z); hostf(2) end
  return a + b + c + d + e + f + g + h
end
local p, q = 11, 22
local ok, v = pcall(body)
local r, s, t, u, w = 1, 2, 3, 4, 5
emit("after", ok, type(v), p, q, r + s + t + u + w)
`, true},
	{"pcall-as-argument-and-in-table", `
local t = { pcall(hostf, 1), pcall(function() hostf(2); return "x" end) }
emit("t", #t, t[1])
emit("direct", select("#", pcall(hostf, 1, 2, 3)))
local function wrap(...) return ... end
emit("w", wrap(pcall(function() return hostf(7) end)))
`, true},
	{"numeric-for-and-goto", `
local ok, v = pcall(function()
  local s = 0
  for i = 10, 1, -3 do s = s + i; hostf(i) end
  local j = 0
  ::top:: j = j + 1
  if j < 3 then emit("j", j); goto top end
  return s + j
end)
emit("r", ok, type(v))
`, true},
	{"error-with-table-and-tostring", `
local E = setmetatable({ msg = "custom" }, { __tostring = function(e) return "E(" .. e.msg .. ")" end })
local ok, e = pcall(function() hostf(1); error(E) end)
emit("r", ok, rawequal(e, E) or type(e))
local ok2, e2 = pcall(function() hostf(2); error(E, 2) end)
emit("r2", ok2, rawequal(e2, E) or type(e2))
`, true},
	{"uncaught-at-top", `
emit("start")
local x = hostf(1)
emit("x", x)
local t = {}
for i = 1, 3 do t[i] = i end
emit("end", #t)
`, true},
	{"resume-passes-values-after-failure", `
local co = coroutine.create(function(a, b)
  emit("args", a, b)
  local ok, m = pcall(function() hostf(1); error("in-co") end)
  emit("caught", ok)
  local c, d = coroutine.yield(1, 2)
  emit("cd", c, d)
  return hostf(9)
end)
emit(coroutine.resume(co, "a", "b"))
emit(coroutine.resume(co, "c", "d"))
emit(coroutine.resume(co))
`, false},
}
