package main

// C05M — MECHANISM tie of property C05 (errors are contained by protected calls and leave state intact).
//
// Two streams, both executed on the REAL interpreter in-process:
//
//  (A) operation sequences through the Go API (`mech` cases): a generated list of abstract operations
//      (push / settop / call / ret / enter = L.PCall / raise = RaiseError | Error(v, level) | Go panic /
//      handler return / Lua template frames with captured locals) is interpreted by host functions that run
//      under the real LState.PCall; after EVERY operation L.VerifSnapshot() (Sp, top, current frame, hasErrorFunc,
//      Panic function, open upvalues) and the error returned by PCall are sent to the Lean engine `C05M op`,
//      which steps GLua/Model/PCall.lean over the same operations (Impl = Model) and checks the restoration
//      property on the implementation's own snapshots (Spec).
//
//  (B) fault enumeration on a corpus of Lua programs (`prog` cases, harness/c05_corpus.go): for each program and
//      each k a single fault is injected (i) at VM instruction boundary k through a one-shot context.Context,
//      (ii) at the k-th call of the host function `hostf` as RaiseError / Error(value of every type, level 1|2)
//      / Go panic (string, error, runtime fault).  pcall, xpcall and coroutine.resume are wrapped (the wrapper
//      runs baselib's own function in its own frame) and record snapshots before/after; the engine judges
//      `C05M pc` (model prediction + property), `prefix` (emit trace up to the catcher's return is a prefix of the
//      fault-free trace), `same` (payload delivered once and unchanged, continuation equal to the fault-free run
//      in which the catching call is replaced by its (false, msg) result, probe behaviour, final bookkeeping).
//      A Go panic leaving DoString/PCall is reported as a crash (`X …`), a violation outright.

import (
	"context"
	"encoding/hex"
	"errors"
	"fmt"
	"os"
	"regexp"
	"runtime"
	"runtime/debug"
	"strconv"
	"strings"
	"sync"
	"sync/atomic"
	"time"

	lua "github.com/yuin/gopher-lua"
)

func init() {
	props["C05M"] = runC05M
	replayExec["C05M"] = execC05M
}

// ------------------------------------------------------------------------------------------------
// shared helpers

func snapTokens(s lua.VerifSnapshot, pm int) string {
	cur, lb := -1, -1
	if s.HasFrame {
		cur, lb = s.FrameIdx, s.LocalBase
	}
	hef := 0
	if s.HasErrorFunc {
		hef = 1
	}
	uv := "-"
	if len(s.OpenUpvalues) > 0 {
		p := make([]string, len(s.OpenUpvalues))
		for i, u := range s.OpenUpvalues {
			p[i] = strconv.Itoa(u)
		}
		uv = strings.Join(p, ",")
	}
	return fmt.Sprintf("%d %d %d %d %d %d %s", s.Sp, s.Top, cur, lb, hef, pm, uv)
}

func errTypeName(t lua.ApiErrorType) string {
	switch t {
	case lua.ApiErrorSyntax:
		return "syntax"
	case lua.ApiErrorFile:
		return "file"
	case lua.ApiErrorRun:
		return "run"
	case lua.ApiErrorError:
		return "error"
	case lua.ApiErrorPanic:
		return "panic"
	}
	return "?"
}

func hexs2(s string) string { return hex.EncodeToString([]byte(s)) }

// ------------------------------------------------------------------------------------------------
// (A) operation sequences on the Go API

type mexec struct {
	L    *lua.LState
	ops  []Op
	pc   int
	out  []string
	ctl  Op     // control operation whose observation is pending
	err  string // PCall result to report with the next observation
	fn   *lua.LFunction
	hfn  *lua.LFunction
	tmpl map[int]*lua.LFunction
	rt   *RefTable
	refs map[int]lua.LValue
	bad  bool
}

func (x *mexec) dec(tok string) lua.LValue {
	switch {
	case tok == "nil":
		return lua.LNil
	case tok == "T":
		return lua.LTrue
	case tok == "F":
		return lua.LFalse
	case tok[0] == 'i':
		f, _ := strconv.ParseFloat(tok[1:], 64)
		return lua.LNumber(f)
	case tok[0] == 's':
		b, _ := hex.DecodeString(tok[1:])
		return lua.LString(string(b))
	case tok[0] == 'r':
		n, _ := strconv.Atoi(tok[1:])
		if v, ok := x.refs[n]; ok {
			return v
		}
		t := x.L.NewTable()
		x.rt.Bind(t, n)
		x.refs[n] = t
		return t
	}
	panic("bad token " + tok)
}

func (x *mexec) obs(op Op) {
	e := "-"
	if x.err != "" {
		e = x.err
		x.err = ""
	}
	x.out = append(x.out, "C05M op "+op.String()+" => "+snapTokens(x.L.VerifSnapshot(), x.L.VerifPanicMode())+" "+e)
}

func (x *mexec) setErr(err error) {
	if err == nil {
		x.err = "ok"
		return
	}
	if ae, ok := err.(*lua.ApiError); ok {
		x.err = "E" + errTypeName(ae.Type) + ":" + encVal(ae.Object, x.rt)
		return
	}
	x.err = "E?:" + hexs2(err.Error())
}

func c05atoi(s string) int { n, _ := strconv.Atoi(s); return n }

func tmplSource(k int) string {
	// k captured locals in registers 1..k, the closure in k+1, `r` (the call) in k+2; the call is on line k+1
	var names, vals []string
	for i := 1; i <= k; i++ {
		names = append(names, fmt.Sprintf("a%d", i))
		vals = append(vals, strconv.Itoa(i))
	}
	s := strings.Repeat("\n", k) + "return function(cb) "
	if k > 0 {
		s += "local " + strings.Join(names, ",") + " = " + strings.Join(vals, ",") + "; local g = function() return " + strings.Join(names, ",") + " end; "
	} else {
		s += "local g = function() return 1 end; "
	}
	return s + "local r = cb(); return r end"
}

// body interprets operations inside the current host frame (or at the Go top level, when called from run).
// It returns the number of values the frame returns.
func (x *mexec) body(L *lua.LState, entered bool) int {
	if entered {
		x.obs(x.ctl) // the frame pushed by call / enter / luaenter / the handler called after raise has started
	}
	for x.pc < len(x.ops) {
		op := x.ops[x.pc]
		x.pc++
		a := op.Args
		switch a[0] {
		case "push":
			x.ctl = op // a push at the registry limit raises: the observation after the unwinding belongs to it
			L.Push(x.dec(a[1]))
			x.obs(op)
		case "fill":
			x.ctl = op
			for i := 0; i < c05atoi(a[1]); i++ {
				L.Push(lua.LNil)
			}
			x.obs(op)
		case "settop":
			L.SetTop(c05atoi(a[1]))
			x.obs(op)
		case "call":
			n := c05atoi(a[1])
			L.Push(x.fn)
			for i := 0; i < n; i++ {
				L.Push(lua.LNumber(i))
			}
			x.ctl = op
			L.Call(n, lua.MultRet)
			x.obs(x.ctl)
		case "luaenter":
			k := c05atoi(a[1])
			L.Push(x.tmpl[k])
			L.Push(x.fn)
			x.ctl = op
			L.Call(1, lua.MultRet)
			x.obs(x.ctl)
		case "ret", "retleave":
			n := c05atoi(a[1])
			x.ctl = op
			for i := 0; i < n; i++ {
				L.Push(lua.LNumber(i))
			}
			return n
		case "lualeave":
			x.ctl = op
			return 0
		case "rethandler":
			x.ctl = op
			L.Push(x.dec(a[1]))
			return 1
		case "enter", "enterfail":
			n := c05atoi(a[1])
			if a[0] == "enter" {
				L.Push(x.fn)
			} else {
				L.Push(lua.LNumber(7))
			}
			for i := 0; i < n; i++ {
				L.Push(lua.LNumber(i))
			}
			var h *lua.LFunction
			if a[2] == "g" {
				h = x.hfn
			}
			x.ctl = op
			err := L.PCall(n, lua.MultRet, h)
			x.setErr(err)
			x.obs(x.ctl)
		case "raise":
			x.ctl = op
			switch a[1] {
			case "re":
				L.RaiseError(string(x.dec(a[2]).(lua.LString)))
			case "eo":
				L.Error(x.dec(a[2]), c05atoi(a[3]))
			case "fp":
				panic(string(x.dec(a[2]).(lua.LString)))
			}
			panic("unreachable")
		default:
			x.bad = true
			return 0
		}
	}
	return 0
}

// validMech: the well-formedness the generator guarantees (a shrunk candidate that is not a possible execution —
// e.g. an error raised outside every protected call — is not a case at all).
func validMech(ops []Op) bool {
	if len(ops) == 0 {
		return false
	}
	if ops[0].Args[0] == "init" {
		key := opsKey(ops)
		for _, f := range genMechOverflow() {
			if opsKey(f) == key {
				return true
			}
		}
		return false
	}
	var stack []mctx
	started := false
	for _, op := range ops {
		a := op.Args
		if len(stack) == 0 {
			if started || (a[0] != "enter" && a[0] != "enterfail") {
				return false
			}
		}
		top := byte(0)
		if len(stack) > 0 {
			top = stack[len(stack)-1].kind
		}
		switch a[0] {
		case "push", "settop":
		case "call":
			stack = append(stack, mctx{kind: 'G'})
		case "luaenter":
			if len(a) != 3 || c05atoi(a[2]) != c05atoi(a[1])+1 {
				return false
			}
			stack = append(stack, mctx{kind: 'T', k: c05atoi(a[1])})
		case "enter":
			started = true
			stack = append(stack, mctx{kind: 'P', handler: a[2] == "g"})
		case "enterfail":
			started = true
			if a[2] == "g" {
				stack = append(stack, mctx{kind: 'P', handler: true, inHandler: true}, mctx{kind: 'H'})
			} else if len(stack) == 0 {
				return len(ops) == 1
			}
		case "ret":
			if top != 'G' {
				return false
			}
			stack = stack[:len(stack)-1]
		case "lualeave":
			if top != 'T' || stack[len(stack)-1].k != c05atoi(a[1]) {
				return false
			}
			stack = stack[:len(stack)-1]
		case "retleave":
			if top != 'P' {
				return false
			}
			stack = stack[:len(stack)-1]
		case "rethandler":
			if top != 'H' {
				return false
			}
			i := len(stack) - 1
			for i >= 0 && !(stack[i].kind == 'P' && stack[i].inHandler) {
				i--
			}
			stack = stack[:i]
		case "raise":
			i := len(stack) - 1
			for i >= 0 && stack[i].kind != 'P' {
				i--
			}
			if i < 0 {
				return false
			}
			if stack[i].handler && !stack[i].inHandler {
				stack[i].inHandler = true
				stack = append(stack, mctx{kind: 'H'})
			} else {
				stack = stack[:i]
			}
		default:
			return false
		}
	}
	return len(stack) == 0
}

func opsKey(ops []Op) string {
	var b strings.Builder
	for _, o := range ops {
		b.WriteString(o.String())
		b.WriteByte(';')
	}
	return b.String()
}

func execMech(ops []Op) (out []string) {
	if !validMech(ops) {
		return nil
	}
	capacity := 5120
	opts := lua.Options{SkipOpenLibs: true}
	if len(ops) > 0 && ops[0].Args[0] == "init" {
		capacity = c05atoi(ops[0].Args[1])
		opts.RegistrySize = capacity
		ops = ops[1:]
	}
	L := lua.NewState(opts)
	defer L.Close()
	x := &mexec{L: L, ops: ops, rt: NewRefTable(), refs: map[int]lua.LValue{}, tmpl: map[int]*lua.LFunction{}}
	x.fn = L.NewFunction(func(L *lua.LState) int { return x.body(L, true) })
	x.hfn = L.NewFunction(func(L *lua.LState) int { return x.body(L, true) })
	x.rt.Bind(x.fn, 1)
	x.rt.Bind(x.hfn, 2)
	for k := 0; k <= 3; k++ {
		if err := L.DoString(tmplSource(k)); err != nil {
			return []string{"X template => " + err.Error()}
		}
		x.tmpl[k] = L.Get(-1).(*lua.LFunction)
		L.Pop(1)
		x.rt.Bind(x.tmpl[k], 3)
	}
	x.out = append(x.out, fmt.Sprintf("C05M init %d", capacity))
	func() {
		defer func() {
			if r := recover(); r != nil {
				s := fmt.Sprint(r)
				if len(s) > 200 {
					s = s[:200]
				}
				x.out = append(x.out, "X gopanic-escaped-PCall => "+strings.ReplaceAll(s, "\n", " | "))
			}
		}()
		x.body(L, false)
	}()
	if x.bad {
		x.out = append(x.out, "X bad-op => malformed operation in case")
	}
	return x.out
}

// ---- generator of operation sequences ----

type mctx struct {
	kind      byte // 'P' protected call (activation record), 'G' host frame, 'T' Lua template frame (+ its callback frame), 'H' handler frame
	handler   bool
	inHandler bool
	k         int
}

var mechVals = []string{"nil", "T", "F", "i0", "i42", "i-7", "s" + "626f6f6d", "s", "r10", "r11"}

func genMech(r *Rng, maxOps int) []Op {
	var ops []Op
	add := func(a ...string) { ops = append(ops, Op{Args: a}) }
	hs := func(b bool) string {
		if b {
			return "g"
		}
		return "none"
	}
	rootH := r.Chance(30)
	add("enter", "0", hs(rootH))
	stack := []mctx{{kind: 'P', handler: rootH}}
	raise := func() {
		i := len(stack) - 1
		for i >= 0 && stack[i].kind != 'P' {
			i--
		}
		if stack[i].handler && !stack[i].inHandler {
			stack[i].inHandler = true
			stack = append(stack, mctx{kind: 'H'})
		} else {
			stack = stack[:i]
		}
	}
	randKind := func() []string {
		switch r.Intn(7) {
		case 0, 1:
			return []string{"re", "s" + hexs2(Pick(r, []string{"boom", "e1", "x y"}))}
		case 2:
			return []string{"eo", "s" + hexs2("lvl"), strconv.Itoa(r.Intn(4))}
		case 3, 4:
			return []string{"eo", Pick(r, []string{"nil", "F", "T", "i42", "r10", "r11"}), strconv.Itoa(r.Intn(3))}
		default:
			return []string{"fp", "s" + hexs2(Pick(r, []string{"go panic", "runtime error: index out of range [3] with length 1"}))}
		}
	}
	leave := func() {
		top := stack[len(stack)-1]
		switch top.kind {
		case 'G':
			add("ret", strconv.Itoa(r.Intn(3)))
			stack = stack[:len(stack)-1]
		case 'T':
			add("lualeave", strconv.Itoa(top.k))
			stack = stack[:len(stack)-1]
		case 'P':
			add("retleave", strconv.Itoa(r.Intn(3)))
			stack = stack[:len(stack)-1]
		case 'H':
			add("rethandler", Pick(r, mechVals))
			i := len(stack) - 1
			for i >= 0 && !(stack[i].kind == 'P' && stack[i].inHandler) {
				i--
			}
			stack = stack[:i]
		}
	}
	for n := 0; n < maxOps && len(stack) > 0; n++ {
		c := r.Intn(100)
		deep := len(stack) >= 9
		switch {
		case c < 20:
			add("push", Pick(r, mechVals))
		case c < 27:
			add("settop", strconv.Itoa(r.Intn(6)))
		case c < 38 && !deep:
			add("call", strconv.Itoa(r.Intn(3)))
			stack = append(stack, mctx{kind: 'G'})
		case c < 52 && !deep:
			h := r.Chance(45)
			add("enter", strconv.Itoa(r.Intn(3)), hs(h))
			stack = append(stack, mctx{kind: 'P', handler: h})
		case c < 60 && !deep:
			k := r.Intn(4)
			add("luaenter", strconv.Itoa(k), strconv.Itoa(k+1))
			stack = append(stack, mctx{kind: 'T', k: k})
		case c < 64 && !deep:
			h := r.Chance(50)
			add("enterfail", strconv.Itoa(r.Intn(3)), hs(h))
			if h {
				stack = append(stack, mctx{kind: 'P', handler: true, inHandler: true}, mctx{kind: 'H'})
			}
		case c < 80:
			leave()
		case c < 94:
			add(append([]string{"raise"}, randKind()...)...)
			raise()
		default:
			add("push", Pick(r, mechVals))
		}
	}
	for len(stack) > 0 {
		leave()
	}
	return ops
}

// registry-limit family: RegistrySize 128 (the smallest NewState accepts), fill up to the limit, then fail
func genMechOverflow() [][]Op {
	var res [][]Op
	mk := func(a ...string) Op { return Op{Args: a} }
	for d := 116; d <= 126; d++ {
		for _, h := range []string{"g", "none"} {
			for _, kind := range [][]string{{"re", "s" + hexs2("x")}, {"eo", "r10", "1"}, {"fp", "s" + hexs2("gp")}} {
				ops := []Op{mk("init", "128"), mk("enter", "0", "none"), mk("enter", "0", h), mk("fill", strconv.Itoa(d))}
				ops = append(ops, Op{Args: append([]string{"raise"}, kind...)})
				// top before the raise = 2 + d; the message / value of `re`/`eo` takes one more slot; the handler starts
				// iff its two arguments still fit (its own result may then overflow: a failing handler)
				top := 2 + d
				if kind[0] != "fp" {
					top++
				}
				if h == "g" && top+2 <= 128 {
					ops = append(ops, mk("rethandler", "i5"))
				}
				ops = append(ops, mk("push", "T"), mk("retleave", "1"))
				res = append(res, ops)
			}
			// overflow by a plain push at the limit
			ops := []Op{mk("init", "128"), mk("enter", "0", "none"), mk("enter", "0", h), mk("fill", "126"), mk("push", "i9"), mk("retleave", "0")}
			if d == 116 {
				res = append(res, ops)
			}
		}
	}
	return res
}

// ------------------------------------------------------------------------------------------------
// (B) fault enumeration on Lua programs

type injectErr struct{}

// oneShotCtx: Done() returns an already-closed channel on exactly its k-th counted call, nil (never ready) otherwise.
type oneShotCtx struct {
	n, k   int
	fired  bool
	paused bool // calls made by context.WithCancel inside NewThread are not instruction boundaries
	onHit  func()
}

var closedChan = func() chan struct{} { c := make(chan struct{}); close(c); return c }()

func (c *oneShotCtx) Deadline() (time.Time, bool)       { return time.Time{}, false }
func (c *oneShotCtx) Value(key interface{}) interface{} { return nil }
func (c *oneShotCtx) Err() error                        { return errors.New("INJECTED") }
var pollSites sync.Map // caller pc → is it the VM's per-instruction poll?

// fromVMPoll: only the poll of mainLoopWithContext is an instruction boundary; the context package itself calls
// Done() on its parent (WithCancel in NewThread, the cancel function in kill) — those calls are answered "never".
func fromVMPoll() bool {
	var pcs [1]uintptr
	if runtime.Callers(3, pcs[:]) == 0 {
		return false
	}
	if v, ok := pollSites.Load(pcs[0]); ok {
		return v.(bool)
	}
	ok := false
	if fn := runtime.FuncForPC(pcs[0] - 1); fn != nil {
		ok = strings.HasSuffix(fn.Name(), "mainLoopWithContext")
	}
	pollSites.Store(pcs[0], ok)
	return ok
}

func (c *oneShotCtx) Done() <-chan struct{} {
	if c.paused || !fromVMPoll() {
		return nil
	}
	c.n++
	if c.n == c.k {
		c.fired = true
		if c.onHit != nil {
			c.onHit()
		}
		return closedChan
	}
	return nil
}

var _ context.Context = (*oneShotCtx)(nil)

type activation struct {
	id        int
	kind      string // pcall | xpcall | resume
	enterT    int
	exitT     int // 0 = still running / aborted
	aborted   bool
	pre, post lua.VerifSnapshot
	prePM     int
	postPM    int
	fail      bool
	nres      int
	emitsAt   int        // number of emits when it returned
	payload   lua.LValue // second result on failure
	hCalls    int
	hArg      lua.LValue
	hRet      lua.LValue
	hSp       int
	hDone     int
	hEnterT   int
	isCur     bool
	thDead    bool
	thStatus  string
	cut       bool // this activation was short-circuited (reference run)
}

type faultSpec struct {
	mode string // "none" | "ctx" | "host"
	k    int
	kind int // host fault kind
}

type c05progWorld struct {
	L       *lua.LState
	rt      *RefTable
	emits   []string
	acts    []*activation
	clock   int
	faultT  int
	ctx     *oneShotCtx
	spec    faultSpec
	hostN   int
	errTab  *lua.LTable
	expect  lua.LValue // payload expected at the catcher (nil interface = unknown)
	expLine int
	expLvl  int
	cutID   int // activation ordinal to short-circuit (reference run), -1 none
	cutVal  lua.LValue
	cutAt   int // emits at the short-circuit
	faultE  int // emits when the fault fired
	probing bool
	polls   int
}

const nHostKinds = 10

func (w *c05progWorld) tick() int { w.clock++; return w.clock }

func (w *c05progWorld) install() {
	L := w.L
	L.SetGlobal("emit", L.NewFunction(func(L *lua.LState) int {
		n := L.GetTop()
		parts := make([]string, n)
		for i := 1; i <= n; i++ {
			parts[i-1] = encVal(L.Get(i), w.rt)
		}
		w.emits = append(w.emits, "E:"+strings.Join(parts, ","))
		return 0
	}))
	L.SetGlobal("hostf", L.NewFunction(func(L *lua.LState) int {
		w.hostN++
		if w.spec.mode != "host" || w.hostN != w.spec.k {
			return L.GetTop()
		}
		w.faultT = w.tick()
		w.faultE = len(w.emits)
		line := func(level int) int {
			// the position of the first Lua frame at or above `level` (host frames carry no position)
			for lv := level; lv < 300; lv++ {
				dbg, ok := L.GetStack(lv)
				if !ok {
					return -1
				}
				if _, err := L.GetInfo("l", dbg, lua.LNil); err == nil && dbg.CurrentLine > 0 {
					return dbg.CurrentLine
				}
			}
			return -1
		}
		switch w.spec.kind {
		case 0:
			w.expect, w.expLine, w.expLvl = lua.LString("INJ"), line(1), 1
			L.RaiseError("INJ")
		case 1:
			w.expect, w.expLine, w.expLvl = lua.LString("INJS"), line(1), 1
			L.Error(lua.LString("INJS"), 1)
		case 2:
			w.expect, w.expLine, w.expLvl = lua.LString("INJ2"), line(2), 2
			L.Error(lua.LString("INJ2"), 2)
		case 3:
			w.expect = lua.LNumber(42)
			L.Error(lua.LNumber(42), 1)
		case 4:
			w.errTab = L.NewTable()
			w.expect = w.errTab
			L.Error(w.errTab, 1)
		case 5:
			w.expect = lua.LNil
			L.Error(lua.LNil, 1)
		case 6:
			w.expect = lua.LFalse
			L.Error(lua.LFalse, 2)
		case 7:
			w.expect = lua.LString("GOPANIC")
			panic("GOPANIC")
		case 8:
			w.expect = lua.LString("GOERR")
			panic(errors.New("GOERR"))
		case 9:
			w.expect = lua.LString("assignment to entry in nil map")
			var m map[string]int
			m["x"] = 1
		}
		return 0
	}))
	origP := L.GetGlobal("pcall").(*lua.LFunction).GFunction
	origX := L.GetGlobal("xpcall").(*lua.LFunction).GFunction
	co := L.GetGlobal("coroutine").(*lua.LTable)
	origR := co.RawGetString("resume").(*lua.LFunction).GFunction
	origC := co.RawGetString("create").(*lua.LFunction).GFunction

	enter := func(L *lua.LState, kind string) *activation {
		a := &activation{id: len(w.acts), kind: kind, enterT: w.tick(), pre: L.VerifSnapshot(), prePM: L.VerifPanicMode()}
		if !w.probing {
			w.acts = append(w.acts, a)
		}
		return a
	}
	exit := func(L *lua.LState, a *activation, n int) {
		a.exitT = w.tick()
		a.post, a.postPM = L.VerifSnapshot(), L.VerifPanicMode()
		a.nres = n
		a.emitsAt = len(w.emits)
		a.isCur = L.VerifIsCurrentThread()
		if n >= 1 {
			a.fail = L.Get(L.GetTop()-n+1) == lua.LFalse
		}
		if a.fail && n >= 2 {
			a.payload = L.Get(L.GetTop() - n + 2)
		}
	}
	protect := func(kind string, orig lua.LGFunction) lua.LGFunction {
		return func(L *lua.LState) int {
			a := enter(L, kind)
			if w.cutID == a.id {
				// reference run: the protected call is replaced by its (false, msg) result
				a.cut = true
				w.cutAt = len(w.emits)
				L.SetTop(0)
				L.Push(lua.LFalse)
				L.Push(w.cutVal)
				a.exitT = w.tick()
				return 2
			}
			done := false
			defer func() {
				if !done {
					a.aborted = true
				}
			}()
			if kind == "xpcall" && L.GetTop() >= 2 {
				if h, ok := L.Get(2).(*lua.LFunction); ok {
					L.Replace(2, L.NewFunction(func(L *lua.LState) int {
						a.hCalls++
						a.hEnterT = w.tick()
						a.hSp = L.VerifSnapshot().Sp
						a.hArg = L.Get(1)
						top := L.GetTop()
						L.Push(h)
						for i := 1; i <= top; i++ {
							L.Push(L.Get(i))
						}
						L.Call(top, 1)
						a.hRet = L.Get(-1)
						a.hDone++
						return 1
					}))
				}
			}
			n := orig(L)
			done = true
			exit(L, a, n)
			return n
		}
	}
	L.SetGlobal("pcall", L.NewFunction(protect("pcall", origP)))
	L.SetGlobal("xpcall", L.NewFunction(protect("xpcall", origX)))
	co.RawSetString("resume", L.NewFunction(func(L *lua.LState) int {
		a := enter(L, "resume")
		th, _ := L.Get(1).(*lua.LState)
		done := false
		defer func() {
			if !done {
				a.aborted = true
			}
		}()
		n := origR(L)
		done = true
		exit(L, a, n)
		if th != nil {
			a.thDead = th.Dead
			a.thStatus = L.Status(th)
		}
		return n
	}))
	origW := co.RawGetString("wrap").(*lua.LFunction).GFunction
	co.RawSetString("wrap", L.NewFunction(func(L *lua.LState) int {
		w.ctx.paused = true
		defer func() { w.ctx.paused = false }()
		return origW(L) // the wrapped thread keeps the derived context NewThread gave it (it never fires)
	}))
	co.RawSetString("create", L.NewFunction(func(L *lua.LState) int {
		w.ctx.paused = true
		n := func() int { defer func() { w.ctx.paused = false }(); return origC(L) }()
		// instruction-boundary faults also inside coroutine bodies: give the new thread the same one-shot context
		if th, ok := L.Get(-1).(*lua.LState); ok && w.ctx != nil {
			th.SetContext(w.ctx)
		}
		return n
	}))
}

type progRun struct {
	w       *c05progWorld
	err     error
	results []string
	final   lua.VerifSnapshot
	finalPM int
	panicked string
	probe   []string
}

const probeSrc = `
local out = {}
local function rec(n) if n == 0 then return 0 end return 1 + rec(n - 1) end
out[#out+1] = rec(150)
local c = 0
local function inc() c = c + 1 return c end
inc(); inc()
out[#out+1] = c
out[#out+1] = tostring(pcall(error, "p"))
out[#out+1] = select(2, pcall(error, {}, 1)) ~= nil
local co = coroutine.create(function(a) local b = coroutine.yield(a + 1) return b * 2 end)
out[#out+1] = select(2, coroutine.resume(co, 1))
out[#out+1] = select(2, coroutine.resume(co, 21))
out[#out+1] = coroutine.status(co)
out[#out+1] = select(2, xpcall(function() local t = nil; return t.x end, function(m) return "H" end))
out[#out+1] = (coroutine.running() == nil)
local t = setmetatable({}, {__index = function(t, k) return k .. "!" end})
out[#out+1] = t.z
out[#out+1] = ("abc"):rep(2)
for i = 1, #out do emit(out[i]) end
`

// runProg runs one corpus program under a fault specification on a fresh state.
func runProg(src string, spec faultSpec, cutID int, cutVal lua.LValue) (pr *progRun) {
	L := lua.NewState()
	defer L.Close()
	w := &c05progWorld{L: L, rt: NewRefTable(), spec: spec, cutID: cutID, cutVal: cutVal}
	pr = &progRun{w: w}
	if spec.mode == "ctx" || spec.mode == "none" {
		// the counting run (mode none) uses k = 0: never fires, counts the polls
		w.ctx = &oneShotCtx{k: spec.k}
		w.ctx.onHit = func() {
			w.faultT = w.tick()
			w.faultE = len(w.emits)
			if os.Getenv("C05M_STACK") != "" {
				debug.PrintStack()
			}
		}
		L.SetContext(w.ctx)
	} else {
		w.ctx = &oneShotCtx{k: 0}
		L.SetContext(w.ctx)
	}
	w.install()
	defer func() {
		if r := recover(); r != nil {
			s := fmt.Sprint(r)
			if len(s) > 160 {
				s = s[:160]
			}
			pr.panicked = strings.ReplaceAll(s, "\n", " | ")
		}
	}()
	fn, err := L.LoadString(src)
	if err != nil {
		pr.err = err
		pr.panicked = "corpus program does not compile: " + err.Error()
		return
	}
	L.Push(fn)
	pr.err = L.PCall(0, lua.MultRet, nil)
	w.polls = w.ctx.n
	for i := 1; i <= L.GetTop(); i++ {
		pr.results = append(pr.results, encVal(L.Get(i), w.rt))
	}
	L.SetTop(0)
	pr.final, pr.finalPM = L.VerifSnapshot(), L.VerifPanicMode()
	// continuation probe in the same state, no fault
	w.ctx.k = 0
	w.spec.mode = "off"
	w.probing = true
	before := len(w.emits)
	if err := L.DoString(probeSrc); err != nil {
		pr.probe = []string{"probe-error:" + hexs2(err.Error())}
	} else {
		pr.probe = append([]string{}, w.emits[before:]...)
	}
	w.emits = w.emits[:before]
	return
}

var prefixRe = regexp.MustCompile(`^<string>:(\d+): (.*)$`)

var ffCache sync.Map // program index → *progRun of the fault-free run

func faultFree(idx int) *progRun {
	if v, ok := ffCache.Load(idx); ok {
		return v.(*progRun)
	}
	pr := runProg(c05Corpus[idx].Src, faultSpec{mode: "none"}, -1, nil)
	ffCache.Store(idx, pr)
	return pr
}

// execProgFault: one (program, fault) pair → request lines.
func execProgFault(op Op) []string {
	idx := c05atoi(op.Args[1])
	p := c05Corpus[idx]
	spec := faultSpec{mode: op.Args[2], k: c05atoi(op.Args[3])}
	if len(op.Args) > 4 {
		spec.kind = c05atoi(op.Args[4])
	}
	var out []string
	tag := fmt.Sprintf("%s/%s/%d/%d", p.Name, spec.mode, spec.k, spec.kind)
	crash := func(what, msg string) []string {
		return append(out, "X "+what+" "+tag+" => "+msg)
	}
	ff := faultFree(idx)
	if ff.panicked != "" {
		return crash("fault-free-run", ff.panicked)
	}
	fr := runProg(p.Src, spec, -1, nil)
	if fr.panicked != "" {
		return crash("gopanic-escaped-DoString", fr.panicked)
	}
	w := fr.w
	fired := w.faultT > 0
	// a Go nil (a dead registry slot) must never reach a Lua-visible value
	for _, run := range []*progRun{ff, fr} {
		for _, e := range append(append([]string{}, run.w.emits...), run.results...) {
			if strings.Contains(e, "GONIL") {
				return crash("go-nil-value-visible-to-lua", e)
			}
		}
	}
	// 1. every completed pcall/xpcall activation: bookkeeping before/after (model + property)
	shown := 0
	var catcher *activation
	for _, a := range w.acts {
		if a.exitT == 0 {
			continue
		}
		encl := fired && a.enterT < w.faultT && w.faultT < a.exitT
		if encl && (catcher == nil || a.exitT < catcher.exitT) {
			catcher = a
		}
		if a.kind == "resume" {
			if encl || shown < 4 {
				out = append(out, fmt.Sprintf("C05M same resume-frame 3 %d %d %d => %d %d %d", a.pre.Sp, a.pre.FrameIdx, a.pre.LocalBase, a.post.Sp, a.post.FrameIdx, a.post.LocalBase))
			}
			continue
		}
		if !(encl || shown < 4) {
			continue
		}
		shown++
		oc := "ok"
		nres := a.nres - 1
		if a.fail {
			oc, nres = "fail", 0
		}
		out = append(out, fmt.Sprintf("C05M pc %s %s %s %d => %s", a.kind, oc, snapTokens(a.pre, a.prePM), nres, snapTokens(a.post, a.postPM)))
		if !a.isCur {
			out = append(out, "C05M same running-thread 1 T => F")
		}
	}
	// 2. final bookkeeping after the chunk returned to Go
	out = append(out, "C05M same final 7 0 0 -1 -1 0 0 - => "+snapTokens(fr.final, fr.finalPM))
	// 3. continuation probe
	out = append(out, fmt.Sprintf("C05M same probe %d %s => %s", len(ff.probe), strings.Join(ff.probe, " "), strings.Join(fr.probe, " ")))
	if !fired {
		// the fault point was not reached (k beyond the run): the run must equal the fault-free one
		out = append(out, fmt.Sprintf("C05M same unfaulted-trace %d %s => %s", len(ff.w.emits), strings.Join(ff.w.emits, " "), strings.Join(w.emits, " ")))
		return out
	}
	// 4. the side effects of the failed call (everything emitted until the fault struck) are a prefix of the
	//    fault-free side effects; what is emitted between the fault and the catcher's return comes from handlers
	out = append(out, fmt.Sprintf("C05M prefix %d %s => %s", w.faultE, strings.Join(w.emits[:w.faultE], " "), strings.Join(ff.w.emits, " ")))
	if catcher == nil {
		// no protected call encloses the fault: the chunk itself must fail, with the injected error
		if fr.err == nil {
			out = append(out, "C05M same uncaught-fault-fails-chunk 1 T => F")
		}
		return out
	}
	// 5. delivered exactly once, to the innermost enclosing protected call, unchanged
	if !catcher.fail {
		out = append(out, "C05M same catcher-fails 1 T => F")
		return out
	}
	got := catcher.payload
	if catcher.kind == "xpcall" {
		out = append(out, fmt.Sprintf("C05M same handler-calls 1 1 => %d", catcher.hCalls))
		if catcher.hCalls >= 1 {
			unw := "T"
			if catcher.hSp < catcher.pre.Sp+2 {
				unw = "F"
			}
			out = append(out, "C05M same handler-before-unwinding 1 T => "+unw)
			if catcher.hDone == 1 {
				res := "T"
				if catcher.hRet != catcher.payload {
					res = "F"
				}
				out = append(out, "C05M same xpcall-returns-handler-result 1 T => "+res)
			}
			if catcher.hEnterT > w.faultT {
				got = catcher.hArg // the fault struck in the body: the handler receives it
			} // else it struck inside the handler (which was handling an error of the program): a failing handler
		}
	}
	if got != nil {
		exp, obs := "", ""
		switch spec.mode {
		case "ctx":
			s, _ := got.(lua.LString)
			m := prefixRe.FindStringSubmatch(string(s))
			exp, obs = "s"+hexs2("INJECTED"), encVal(got, w.rt)
			if m != nil {
				obs = "s" + hexs2(m[2])
			}
		case "host":
			if w.expLvl > 0 {
				// string payload: gains `<string>:line:` of the level-1 / level-2 caller
				exp = "s" + hexs2(fmt.Sprintf("<string>:%d: %s", w.expLine, string(w.expect.(lua.LString))))
				if w.expLine < 0 {
					exp = "s" + hexs2(" "+string(w.expect.(lua.LString)))
				}
				obs = encVal(got, w.rt)
			} else if spec.kind == 9 {
				exp = "T"
				obs = "F"
				if s, ok := got.(lua.LString); ok && strings.Contains(string(s), "assignment to entry in nil map") {
					obs = "T"
				}
			} else if spec.kind == 4 {
				exp, obs = "T", "F"
				if got == lua.LValue(w.errTab) {
					obs = "T"
				}
			} else {
				exp, obs = encVal(w.expect, w.rt), encVal(got, w.rt)
			}
		}
		out = append(out, fmt.Sprintf("C05M same payload 1 %s => %s", exp, obs))
	}
	if catcher.kind == "resume" {
		st := "T"
		if !catcher.thDead || catcher.thStatus != "dead" {
			st = "F"
		}
		out = append(out, "C05M same failed-coroutine-is-dead 1 T => "+st)
		if catcher.payload != nil {
			out = append(out, fmt.Sprintf("C05M thread resume %s => F %s", encVal(catcher.payload, w.rt), encVal(catcher.payload, w.rt)))
		}
	}
	// 6. continuation = fault-free run with the catching call replaced by its (false, msg) result
	//    (table payloads are skipped: object identity cannot cross states)
	if p.Cut && catcher.kind != "resume" {
		val := catcher.payload
		if val == nil {
			val = lua.LNil
		}
		if _, isT := val.(*lua.LTable); !isT {
			ref := runProg(p.Src, faultSpec{mode: "none"}, catcher.id, val)
			if ref.panicked != "" {
				return crash("reference-run", ref.panicked)
			}
			want := append(append([]string{}, ref.w.emits[ref.w.cutAt:]...), "R:"+strings.Join(ref.results, ","), "err:"+fmt.Sprint(ref.err != nil))
			have := append(append([]string{}, w.emits[catcher.emitsAt:]...), "R:"+strings.Join(fr.results, ","), "err:"+fmt.Sprint(fr.err != nil))
			out = append(out, fmt.Sprintf("C05M same continuation %d %s => %s", len(want), strings.Join(want, " "), strings.Join(have, " ")))
		}
	}
	return out
}

// ------------------------------------------------------------------------------------------------

var c05Hangs int32 // cases that did not come back: a corrupted interpreter may loop in Go code, which nothing can interrupt

// execC05M runs one case under a watchdog: a case that does not finish is reported (`X timeout`) and its goroutine
// abandoned; after a few of them the remaining cases are skipped so that the run ends (with violations) promptly.
func execC05M(ops []Op) []string {
	if atomic.LoadInt32(&c05Hangs) >= 3 {
		return nil
	}
	done := make(chan []string, 1)
	go func() {
		defer func() {
			if r := recover(); r != nil {
				done <- []string{fmt.Sprintf("X harness-crash => %v", r)}
			}
		}()
		done <- execC05MInner(ops)
	}()
	select {
	case out := <-done:
		return out
	case <-hangAfter(20 * time.Second):
		noteHang()
		atomic.AddInt32(&c05Hangs, 1)
		return []string{"X timeout " + ops[0].String() + " => the interpreter did not come back within 20s"}
	}
}

func execC05MInner(ops []Op) []string {
	if len(ops) > 0 && ops[0].Args[0] == "prog" {
		var out []string
		for _, op := range ops {
			out = append(out, execProgFault(op)...)
		}
		return out
	}
	if len(ops) > 0 && ops[0].Args[0] == "cancel" {
		var out []string
		for _, op := range ops {
			out = append(out, execCancel(op)...)
		}
		return out
	}
	return execMech(ops)
}

// c05ResumeContainment: LState.Resume is the Go-side boundary at which an error inside a coroutine is delivered (state
// ResumeError + the error value): whatever the coroutine raised and wherever the resume was made — top level, inside
// host functions at depth 1..3, under pcall — the resuming state's call depth, registry top, current frame and API
// stack are afterwards exactly what they were, nothing escapes as a Go panic, and the state keeps working.
func c05ResumeContainment() (why string) {
	defer func() {
		if r := recover(); r != nil {
			why = fmt.Sprint("a Go panic escaped LState.Resume: ", r)
		}
	}()
	bodies := []string{
		`error("boom")`, `error({code = 1})`, `error()`, `local n = nil; return n.x`, `local n = nil; return n + 1`, `gopanic()`,
		`pcall(error, "inner"); error("after inner")`, `coroutine.yield(1); error("after yield")`,
		`local function deep(k) if k == 0 then error("deep") end return 1 + deep(k - 1) end return deep(20)`,
		`return select(2, xpcall(function() error("x") end, function(m) error("handler fails") end)), error("outer")`,
		`local t = setmetatable({}, {__index = function() error("in metamethod") end}); return t.x`,
		`return unpack({}, 1, 1e7)`,
	}
	for bi, body := range bodies {
		for depth := 0; depth <= 3; depth++ {
			for _, underPcall := range []bool{false, true} {
				L := lua.NewState()
				L.SetGlobal("gopanic", L.NewFunction(func(*lua.LState) int { panic("a Go value") }))
				fn, err := L.LoadString(body)
				if err != nil {
					L.Close()
					return "harness: " + err.Error()
				}
				var report string
				var try func(S *lua.LState) int
				try = func(S *lua.LState) int {
					S.Push(lua.LString("own-1"))
					S.Push(lua.LNumber(2))
					co, _ := S.NewThread()
					for round := 0; round < 2; round++ { // the second round resumes past the yield / resumes the dead coroutine
						top, snap := S.GetTop(), S.VerifSnapshot()
						st, rerr, vals := S.Resume(co, fn)
						after := S.VerifSnapshot()
						switch {
						case S.GetTop() != top:
							report = fmt.Sprintf("API stack top %d -> %d", top, S.GetTop())
						case after.Sp != snap.Sp || after.Top != snap.Top || after.HasFrame != snap.HasFrame || after.FrameIdx != snap.FrameIdx || after.LocalBase != snap.LocalBase:
							report = fmt.Sprintf("resumer state %+v -> %+v", snap, after)
						case st == lua.ResumeError && rerr == nil:
							report = "ResumeError without an error value"
						case st != lua.ResumeError && !(bi == 7 && round == 0 && st == lua.ResumeYield && len(vals) == 1):
							report = fmt.Sprintf("a failing coroutine body gave state %v", st)
						case S.Get(top-1) != lua.LString("own-1") || S.Get(top) != lua.LNumber(2):
							report = "the resumer's own values changed"
						}
						if report != "" {
							report += fmt.Sprintf(" (round %d)", round)
							return 0
						}
					}
					return 0
				}
				nest := try
				for d := 0; d < depth; d++ {
					inner := nest
					nest = func(S *lua.LState) int {
						f := S.NewFunction(inner)
						top := S.GetTop()
						if underPcall {
							if err := S.CallByParam(lua.P{Fn: f, NRet: 0, Protect: true}); err != nil && report == "" {
								report = "the error left Resume and reached the enclosing protected call: " + err.Error()
							}
						} else {
							S.Push(f)
							S.Call(0, 0)
						}
						if S.GetTop() != top && report == "" {
							report = fmt.Sprintf("host frame at depth: top %d -> %d", top, S.GetTop())
						}
						return 0
					}
				}
				if depth == 0 {
					nest(L)
				} else if err := L.CallByParam(lua.P{Fn: L.NewFunction(nest), NRet: 0, Protect: true}); err != nil && report == "" {
					report = "error escaped to the outermost call: " + err.Error()
				}
				if report == "" {
					if err := L.DoString(`local co = coroutine.wrap(function(a) local b = coroutine.yield(a + 1) return a + b end) assert(co(1) == 2 and co(5) == 6)`); err != nil {
						report = "the state does not work afterwards: " + err.Error()
					}
				}
				L.Close()
				if report != "" {
					return fmt.Sprintf("body %q depth %d underPcall %v: %s", body, depth, underPcall, report)
				}
			}
		}
	}
	return ""
}

func runC05M(run *Run) {
	if why := c05ResumeContainment(); why != "" {
		line := "X go-api-resume-of-a-failing-coroutine " + strings.ReplaceAll(why, " ", "_") + " => LState.Resume(co, fn) with a failing body"
		run.Failures = append(run.Failures, Failure{CaseIdx: -9002, Kind: "CRASH", Line: line, Reply: line, Lines: []string{line}})
		run.Extra["resume_containment"] = why
		return
	}
	root := NewRng(uint64(run.Seed))
	var cases []Case
	idx := 0
	addCase := func(ops []Op, note string) {
		cases = append(cases, Case{Idx: idx, Ops: ops, Note: note})
		idx++
	}
	for _, ops := range loadCorpus("C05M") {
		addCase(ops, "corpus")
	}
	// (A) operation sequences
	nSeq := 6000
	maxK := 1500
	if run.Tier == "thorough" {
		nSeq, maxK = 200000, 100000
	}
	for _, ops := range genMechOverflow() {
		addCase(ops, "registry-limit family")
	}
	for i := 0; i < nSeq; i++ {
		r := root.Fork(uint64(i))
		addCase(genMech(r, r.Range(4, 60)), "generated")
	}
	// (B) fault enumeration: counting runs first (fault-free), then every k (sampled above maxK per program)
	nProg, nInj := 0, 0
	for pi, p := range c05Corpus {
		ff := faultFree(pi)
		if ff.panicked != "" {
			addCase([]Op{{Args: []string{"prog", strconv.Itoa(pi), "none", "0"}}}, "fault-free")
			continue
		}
		nProg++
		polls, hosts := ff.w.polls, ff.w.hostN
		r := root.Fork(uint64(1000000 + pi))
		ks := map[int]bool{}
		if polls <= maxK {
			for k := 1; k <= polls+1; k++ {
				ks[k] = true
			}
		} else {
			for k := 1; k <= 12; k++ {
				ks[k] = true
				ks[polls+1-k] = true
			}
			for len(ks) < maxK {
				ks[r.Range(1, polls)] = true
			}
		}
		for k := 1; k <= polls+1; k++ {
			if ks[k] {
				addCase([]Op{{Args: []string{"prog", strconv.Itoa(pi), "ctx", strconv.Itoa(k)}}}, p.Name)
				nInj++
			}
		}
		for j := 1; j <= hosts; j++ {
			for kind := 0; kind < nHostKinds; kind++ {
				addCase([]Op{{Args: []string{"prog", strconv.Itoa(pi), "host", strconv.Itoa(j), strconv.Itoa(kind)}}}, p.Name)
				nInj++
			}
		}
	}
	// (C) cancellation family: done contexts, replaced contexts (harness/c05_cancel.go)
	// (its many one-line cases are spread evenly among the others: the driver shards are contiguous runs of cases)
	ccs, ccStats := ccCases(run.Tier == "thorough")
	{
		others := cases
		cases, idx = nil, 0
		no, nc := len(others), len(ccs)
		io, ic := 0, 0
		for io < no || ic < nc {
			if ic < nc && (io >= no || ic*no <= io*nc) {
				addCase(ccs[ic], "cancellation family "+ccShapes[c05atoi(ccs[ic][0].Args[1])].Name)
				ic++
			} else {
				addCase(others[io].Ops, others[io].Note)
				io++
			}
		}
	}
	run.Extra["cancellation_family_cases"] = len(ccs)
	for k, v := range ccStats {
		run.Extra["cancellation_family_"+k] = v
	}
	run.Rule = "Impl = Model on the Go API: generated operation sequences (push/settop/call/ret/Lua frames with captured locals/" +
		"nested PCall with and without handler/RaiseError/Error(v,level)/Go panic/handler return/failing handler/registry limit) executed under the real " +
		"LState.PCall, VerifSnapshot compared with GLua/Model/PCall.lean after every operation; Spec: a failed protected call restores Sp, currentFrame, " +
		"top = base, Panic, and leaves exactly the caller's open upvalues. Fault enumeration (bounded-exhaustive TEST over the corpus): " +
		fmt.Sprintf("%d Lua programs x every VM instruction boundary (one-shot context; sampled to %d per program when longer) x every host-function call x %d fault kinds; ", nProg, maxK, nHostKinds) +
		"observed: no Go panic leaves DoString/PCall, snapshots before/after every pcall/xpcall/resume, emit-prefix, payload delivered once and unchanged (position prefix for strings), " +
		"handler once/before unwinding/result returned, continuation equal to the fault-free run with the call replaced by (false,msg), probe chunk, final bookkeeping. " +
		fmt.Sprintf("Cancellation family (bounded-exhaustive TEST, %d runs): %d program shapes (protected-call nesting around the point where a done context is noticed: none/pcall/xpcall/nested/retry loop/handler/coroutines/metamethod/iterator/sort comparator/gsub callback/re-entrant DoString, CallByParam, Call) ", len(ccs), len(ccShapes)) +
		"x the marked point at which a host function replaces the context of the running thread (none or each) x the way (SetContext, RemoveContext+SetContext, child of the old context, two in a row) " +
		"x what is cancelled and when (newest context inside its k-th VM poll for EVERY instruction boundary, the context attached before the run inside every poll after the replacement, new context already cancelled when attached, by a host function at every marked point, nothing); " +
		"real cancelCtx behind a poll-counting wrapper, no timers; oracle = harness-side ground truth of which thread's attached context is done: no Lua-made host call on a done thread, every protected call / resume that ends under a done context failed with `<chunk>:<line>: context canceled` (handler exactly once), DoString returns that error, a detached context has no effect (run identical to the fault-free run), replacement alone is invisible, prefix, C05M pc, final bookkeeping, probe"
	run.Assume = []string{
		"Go recover() catches every panic value raised below the deferred call (Go runtime, trusted)",
		"call frames pushed by callR/OP_CALL have LocalBase = Base+1 and ReturnBase = Base (checked by the tie on every operation)",
		"the model describes /repo at 3fb4659 plus fixes/C05-handler-push-under-recover.diff (PCall pushes the handler and its argument under the inner recover)",
		"program-level semantics (what the continuation must compute) is checked by the integrator's Sem-based C05 check; here the continuation is compared Impl-vs-Impl",
	}
	run.Extra["programs"] = nProg
	run.Extra["injections"] = nInj
	run.Extra["op_sequences"] = nSeq
	runCases(run, cases, execC05M, classifyTagged)
	run.Extra["cancellation_family_observed"] = map[string]int64{
		"runs_in_which_a_context_was_cancelled": atomic.LoadInt64(&ccStat.fired), "chunk_must_fail_cancelled": atomic.LoadInt64(&ccStat.chunkCancelled),
		"cancelled_but_must_equal_fault_free_run": atomic.LoadInt64(&ccStat.chunkAsFaultFree), "only_a_coroutine_affected": atomic.LoadInt64(&ccStat.chunkAny),
		"protected_calls_ended_under_a_done_context": atomic.LoadInt64(&ccStat.protectedUnderDone), "resumes_ended_under_a_done_context": atomic.LoadInt64(&ccStat.resumeUnderDone),
		"wrapped_coroutine_calls_raised_under_a_done_context": atomic.LoadInt64(&ccStat.wrapRaised), "pc_requests": atomic.LoadInt64(&ccStat.pcLines)}
	if os.Getenv("C05M_DEBUG") != "" {
		seen := map[string]int{}
		for _, f := range run.Failures {
			key := f.Kind + " | " + strings.Join(strings.Fields(f.Line+" ")[:c05minInt(4, len(strings.Fields(f.Line)))], " ")
			seen[key]++
			if seen[key] <= 2 {
				note := ""
				if f.CaseIdx >= 0 && f.CaseIdx < len(cases) {
					note = cases[f.CaseIdx].Note + " " + cases[f.CaseIdx].Ops[0].String()
				}
				fmt.Printf("DEBUG case %d [%s] %s\n   line: %.700s\n   reply: %.300s\n", f.CaseIdx, note, f.Kind, f.Line, f.Reply)
				if seen[key] == 1 && os.Getenv("C05M_DEBUG") == "2" {
					for _, l := range f.Lines {
						fmt.Printf("      | %.300s\n", l)
					}
				}
			}
		}
		for k, v := range seen {
			fmt.Printf("DEBUG-COUNT %5d %s\n", v, k)
		}
	}
}

func c05minInt(a, b int) int {
	if a < b {
		return a
	}
	return b
}
