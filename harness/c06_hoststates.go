package main

// C06, the state a script runs on: coroutines behave the same whether the script that drives them runs on the main state,
// on a state made by NewThread and used directly (DoString / PCall on it, never resumed), on such a state made from
// another one, or as the body of a thread resumed through the Go API. Results known by construction. (Wave-6 seeded
// change C06-m12 linked a resumed coroutine to G.CurrentThread instead of the state that called resume: yields of
// coroutines driven from a never-resumed NewThread state landed on the main state's stack.)

import (
	"fmt"
	"strings"

	lua "github.com/yuin/gopher-lua"
)

const c06HostProg = `
local r = {}
local co = coroutine.create(function(a, b)
  local c = coroutine.yield(a + b)
  local d, e = coroutine.yield(c * 2, 'x')
  return d + e
end)
r[#r+1] = select(2, coroutine.resume(co, 1, 2))
r[#r+1] = table.concat({select(2, coroutine.resume(co, 10))}, '/')
r[#r+1] = select(2, coroutine.resume(co, 3, 4))
r[#r+1] = coroutine.status(co)
r[#r+1] = tostring(coroutine.resume(co))
local g = coroutine.wrap(function() for i = 1, 3 do coroutine.yield(i) end return 'end' end)
r[#r+1] = g() + g() + g()
r[#r+1] = g()
local outer = coroutine.wrap(function()
  local inner = coroutine.wrap(function() coroutine.yield('i1') coroutine.yield('i2') end)
  coroutine.yield(inner()) coroutine.yield(inner())
end)
r[#r+1] = outer() .. outer()
local bad = coroutine.create(function() error({code = 7}) end)
local ok, e = coroutine.resume(bad)
r[#r+1] = tostring(ok) .. ':' .. tostring(type(e) == 'table' and e.code) .. ':' .. coroutine.status(bad)
local sum = 0
for v in coroutine.wrap(function() for i = 1, 4 do coroutine.yield(i) end end) do sum = sum + v end
r[#r+1] = sum
return table.concat(r, ',')`

const c06HostWant = "3,20/x,7,dead,false,6,end,i1i2,false:7:dead,10"

func c06HostStates() []string {
	places := []string{"main", "worker", "worker-of-worker", "worker-pcall", "resumed-body", "worker-after-main-ran"}
	var bad []string
	for _, place := range places {
		got := func() (res string) {
			defer func() {
				if r := recover(); r != nil {
					res = fmt.Sprint("GOPANIC ", r)
				}
			}()
			L := lua.NewState()
			defer L.Close()
			top := func(S *lua.LState) string {
				if S.GetTop() == 0 {
					return "(no result)"
				}
				return S.Get(-1).String()
			}
			switch place {
			case "main":
				if err := L.DoString(c06HostProg); err != nil {
					return "ERR " + err.Error()
				}
				return top(L)
			case "worker", "worker-after-main-ran":
				if place == "worker-after-main-ran" {
					if err := L.DoString("local co = coroutine.wrap(function() coroutine.yield(1) end) co() co()"); err != nil {
						return "ERR " + err.Error()
					}
				}
				th, _ := L.NewThread()
				if err := th.DoString(c06HostProg); err != nil {
					return "ERR " + err.Error()
				}
				if L.GetTop() != 0 {
					return fmt.Sprintf("values landed on the main state's stack: top=%d %s", L.GetTop(), L.Get(-1).String())
				}
				return top(th)
			case "worker-of-worker":
				t1, _ := L.NewThread()
				t2, _ := t1.NewThread()
				if err := t2.DoString(c06HostProg); err != nil {
					return "ERR " + err.Error()
				}
				if L.GetTop() != 0 || t1.GetTop() != 0 {
					return fmt.Sprintf("values landed on another state's stack: main top=%d, parent top=%d", L.GetTop(), t1.GetTop())
				}
				return top(t2)
			case "worker-pcall":
				th, _ := L.NewThread()
				fn, err := th.LoadString(c06HostProg)
				if err != nil {
					return "ERR " + err.Error()
				}
				th.Push(fn)
				if err := th.PCall(0, 1, nil); err != nil {
					return "ERR " + err.Error()
				}
				return top(th)
			case "resumed-body":
				fn, err := L.LoadString(c06HostProg)
				if err != nil {
					return "ERR " + err.Error()
				}
				th, _ := L.NewThread()
				st, rerr, vals := L.Resume(th, fn)
				if rerr != nil || st != lua.ResumeOK || len(vals) != 1 {
					return fmt.Sprintf("Resume: state=%v err=%v values=%d", st, rerr, len(vals))
				}
				return vals[0].String()
			}
			return "?"
		}()
		if got != c06HostWant {
			bad = append(bad, fmt.Sprintf("X host-state => script driven on %s: got=%s want=%s", place, strings.ReplaceAll(strings.ReplaceAll(got, " ", "_"), "\n", "|"), c06HostWant))
		}
	}
	return bad
}

// c06YieldOverflow: a yield whose payload does not fit the RESUMER's registry (the resumer being a coroutine, some calls
// deep) is an ordinary error there, caught by pcall — and afterwards the resumer is still the running coroutine and the
// yielder is not "running"/"normal" (wave-6 seeded change C06-m11 did the thread bookkeeping after the payload transfer).
// Payload size × depth swept across the registry limit; below the limit the whole payload arrives.
const c06OverflowProg = `
local N, D = ...
local function deep(n, f) if n == 0 then return f() end local a, b = deep(n - 1, f) return a, b end
local yielder = coroutine.create(function()
  local t = {} for i = 1, N do t[i] = i end
  coroutine.yield(unpack(t)) return 'done'
end)
local resumer = coroutine.wrap(function()
  local me = coroutine.running()
  local ok, n, last = pcall(deep, D, function() local r = {coroutine.resume(yielder)} return #r, r[#r] end)
  local st = coroutine.status(yielder)
  return ok, ok and (n == N + 1 and last == N), coroutine.running() == me, st == 'suspended' or st == 'dead', coroutine.status(me)
end)
local ok, whole, stillme, sane, mystatus = resumer()
local after = coroutine.wrap(function() coroutine.yield('alive') end)()
return tostring(ok) .. ',' .. tostring(ok and whole or 'caught') .. ',' .. tostring(stillme) .. ',' .. tostring(sane) .. ',' .. mystatus .. ',' .. after`

func c06YieldOverflow() []string {
	var bad []string
	for _, n := range []int{100, 3000, 4000, 4500, 4800, 4950, 5050, 5110} {
		for _, d := range []int{0, 30, 100, 180} {
			got := func() (res string) {
				defer func() {
					if r := recover(); r != nil {
						res = fmt.Sprint("GOPANIC ", r)
					}
				}()
				L := lua.NewState(lua.Options{CallStackSize: 256, RegistrySize: 5120})
				defer L.Close()
				fn, err := L.LoadString(c06OverflowProg)
				if err != nil {
					return "ERR " + err.Error()
				}
				L.Push(fn)
				L.Push(lua.LNumber(n))
				L.Push(lua.LNumber(d))
				if err := L.PCall(2, 1, nil); err != nil {
					return "ERR " + strings.ReplaceAll(err.Error(), "\n", " ")
				}
				return L.Get(-1).String()
			}()
			if got != "true,true,true,true,running,alive" && got != "false,caught,true,true,running,alive" {
				bad = append(bad, fmt.Sprintf("X yield-overflow => payload %d, resumer depth %d: got=%s want=<ok>,<whole|caught>,true,true,running,alive", n, d, strings.ReplaceAll(got, " ", "_")))
			}
		}
	}
	return bad
}
