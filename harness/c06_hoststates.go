package main

// C06, the state a script runs on: coroutines behave the same whether the script that drives them runs on the main state,
// on a state made by NewThread and used directly (DoString / PCall on it, never resumed), on such a state made from
// another one, or as the body of a thread resumed through the Go API. Results known by construction. (Wave-6 seeded
// change C06-m12 linked a resumed coroutine to G.CurrentThread instead of the state that called resume: yields of
// coroutines driven from a never-resumed NewThread state landed on the main state's stack.)

import (
	"fmt"
	"strings"

	lua "github.com/yuin/gopher-lua"
)

const c06HostProg = `
local r = {}
local co = coroutine.create(function(a, b)
  local c = coroutine.yield(a + b)
  local d, e = coroutine.yield(c * 2, 'x')
  return d + e
end)
r[#r+1] = select(2, coroutine.resume(co, 1, 2))
r[#r+1] = table.concat({select(2, coroutine.resume(co, 10))}, '/')
r[#r+1] = select(2, coroutine.resume(co, 3, 4))
r[#r+1] = coroutine.status(co)
r[#r+1] = tostring(coroutine.resume(co))
local g = coroutine.wrap(function() for i = 1, 3 do coroutine.yield(i) end return 'end' end)
r[#r+1] = g() + g() + g()
r[#r+1] = g()
local outer = coroutine.wrap(function()
  local inner = coroutine.wrap(function() coroutine.yield('i1') coroutine.yield('i2') end)
  coroutine.yield(inner()) coroutine.yield(inner())
end)
r[#r+1] = outer() .. outer()
local bad = coroutine.create(function() error({code = 7}) end)
local ok, e = coroutine.resume(bad)
r[#r+1] = tostring(ok) .. ':' .. tostring(type(e) == 'table' and e.code) .. ':' .. coroutine.status(bad)
local sum = 0
for v in coroutine.wrap(function() for i = 1, 4 do coroutine.yield(i) end end) do sum = sum + v end
r[#r+1] = sum
return table.concat(r, ',')`

const c06HostWant = "3,20/x,7,dead,false,6,end,i1i2,false:7:dead,10"

func c06HostStates() []string {
	places := []string{"main", "worker", "worker-of-worker", "worker-pcall", "resumed-body", "worker-after-main-ran"}
	var bad []string
	for _, place := range places {
		got := func() (res string) {
			defer func() {
				if r := recover(); r != nil {
					res = fmt.Sprint("GOPANIC ", r)
				}
			}()
			L := lua.NewState()
			defer L.Close()
			top := func(S *lua.LState) string {
				if S.GetTop() == 0 {
					return "(no result)"
				}
				return S.Get(-1).String()
			}
			switch place {
			case "main":
				if err := L.DoString(c06HostProg); err != nil {
					return "ERR " + err.Error()
				}
				return top(L)
			case "worker", "worker-after-main-ran":
				if place == "worker-after-main-ran" {
					if err := L.DoString("local co = coroutine.wrap(function() coroutine.yield(1) end) co() co()"); err != nil {
						return "ERR " + err.Error()
					}
				}
				th, _ := L.NewThread()
				if err := th.DoString(c06HostProg); err != nil {
					return "ERR " + err.Error()
				}
				if L.GetTop() != 0 {
					return fmt.Sprintf("values landed on the main state's stack: top=%d %s", L.GetTop(), L.Get(-1).String())
				}
				return top(th)
			case "worker-of-worker":
				t1, _ := L.NewThread()
				t2, _ := t1.NewThread()
				if err := t2.DoString(c06HostProg); err != nil {
					return "ERR " + err.Error()
				}
				if L.GetTop() != 0 || t1.GetTop() != 0 {
					return fmt.Sprintf("values landed on another state's stack: main top=%d, parent top=%d", L.GetTop(), t1.GetTop())
				}
				return top(t2)
			case "worker-pcall":
				th, _ := L.NewThread()
				fn, err := th.LoadString(c06HostProg)
				if err != nil {
					return "ERR " + err.Error()
				}
				th.Push(fn)
				if err := th.PCall(0, 1, nil); err != nil {
					return "ERR " + err.Error()
				}
				return top(th)
			case "resumed-body":
				fn, err := L.LoadString(c06HostProg)
				if err != nil {
					return "ERR " + err.Error()
				}
				th, _ := L.NewThread()
				st, rerr, vals := L.Resume(th, fn)
				if rerr != nil || st != lua.ResumeOK || len(vals) != 1 {
					return fmt.Sprintf("Resume: state=%v err=%v values=%d", st, rerr, len(vals))
				}
				return vals[0].String()
			}
			return "?"
		}()
		if got != c06HostWant {
			bad = append(bad, fmt.Sprintf("X host-state => script driven on %s: got=%s want=%s", place, strings.ReplaceAll(strings.ReplaceAll(got, " ", "_"), "\n", "|"), c06HostWant))
		}
	}
	return bad
}
