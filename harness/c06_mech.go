package main

// C06M: mechanism-level correspondence for coroutines.  Histories of create/resume/yield/wrap/status/running over
// 1–4 coroutines are written as scripts (lean/GLua/Spec/CoScript.lean), rendered as small Lua programs, run on the
// REAL interpreter, and the observable trace is compared with the Lean Model (transcription of coroutinelib.go /
// state.go Resume,Yield,XMoveTo,Status / vm.go switchToParentThread, callGFunction, OP_RETURN, threadRun) and with
// the Spec (the manual's coroutines).  A second family drives the coroutines through the Go API
// (L.NewThread + L.Resume, host functions that L.Yield more/fewer values than they got).

import (
	"encoding/hex"
	"fmt"
	"os"
	"os/exec"
	"runtime/debug"
	"sort"
	"strconv"
	"strings"
	"sync"
	"time"

	lua "github.com/yuin/gopher-lua"
)

// ---------- script representation on the Go side (mirrors CoScript) ----------

type coAct struct {
	kind  string // y r ret err st run call for hy
	tail  bool
	prot  bool
	j     int // coroutine id / callee fid
	a     int
	want  string // "0".."4" | "m"
	vals  []string
	nvars int
	hargs []string // hy: arguments the Lua code passes to the host function (it yields `vals` instead)
}

type coFn struct {
	np     int
	vararg bool
	nused  int
	acts   []coAct
}

type coDef struct {
	wrapped bool
	body    int // fid, -1 = Go host function
}

type coProg struct {
	fns map[int]*coFn
	cos map[int]*coDef
}

const coMax = 4

func (p *coProg) fn(f int) *coFn {
	if x, ok := p.fns[f]; ok {
		return x
	}
	x := &coFn{nused: 8}
	p.fns[f] = x
	return x
}
func (p *coProg) co(j int) *coDef {
	if x, ok := p.cos[j]; ok {
		return x
	}
	return &coDef{body: 900 + j}
}

func parseCounted(ws []string) ([]string, bool) {
	if len(ws) == 0 {
		return nil, false
	}
	n, err := strconv.Atoi(ws[0])
	if err != nil || len(ws)-1 != n {
		return nil, false
	}
	return ws[1:], true
}

// progFromOps rebuilds the script from op lines (robust against the shrinker removing lines).
func progFromOps(ops []Op) *coProg {
	p := &coProg{fns: map[int]*coFn{}, cos: map[int]*coDef{}}
	for _, op := range ops {
		a := op.Args
		switch a[0] {
		case "fn":
			f, _ := strconv.Atoi(a[1])
			x := p.fn(f)
			x.np, _ = strconv.Atoi(a[2])
			x.vararg = a[3] == "1"
			x.nused, _ = strconv.Atoi(a[4])
		case "co":
			j, _ := strconv.Atoi(a[1])
			if a[3] == "G" {
				p.cos[j] = &coDef{wrapped: false, body: -1}
			} else {
				f, _ := strconv.Atoi(a[3])
				p.cos[j] = &coDef{wrapped: a[2] == "1", body: f}
			}
		case "a":
			f, _ := strconv.Atoi(a[1])
			x := p.fn(f)
			r := a[3:]
			var act coAct
			act.kind = a[2]
			ok := true
			switch a[2] {
			case "y":
				act.tail = r[0] == "1"
				act.a, _ = strconv.Atoi(r[1])
				act.want = r[2]
				act.vals, ok = parseCounted(r[3:])
			case "r":
				act.j, _ = strconv.Atoi(r[0])
				act.prot = r[1] == "1"
				act.a, _ = strconv.Atoi(r[2])
				act.want = r[3]
				act.vals, ok = parseCounted(r[4:])
			case "ret":
				act.a, _ = strconv.Atoi(r[0])
				act.vals, ok = parseCounted(r[1:])
			case "err":
				act.vals = []string{r[0]}
			case "st":
				act.j, _ = strconv.Atoi(r[0])
			case "run":
			case "call":
				act.j, _ = strconv.Atoi(r[0])
				act.a, _ = strconv.Atoi(r[1])
				act.want = r[2]
				act.vals, ok = parseCounted(r[3:])
			case "for":
				act.j, _ = strconv.Atoi(r[0])
				act.nvars, _ = strconv.Atoi(r[1])
			case "hy":
				act.a, _ = strconv.Atoi(r[0])
				act.want = r[1]
				n, _ := strconv.Atoi(r[2])
				if len(r) < 3+n {
					ok = false
					break
				}
				act.hargs = r[3 : 3+n]
				act.vals, ok = parseCounted(r[3+n:])
			default:
				ok = false
			}
			if !ok {
				panic("bad act " + strings.Join(a, " "))
			}
			x.acts = append(x.acts, act)
		}
	}
	return p
}

// ---------- rendering a script as Lua ----------

func luaLit(tok string) string {
	switch {
	case tok == "nil":
		return "nil"
	case tok == "T":
		return "true"
	case tok == "F":
		return "false"
	case tok[0] == 'i':
		return tok[1:]
	case tok[0] == 's':
		b, _ := hex.DecodeString(tok[1:])
		return strconv.Quote(string(b))
	}
	panic("bad value token " + tok)
}

func luaVals(vs []string) string {
	xs := make([]string, len(vs))
	for i, v := range vs {
		xs[i] = luaLit(v)
	}
	return strings.Join(xs, ", ")
}

// wantForm renders a call whose results are consumed by a context wanting `want` values and emitted under label l.
func wantForm(l, call, want string) string {
	switch want {
	case "m":
		return fmt.Sprintf("emit(%q, %s)", l, call)
	case "0":
		return fmt.Sprintf("%s; emit(%q)", call, l)
	}
	k, _ := strconv.Atoi(want)
	names := make([]string, k)
	for i := range names {
		names[i] = fmt.Sprintf("r%d", i+1)
	}
	ns := strings.Join(names, ", ")
	return fmt.Sprintf("do local %s = %s; emit(%q, %s) end", ns, call, l, ns)
}

func renderFn(p *coProg, f int, sb *strings.Builder) {
	x := p.fn(f)
	params := []string{}
	for i := 0; i < x.np; i++ {
		params = append(params, fmt.Sprintf("p%d", i+1))
	}
	plist := append([]string{}, params...)
	if x.vararg {
		plist = append(plist, "...")
	}
	fmt.Fprintf(sb, "local function mkF%d(j) return function(%s)\n", f, strings.Join(plist, ", "))
	sb.WriteString("  if j then local me = coroutine.running(); rev[j] = me; ids[me] = j end\n")
	ev := append([]string{fmt.Sprintf("%q", "P"+strconv.Itoa(f))}, params...)
	if x.vararg {
		ev = append(ev, "select('#', ...)", "...")
	}
	fmt.Fprintf(sb, "  emit(%s)\n", strings.Join(ev, ", "))
	renderActs(p, f, x.acts, sb)
	fmt.Fprintf(sb, "end end\nF[%d] = mkF%d(nil)\n", f, f)
}

func renderActs(p *coProg, f int, acts []coAct, sb *strings.Builder) {
	for idx, act := range acts {
		l := fmt.Sprintf("L%d.%d", f, idx)
		switch act.kind {
		case "y":
			call := "coroutine.yield(" + luaVals(act.vals) + ")"
			if act.tail {
				fmt.Fprintf(sb, "  do return %s end\n", call)
			} else {
				fmt.Fprintf(sb, "  %s\n", wantForm(l, call, act.want))
			}
		case "r":
			d := p.co(act.j)
			var call string
			args := luaVals(act.vals)
			sep := ""
			if args != "" {
				sep = ", "
			}
			switch {
			case d.wrapped && act.prot:
				call = fmt.Sprintf("pcall(f[%d]%s%s)", act.j, sep, args)
			case d.wrapped:
				call = fmt.Sprintf("f[%d](%s)", act.j, args)
			case act.prot:
				call = fmt.Sprintf("pcall(coroutine.resume, co[%d]%s%s)", act.j, sep, args)
			default:
				call = fmt.Sprintf("coroutine.resume(co[%d]%s%s)", act.j, sep, args)
			}
			fmt.Fprintf(sb, "  %s\n", wantForm(l, call, act.want))
		case "hy":
			hyVals.Store(fmt.Sprintf("%p/%s", p, l), act.vals)
			args := luaVals(act.hargs)
			if args != "" {
				args = ", " + args
			}
			fmt.Fprintf(sb, "  %s\n", wantForm(l, fmt.Sprintf("hy(%q%s)", l, args), act.want))
		case "ret":
			fmt.Fprintf(sb, "  do return %s end\n", luaVals(act.vals))
		case "err":
			fmt.Fprintf(sb, "  error(%s, 0)\n", luaLit(act.vals[0]))
		case "st":
			fmt.Fprintf(sb, "  emit(%q, rev[%d] and coroutine.status(rev[%d]))\n", l, act.j, act.j)
		case "run":
			fmt.Fprintf(sb, "  emit(%q, ids[coroutine.running()])\n", l)
		case "call":
			fmt.Fprintf(sb, "  %s\n", wantForm(l, fmt.Sprintf("F[%d](%s)", act.j, luaVals(act.vals)), act.want))
		case "for":
			if p.co(act.j).wrapped {
				names := make([]string, act.nvars)
				for i := range names {
					names[i] = fmt.Sprintf("x%d", i+1)
				}
				ns := strings.Join(names, ", ")
				// explicit nil state/control: before /repo 5922fa6 a shorter explist left stale registers in the hidden
				// state/control slots (compiler defect found by this harness, outside C06); the explicit form is kept
				fmt.Fprintf(sb, "  for %s in f[%d], nil, nil do emit(%q, %s) end\n", ns, act.j, l, ns)
			}
		}
	}
}

// hyVals: values the host function `hy` yields, keyed by program pointer and act label
var hyVals sync.Map

func renderProg(p *coProg) string { return renderProgMode(p, false) }

func renderProgMode(p *coProg, api bool) string {
	var sb strings.Builder
	if api {
		sb.WriteString("ids, rev, co, f, F = {}, {}, {}, {}, {}\n")
	} else {
		sb.WriteString("local ids, rev, co, f, F = {}, {}, {}, {}, {}\nemit(\"P0\")\n")
	}
	var fids []int
	for f := range p.fns {
		fids = append(fids, f)
	}
	for j := 1; j <= coMax && !api; j++ {
		if b := p.co(j).body; b >= 0 {
			p.fn(b)
			fids = append(fids, b)
		}
	}
	sort.Ints(fids)
	seen := map[int]bool{}
	for _, f := range fids {
		if f == 0 || seen[f] {
			continue
		}
		seen[f] = true
		renderFn(p, f, &sb)
	}
	if api {
		return sb.String()
	}
	for j := 1; j <= coMax; j++ {
		d := p.co(j)
		switch {
		case d.body < 0:
			fmt.Fprintf(&sb, "co[%d] = coroutine.create(hostid); rev[%d] = co[%d]; ids[co[%d]] = %d\n", j, j, j, j, j)
		case d.wrapped:
			fmt.Fprintf(&sb, "f[%d] = coroutine.wrap(mkF%d(%d))\n", j, d.body, j)
		default:
			fmt.Fprintf(&sb, "co[%d] = coroutine.create(mkF%d(nil)); rev[%d] = co[%d]; ids[co[%d]] = %d\n", j, d.body, j, j, j, j)
		}
	}
	renderActs(p, 0, p.fn(0).acts, &sb)
	return sb.String()
}

// ---------- running on the real interpreter ----------

var coPhrases = []struct{ phrase, tok string }{
	{"can not resume a dead thread", "s!dead"},
	{"can not resume a running thread", "s!running"},
	{"can not resume a normal thread", "s!normal"},
	{"can not yield from outside of a coroutine", "s!outside"},
}

func coEnc(v lua.LValue, rt *RefTable) string {
	if s, ok := v.(lua.LString); ok {
		switch string(s) {
		case "suspended", "running", "normal", "dead":
			return "s!" + string(s)
		}
		for _, ph := range coPhrases {
			if strings.HasSuffix(string(s), ph.phrase) {
				return ph.tok
			}
		}
	}
	return encVal(v, rt)
}

// runCoLua runs the rendered program; returns the trace tokens (emits, then R:/X:) or a crash description.
func runCoLua(src string) (toks []string, crash string) {
	L := lua.NewState()
	defer L.Close()
	rt := NewRefTable()
	L.SetGlobal("emit", L.NewFunction(func(L *lua.LState) int {
		n := L.GetTop()
		parts := make([]string, 0, n)
		for i := 2; i <= n; i++ {
			parts = append(parts, coEnc(L.Get(i), rt))
		}
		toks = append(toks, string(L.Get(1).(lua.LString))+":"+strings.Join(parts, ","))
		return 0
	}))
	L.SetGlobal("hostid", L.NewFunction(func(L *lua.LState) int { return L.GetTop() }))
	ctx, cancel := hangCtx(45 * time.Second)
	defer cancel()
	L.SetContext(ctx)
	defer func() {
		if r := recover(); r != nil {
			crash = "gopanic " + strings.ReplaceAll(fmt.Sprint(r), " ", "_")
		}
	}()
	fn, err := L.LoadString(src)
	if err != nil {
		return toks, "syntax " + strings.ReplaceAll(err.Error(), " ", "_")
	}
	base := L.GetTop()
	L.Push(fn)
	if err := L.PCall(0, lua.MultRet, nil); err != nil {
		if ctx.Err() != nil {
			return toks, "timeout"
		}
		if ae, ok := err.(*lua.ApiError); ok {
			if ae.Type == lua.ApiErrorPanic {
				return toks, "gopanic " + strings.ReplaceAll(err.Error(), " ", "_")
			}
			if ae.Object != nil {
				return append(toks, "X:"+coEnc(ae.Object, rt)), ""
			}
		}
		return append(toks, "X:s"+hexs(err.Error())), ""
	}
	var rs []string
	for i := base + 1; i <= L.GetTop(); i++ {
		rs = append(rs, coEnc(L.Get(i), rt))
	}
	return append(toks, "R:"+strings.Join(rs, ",")), ""
}

func execCoScript(ops []Op) []string {
	var out []string
	for _, op := range ops {
		out = append(out, "C06M "+op.String())
	}
	p := progFromOps(ops)
	src := renderProg(p)
	toks, crash := runCoLua(src)
	if crash != "" {
		out = append(out, "X "+crash+" => "+strings.Join(toks, " "))
		return out
	}
	noteTrace(toks)
	out = append(out, "C06M run 20000 => "+strings.Join(toks, " "))
	// the guard of the history-level simulation theorem (lean: CoScript.okProg), computed here and compared with Lean's
	// own evaluation: how much of the tie lies inside the fragment the theorem covers is part of the evidence
	in := coInFragment(p)
	noteFragment(in)
	out = append(out, "C06M okprog => "+b01(in))
	return out
}

// coInFragment mirrors lean/GLua/Spec/CoScript.lean `okProg`: acts create/resume/wrapped call (also under pcall), yield
// (also tail-called), return, error, status, running, Lua calls, for-in over a wrapped coroutine; coroutine ids 1..4 with
// Lua bodies; np <= nused;
// the main chunk has no named parameters.
func coInFragment(p *coProg) bool {
	for _, f := range p.fns {
		if f.np > f.nused {
			return false
		}
		for _, a := range f.acts {
			switch a.kind {
			case "y", "ret", "err", "run", "call":
			case "r":
				if a.j < 1 || a.j > 4 {
					return false
				}
			case "st":
				if a.j < 1 || a.j > 4 {
					return false
				}
			case "for":
				if a.j < 1 || a.j > 4 || a.nvars < 1 {
					return false
				}
			default: // hy
				return false
			}
		}
	}
	for j, c := range p.cos {
		if j < 1 || j > 4 || c.body < 0 {
			return false
		}
	}
	if m, ok := p.fns[0]; ok && (m.np != 0 || m.vararg) {
		return false
	}
	return true
}

var fragStat struct {
	sync.Mutex
	in, out int
}

func noteFragment(in bool) {
	fragStat.Lock()
	defer fragStat.Unlock()
	if in {
		fragStat.in++
	} else {
		fragStat.out++
	}
}

// ---------- generator ----------

type coGen struct {
	r    *Rng
	ops  []Op
	next int // distinct payload values
}

func (g *coGen) add(args ...string) { g.ops = append(g.ops, Op{Args: args}) }

func (g *coGen) val() string {
	switch c := g.r.Intn(100); {
	case c < 70:
		g.next++
		return "i" + strconv.Itoa(100+g.next)
	case c < 82:
		return "nil"
	case c < 88:
		return Pick(g.r, []string{"T", "F"})
	case c < 96:
		return Pick(g.r, []string{"s61", "s", "s7879"})
	default:
		return "i0"
	}
}

func (g *coGen) vals(n int) []string {
	out := []string{strconv.Itoa(n)}
	for i := 0; i < n; i++ {
		out = append(out, g.val())
	}
	return out
}

func (g *coGen) want() string {
	return Pick(g.r, []string{"0", "1", "2", "3", "4", "m", "m", "1", "2"})
}

func (g *coGen) act(f int, kind string, rest ...string) {
	g.add(append([]string{"a", strconv.Itoa(f), kind}, rest...)...)
}

// genCoCase: 1–4 coroutines, each with an owner (main or a lower coroutine) that resumes it about as often as it
// yields (+1), payload counts 0–4 both ways independent of the wanted counts 0–4/open, nested resumes, helpers
// (frame depth), tail-called yields, errors, wrapped/plain, protected calls, generators in for-in, probes.
func genCoCase(r *Rng) []Op {
	g := &coGen{r: r}
	// ≈ 45 % of the scripts are forced to stay inside the fragment of the simulation theorem (no Go-function body;
	// historically also no for-in, which keeps a share of scripts without generators): there Model = Spec is proved for
	// every history, and the tie shows Impl = Model
	frag := r.Chance(45)
	nco := r.Range(1, coMax)
	if r.Chance(35) {
		nco = 1
	}
	type cinfo struct {
		wrapped, gbody bool
		owner, yields  int
		np             int
		vararg         bool
	}
	cs := make([]cinfo, nco+1)
	nhelp := 0
	if r.Chance(45) {
		nhelp = r.Range(1, 2)
	}
	for j := 1; j <= nco; j++ {
		c := &cs[j]
		c.wrapped = r.Chance(40)
		c.gbody = !frag && r.Chance(4)
		c.owner = 0
		if j > 1 && r.Chance(55) {
			c.owner = r.Range(1, j-1)
		}
		c.yields = r.Range(0, 4)
		c.np = r.Range(0, 3)
		c.vararg = r.Chance(30)
		if c.gbody {
			g.add("co", strconv.Itoa(j), "0", "G")
			c.wrapped, c.yields = false, 0
		} else {
			g.add("co", strconv.Itoa(j), b01(c.wrapped), strconv.Itoa(j))
			g.add("fn", strconv.Itoa(j), strconv.Itoa(c.np), b01(c.vararg), strconv.Itoa(c.np+12))
		}
	}
	helpers := []int{}
	hnp := map[int]int{}
	for h := 0; h < nhelp; h++ {
		f := 10 + h
		helpers = append(helpers, f)
		hnp[f] = r.Range(0, 2)
		g.add("fn", strconv.Itoa(f), strconv.Itoa(hnp[f]), b01(r.Chance(30)), strconv.Itoa(hnp[f]+12))
	}
	aOf := func(np int) string { return strconv.Itoa(np + r.Range(0, 4)) }
	// one block: i = coroutine id (0 main, -f for helper f)
	block := func(f, self, np int, yields int, inCo bool, depth int) {
		type item struct {
			kind string
			j    int
		}
		var items []item
		for k := 0; k < yields; k++ {
			items = append(items, item{"y", 0})
		}
		for j := 1; j <= nco; j++ {
			if self >= 0 && cs[j].owner == self {
				n := cs[j].yields + 1 + Pick(r, []int{-1, 0, 0, 0, 0, 1})
				if !frag && cs[j].wrapped && r.Chance(15) {
					items = append(items, item{"for", j})
					continue
				}
				for k := 0; k < n; k++ {
					items = append(items, item{"r", j})
				}
			}
		}
		// keep the resumes of one coroutine in order but interleave everything else: a random shuffle is fine
		for i := len(items) - 1; i > 0; i-- {
			k := r.Intn(i + 1)
			items[i], items[k] = items[k], items[i]
		}
		fs := strconv.Itoa(f)
		for _, it := range items {
			// probes around the interesting acts
			if r.Chance(18) {
				g.act(f, "st", strconv.Itoa(r.Range(1, nco)))
			}
			if r.Chance(6) {
				g.act(f, "run")
			}
			if depth == 0 && len(helpers) > 0 && r.Chance(12) {
				h := Pick(r, helpers)
				g.act(f, "call", append([]string{strconv.Itoa(h), aOf(np), g.want()}, g.vals(r.Range(0, 4))...)...)
			}
			switch it.kind {
			case "y":
				g.act(f, "y", append([]string{"0", aOf(np), g.want()}, g.vals(r.Range(0, 4))...)...)
			case "r":
				j := it.j
				if r.Chance(4) { // deliberately wrong target: self / a resumer / anything
					j = r.Range(1, nco)
				}
				g.act(f, "r", append([]string{strconv.Itoa(j), b01(r.Chance(25)), aOf(np), g.want()}, g.vals(r.Range(0, 4))...)...)
			case "for":
				g.act(f, "for", strconv.Itoa(it.j), strconv.Itoa(r.Range(1, 3)))
			}
		}
		if r.Chance(15) {
			g.act(f, "st", strconv.Itoa(r.Range(1, nco)))
		}
		// how the block ends
		switch c := r.Intn(100); {
		case c < 45:
			g.act(f, "ret", append([]string{aOf(np)}, g.vals(r.Range(0, 4))...)...)
		case c < 60:
			// fall off the end
		case c < 72:
			g.act(f, "err", g.val())
		case c < 92 && inCo:
			g.act(f, "y", append([]string{"1", aOf(np), "m"}, g.vals(r.Range(0, 4))...)...)
		default:
			g.act(f, "ret", append([]string{aOf(np)}, g.vals(r.Range(0, 2))...)...)
		}
		_ = fs
	}
	for j := 1; j <= nco; j++ {
		if !cs[j].gbody {
			block(j, j, cs[j].np, cs[j].yields, true, 0)
		}
	}
	for _, h := range helpers {
		// helpers run inside whoever calls them (mostly coroutines): a yield or two, rarely a resume
		ny := r.Range(0, 2)
		block(h, -1, hnp[h], ny, true, 1)
	}
	block(0, 0, 0, 0, false, 0)
	// final status sweep from main
	for j := 1; j <= nco; j++ {
		g.act(0, "st", strconv.Itoa(j))
	}
	return g.ops
}

// ---------- Go API histories: L.NewThread + L.Resume, host functions that L.Yield ----------

func execCoAPI(ops []Op) []string {
	var out []string
	p := progFromOps(ops)
	for _, op := range ops {
		if op.Args[0] == "gr" || op.Args[0] == "grs" {
			f, _ := strconv.Atoi(op.Args[2])
			p.fn(f)
		}
	}
	for _, op := range ops {
		if op.Args[0] == "fn" || op.Args[0] == "a" {
			out = append(out, "C06M "+op.String())
		}
	}
	src := renderProgMode(p, true)
	L := lua.NewState()
	defer L.Close()
	rt := NewRefTable()
	var toks []string
	L.SetGlobal("emit", L.NewFunction(func(L *lua.LState) int {
		n := L.GetTop()
		parts := make([]string, 0, n)
		for i := 2; i <= n; i++ {
			parts = append(parts, coEnc(L.Get(i), rt))
		}
		toks = append(toks, string(L.Get(1).(lua.LString))+":"+strings.Join(parts, ","))
		return 0
	}))
	dec := func(tok string) lua.LValue {
		switch {
		case tok == "nil":
			return lua.LNil
		case tok == "T":
			return lua.LTrue
		case tok == "F":
			return lua.LFalse
		case tok[0] == 'i':
			n, _ := strconv.Atoi(tok[1:])
			return lua.LNumber(n)
		default:
			b, _ := hex.DecodeString(tok[1:])
			return lua.LString(string(b))
		}
	}
	// the host function yields values of its own choosing (more or fewer than it got)
	L.SetGlobal("hy", L.NewFunction(func(L *lua.LState) int {
		key := fmt.Sprintf("%p/%s", p, string(L.Get(1).(lua.LString)))
		v, _ := hyVals.Load(key)
		var vals []lua.LValue
		for _, t := range v.([]string) {
			vals = append(vals, dec(t))
		}
		return L.Yield(vals...)
	}))
	ctx, cancel := hangCtx(45 * time.Second)
	defer cancel()
	L.SetContext(ctx)
	if err := L.DoString(src); err != nil {
		return append(out, "X prelude => "+strings.ReplaceAll(err.Error(), " ", "_"))
	}
	F := L.GetGlobal("F").(*lua.LTable)
	coT := L.GetGlobal("co").(*lua.LTable)
	idsT := L.GetGlobal("ids").(*lua.LTable)
	revT := L.GetGlobal("rev").(*lua.LTable)
	ths := map[int]*lua.LState{}
	for j := 1; j <= coMax; j++ {
		th, _ := L.NewThread()
		ths[j] = th
		coT.RawSetInt(j, th)
		revT.RawSetInt(j, th)
		idsT.RawSet(th, lua.LNumber(j))
	}
	for _, op := range ops {
		a := op.Args
		switch a[0] {
		case "gr", "grs":
			j, _ := strconv.Atoi(a[1])
			fid, _ := strconv.Atoi(a[2])
			vs, _ := parseCounted(a[3:])
			fn, _ := F.RawGetInt(fid).(*lua.LFunction)
			args := make([]lua.LValue, len(vs))
			for i, t := range vs {
				args[i] = dec(t)
			}
			toks = nil
			var obs []string
			crash := ""
			top0, depth0 := L.GetTop(), len(L.VerifFrames())
			func() {
				defer func() {
					if r := recover(); r != nil {
						crash = strings.ReplaceAll(fmt.Sprint(r), " ", "_")
					}
				}()
				st, err, vals := L.Resume(ths[j], fn, args...)
				switch st {
				case lua.ResumeError:
					var obj lua.LValue = lua.LString(err.Error())
					if ae, ok := err.(*lua.ApiError); ok && ae.Object != nil {
						obj = ae.Object
					}
					e := coEnc(obj, rt)
					if e == "s!dead" || e == "s!running" || e == "s!normal" {
						obs = []string{"refused", e[2:]}
					} else {
						obs = []string{"err", e}
					}
				case lua.ResumeOK, lua.ResumeYield:
					obs = []string{"ok"}
					if st == lua.ResumeYield {
						obs = []string{"yield"}
					}
					for _, v := range vals {
						obs = append(obs, coEnc(v, rt))
					}
				}
			}()
			if crash != "" || ctx.Err() != nil {
				out = append(out, "X gopanic-or-timeout "+crash+" => "+strings.Join(a, "_"))
				return out
			}
			// the resumer's own state is untouched by whatever happened inside the coroutine (return, yield, error, refusal)
			if top1, depth1 := L.GetTop(), len(L.VerifFrames()); top1 != top0 || depth1 != depth0 {
				out = append(out, fmt.Sprintf("X resumer-state-changed => api-stack-top %d->%d call-depth %d->%d after %s (%s)", top0, top1, depth0, depth1, strings.Join(a, "_"), strings.Join(obs, "_")))
				return out
			}
			out = append(out, "C06M "+op.String()+" => "+strings.Join(append(toks, obs...), " "))
		case "gs":
			j, _ := strconv.Atoi(a[1])
			out = append(out, "C06M "+op.String()+" => "+L.Status(ths[j]))
		}
	}
	return out
}

func genCoAPICase(r *Rng) []Op {
	g := &coGen{r: r}
	nth := r.Range(1, 3)
	nhelp := 0
	if r.Chance(40) {
		nhelp = 1
	}
	yields := make([]int, nth+1)
	aOf := func(np int) string { return strconv.Itoa(np + r.Range(0, 4)) }
	body := func(f, np, ny int, depth int) {
		for k := 0; k < ny; k++ {
			if r.Chance(15) {
				g.act(f, "st", strconv.Itoa(r.Range(1, nth)))
			}
			if r.Chance(8) {
				g.act(f, "run")
			}
			if depth == 0 && nhelp > 0 && r.Chance(20) {
				g.act(f, "call", append([]string{"10", aOf(np), g.want()}, g.vals(r.Range(0, 3))...)...)
			}
			if r.Chance(60) {
				// host yield: the host function got n arguments and yields m values, m independent of n
				h := g.vals(r.Range(0, 4))
				v := g.vals(r.Range(0, 4))
				g.act(f, "hy", append(append([]string{aOf(np), g.want()}, h...), v...)...)
			} else {
				g.act(f, "y", append([]string{"0", aOf(np), g.want()}, g.vals(r.Range(0, 4))...)...)
			}
		}
		switch c := r.Intn(100); {
		case c < 45:
			g.act(f, "ret", append([]string{aOf(np)}, g.vals(r.Range(0, 4))...)...)
		case c < 60:
		case c < 75:
			g.act(f, "err", g.val())
		default:
			g.act(f, "y", append([]string{"1", aOf(np), "m"}, g.vals(r.Range(0, 4))...)...)
		}
	}
	for j := 1; j <= nth; j++ {
		np := r.Range(0, 3)
		yields[j] = r.Range(0, 4)
		g.add("fn", strconv.Itoa(j), strconv.Itoa(np), b01(r.Chance(30)), strconv.Itoa(np+12))
		body(j, np, yields[j], 0)
	}
	if nhelp > 0 {
		np := r.Range(0, 2)
		g.add("fn", "10", strconv.Itoa(np), b01(r.Chance(30)), strconv.Itoa(np+12))
		body(10, np, r.Range(0, 2), 1)
	}
	// Go-level history: resumes of every thread (≈ yields + 1, sometimes one too many), status probes
	var plan []int
	for j := 1; j <= nth; j++ {
		n := yields[j] + 1 + Pick(r, []int{0, 0, 0, 1, 1, 2})
		for k := 0; k < n; k++ {
			plan = append(plan, j)
		}
	}
	for i := len(plan) - 1; i > 0; i-- {
		k := r.Intn(i + 1)
		plan[i], plan[k] = plan[k], plan[i]
	}
	for _, j := range plan {
		if r.Chance(25) {
			g.add("gs", strconv.Itoa(r.Range(1, nth)))
		}
		g.add(append([]string{"gr", strconv.Itoa(j), strconv.Itoa(j)}, g.vals(r.Range(0, 4))...)...)
	}
	for j := 1; j <= nth; j++ {
		g.add("gs", strconv.Itoa(j))
	}
	return g.ops
}

func b01(b bool) string {
	if b {
		return "1"
	}
	return "0"
}

// canary: resuming a *normal* coroutine recursed without bound on the tree before fixes/C06-normal-status-resume
// (fatal Go stack overflow: not recoverable, it would kill the harness).  The witness is therefore run first in a
// child process; if the child dies the check reports the violation and does not run histories in-process.
const coCanarySrc = `
local A, B
A = coroutine.create(function() return coroutine.resume(B) end)
B = coroutine.create(function() return coroutine.resume(A) end)
local ok, ok2, ok3, msg = coroutine.resume(A)
assert(ok and ok2 and ok3 == false, "resuming a normal coroutine must be refused")
`

func init() {
	props["C06M"] = runC06M
	if os.Getenv("C06M_CANARY") == "1" {
		debug.SetMaxStack(32 << 20)
		L := lua.NewState()
		if err := L.DoString(coCanarySrc); err != nil {
			fmt.Println("canary:", err)
			os.Exit(4)
		}
		os.Exit(0)
	}
}

// coAPIRefusals: LState.Resume refuses a running and a normal coroutine with an error result (no crash, no
// recursion), nothing is transferred, and both coroutines carry on afterwards.  "" when all of that holds.
func coAPIRefusals() (why string) {
	done := make(chan string, 1)
	go func() {
		defer func() {
			if r := recover(); r != nil {
				done <- fmt.Sprint("go panic: ", r)
			}
		}()
		L := lua.NewState()
		defer L.Close()
		var trace []string
		L.SetGlobal("emit", L.NewFunction(func(S *lua.LState) int {
			var parts []string
			for i := 1; i <= S.GetTop(); i++ {
				parts = append(parts, S.Get(i).String())
			}
			trace = append(trace, strings.Join(parts, ","))
			return 0
		}))
		L.SetGlobal("tryresume", L.NewFunction(func(S *lua.LState) int {
			th := S.CheckThread(1)
			top := S.GetTop()
			st, err, vals := S.Resume(th, S.NewFunction(func(*lua.LState) int { return 0 }), lua.LString("payload"))
			res := "accepted"
			if st == lua.ResumeError && err != nil {
				switch {
				case strings.Contains(err.Error(), "running"):
					res = "refused-running"
				case strings.Contains(err.Error(), "normal"), strings.Contains(err.Error(), "non-suspended"):
					res = "refused-normal"
				default:
					res = "error:" + err.Error()
				}
			}
			if len(vals) != 0 || S.GetTop() != top {
				res += fmt.Sprintf("+values=%d,top:%d->%d", len(vals), top, S.GetTop())
			}
			S.Push(lua.LString(res))
			return 1
		}))
		err := L.DoString(`
local outer
local inner = coroutine.create(function(x)
  local a = tryresume(coroutine.running())
  local b = tryresume(outer)
  local got = coroutine.yield(a, b, x)
  return "inner-done", got
end)
outer = coroutine.create(function() local r = {coroutine.resume(inner, "x1")} emit("outer", unpack(r)) return "outer-done" end)
emit("r1", coroutine.resume(outer))
emit("s1", coroutine.status(inner), coroutine.status(outer))
emit("r2", coroutine.resume(inner, "x2"))
emit("s2", coroutine.status(inner), tryresume(inner), tryresume(outer))`)
		if err != nil {
			done <- "script failed: " + err.Error()
			return
		}
		want := "outer,true,refused-running,refused-normal,x1|r1,true,outer-done|s1,suspended,dead|r2,true,inner-done,x2|s2,dead,error:can not resume a dead thread,error:can not resume a dead thread"
		if got := strings.Join(trace, "|"); got != want {
			done <- "trace " + got + " expected " + want
			return
		}
		done <- ""
	}()
	select {
	case why = <-done:
	case <-hangAfter(20 * time.Second):
		noteHang()
		why = "hang"
	}
	return
}

// coPayloadSizes: every payload size arrives complete and in order in both directions (resume arguments -> body
// parameters / results of yield; yielded and returned values -> results of resume), for sizes around the registry's
// initial size and growth steps, under a fixed registry and under growing ones (the receiving thread's registry may
// have to grow in the middle of the transfer).  "" when that holds.
func coPayloadSizes() (why string) {
	defer func() {
		if r := recover(); r != nil {
			why = fmt.Sprint("go panic: ", r)
		}
	}()
	const src = `
local function mk(n) local t = {} for i = 1, n do t[i] = i * 3 end return t end
local function same(t, from, n) for i = 1, n do if t[from + i - 1] ~= i * 3 then return false end end return true end
for _, n in ipairs(SIZES) do
  for _, wrapped in ipairs({false, true}) do
    local body = function(...)
      local a = {...}
      local y = {coroutine.yield(...)}
      return select("#", ...), #y, same(a, 1, #a), same(y, 1, #y), unpack(y)
    end
    local r1, r2
    if wrapped then
      local f = coroutine.wrap(body)
      r1 = {true, f(unpack(mk(n)))}
      r2 = {true, f(unpack(mk(n)))}
    else
      local co = coroutine.create(body)
      r1 = {coroutine.resume(co, unpack(mk(n)))}
      r2 = {coroutine.resume(co, unpack(mk(n)))}
    end
    emit(n, wrapped, r1[1], #r1, same(r1, 2, n), r2[1], #r2, r2[2], r2[3], r2[4], r2[5], same(r2, 6, n))
  end
end`
	sizes := []int{0, 1, 2, 50, 100, 120, 126, 127, 128, 129, 130, 160, 200, 255, 256, 257, 300}
	run := func(opt lua.Options) (string, error) {
		L := lua.NewState(opt)
		defer L.Close()
		tb := L.NewTable()
		for _, n := range sizes {
			tb.Append(lua.LNumber(n))
		}
		L.SetGlobal("SIZES", tb)
		var tr []string
		L.SetGlobal("emit", L.NewFunction(func(S *lua.LState) int {
			var parts []string
			for i := 1; i <= S.GetTop(); i++ {
				parts = append(parts, S.Get(i).String())
			}
			tr = append(tr, strings.Join(parts, ","))
			return 0
		}))
		err := L.DoString(src)
		return strings.Join(tr, "|"), err
	}
	var want []string
	for _, n := range sizes {
		for _, w := range []string{"false", "true"} {
			want = append(want, fmt.Sprintf("%d,%s,true,%d,true,true,%d,%d,%d,true,true,true", n, w, n+1, n+5, n, n))
		}
	}
	opts := []lua.Options{{}, {RegistrySize: 128, RegistryMaxSize: 4096, RegistryGrowStep: 1}, {RegistrySize: 128, RegistryMaxSize: 4096, RegistryGrowStep: 32},
		{RegistrySize: 128, RegistryMaxSize: 100000, RegistryGrowStep: 100}, {RegistrySize: 256, RegistryMaxSize: 2048, RegistryGrowStep: 7}, {RegistrySize: 4096}}
	for _, o := range opts {
		got, err := run(o)
		if err != nil {
			return fmt.Sprintf("options %+v: the script failed: %v", o, err)
		}
		if got != strings.Join(want, "|") {
			g := strings.Split(got, "|")
			for i := range want {
				if i >= len(g) || g[i] != want[i] {
					have := "<missing>"
					if i < len(g) {
						have = g[i]
					}
					return fmt.Sprintf("options {RegistrySize:%d RegistryMaxSize:%d RegistryGrowStep:%d}: got %s expected %s", o.RegistrySize, o.RegistryMaxSize, o.RegistryGrowStep, have, want[i])
				}
			}
		}
	}
	return ""
}

func coCanary() string {
	cmd := exec.Command(os.Args[0])
	cmd.Env = append(os.Environ(), "C06M_CANARY=1", "GOMAXPROCS=2")
	done := make(chan error, 1)
	var outb strings.Builder
	cmd.Stdout = &outb
	if err := cmd.Start(); err != nil {
		return ""
	}
	go func() { done <- cmd.Wait() }()
	select {
	case err := <-done:
		if err != nil {
			return "child process died running the witness (" + err.Error() + ") " + strings.TrimSpace(outb.String())
		}
		return ""
	case <-hangAfter(60 * time.Second):
		noteHang()
		cmd.Process.Kill()
		return "child process hung running the witness"
	}
}

func runC06M(run *Run) {
	if !replayMode.on || wholeRun {
		for _, line := range append(c06HostStates(), c06YieldOverflow()...) {
			run.Failures = append(run.Failures, Failure{CaseIdx: -9070, Kind: "CRASH", Line: line, Reply: line, Lines: []string{line}})
		}
	}
	nCases := 2500
	if run.Tier == "thorough" {
		nCases = 40000
	}
	run.Rule = "scripted coroutine histories (1–4 coroutines, plain/wrapped/Go-function bodies, owners resuming ≈ yields+1 times, payload counts 0–4 both ways independent of wanted counts 0–4/open-ended, nested resumes, helper calls (frame depth), tail-called yields, errors with arbitrary values, protected calls, generators in for-in, status/running probes, ≈5% deliberately invalid resumes) rendered as Lua programs and run on the real interpreter; whole observable trace compared with the Lean Model (exact) and the manual Spec (exact); plus Go-API histories (NewThread/Resume/Yield from host functions); ≥45 % of the scripts lie inside the fragment of the proved history-level simulation (guard okProg: everything but Go-function bodies; its Go mirror is compared with Lean's evaluation per script); distinct = distinct act-kind skeletons"
	run.Assume = []string{
		"register offsets of calls inside Lua frames (`a`) are a layout parameter of the Model; Lua-visible behaviour is compared, the theorems quantify over every layout",
		"texts of the library's refusal messages are mapped to tokens (dead/running/normal/outside) by suffix",
		"pcall is modelled abstractly (PCall's recovery restores Sp, currentFrame and top) — its own mechanism is C05's"}
	if why := coCanary(); why != "" {
		line := "X resume-of-normal-coroutine " + strings.ReplaceAll(why, " ", "_") + " => A=create(resume(B));B=create(resume(A));resume(A)"
		run.Failures = append(run.Failures, Failure{CaseIdx: -9000, Kind: "CRASH", Line: line, Reply: line, Lines: []string{line}})
		run.Extra["canary"] = why
		return
	}
	if why := coPayloadSizes(); why != "" {
		line := "X payload-transfer " + strings.ReplaceAll(why, " ", "_") + " => resume/yield/return payloads of 0..300 values under fixed and growing registries"
		run.Failures = append(run.Failures, Failure{CaseIdx: -9003, Kind: "CRASH", Line: line, Reply: line, Lines: []string{line}})
		run.Extra["payload_sizes"] = why
		return
	}
	if why := coAPIRefusals(); why != "" {
		line := "X go-api-resume-of-a-running-or-normal-coroutine " + strings.ReplaceAll(why, " ", "_") + " => LState.Resume(th) with th running / normal"
		run.Failures = append(run.Failures, Failure{CaseIdx: -9001, Kind: "CRASH", Line: line, Reply: line, Lines: []string{line}})
		run.Extra["api_refusals"] = why
		return
	}
	root := NewRng(uint64(run.Seed))
	var cases []Case
	for i, c := range loadCorpus("C06M") {
		cases = append(cases, Case{Idx: -1 - i, Ops: c, Note: "corpus"})
	}
	for i := 0; i < nCases; i++ {
		cases = append(cases, Case{Idx: i, Ops: genCoCase(root.Fork(uint64(i)))})
	}
	feat := map[string]int{}
	count := func(cs []Case) {
		for _, c := range cs {
			for _, o := range c.Ops {
				a := o.Args
				switch {
				case a[0] == "co":
					feat["coroutine:"+map[string]string{"0": "plain", "1": "wrapped"}[a[2]]+map[bool]string{true: "-gobody", false: ""}[a[3] == "G"]]++
				case a[0] == "a" && a[2] == "y":
					feat["yield:tail="+a[3]+":want="+a[5]+":n="+a[6]]++
				case a[0] == "a" && a[2] == "hy":
					feat["hostyield:want="+a[4]+":nargs="+a[5]]++
				case a[0] == "a" && a[2] == "r":
					feat["resume:prot="+a[4]+":want="+a[6]+":n="+a[7]]++
				case a[0] == "a":
					feat["act:"+a[2]]++
				case a[0] == "gr":
					feat["goapi-resume:n="+a[3]]++
				case a[0] == "gs":
					feat["goapi-status"]++
				}
			}
		}
	}
	count(cases)
	runCases(run, cases, execCoScript, classifyTagged)
	// Go API histories
	cases = nil
	for i, c := range loadCorpus("C06M-api") {
		cases = append(cases, Case{Idx: -1001 - i, Ops: c, Note: "corpus"})
	}
	for i := 0; i < nCases/2; i++ {
		cases = append(cases, Case{Idx: 1000000 + i, Ops: genCoAPICase(root.Fork(uint64(1000000 + i)))})
	}
	count(cases)
	runCases(run, cases, execCoAPI, classifyTagged)
	run.Extra["feature_histogram"] = feat
	run.Extra["trace_tokens"] = traceStats()
	fragStat.Lock()
	run.Extra["scripts_in_simulation_fragment"] = map[string]int{"inside (history_simulation_partial applies)": fragStat.in, "outside (run-time comparison only)": fragStat.out}
	fragStat.Unlock()
}

var traceStat struct {
	sync.Mutex
	m map[string]int
}

func noteTrace(toks []string) {
	traceStat.Lock()
	defer traceStat.Unlock()
	if traceStat.m == nil {
		traceStat.m = map[string]int{}
	}
	for _, t := range toks {
		for _, k := range []string{"s!dead", "s!running", "s!normal", "s!suspended", "s!outside"} {
			if strings.Contains(t, k) {
				traceStat.m[k]++
			}
		}
		switch {
		case strings.HasPrefix(t, "X:"):
			traceStat.m["chunk-failed"]++
		case strings.HasPrefix(t, "R:"):
			traceStat.m["chunk-returned"]++
		case strings.Contains(t, ":F,"):
			traceStat.m["false,err delivered"]++
		}
	}
}

func traceStats() map[string]int {
	traceStat.Lock()
	defer traceStat.Unlock()
	out := map[string]int{}
	for k, v := range traceStat.m {
		out[k] = v
	}
	return out
}
