package main

// C07: every compiled function is well-formed bytecode.
// Translation validation: every generated source is compiled with the REAL front-end (parse.Parse + lua.Compile);
// every FunctionProto of the result is serialised and decided by the Lean verifier `wf` (proved sound in
// Props/C07.lean).  A `notwf` on a real proto is a property violation with the source as replay.
// In addition (a) the regenerated decoders of Generated/Opcode.lean are compared with the real opGet* functions
// through FunctionProto.String() on every compiled instruction word and on random words, (b) ordinary programs
// are executed under recover + timeout: a Go run-time panic while running wf-approved code is reported (it would
// mean the abstract VM of the soundness theorem is not faithful), (c) adversarial programs with a result known by
// construction are executed and their result compared (catches operand wrap-around that lands on a valid start).

import (
	"encoding/hex"
	"fmt"
	"os"
	"regexp"
	"strconv"
	"strings"
	"sync"
	"sync/atomic"
	"time"

	lua "github.com/yuin/gopher-lua"
	"github.com/yuin/gopher-lua/parse"
)

func init() {
	props["C07"] = runC07
	replayExec["C07"] = execC07
}

type c07Stats struct {
	sync.Mutex
	compiled, parseErr, compileErr, protos, words, ranOK, ranErr, ranTimeout int
	compileErrKinds                                                        map[string]int
	opHist                                                                 [64]int
	maxRegs, maxConsts, maxCode, maxUpv, maxDepth                          int
	movenTailTargets, loopImplicitRegs                                     int
	fragCompiled, fragCompileErr, fragWords                                int
	rkRan, rkRanExpected                                                   int
	rkHist                                                                 map[string]int // adv:rk programs: instructions by opcode and kind of the operand that may be a constant
	parseErrSample                                                         string
}

var c07 = &c07Stats{compileErrKinds: map[string]int{}, rkHist: map[string]int{}}
var c07Timeouts int32
var c07SlowSkipped int32 // huge quadratic cases given up on a loaded machine (thorough tier)

func serializeProto(sb *strings.Builder, p *lua.FunctionProto) {
	fmt.Fprintf(sb, " P %d %d %d %d %d %d C %d", p.NumUpvalues, len(p.DbgUpvalues), p.NumParameters, p.IsVarArg,
		p.NumUsedRegisters, len(p.DbgSourcePositions), len(p.Code))
	for _, w := range p.Code {
		sb.WriteByte(' ')
		sb.WriteString(strconv.FormatUint(uint64(w), 10))
	}
	fmt.Fprintf(sb, " K %d", len(p.Constants))
	for _, k := range p.Constants {
		if s, ok := k.(lua.LString); ok {
			sb.WriteString(" s")
			sb.WriteString(hex.EncodeToString([]byte(string(s))))
		} else if _, ok := k.(lua.LNumber); ok {
			sb.WriteString(" n")
		} else {
			sb.WriteString(" o") // not a number or string: rejected by the Lean parser
		}
	}
	sks := p.VerifStringConstants()
	fmt.Fprintf(sb, " S %d", len(sks))
	for _, s := range sks {
		sb.WriteString(" s")
		sb.WriteString(hex.EncodeToString([]byte(s)))
	}
	fmt.Fprintf(sb, " F %d", len(p.FunctionPrototypes))
	for _, f := range p.FunctionPrototypes {
		fmt.Fprintf(sb, " %d", f.NumUpvalues)
	}
}

func walkProtos(p *lua.FunctionProto, depth int, f func(*lua.FunctionProto, int)) {
	f(p, depth)
	for _, c := range p.FunctionPrototypes {
		walkProtos(c, depth+1, f)
	}
}

var instLine = regexp.MustCompile(`^\s*\[(\d+)\] (\w+)\s+\|\s+(-?\d+), (-?\d+)(?:, (-?\d+))?`)

// decodeLines: the real decoders' view of each code word, recovered from FunctionProto.String()
// (opToString prints opGetArgA/B/C/Bx/Sbx); every distinct word is sent once.
func decodeLines(p *lua.FunctionProto, seen map[uint32]bool, limit int) (out []string) {
	defer func() {
		if r := recover(); r != nil {
			out = append(out, fmt.Sprintf("X crash => FunctionProto.String(): %v", r))
		}
	}()
	q := *p
	q.FunctionPrototypes = nil
	q.DbgLocals, q.DbgUpvalues, q.Constants = nil, nil, nil
	// String() descends into FunctionPrototypes at every CLOSURE word; feed it words one at a time instead
	for _, w := range p.Code {
		if seen[w] || len(out) >= limit {
			continue
		}
		seen[w] = true
		if l := decodeWord(w); l != "" {
			out = append(out, l)
		}
	}
	return out
}

func decodeWord(w uint32) string {
	if w>>26 == 39 || w>>26 > 41 { // CLOSURE makes String() index FunctionPrototypes; > opCodeMax prints ""
		return ""
	}
	q := &lua.FunctionProto{Code: []uint32{w}, DbgSourcePositions: []int{0}}
	for _, l := range strings.Split(q.String(), "\n") {
		if m := instLine.FindStringSubmatch(l); m != nil {
			s := fmt.Sprintf("C07 dec %d => %s %s %s", w, m[2], m[3], m[4])
			if m[5] != "" {
				s += " " + m[5]
			}
			return s
		}
	}
	return ""
}

func compileSrc(src string) (p *lua.FunctionProto, kind string, msg string) {
	defer func() {
		if r := recover(); r != nil {
			p, kind, msg = nil, "panic", fmt.Sprint(r)
		}
	}()
	chunk, err := parse.Parse(strings.NewReader(src), "c07")
	if err != nil {
		return nil, "parse", err.Error()
	}
	proto, err := lua.Compile(chunk, "c07")
	if err != nil {
		return nil, "compile", err.Error()
	}
	return proto, "", ""
}

var compileErrClass = regexp.MustCompile(`(too many local variables|register overflow|too many constants|too long to jump|no visible label|already defined|jumps into the scope|cannot use '\.\.\.'|no loop to break|too many upvalues|too many labels|too many)`)

// hostGlobals: the few globals generated programs call; everything else is nil (runtime errors are fine).
func hostGlobals(L *lua.LState) {
	id := L.NewFunction(func(L *lua.LState) int { return L.GetTop() })
	for _, n := range []string{"f", "g", "h"} {
		L.SetGlobal(n, id)
	}
	L.SetGlobal("pairs", L.NewFunction(func(L *lua.LState) int {
		L.Push(L.GetGlobal("next"))
		L.Push(L.Get(1))
		L.Push(lua.LNil)
		return 3
	}))
	L.SetGlobal("next", L.NewFunction(func(L *lua.LState) int {
		tb, ok := L.Get(1).(*lua.LTable)
		if !ok {
			return 0
		}
		k, v := tb.Next(L.Get(2))
		if k == lua.LNil {
			L.Push(lua.LNil)
			return 1
		}
		L.Push(k)
		L.Push(v)
		return 2
	}))
	tb := L.NewTable()
	tb.RawSetString("m", id)
	tb.RawSetString("x", lua.LNumber(1))
	tb.RawSetInt(1, lua.LNumber(10))
	tb.RawSetInt(2, lua.LNumber(20))
	L.SetGlobal("t", tb)
	L.SetGlobal("u", L.NewTable())
	// used by the adv:rk-… programs only (no generated program mentions these names): the globals table, and
	// setmeta(v, mt), which gives ANY value (also a string constant used as a receiver) a metatable
	L.SetGlobal("_G", L.Get(lua.GlobalsIndex))
	L.SetGlobal("setmeta", L.NewFunction(func(L *lua.LState) int {
		L.SetMetatable(L.Get(1), L.Get(2))
		L.SetTop(1)
		return 1
	}))
}

// runProto executes a compiled chunk under recover + timeout.  outcome: "ok:<results>", "err", "timeout", "gopanic:<msg>";
// detail: the Lua error message of an "err" outcome.  A program that returns ("@list", table, n) has the n first array
// entries of the table as its results (joined with ';': programs that check many values without formatting them in Lua).
func runProto(p *lua.FunctionProto, timeout time.Duration) (outcome, detail string) {
	L := lua.NewState(lua.Options{SkipOpenLibs: true, CallStackSize: 120, RegistrySize: 1024 * 8, RegistryMaxSize: 1024 * 256})
	defer L.Close()
	hostGlobals(L)
	// an instruction budget (20 000 dispatched instructions per millisecond asked for) with a generous wall-clock backstop:
	// the outcome must not depend on the load of the machine
	backstop := 30 * timeout
	if backstop < 2*time.Minute {
		backstop = 2 * time.Minute
	}
	if timeout < time.Second {
		// arbitrary generated programs (no expected result: "timeout" is only counted, never a verdict) may double a string
		// in a loop; the instruction budget alone would let them allocate 2^(instructions) bytes, so these runs also end
		// after a short wall-clock time
		backstop = 400 * time.Millisecond
	}
	ctx, cancel := newBudgetCtxWithBackstop(int64(timeout/time.Millisecond)*20000, backstop)
	defer cancel()
	L.SetContext(ctx)
	defer func() {
		if r := recover(); r != nil {
			outcome, detail = "gopanic:"+fmt.Sprint(r), ""
		}
	}()
	L.Push(L.NewFunctionFromProto(p))
	if err := L.PCall(0, lua.MultRet, nil); err != nil {
		if ctx.Err() != nil {
			return "timeout", ""
		}
		if ae, ok := err.(*lua.ApiError); ok && ae.Type == lua.ApiErrorPanic {
			return "gopanic:" + ae.Error(), ""
		}
		if strings.Contains(err.Error(), "runtime error:") {
			return "gopanic:" + err.Error(), ""
		}
		return "err", err.Error()
	}
	if L.GetTop() == 3 && L.Get(1) == lua.LString("@list") {
		if tb, ok := L.Get(2).(*lua.LTable); ok {
			n, _ := L.Get(3).(lua.LNumber)
			rs := make([]string, 0, int(n))
			for i := 1; i <= int(n) && i <= 100000; i++ {
				rs = append(rs, tb.RawGetInt(i).String())
			}
			return "ok:" + strings.Join(rs, ";"), ""
		}
	}
	var rs []string
	for i := 1; i <= L.GetTop() && i <= 8; i++ {
		rs = append(rs, L.Get(i).String())
	}
	return "ok:" + strings.Join(rs, ","), ""
}

// c07diff: where a long actual outcome leaves the expected one (both are ';'-separated lists for the adv:rk programs)
func c07diff(got, want string) string {
	if len(got) <= 200 && len(want) <= 200 {
		return "got " + c07firstLine(got) + " want " + c07firstLine(want)
	}
	g, w := strings.Split(got, ";"), strings.Split(want, ";")
	i := 0
	for i < len(g) && i < len(w) && g[i] == w[i] {
		i++
	}
	at := func(xs []string) string {
		if i >= len(xs) {
			return "<end>"
		}
		return strings.Join(xs[i:min(i+3, len(xs))], ";")
	}
	return fmt.Sprintf("value #%d (of %d, expected %d): got %s want %s", i+1, len(g), len(w), c07firstLine(at(g)), c07firstLine(at(w)))
}

func c07firstLine(s string) string {
	if i := strings.IndexByte(s, '\n'); i >= 0 {
		s = s[:i]
	}
	if len(s) > 300 {
		s = s[:300]
	}
	return strings.ReplaceAll(s, " ", "_")
}

// ops of a C07 case:
//
//	stmt <hex>            one top-level statement of the program (the shrinker deletes whole statements)
//	expect <hex>          expected outcome of running the program ("ok:<results>")
//	norun                 do not execute (programs that do not terminate quickly by construction)
//	words <seed> <n>      differential test of the decoders on n random words
//	frag <prog>           a program of the modelled compiler fragment (C01M token language): real prototype vs
//	                      Lean `fragProto`, `FragOK`, `wf` (c07_frag.go)
func execC07(ops []Op) []string {
	var src strings.Builder
	expect, run, srcRef, isRK := "", true, "", false
	var out []string
	for _, op := range ops {
		switch op.Args[0] {
		case "stmt":
			b, _ := hex.DecodeString(op.Args[1])
			src.Write(b)
			src.WriteByte('\n')
			if len(op.Args) > 2 && strings.HasPrefix(op.Args[2], "adv:") && len(b) > 100000 {
				srcRef = op.Args[2] // big adversarial source: regenerable from its name (c07_adv.go)
			}
			if len(op.Args) > 2 && strings.HasPrefix(op.Args[2], "adv:rk-") {
				isRK = true
			}
		case "expect":
			b, _ := hex.DecodeString(op.Args[1])
			expect = string(b)
		case "norun":
			run = false
		case "frag":
			out = append(out, execFrag(op.Args)...)
		case "words":
			seed, _ := strconv.ParseUint(op.Args[1], 10, 64)
			n, _ := strconv.Atoi(op.Args[2])
			r := NewRng(seed)
			for i := 0; i < n; i++ {
				w := uint32(r.U64())
				switch r.Intn(4) {
				case 0: // boundary patterns in each field
					w = uint32(r.Intn(42))<<26 | uint32(Pick(r, []int{0, 1, 127, 128, 254, 255}))<<18 |
						uint32(Pick(r, []int{0, 1, 255, 256, 257, 510, 511}))<<9 | uint32(Pick(r, []int{0, 1, 255, 256, 257, 510, 511}))
				case 1:
					w = uint32(r.Intn(42))<<26 | w&0x3ffffff
				}
				if l := decodeWord(w); l != "" {
					out = append(out, l)
				}
			}
		}
	}
	if src.Len() == 0 {
		return out
	}
	// the front-end runs under a wall-clock limit: a compiler that does not terminate is reported, not waited for
	type cres struct {
		p         *lua.FunctionProto
		kind, msg string
	}
	if atomic.LoadInt32(&c07Timeouts) >= 3 {
		return out // the front-end hangs repeatedly (already reported): do not spin up more stuck compilations
	}
	ch := make(chan cres, 1)
	srcText := src.String()
	go func() {
		p, kind, msg := compileSrc(srcText)
		ch <- cres{p, kind, msg}
	}()
	limit := 60*time.Second + time.Duration(len(srcText)/1000)*200*time.Millisecond
	huge := strings.Contains(srcRef, "adv:consts-26")
	if huge {
		limit = 45 * time.Minute // ConstIndex is quadratic: 2^18 constants take minutes on an idle machine
	}
	var p *lua.FunctionProto
	var kind, msg string
	select {
	case r := <-ch:
		p, kind, msg = r.p, r.kind, r.msg
	case <-time.After(limit):
		if huge {
			// slow by construction (quadratic constant pool), not a hang: on a loaded machine the case is skipped and
			// counted; a front end that really loops shows on every ordinary input as well
			atomic.AddInt32(&c07SlowSkipped, 1)
			return out
		}
		atomic.AddInt32(&c07Timeouts, 1)
		return append(out, fmt.Sprintf("X crash => front-end did not terminate within %v on a %d-byte source", limit, len(srcText)))
	}
	c07.Lock()
	switch kind {
	case "parse":
		c07.parseErr++
		if c07.parseErrSample == "" {
			c07.parseErrSample = c07firstLine(msg)
		}
		if dir := os.Getenv("C07_DUMP"); dir != "" && src.Len() < 3000 {
			os.MkdirAll(dir, 0o755)
			os.WriteFile(fmt.Sprintf("%s/parse%d.lua", dir, c07.parseErr), []byte("-- "+msg+"\n"+src.String()), 0o644)
		}
	case "compile":
		c07.compileErr++
		cl := compileErrClass.FindString(msg)
		if cl == "" {
			cl = "other:" + c07firstLine(msg)
		}
		c07.compileErrKinds[cl]++
	case "":
		c07.compiled++
	}
	c07.Unlock()
	if kind == "panic" {
		return append(out, "X crash => front-end panicked: "+c07firstLine(msg))
	}
	if p == nil {
		return out
	}
	var sb strings.Builder
	sb.WriteString("C07 verify src:")
	if srcRef != "" {
		sb.WriteString(srcRef)
	} else {
		sb.WriteString(hex.EncodeToString([]byte(src.String())))
	}
	seen := map[uint32]bool{}
	var dec []string
	np, nw := 0, 0
	var hist [64]int
	mr, mk, mc, mu, md := 0, 0, 0, 0, 0
	walkProtos(p, 1, func(q *lua.FunctionProto, depth int) {
		serializeProto(&sb, q)
		dec = append(dec, decodeLines(q, seen, 400-len(dec))...)
		np++
		nw += len(q.Code)
		for _, w := range q.Code {
			hist[w>>26]++
		}
		mr, mk, mc, mu, md = max(mr, int(q.NumUsedRegisters)), max(mk, len(q.Constants)), max(mc, len(q.Code)), max(mu, len(q.DbgUpvalues)), max(md, depth)
	})
	c07.Lock()
	c07.protos += np
	c07.words += nw
	for i, n := range hist {
		c07.opHist[i] += n
	}
	c07.maxRegs, c07.maxConsts, c07.maxCode, c07.maxUpv, c07.maxDepth = max(c07.maxRegs, mr), max(c07.maxConsts, mk), max(c07.maxCode, mc), max(c07.maxUpv, mu), max(c07.maxDepth, md)
	c07.Unlock()
	out = append(out, sb.String())
	out = append(out, dec...)
	if isRK {
		rkOperandHist(p)
	}
	walkProtos(p, 1, func(q *lua.FunctionProto, _ int) {
		for _, w := range q.Code {
			op, a, b := w>>26, w>>18&0xff, w&0x1ff
			if (op <= 1 && (b >= 504 || a >= 248)) || (op >= 9 && op <= 12 && a >= 248) {
				run = false // register −8…−1: known finding C07-assign-negative-register, decided statically (running it dereferences a Go nil)
			}
		}
	})
	if run {
		to := 40 * time.Millisecond
		if expect != "" {
			to = 20 * time.Second
		}
		oc, detail := runProto(p, to)
		c07.Lock()
		if isRK {
			c07.rkRan++
			if oc == expect {
				c07.rkRanExpected++
			}
		}
		switch {
		case strings.HasPrefix(oc, "ok"):
			c07.ranOK++
		case oc == "timeout":
			c07.ranTimeout++
		default:
			c07.ranErr++
		}
		c07.Unlock()
		if strings.HasPrefix(oc, "gopanic:") && (strings.Contains(oc, "index out of range") || strings.Contains(oc, "nil pointer") ||
			strings.Contains(oc, "slice bounds") || strings.Contains(oc, "interface conversion")) {
			out = append(out, "X crash => running the compiled chunk: "+c07firstLine(oc))
		} else if expect != "" && oc != expect {
			if oc == "err" {
				oc += "(" + detail + ")"
			}
			out = append(out, "X crash => wrong result of a program whose result is known by construction: "+c07diff(oc, expect))
		}
	}
	return out
}

// rkOperandHist: coverage of the adv:rk family as compiled (which RK operands are constants, which registers, and how
// far the Bx constants reach); reported in the evidence, never a verdict
func rkOperandHist(p *lua.FunctionProto) {
	names := opNames()
	h := map[string]int{}
	rk := func(op string, fld string, v uint32) {
		if v >= 256 {
			h["rk:"+op+":"+fld+"=K"]++
		} else {
			h["rk:"+op+":"+fld+"=R"]++
		}
	}
	walkProtos(p, 1, func(q *lua.FunctionProto, _ int) {
		lastLoadK := map[uint32]uint32{} // register -> constant index of the LOADK that wrote it last (straight-line approximation)
		for _, w := range q.Code {
			op, a, b, c, bx := w>>26, w>>18&0xff, w&0x1ff, w>>9&0x1ff, w&0x3ffff
			if int(op) >= len(names) {
				continue
			}
			nm := names[op]
			switch {
			case op == 2 || op == 6 || op == 9: // LOADK GETGLOBAL SETGLOBAL
				switch {
				case bx <= 255:
					h["rk:"+nm+":Bx<=255"]++
				case bx <= 511:
					h["rk:"+nm+":Bx=256..511"]++
				default:
					h["rk:"+nm+":Bx>=512"]++
				}
				if op == 2 {
					lastLoadK[a] = bx
				}
				continue
			case op == 7 || op == 8 || op == 14: // GETTABLE GETTABLEKS SELF
				rk(nm, "C", c)
				if c < 256 {
					if k, ok := lastLoadK[c]; ok && k > 255 {
						h["rk:"+nm+":C=R(loaded constant>255)"]++
						if op == 14 && c == a+1 {
							h["rk:SELF:C=R(A+1)"]++
						}
						if c == a {
							h["rk:"+nm+":C=R(A)"]++
						}
					}
				}
			case op == 11 || op == 12 || (op >= 15 && op <= 20) || (op >= 26 && op <= 28): // SETTABLE SETTABLEKS ADD…POW EQ LT LE
				rk(nm, "B", b)
				rk(nm, "C", c)
			}
			delete(lastLoadK, a)
		}
	})
	c07.Lock()
	for k, v := range h {
		c07.rkHist[k] += v
	}
	c07.Unlock()
}

func stmtOps(stmts []c07gStmt) []Op {
	ops := make([]Op, 0, len(stmts))
	for _, s := range stmts {
		ops = append(ops, Op{Args: []string{"stmt", hex.EncodeToString([]byte(s.src)), s.kind}})
	}
	return ops
}

func runC07(run *Run) {
	nOrd, nAdv := 6000, 110 // nAdv: the seed-rotated part of the adversarial grid; the RK family (c07_rk.go) is added in full on top
	if run.Tier == "thorough" {
		nOrd, nAdv = 50000, 0 // 0 = full adversarial grid
	}
	run.Rule = "random Lua programs (all statement kinds incl. goto/labels, closures, varargs, method calls, table constructors; all operators, nested) plus an adversarial profile (190-201 locals, 255/256/257 and 511/512/513 constants, 50/51/25500/25550/25551/25600 array fields, 10^4 hash fields, nesting depth 200, 250-300 upvalues, jumps of ±(2^17-1, 2^17, 2^17+1) for every loop kind, if/else and goto, 131071-131074 labels, >2^18 constants; RK family: every instruction kind with a register-or-constant / Bx-constant operand (SELF, GETTABLE(KS), SETTABLE(KS) from assignments, constructors and function definitions, ADD..POW, EQ/LT/LE, LOADK, GETGLOBAL, SETGLOBAL) EXECUTED with its constant at index <=255, 256..511 and >=512 and exactly on 255|256 and 511|512, x operand/receiver kind (local, upvalue, global, table field, call result, operator result, constant) x destination kind (table store, new/existing local, global, upvalue, call argument, constructor item, branch condition, destination = operand register), every value compared with the list known by construction) compiled by the real parse.Parse+lua.Compile; every FunctionProto is decided by the Lean verifier wf (translation validation); plus `frag` cases (TEST of the tie behind theorem compile_fragment_wf): programs of the modelled compiler fragment (conditions, logical/relational operators, arithmetic with constant folding, unary minus, length, concatenation chains, local/global assignment, if/while/repeat/return/local; random programs and deep expressions with 0/45/55 % arithmetic nodes x 12 contexts, bounded-exhaustive operator x operand-class trees and concatenation chains (sampled in quick), nested relational temporaries, 150-200 chunk locals with relational/arithmetic/concatenation chains around maxRegisters, constant indices around 255/256 for comparison and arithmetic operands, MOVE runs up to 199, empty programs) compiled by the real front-end and compared field by field with the Lean fragProto (compile model -> patchCode -> toProto), FragOK and wf evaluated on the result; distinct = distinct top-level statement-kind skeletons among cases with >= 3 statements"
	run.Assume = []string{
		"the abstract VM `step` (Model/Verifier.lean) lists every slice index / register read of /repo/_vm.go per opcode; sampled by executing the compiled ordinary programs under recover (a Go index panic in wf-approved code is reported)",
		"register writes cannot fault (reg.Set/SetNumber/SetTop/CopyRange/FillNil call checkSize first) and reg.array never shrinks, so only register reads are obligations of wf_sound",
		"type assertions on register contents (`reg.Get(RA).(*LTable)` in SETLIST, `.(LString)` in rkString with a register operand) are dataflow facts outside wf",
		"compile errors are accepted outcomes (the property quantifies over accepted sources); their kinds are counted in the evidence"}
	root := NewRng(uint64(run.Seed))
	var cases []Case
	for i, c := range loadCorpus("C07") {
		cases = append(cases, Case{Idx: -1 - i, Ops: c, Note: "corpus"})
	}
	for i := 0; i < nOrd; i++ {
		r := root.Fork(uint64(i))
		cases = append(cases, Case{Idx: i, Ops: stmtOps(c07genProgram(r))})
	}
	cases = append(cases, Case{Idx: 900000, Ops: []Op{{Args: []string{"words", strconv.FormatUint(root.Fork(900000).U64(), 10), "3000"}}}})
	adv := advCases(root.Fork(7777777), nAdv, run.Tier == "thorough")
	for i, a := range adv {
		a.Idx = 1000000 + i
		cases = append(cases, a)
	}
	frag := fragCases(root.Fork(8888888), run.Tier == "thorough")
	cases = append(cases, frag...)
	fragFam := map[string]int{}
	for _, c := range frag {
		fragFam[c.Note]++
	}
	run.Extra["fragment_families(tie of fragProto/FragOK, theorem compile_fragment_wf)"] = fragFam
	for _, k := range []int{len(loadCorpus("C07")), len(loadCorpus("C07")) + 1} {
		if k < len(cases) {
			var src []string
			for _, op := range cases[k].Ops {
				if b, err := hex.DecodeString(op.Args[1]); err == nil && op.Args[0] == "stmt" {
					src = append(src, string(b))
				}
			}
			run.Sample(map[string]interface{}{"case": cases[k].Idx, "kind": "ordinary random program (each statement is one op; every FunctionProto of the compiled chunk is sent to the Lean verifier)", "source": strings.Join(src, "\n")})
		}
	}
	for _, a := range adv[:min(2, len(adv))] {
		run.Sample(map[string]interface{}{"case": a.Idx, "kind": "adversarial", "name": a.Note})
	}
	runCases(run, cases, execC07, classifyTagged)
	reasons := map[string]int{}
	reNum := regexp.MustCompile(`(proto|pc)=\d+`)
	for _, f := range run.Failures {
		if strings.HasPrefix(f.Reply, "MODEL P ") {
			reasons["MODEL frag: the real prototype differs from the Lean fragProto (compile model / patchCode / toProto)"]++
			continue
		}
		reasons[reNum.ReplaceAllString(f.Reply, "$1=N")]++
	}
	if len(reasons) > 0 {
		run.Extra["failure_reasons"] = reasons
		run.Extra["huge_cases_skipped_as_too_slow"] = int(atomic.LoadInt32(&c07SlowSkipped))
	}
	if dir := os.Getenv("C07_DUMP"); dir != "" { // development aid: sources of all failing cases
		os.MkdirAll(dir, 0o755)
		for _, f := range run.Failures {
			for _, l := range f.Lines {
				if strings.HasPrefix(l, "C07 verify src:") {
					t := strings.Fields(l)[2][4:]
					if b, err := hex.DecodeString(t); err == nil {
						os.WriteFile(fmt.Sprintf("%s/case%d.lua", dir, f.CaseIdx), append([]byte("-- "+f.Reply+"\n"), b...), 0o644)
					}
				}
			}
		}
	}
	c07.Lock()
	defer c07.Unlock()
	run.Hist = map[string]int{"programs_compiled": c07.compiled, "parse_errors(generator)": c07.parseErr, "compile_errors": c07.compileErr,
		"protos_verified": c07.protos, "code_words_verified": c07.words, "ran_ok": c07.ranOK, "ran_lua_error": c07.ranErr, "ran_timeout": c07.ranTimeout,
		"max_NumUsedRegisters": c07.maxRegs, "max_constants": c07.maxConsts, "max_code_len": c07.maxCode, "max_upvalues": c07.maxUpv, "max_proto_depth": c07.maxDepth,
		"adversarial_cases": len(adv),
		"frag_programs_compiled(FragOK instances)": c07.fragCompiled, "frag_compile_errors(register overflow)": c07.fragCompileErr, "frag_code_words": c07.fragWords}
	for k, v := range c07.compileErrKinds {
		run.Hist["compile_error:"+k] = v
	}
	for k, v := range c07.rkHist {
		run.Hist[k] = v
	}
	run.Hist["rk_programs_run"], run.Hist["rk_programs_with_the_expected_result"] = c07.rkRan, c07.rkRanExpected
	c07names := opNames()
	for i, n := range c07.opHist {
		if i < len(c07names) {
			run.Hist["op:"+c07names[i]] = n
		}
	}
	if c07.parseErrSample != "" {
		run.Extra["parse_error_sample"] = c07.parseErrSample
	}
	if c07.parseErr*20 > nOrd {
		run.Failures = append(run.Failures, Failure{CaseIdx: -998, Kind: "HARNESS", Reply: fmt.Sprintf("generator produced %d unparsable programs: %s", c07.parseErr, c07.parseErrSample)})
	}
}

func opNames() []string {
	return strings.Fields("MOVE MOVEN LOADK LOADBOOL LOADNIL GETUPVAL GETGLOBAL GETTABLE GETTABLEKS SETGLOBAL SETUPVAL SETTABLE SETTABLEKS NEWTABLE SELF ADD SUB MUL DIV MOD POW UNM NOT LEN CONCAT JMP EQ LT LE TEST TESTSET CALL TAILCALL RETURN FORLOOP FORPREP TFORLOOP SETLIST CLOSE CLOSURE VARARG NOP")
}
