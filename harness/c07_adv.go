package main

// C07: adversarial profile (DESIGN §5 C07): sizes around every operand-width / limit boundary of the compiler.

import (
	"encoding/hex"
	"fmt"
	"strconv"
	"strings"
)

type advCase struct {
	name   string
	src    func() string
	expect string // "" = result not checked; otherwise the outcome of running it ("ok:<results>")
	norun  bool
	big    bool
	huge   bool // minutes of compile time (ConstIndex is quadratic): thorough tier only
}

func rep(n int, f func(i int) string) string {
	var sb strings.Builder
	for i := 1; i <= n; i++ {
		sb.WriteString(f(i))
	}
	return sb.String()
}

func c07names(prefix string, from, to int) string {
	var xs []string
	for i := from; i <= to; i++ {
		xs = append(xs, prefix+strconv.Itoa(i))
	}
	return strings.Join(xs, ", ")
}

func localsDecl(n int) string {
	return rep(n, func(i int) string { return "local a" + strconv.Itoa(i) + " = 1\n" })
}

func advGrid() []advCase {
	var g []advCase
	add := func(name string, expect string, src func() string) { g = append(g, advCase{name: name, src: src, expect: expect}) }
	addBig := func(name string, expect string, src func() string) {
		g = append(g, advCase{name: name, src: src, expect: expect, big: true})
	}
	// ---- A. register ceiling: 190..201 locals followed by every register-hungry construct
	for n := 189; n <= 201; n++ {
		n := n
		add(fmt.Sprintf("locals-%d-plain", n), "", func() string { return localsDecl(n) + "return a1" })
		add(fmt.Sprintf("locals-%d-numfor", n), "", func() string {
			return localsDecl(n) + "for i = 1, 2 do a1 = a1 + i end\nfor i = 3, 1, -1 do local z = i; a2 = function() return z end end\nreturn a1"
		})
		add(fmt.Sprintf("locals-%d-genfor", n), "", func() string {
			return localsDecl(n) + "for k, v, w in pairs(t) do a1 = k end\nfor k in next, t do a1 = k end\nreturn a1"
		})
		add(fmt.Sprintf("locals-%d-call", n), "", func() string {
			return localsDecl(n) + "f(a1, a2, 3, 4, 5, 6, 7, 8)\nlocal r = f(f(f(f(1, 2), 3), 4), ...)\nreturn t:m(a1, f())"
		})
		add(fmt.Sprintf("locals-%d-table", n), "", func() string {
			return localsDecl(n) + "local r = {a1, a2, 3, x = a1, [a2] = 4, {a1, {a2}}, f()}\na1 = {f()}\nreturn r"
		})
		add(fmt.Sprintf("locals-%d-multi", n), "", func() string {
			return localsDecl(n) + "a1, a2, a3, t.x, t[a1], x = f()\na1, a2 = a2, a1\nlocal p, q, r = ...\nreturn a1 .. a2 .. a3 .. 'x' .. a1, -a1, not a2, #t"
		})
		add(fmt.Sprintf("locals-%d-logic", n), "", func() string {
			return localsDecl(n) + "local r = (a1 and a2 or a3) == (a1 < a2)\nif a1 < a2 and (a2 > a3 or not a1) then a1 = a2 elseif a3 then a1 = nil else a2 = a1 == a3 end\nreturn r and a1 or f(a2)"
		})
		add(fmt.Sprintf("locals-%d-closure", n), "", func() string {
			return localsDecl(n) + "local function fn(p1, p2, ...) a1 = a1 + 1; return a1, a2, p1, ... end\nlocal g2 = function() return fn(a3, a4, a5) end\nreturn g2()"
		})
		add(fmt.Sprintf("params-%d", n), "", func() string {
			return "local function fn(" + c07names("p", 1, n) + ") return p1, p" + strconv.Itoa(n) + " end\nreturn fn(1)"
		})
		add(fmt.Sprintf("params-%d-vararg-method", n), "", func() string {
			return "function t:meth(" + c07names("p", 1, n) + ", ...) local q = ...; return self, p1, q, ... end\nreturn 1"
		})
		add(fmt.Sprintf("local-list-%d", n), "", func() string {
			return "local " + c07names("a", 1, n) + " = f()\nreturn a1"
		})
		add(fmt.Sprintf("local-list-nil-%d", n), "", func() string {
			return "local " + c07names("a", 1, n) + "\nreturn a1"
		})
	}
	for _, n := range []int{100, 150, 198, 199, 200, 250, 255, 256, 257, 300, 511, 512, 513, 600} {
		n := n
		add(fmt.Sprintf("call-args-%d", n), "", func() string { return "return f(" + rep(n-1, func(i int) string { return "1, " }) + "1)" })
		add(fmt.Sprintf("concat-%d", n), "", func() string { return "local s = 'a'\nreturn s" + rep(n, func(i int) string { return " .. s" }) })
		add(fmt.Sprintf("assign-targets-%d", n), "", func() string { return c07names("g", 1, n) + " = f()\nreturn g1" })
		add(fmt.Sprintf("return-values-%d", n), "", func() string { return "return " + rep(n-1, func(i int) string { return "x, " }) + "f()" })
		add(fmt.Sprintf("genfor-c07names-%d", n), "", func() string { return "for " + c07names("k", 1, n) + " in pairs(t) do end" })
	}
	// ---- B. constants around the RK limit (255/256) and the 9-bit operand limit (511/512): after n filler constants,
	// 18 consecutive probes of ONE operand kind, each introducing exactly one new constant, so that some probe's
	// constant sits exactly on every index of the window n+2 … n+19 (n = 246 covers 255/256/257, n = 502 covers 511/512/513)
	type probe struct {
		name string
		f    func(i int) string
	}
	probes := []probe{
		{"self", func(i int) string { return fmt.Sprintf("tt:m%d()\n", i) }},
		{"getfield", func(i int) string { return fmt.Sprintf("x = tt.g%d\n", i) }},
		{"setfield-key", func(i int) string { return fmt.Sprintf("tt.s%d = x\n", i) }},
		{"setfield-value", func(i int) string { return fmt.Sprintf("tt.x = 'v%d'\n", i) }},
		{"index-number", func(i int) string { return fmt.Sprintf("x = tt[%d.25]\n", i) }},
		{"setindex-number", func(i int) string { return fmt.Sprintf("tt[x] = %d.75\n", i) }},
		{"arith-rhs", func(i int) string { return fmt.Sprintf("x = x + %d.5\n", i) }},
		{"arith-lhs", func(i int) string { return fmt.Sprintf("x = %d.125 - x\n", i) }},
		{"compare", func(i int) string { return fmt.Sprintf("if x < %d.375 then x = 1 end\n", i) }},
		{"compare-eq-string", func(i int) string { return fmt.Sprintf("if 'c%d' == x then x = 2 end\n", i) }},
		{"global", func(i int) string { return fmt.Sprintf("gg%d = x\n", i) }},
		{"method-def", func(i int) string { return fmt.Sprintf("function tt:d%d() end\n", i) }},
		{"field-def", func(i int) string { return fmt.Sprintf("function tt.e%d() end\n", i) }},
		{"constructor", func(i int) string { return fmt.Sprintf("x = {k%d = x}\n", i) }},
		{"constructor-value", func(i int) string { return fmt.Sprintf("x = {[x] = 'w%d'}\n", i) }},
		{"concat", func(i int) string { return fmt.Sprintf("x = x .. 'z%d'\n", i) }},
		{"loadk-local", func(i int) string { return fmt.Sprintf("local l%d = 'y%d'\n", i%150, i) }},
		{"return-value", func(i int) string { return fmt.Sprintf("if x then return 'r%d' end\n", i) }},
		{"call-arg", func(i int) string { return fmt.Sprintf("f('a%d')\n", i) }},
		{"logic", func(i int) string { return fmt.Sprintf("x = x and 'o%d' or x\n", i) }},
	}
	for _, n := range []int{246, 502} {
		for _, filler := range []string{"numbers", "strings"} {
			for _, pr := range probes {
				n, filler, pr := n, filler, pr
				add(fmt.Sprintf("consts-%d-%s-%s", n, filler, pr.name), "", func() string {
					fill := rep(n, func(i int) string {
						if filler == "numbers" {
							return strconv.Itoa(i+1000) + ", "
						}
						return "'s" + strconv.Itoa(i) + "', "
					})
					return "local filler = {" + fill + "}\nlocal tt = u\n" + rep(18, pr.f) + "return x"
				})
			}
		}
	}
	for _, n := range []int{262139, 262140, 262141, 262142, 262143} {
		n := n
		g = append(g, advCase{name: fmt.Sprintf("consts-%d", n), big: true, huge: true, src: func() string {
			return "local filler = {" + rep(n, func(i int) string { return strconv.Itoa(i+1000) + "," }) + "}\nx = 'last'\nreturn 1.5, x"
		}})
	}
	// ---- C. array fields around FieldsPerFlush and the SETLIST C-operand limit (511 blocks = 25550 items)
	for _, n := range []int{49, 50, 51, 99, 100, 101, 25499, 25500, 25501, 25549, 25550, 25551, 25552, 25599, 25600, 25601, 51100, 51101} {
		n := n
		items := func() string { return rep(n-1, func(i int) string { return "1," }) }
		exp := fmt.Sprintf("ok:%d,7", n)
		add(fmt.Sprintf("array-%d-const", n), exp, func() string { return "local r = {" + items() + "7}\nreturn #r, r[" + strconv.Itoa(n) + "]" })
		add(fmt.Sprintf("array-%d-call", n), fmt.Sprintf("ok:%d,7", n+2), func() string {
			return "local r = {" + items() + "7, f(7, 7)}\nreturn #r, r[" + strconv.Itoa(n) + "]"
		})
		add(fmt.Sprintf("array-%d-vararg", n), fmt.Sprintf("ok:%d,7", n), func() string {
			return "local function mk(...) return {" + items() + "...} end\nlocal r = mk(7)\nreturn #r, r[" + strconv.Itoa(n) + "]"
		})
		add(fmt.Sprintf("array-%d-existing-local", n), exp, func() string {
			return "local r, q, p\nr = {" + items() + "7}\nq = r\np = q\nreturn #r, p[" + strconv.Itoa(n) + "]"
		})
		add(fmt.Sprintf("array-%d-mixed", n), exp, func() string {
			return "local r = {x = 1, " + items() + "[f(1)] = 2, 7, y = 3}\nreturn #r, r[" + strconv.Itoa(n) + "]"
		})
		add(fmt.Sprintf("array-%d-nested", n), exp, func() string {
			return "local r = {{" + items() + "7}, {1, 2}}\nreturn #r[1], r[1][" + strconv.Itoa(n) + "]"
		})
		// an open-ended last field that yields NO value at run time (the extended SETLIST still owns its batch word)
		add(fmt.Sprintf("array-%d-call0", n), fmt.Sprintf("ok:%d,7,123,456,5", n), func() string {
			return "local first, second = 123, 456\nlocal function f0() end\nlocal r = {" + items() + "7, f0()}\nlocal after = 5\nreturn #r, r[" + strconv.Itoa(n) + "], first, second, after"
		})
		add(fmt.Sprintf("array-%d-vararg0", n), fmt.Sprintf("ok:%d,7,123,456,5", n), func() string {
			return "local function mk(...) local first, second = 123, 456 local r = {" + items() + "7, ...} local after = 5 return r, first, second, after end\nlocal r, a, b, c = mk()\nreturn #r, r[" + strconv.Itoa(n) + "], a, b, c"
		})
		// the constructor used DIRECTLY as an operand (its last emitted word is then the one operand propagation looks at:
		// for > 25550 items that is the raw batch number behind the extended SETLIST), in a chunk/function without locals
		ctor := func() string { return "{" + items() + "7}" }
		add(fmt.Sprintf("array-%d-operand-len", n), exp, func() string { return "return #" + ctor() + ", (" + ctor() + ")[" + strconv.Itoa(n) + "]" })
		add(fmt.Sprintf("array-%d-operand-len-arith", n), fmt.Sprintf("ok:%d,%d", n+1, -n), func() string { return "return #" + ctor() + " + 1, -#" + ctor() })
		add(fmt.Sprintf("array-%d-operand-call", n), exp, func() string {
			return "local function g(t, u) return #t, u[" + strconv.Itoa(n) + "] end\nreturn g(" + ctor() + ", " + ctor() + ")"
		})
		add(fmt.Sprintf("array-%d-operand-compare", n), "ok:false,true,7", func() string {
			return "return " + ctor() + " == nil, not not " + ctor() + ", (" + ctor() + " or 1)[" + strconv.Itoa(n) + "]"
		})
		add(fmt.Sprintf("array-%d-operand-in-function", n), exp, func() string {
			return "local function h() return #" + ctor() + " end\nlocal function k() local x = " + ctor() + "[" + strconv.Itoa(n) + "] return x end\nreturn h(), k()"
		})
		add(fmt.Sprintf("array-%d-operand-store", n), exp, func() string {
			return "G = #" + ctor() + "\nT = {n = #" + ctor() + ", " + ctor() + "}\nreturn T.n, T[1][G]"
		})
	}
	// ---- C2. runs of consecutive local-to-local assignments (merged into MOVEN groups by patchCode; a group holds at most
	// 512 moves), lengths around every multiple of the group limit; the expected values are computed here
	for _, n := range []int{2, 3, 50, 199, 255, 256, 257, 510, 511, 512, 513, 514, 515, 516, 600, 1023, 1024, 1025, 1026, 1027, 1100, 1535, 1536, 1537, 1538, 2049} {
		n := n
		vals := []int{10, 20, 30, 40, 50, 60, 70}
		var sb strings.Builder
		for i := 0; i < n; i++ {
			d, sIdx := (i*5+3)%7, (i*3+1)%7
			if d == sIdx {
				sIdx = (sIdx + 1) % 7
			}
			fmt.Fprintf(&sb, "v%d = v%d\n", d, sIdx)
			vals[d] = vals[sIdx]
		}
		body := sb.String()
		exp := fmt.Sprintf("ok:%d,%d,%d,%d,%d,%d,%d,700", vals[0], vals[1], vals[2], vals[3], vals[4], vals[5], vals[6])
		decl := "local v0, v1, v2, v3, v4, v5, v6 = 10, 20, 30, 40, 50, 60, 70\n"
		ret := "local after = 700\nreturn v0, v1, v2, v3, v4, v5, v6, after"
		add(fmt.Sprintf("moverun-%d-chunk", n), exp, func() string { return decl + body + ret })
		add(fmt.Sprintf("moverun-%d-function", n), exp, func() string { return "local function f()\n" + decl + body + ret + "\nend\nreturn f()" })
		add(fmt.Sprintf("moverun-%d-loop", n), exp, func() string {
			return decl + "for round = 1, 1 do\n" + body + "end\n" + ret
		})
	}
	for _, n := range []int{511, 512, 10000} {
		n := n
		add(fmt.Sprintf("hash-%d-c07names", n), "ok:1", func() string {
			return "local r = {" + rep(n, func(i int) string { return "k" + strconv.Itoa(i) + "=" + strconv.Itoa(i%7) + "," }) + "}\nreturn r.k1"
		})
		add(fmt.Sprintf("hash-%d-exprs", n), "ok:1", func() string {
			return "local r = {" + rep(n, func(i int) string { return "[" + strconv.Itoa(i) + ".5]=" + strconv.Itoa(i%7) + "," }) + "}\nreturn r[1.5]"
		})
	}
	// ---- E. nesting depth
	for _, d := range []int{30, 60, 97, 98, 99, 100, 101, 150, 200} {
		d := d
		add(fmt.Sprintf("nest-%d-parens", d), "ok:1", func() string { return "return " + strings.Repeat("(", d) + "1" + strings.Repeat(")", d) })
		add(fmt.Sprintf("nest-%d-tables", d), "", func() string { return "return " + strings.Repeat("{", d) + strings.Repeat("}", d) })
		add(fmt.Sprintf("nest-%d-calls", d), "", func() string { return "return " + strings.Repeat("f(1, ", d) + "2" + strings.Repeat(")", d) })
		add(fmt.Sprintf("nest-%d-functions", d), "", func() string {
			return "local v0 = 1\nreturn " + rep(d, func(i int) string { return fmt.Sprintf("function(p%d) local v%d = p%d; return ", i, i, i) }) + "v0" +
				rep(d, func(i int) string { return " + v" + strconv.Itoa(i) }) + strings.Repeat(" end", d)
		})
		add(fmt.Sprintf("nest-%d-blocks", d), "", func() string {
			return rep(d, func(i int) string {
				return []string{"do local b" + strconv.Itoa(i) + " = 1 ", "if x then ", "while x do ", "for i = 1, 2 do ", "repeat ", "for k in pairs(t) do "}[i%6]
			}) + "x = function() return b1 end " + func() string {
				var sb strings.Builder
				for i := d; i >= 1; i-- {
					sb.WriteString([]string{"end ", "end ", "break end ", "end ", "until x ", "end "}[i%6])
				}
				return sb.String()
			}()
		})
		add(fmt.Sprintf("nest-%d-unary", d), "", func() string { return "return " + strings.Repeat("- ", d) + "x, " + strings.Repeat("not ", d) + "x, " + strings.Repeat("#", d) + "t" })
		add(fmt.Sprintf("nest-%d-binary", d), "", func() string {
			return "return 1" + rep(d, func(i int) string { return " + (x" }) + strings.Repeat(")", d) + ", x" + rep(d, func(i int) string { return " ^ x" }) +
				", x" + rep(d, func(i int) string { return " and (x or " + strconv.Itoa(i) }) + strings.Repeat(")", d) + ", t" + rep(d, func(i int) string { return ".x[1]" })
		})
		add(fmt.Sprintf("nest-%d-relational", d), "", func() string {
			return "local r = " + rep(d, func(i int) string { return "(x < " }) + "1" + rep(d, func(i int) string { return ") == (y <= " + strconv.Itoa(i) + ")" }) + "\nreturn r"
		})
	}
	// ---- F. upvalues around 255 (NumUpvalues is a uint8)
	for _, u := range []int{199, 200, 250, 254, 255, 256, 257, 260, 290, 300, 390, 511, 512, 513} {
		u := u
		mk := func(write bool) func() string {
			return func() string {
				l1 := min(u, 180)
				l2 := min(u-l1, 180)
				l3 := u - l1 - l2
				var sb strings.Builder
				sb.WriteString(rep(l1, func(i int) string { return "local a" + strconv.Itoa(i) + " = 1\n" }))
				sb.WriteString("local function f2()\n")
				sb.WriteString(rep(l2, func(i int) string { return "local b" + strconv.Itoa(i) + " = 1\n" }))
				sb.WriteString("local function f3()\n")
				sb.WriteString(rep(l3, func(i int) string { return "local c" + strconv.Itoa(i) + " = 1\n" }))
				sb.WriteString("local function f4()\n")
				if write {
					sb.WriteString(rep(l1, func(i int) string { return "a" + strconv.Itoa(i) + " = 2\n" }))
					sb.WriteString(rep(l2, func(i int) string { return "b" + strconv.Itoa(i) + " = 2\n" }))
					sb.WriteString(rep(l3, func(i int) string { return "c" + strconv.Itoa(i) + " = 2\n" }))
				}
				sb.WriteString("return 0")
				sb.WriteString(rep(l1, func(i int) string { return " + a" + strconv.Itoa(i) }))
				sb.WriteString(rep(l2, func(i int) string { return " + b" + strconv.Itoa(i) }))
				sb.WriteString(rep(l3, func(i int) string { return " + c" + strconv.Itoa(i) }))
				sb.WriteString("\nend\nreturn f4()\nend\nreturn f3()\nend\nreturn f2()")
				return sb.String()
			}
		}
		add(fmt.Sprintf("upvalues-%d-read", u), fmt.Sprintf("ok:%d", u), mk(false))
		add(fmt.Sprintf("upvalues-%d-write", u), fmt.Sprintf("ok:%d", 2*u), mk(true))
	}
	// ---- G. long jumps around ±2^17 for every jump-emitting construct (body = N one-instruction statements)
	for n := 131062; n <= 131078; n++ {
		n := n
		body := func() string { return strings.Repeat("a=1\n", n) }
		addBig(fmt.Sprintf("jump-%d-while", n), "ok:1", func() string {
			return "local a, n = 1, 0\nwhile n < 1 do\n" + body() + "n = n + 1\nend\nreturn n"
		})
		addBig(fmt.Sprintf("jump-%d-repeat", n), "ok:1", func() string {
			return "local a, n = 1, 0\nrepeat\n" + body() + "n = n + 1\nuntil n >= 1\nreturn n"
		})
		addBig(fmt.Sprintf("jump-%d-repeat-close", n), "ok:2", func() string {
			return "local a, n = 1, 0\nrepeat\nlocal z = n\ng = function() return z end\n" + body() + "n = n + 1\nuntil n >= 2\nreturn n"
		})
		addBig(fmt.Sprintf("jump-%d-numfor", n), "ok:2", func() string {
			return "local a, n = 1, 0\nfor i = 1, 2 do\n" + body() + "n = n + 1\nend\nreturn n"
		})
		addBig(fmt.Sprintf("jump-%d-genfor", n), "ok:2", func() string {
			return "local a, n = 1, 0\nfor k in pairs({10, 20}) do\n" + body() + "n = n + 1\nend\nreturn n"
		})
		addBig(fmt.Sprintf("jump-%d-ifelse", n), "ok:2", func() string {
			return "local a, n = 1, 0\nif n > 0 then\n" + body() + "n = 1\nelse\nn = 2\n" + body() + "end\nreturn n"
		})
		addBig(fmt.Sprintf("jump-%d-goto-back", n), "ok:1", func() string {
			return "local a, n = 1, 0\n::top::\n" + body() + "if n < 1 then n = n + 1 goto top end\nreturn n"
		})
		addBig(fmt.Sprintf("jump-%d-goto-fwd-break", n), "ok:5", func() string {
			return "local a, n = 1, 0\nwhile true do\nif n == 0 then n = 5 goto out end\nif n then break end\n" + body() + "end\n::out::\nreturn n"
		})
		addBig(fmt.Sprintf("jump-%d-andor", n), "ok:1", func() string {
			return "local a, n = 1, 0\nlocal function big()\n" + body() + "return 1\nend\nn = a and big() or 2\nreturn n"
		})
	}
	// ---- G2. jump-to-jump threading: every single hop fits the 18-bit signed operand, the threaded distance may not
	for _, nm := range [][2]int{{70000, 70000}, {65530, 65534}, {65534, 65534}, {65535, 65535}, {65535, 65536}, {65536, 65536}, {131060, 5}, {5, 131060}, {131068, 1}, {131069, 1}, {131070, 1}, {1, 131069}, {1, 131070}} {
		n, m := nm[0], nm[1]
		b1 := func() string { return strings.Repeat("a=1\n", n) }
		b2 := func() string { return strings.Repeat("a=2\n", m) }
		// `JMP inner-end` lands on `JMP outer-end`: forward + forward
		addBig(fmt.Sprintf("thread-%d-%d-ifelse-nested", n, m), "ok:1,2,3", func() string {
			return "local function f(o, c)\nlocal a, r = 0, 0\nif o then\nif c then r = 1 else\n" + b1() + "r = 2\nend\nelse\n" + b2() + "r = 3\nend\nreturn r\nend\nreturn f(true, true), f(true, false), f(false, false)"
		})
		// break inside the else-less tail of a loop body: `JMP out` chains through the loop's exit jump
		addBig(fmt.Sprintf("thread-%d-%d-while-if-break", n, m), "ok:1,7", func() string {
			return "local function f(o)\nlocal a, r = 0, 0\nwhile r < 1 do\nif o then r = 7 break else\n" + b1() + "r = 1\nend\nend\n" + "if r == 7 then return r end\n" + b2() + "return r\nend\nreturn f(false), f(true)"
		})
		// backward edge onto a forward jump: the loop starts with an `if false` skip over a long block
		addBig(fmt.Sprintf("thread-%d-%d-repeat-skip", n, m), "ok:3", func() string {
			return "local a, k = 0, 0\nrepeat\nif a == 99 then\n" + b1() + "end\n" + b2() + "k = k + 1\nuntil k >= 3\nreturn k"
		})
		// goto onto a jump: the label is followed by a break / an else-skip
		addBig(fmt.Sprintf("thread-%d-%d-goto-chain", n, m), "ok:4", func() string {
			return "local a, r = 0, 0\nwhile true do\nif r == 0 then r = 4 goto skip end\n" + b1() + "::skip::\nif r == 4 then break end\n" + b2() + "end\nreturn r"
		})
	}
	// ---- H. label ids around 2^17 (each `if` allocates three labels)
	for m := 43686; m <= 43694; m++ {
		m := m
		addBig(fmt.Sprintf("labels-%d-ifs", m), "ok:1,3", func() string {
			return "local a, n, k = false, 0, 0\n" + strings.Repeat("if a then end\n", m) +
				"if not a then n = 1 else n = 2 end\nwhile k < 3 do k = k + 1 end\nreturn n, k"
		})
	}
	for _, m := range []int{131068, 131069, 131070, 131071, 131072, 131073} {
		m := m
		addBig(fmt.Sprintf("labels-%d-relexprs", m), "ok:1,3", func() string {
			return "local a, n, k = false, 0, 0\n" + strings.Repeat("a = n < k\n", m) +
				"if not a then n = 1 else n = 2 end\nwhile k < 3 do k = k + 1 end\nreturn n, k"
		})
	}
	return g
}

// advCases: the whole grid (thorough) or a seed-rotated selection of n cases that always contains one member
// of each family at its critical size (quick).
func advCases(r *Rng, n int, full bool) []Case {
	grid := advGrid()
	rk := rkGrid(r.Fork(424242), full) // every RK-operand instruction kind EXECUTED on both sides of the RK limit (c07_rk.go): always all of them
	var sel []advCase
	if full {
		sel = append(grid, rk...)
	} else {
		must := []string{"assign-targets-511", "assign-targets-600", "locals-199-call", "locals-200-genfor", "array-25551-existing-local",
			"array-25600-const", "array-25600-call0", "array-25601-vararg0", "array-25551-call0", "moverun-514-chunk", "moverun-513-function", "moverun-1026-loop", "moverun-1537-chunk", "moverun-600-function", "moverun-512-chunk", "array-25551-operand-len", "array-25600-operand-len-arith", "array-25551-operand-call", "array-25601-operand-compare", "array-25551-operand-in-function", "array-25552-operand-store", "upvalues-255-read", "upvalues-256-read", "upvalues-290-read", "nest-200-functions",
			"thread-70000-70000-ifelse-nested", "thread-65535-65536-ifelse-nested", "thread-65536-65536-while-if-break", "thread-131069-1-repeat-skip", "thread-65535-65536-goto-chain"}
		byName := map[string]advCase{}
		var small, big []advCase
		for _, c := range grid {
			byName[c.name] = c
			if c.huge {
				continue
			}
			if c.big {
				big = append(big, c)
			} else {
				small = append(small, c)
			}
		}
		for _, c := range grid { // every operand kind at the RK boundary, number fillers (constant 0 is not a string)
			if strings.HasPrefix(c.name, "consts-246-numbers-") || strings.HasPrefix(c.name, "consts-502-numbers-self") {
				must = append(must, c.name)
			}
		}
		for _, m := range must {
			if c, ok := byName[m]; ok {
				sel = append(sel, c)
			}
		}
		nb := 14 // big (≈ 0.6 MB sources) cases per quick run
		for i := 0; i < nb; i++ {
			sel = append(sel, big[r.Intn(len(big))])
		}
		for len(sel) < n {
			sel = append(sel, small[r.Intn(len(small))])
		}
		sel = append(sel, rk...)
	}
	var cases []Case
	for _, c := range sel {
		ops := []Op{{Args: []string{"stmt", hex.EncodeToString([]byte(c.src())), "adv:" + c.name}}}
		if c.expect != "" {
			ops = append(ops, Op{Args: []string{"expect", hex.EncodeToString([]byte(c.expect))}})
		}
		if c.norun {
			ops = append(ops, Op{Args: []string{"norun"}})
		}
		cases = append(cases, Case{Ops: ops, Note: c.name})
	}
	return cases
}
