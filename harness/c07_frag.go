package main

// C07 `frag` requests: the tie of `toProto` / `fragProto` / `FragOK` (lean/GLua/Model/CompileProto.lean), the objects
// of the theorem `compile_fragment_wf` (Props/C07.lean: every program of the modelled compiler fragment that the
// model compiler accepts is compiled to a prototype the verifier `wf` accepts).
//
// A program of the C01M token language (conditions, logical / relational operators, arithmetic with constant folding,
// unary minus, length, concatenation chains, local / global assignment, if / while / repeat / return / local) is
// rendered to Lua and compiled by the REAL front-end; the complete prototype
// (header fields, code words, constants, stringConstants, nested prototypes) is sent to the Lean engine, which
// compares it field by field with `fragProto` of the same program and evaluates `FragOK` and `wf`.

import (
	"strconv"
	"strings"
)

func execFrag(a []string) []string {
	var p *mprog
	func() {
		defer func() {
			if r := recover(); r != nil {
				p = nil
			}
		}()
		p, _ = parseMProg(a[1:])
	}()
	if p == nil {
		return []string{"X bad-program => " + strings.Join(a, " ")}
	}
	proto, errs := compileReal(p.lua())
	if strings.HasPrefix(errs, "gopanic") || strings.HasPrefix(errs, "syntax") {
		return []string{"X " + strings.ReplaceAll(errs, " ", "_") + " => " + strings.Join(a, " ")}
	}
	reply := ""
	c07.Lock()
	if proto != nil {
		c07.fragCompiled++
		c07.fragWords += len(proto.Code)
	} else {
		c07.fragCompileErr++
	}
	c07.Unlock()
	if proto != nil {
		var sb strings.Builder
		serializeProto(&sb, proto)
		reply = strings.TrimSpace(sb.String())
		if len(proto.FunctionPrototypes) != 0 {
			reply += " nested-prototypes"
		}
	} else {
		switch {
		case strings.Contains(errs, "register_overflow(too_many_local_variables)"):
			reply = "compile-error register_overflow(too_many_local_variables)"
		case strings.Contains(errs, "too_long_to_jump"):
			reply = "compile-error too_long_to_jump."
		default:
			reply = errs
		}
	}
	return []string{"C07 frag " + strings.Join(a[1:], " ") + " => " + reply}
}

func fragOp(p *mprog) []Op {
	return []Op{{Args: append([]string{"frag"}, p.toks()...)}}
}

// relational nesting: ((a < b) == (c < d)) … : temporaries climb with the depth
func relNest(r *Rng, depth, top int) *cnd {
	if depth == 0 {
		return genCond(r, 1, top)
	}
	op := Pick(r, []string{"lt", "gt", "le", "ge", "eq", "ne"})
	return &cnd{k: op, a: relNest(r, depth-1, top), b: relNest(r, depth-1, top)}
}

// right-leaning relational chain: l0 < (l0 < (l0 < …)): one more temporary per level
func relChain(depth int, leaf *cnd) *cnd {
	c := leaf
	for i := 0; i < depth; i++ {
		c = &cnd{k: "lt", a: &cnd{k: "g", n: 0}, b: c}
	}
	return c
}

// right-leaning chain of one binary operator over globals (`g0 + (g0 + (… + leaf))`, `g0 .. g0 .. … .. leaf`):
// arithmetic takes one more temporary per level, a concatenation chain one register per operand (crange)
func opChain(op string, depth int, leaf *cnd) *cnd {
	c := leaf
	for i := 0; i < depth; i++ {
		c = &cnd{k: op, a: &cnd{k: "g", n: 0}, b: c}
	}
	return c
}

func fragCases(root *Rng, thorough bool) []Case {
	var cases []Case
	idx := 2000000
	add := func(p *mprog, note string) {
		cases = append(cases, Case{Idx: idx, Ops: fragOp(p), Note: note})
		idx++
	}
	nRand, nCtxs, nNest, keepEnum := 1200, 500, 60, 3
	if thorough {
		nRand, nCtxs, nNest, keepEnum = 20000, 8000, 400, 100
	}
	arOf := func(r *Rng) int { return Pick(r, []int{0, 45, 55, 55}) } // share of arithmetic / unary / concatenation nodes
	// (1) random nested programs, 0..6 chunk locals, with and without a final return
	for i := 0; i < nRand; i++ {
		r := root.Fork(uint64(i))
		nl := r.Range(1, 6) // l0 is the loop flag of generated loops
		depth := r.Range(1, 3)
		if r.Chance(8) {
			nl, depth = 0, 0 // no chunk locals (no VARARG prologue): straight-line code over globals and fresh locals
		}
		add(&mprog{nlocals: nl, body: genBlockX(r, depth, nl, r.Range(0, 5), r.Chance(50), arOf(r))}, "frag:random-program")
	}
	// (2) random deep conditions in every destination context
	for i := 0; i < nCtxs; i++ {
		r := root.Fork(uint64(100000 + i))
		add(inContext(r.Intn(nCtx), genCondX(r, r.Range(2, 6), 3, arOf(r))), "frag:deep-condition")
	}
	// (3) nested relational operators (temporaries) in value and branch contexts
	for i := 0; i < nNest; i++ {
		r := root.Fork(uint64(200000 + i))
		add(inContext(r.Intn(nCtx), relNest(r, r.Range(1, 4), 3)), "frag:rel-nest")
	}
	// (3b) bounded-exhaustive operator × operand-class trees of the arithmetic family (22 operand classes incl. folded
	//      constants, NaN, -0, nested operators, logical / relational operands)², unary operators once and twice,
	//      concatenation chains of 3 and 4 in every nesting, mixed precedence shapes — each in one context (quick: sampled)
	bin, un, chains := enumArithTrees()
	for fi, fam := range [][]*cnd{bin, un, chains} {
		for ti, t := range fam {
			r := root.Fork(uint64(300000 + fi*100000 + ti))
			if !r.Chance(keepEnum) {
				continue
			}
			add(inContext(r.Intn(nCtx), t), "frag:arith-enum")
		}
	}
	// (4) register ceiling: 150..200 chunk locals, a right-leaning relational chain on top (NumUsedRegisters around
	//     maxRegisters = 200 from both sides: accepted and "register overflow")
	for _, nl := range []int{1, 150, 180, 190, 195, 196, 197, 198, 199, 200} {
		for _, d := range []int{0, 1, 2, 3, 4, 5, 8, 20, 45, 60} {
			if !thorough && (nl*7+d)%3 != int(root.s%3) && nl < 195 {
				continue
			}
			body := []*stm{{k: "assign", targets: []string{"g0"}, rhs: []*cnd{relChain(d, loc(0))}}, retS(loc(nl - 1))}
			add(&mprog{nlocals: nl, body: body}, "frag:register-ceiling")
			body2 := []*stm{{k: "if", c: relChain(d, num(1)), b1: []*stm{retS(loc(0))}}}
			add(&mprog{nlocals: nl, body: body2}, "frag:register-ceiling")
			// the same with arithmetic temporaries and with the operand registers of a concatenation chain
			body3 := []*stm{{k: "assign", targets: []string{"g0"}, rhs: []*cnd{opChain("@add", d, loc(0))}}, retS(opChain("@cat", d, num(1)))}
			add(&mprog{nlocals: nl, body: body3}, "frag:register-ceiling")
			body4 := []*stm{{k: "while", c: &cnd{k: "@len", a: opChain("@cat", d, str("x"))}, b1: loopGuard(1)}, {k: "assign", targets: []string{"g1"}, rhs: []*cnd{{k: "@unm", a: opChain("@mul", d, glob(1))}}}}
			add(&mprog{nlocals: nl, body: body4}, "frag:register-ceiling")
		}
	}
	// (5) constant pool windows: n distinct number constants, then comparisons / loads with constants whose index
	//     is around opMaxIndexRk = 255 (RK operand or LOADK)
	for _, n := range []int{250, 254, 255, 256, 257, 260} {
		var body []*stm
		for k := 0; k < n; k++ {
			body = append(body, &stm{k: "assign", targets: []string{"g0"}, rhs: []*cnd{num(1000 + k)}})
		}
		body = append(body,
			&stm{k: "if", c: &cnd{k: "lt", a: loc(0), b: num(7)}, b1: []*stm{retS(num(8))}},
			&stm{k: "assign", targets: []string{"l0"}, rhs: []*cnd{{k: "eq", a: num(9), b: &cnd{k: "s", s: "a"}}}},
			&stm{k: "while", c: &cnd{k: "ge", a: &cnd{k: "g", n: 1}, b: num(1000)}, b1: loopGuard(1)},
			retS(loc(0), num(10)))
		add(&mprog{nlocals: 1, body: body}, "frag:constant-window")
	}
	//     … and d-C01's window program (arithmetic with constant operands behind n filler constants)
	for _, n := range []int{3, 250, 253, 254, 255, 256, 257, 258, 300} {
		add(kWindowProg(n), "frag:constant-window")
	}
	// (6) long MOVE runs (MOVEN merging, also past opMaxArgsC followers) and jumps onto MOVEN tails
	for _, n := range []int{1, 2, 3, 50, 199} {
		var tg []string
		var rhs []*cnd
		for k := 0; k < n; k++ {
			tg = append(tg, "l"+strconv.Itoa(k))
			rhs = append(rhs, loc((k+1)%n))
		}
		body := []*stm{{k: "assign", targets: tg, rhs: rhs},
			{k: "if", c: loc(0), b1: []*stm{{k: "assign", targets: []string{"l0"}, rhs: []*cnd{loc(n - 1)}}}},
			{k: "assign", targets: []string{"l0"}, rhs: []*cnd{loc(n - 1)}},
			{k: "assign", targets: []string{"l" + strconv.Itoa(n-1)}, rhs: []*cnd{loc(0)}},
			retS(loc(0))}
		add(&mprog{nlocals: n, body: body}, "frag:move-runs")
	}
	// (7) empty and degenerate programs
	add(&mprog{nlocals: 0}, "frag:empty")
	add(&mprog{nlocals: 1}, "frag:empty")
	add(&mprog{nlocals: 0, body: []*stm{{k: "if", c: &cnd{k: "T"}}}}, "frag:empty")
	add(&mprog{nlocals: 0, body: []*stm{{k: "while", c: &cnd{k: "F"}}}}, "frag:empty")
	add(&mprog{nlocals: 0, body: []*stm{{k: "repeat", c: &cnd{k: "T"}}}}, "frag:empty")
	add(&mprog{nlocals: 0, body: []*stm{retS()}}, "frag:empty")
	return cases
}
