package main

// C07: random Lua program generator (scope-aware, always syntactically valid; compile errors are possible and fine).

import (
	"fmt"
	"strconv"
	"strings"
)

type c07gStmt struct{ src, kind string }

type gFunc struct {
	vararg    bool
	loopDepth int      // enclosing loops inside this function (break allowed when > 0)
	labels    []string // labels visible for a backward goto (declared earlier in an enclosing block of this function)
	nlabel    int
}

type pgen struct {
	r      *Rng
	scopes [][]string // locals by block, innermost last (across functions: outer ones are upvalues)
	funcs  []*gFunc
	budget int // remaining statements
	fresh  int
}

var gGlobals = []string{"f", "g", "h", "t", "u", "x", "y", "z", "pairs", "next", "undefinedglobal"}
var gFields = []string{"x", "y", "m", "n", "key", "long_field_name", "a1"}

func (g *pgen) fn() *gFunc { return g.funcs[len(g.funcs)-1] }

func (g *pgen) newName() string {
	g.fresh++
	if g.r.Chance(30) { // deliberately shadow
		return Pick(g.r, []string{"a", "b", "c", "x", "t", "f"})
	}
	return "v" + strconv.Itoa(g.fresh)
}

func (g *pgen) locals() []string {
	var all []string
	for _, s := range g.scopes {
		all = append(all, s...)
	}
	return all
}

func (g *pgen) anyVar() string {
	ls := g.locals()
	if len(ls) > 0 && g.r.Chance(70) {
		// prefer recent ones but reach outer functions too (upvalues)
		if g.r.Chance(50) {
			return ls[len(ls)-1-g.r.Intn(min(len(ls), 4))]
		}
		return Pick(g.r, ls)
	}
	return Pick(g.r, gGlobals)
}

func (g *pgen) declare(c07names ...string) {
	g.scopes[len(g.scopes)-1] = append(g.scopes[len(g.scopes)-1], c07names...)
}

func (g *pgen) number() string {
	switch g.r.Intn(10) {
	case 0:
		return Pick(g.r, []string{"0", "1", "2", "255", "256", "0x10", "0xff", "1e3", "3.5", "0.25", "1e308", "5e-324", "1e400"})
	case 1:
		return strconv.Itoa(g.r.Intn(100000))
	case 2:
		return fmt.Sprintf("%d.%d", g.r.Intn(50), g.r.Intn(100))
	default:
		return strconv.Itoa(g.r.Intn(12))
	}
}

func (g *pgen) str() string {
	switch g.r.Intn(6) {
	case 0:
		return `""`
	case 1:
		return `'s` + strconv.Itoa(g.r.Intn(40)) + `'`
	case 2:
		return `[[long ` + strconv.Itoa(g.r.Intn(9)) + `]]`
	case 3:
		return `"esc\n\t\65\\"`
	default:
		return `"` + Pick(g.r, gFields) + `"`
	}
}

var c07arithOps = []string{"+", "-", "*", "/", "%", "^"}
var c07relOps = []string{"<", ">", "<=", ">=", "==", "~="}

// prefix expression: something that can be indexed / called
func (g *pgen) prefix(d int) string {
	if d <= 0 {
		return g.anyVar()
	}
	switch c := g.r.Intn(100); {
	case c < 45:
		return g.anyVar()
	case c < 60:
		return g.prefix(d-1) + "." + Pick(g.r, gFields)
	case c < 72:
		return g.prefix(d-1) + "[ " + g.expr(d-1) + " ]"
	case c < 84:
		return g.prefix(d-1) + g.args(d-1)
	case c < 92:
		return g.prefix(d-1) + ":" + Pick(g.r, gFields) + g.args(d-1)
	default:
		return "(" + g.expr(d-1) + ")"
	}
}

func (g *pgen) args(d int) string {
	switch g.r.Intn(12) {
	case 0:
		return g.str() // f"str" / f'str' / f[[str]]
	case 1:
		return g.table(d)
	}
	n := g.r.Intn(4)
	var as []string
	for i := 0; i < n; i++ {
		as = append(as, g.expr(d))
	}
	if g.r.Chance(20) {
		as = append(as, g.multi(d))
	}
	return "(" + strings.Join(as, ", ") + ")"
}

// an expression that may yield several values (call or ...)
func (g *pgen) multi(d int) string {
	if g.fn().vararg && g.r.Chance(40) {
		return "..."
	}
	if g.r.Chance(50) {
		return g.prefix(d) + g.args(max(d-1, 0))
	}
	return g.prefix(d) + ":" + Pick(g.r, gFields) + g.args(max(d-1, 0))
}

func (g *pgen) table(d int) string {
	n := g.r.Intn(5)
	if g.r.Chance(8) {
		n = g.r.Range(48, 53) // around FieldsPerFlush
	}
	if d <= 0 && n > 2 {
		n = 2
	}
	var fs []string
	for i := 0; i < n; i++ {
		switch c := g.r.Intn(10); {
		case c < 5:
			fs = append(fs, g.expr(d-1))
		case c < 8:
			fs = append(fs, Pick(g.r, gFields)+" = "+g.expr(d-1))
		default:
			fs = append(fs, "[ "+g.expr(d-1)+" ] = "+g.expr(d-1))
		}
	}
	if g.r.Chance(25) {
		fs = append(fs, g.multi(max(d-1, 0)))
	}
	sep := ", "
	if g.r.Chance(15) {
		sep = "; "
	}
	s := strings.Join(fs, sep)
	if len(fs) > 0 && g.r.Chance(15) {
		s += ","
	}
	return "{" + s + "}"
}

func (g *pgen) funcBody(method bool, d int) string {
	np := g.r.Intn(4)
	var ps []string
	sc := []string{}
	if method {
		sc = append(sc, "self")
	}
	for i := 0; i < np; i++ {
		n := g.newName()
		ps = append(ps, n)
		sc = append(sc, n)
	}
	va := g.r.Chance(30)
	if va {
		ps = append(ps, "...")
		sc = append(sc, "arg")
	}
	g.funcs = append(g.funcs, &gFunc{vararg: va})
	g.scopes = append(g.scopes, sc)
	body := g.block(d, false)
	g.scopes = g.scopes[:len(g.scopes)-1]
	g.funcs = g.funcs[:len(g.funcs)-1]
	return "(" + strings.Join(ps, ", ") + ")\n" + body + "end"
}

func (g *pgen) expr(d int) string {
	if d <= 0 {
		switch c := g.r.Intn(100); {
		case c < 35:
			return g.anyVar()
		case c < 60:
			return g.number()
		case c < 75:
			return g.str()
		case c < 82:
			return "nil"
		case c < 88:
			return "true"
		case c < 94:
			return "false"
		default:
			if g.fn().vararg {
				return "..."
			}
			return "{}"
		}
	}
	switch c := g.r.Intn(100); {
	case c < 14:
		return g.expr(0)
	case c < 30:
		return g.expr(d-1) + " " + Pick(g.r, c07arithOps) + " " + g.expr(d-1)
	case c < 38:
		return g.expr(d-1) + " .. " + g.expr(d-1)
	case c < 48:
		return g.expr(d-1) + " " + Pick(g.r, c07relOps) + " " + g.expr(d-1)
	case c < 60:
		return g.expr(d-1) + " " + Pick(g.r, []string{"and", "or"}) + " " + g.expr(d-1)
	case c < 67:
		op, e := Pick(g.r, []string{"-", "not ", "#", "- -", "not not "}), g.expr(d-1)
		if strings.HasSuffix(op, "-") && strings.HasPrefix(e, "-") {
			e = "(" + e + ")" // `--` would start a comment
		}
		return op + e
	case c < 75:
		return "(" + g.expr(d-1) + ")"
	case c < 84:
		return g.prefix(d)
	case c < 90:
		return g.table(d)
	case c < 95:
		if g.budget <= 0 {
			return g.expr(0)
		}
		return "function" + g.funcBody(false, d-1)
	default:
		return "(" + g.multi(d-1) + ")"
	}
}

func (g *pgen) cond(d int) string {
	switch g.r.Intn(6) {
	case 0:
		return Pick(g.r, []string{"true", "false", "nil", "1", "not x"})
	case 1:
		return g.anyVar()
	case 2:
		return g.expr(d) + " " + Pick(g.r, c07relOps) + " " + g.expr(d)
	case 3:
		return g.cond(d-1) + " " + Pick(g.r, []string{"and", "or"}) + " " + g.cond(d-1)
	case 4:
		return "not (" + g.cond(d-1) + ")"
	}
	return g.expr(d)
}

func (g *pgen) exprList(n, d int) string {
	var es []string
	for i := 0; i < n; i++ {
		es = append(es, g.expr(d))
	}
	if g.r.Chance(20) {
		es = append(es, g.multi(d))
	}
	return strings.Join(es, ", ")
}

func (g *pgen) lhs(d int) string {
	switch c := g.r.Intn(10); {
	case c < 5:
		return g.anyVar()
	case c < 8:
		return g.prefix(d) + "." + Pick(g.r, gFields)
	default:
		return g.prefix(d) + "[ " + g.expr(d) + " ]"
	}
}

// block generates statements in a new scope; `loop` marks a loop body (break allowed)
func (g *pgen) block(d int, loop bool) string {
	g.scopes = append(g.scopes, nil)
	f := g.fn()
	savedLabels := len(f.labels)
	if loop {
		f.loopDepth++
	}
	var sb strings.Builder
	n := g.r.Intn(4)
	if d <= 0 {
		n = g.r.Intn(2)
	}
	continueLabel := ""
	if loop && g.r.Chance(12) {
		f.nlabel++
		continueLabel = "cont" + strconv.Itoa(f.nlabel) + "_" + strconv.Itoa(len(g.funcs))
	}
	for i := 0; i < n && g.budget > 0; i++ {
		st := g.stmt(d)
		sb.WriteString(st.src)
		sb.WriteByte('\n')
		if continueLabel != "" && g.r.Chance(40) {
			sb.WriteString("if " + g.cond(1) + " then goto " + continueLabel + " end\n")
		}
	}
	// last statement: return / break / nothing
	switch c := g.r.Intn(100); {
	case continueLabel != "":
		sb.WriteString("::" + continueLabel + "::\n")
	case c < 12:
		sb.WriteString(g.returnStmt(d) + "\n")
	case c < 22 && f.loopDepth > 0:
		sb.WriteString("break\n")
	}
	if loop {
		f.loopDepth--
	}
	f.labels = f.labels[:savedLabels]
	g.scopes = g.scopes[:len(g.scopes)-1]
	return sb.String()
}

func (g *pgen) returnStmt(d int) string {
	switch g.r.Intn(6) {
	case 0:
		return "return"
	case 1:
		return "return " + g.multi(d) // tail call or ...
	case 2:
		return "return " + g.anyVar()
	case 3:
		return "return (" + g.multi(d) + ")"
	}
	return "return " + g.exprList(g.r.Range(1, 3), d)
}

// a statement that begins with `(` would be read as a call of the previous statement's last expression
func (g *pgen) stmt(d int) c07gStmt {
	st := g.stmt0(d)
	if strings.HasPrefix(st.src, "(") {
		st.src = "do " + st.src + " end"
	}
	return st
}

func (g *pgen) stmt0(d int) c07gStmt {
	g.budget--
	f := g.fn()
	if d <= 0 {
		switch g.r.Intn(4) {
		case 0:
			n := g.newName()
			s := "local " + n + " = " + g.expr(1)
			g.declare(n)
			return c07gStmt{s, "local"}
		case 1:
			return c07gStmt{g.lhs(0) + " = " + g.expr(1), "assign"}
		default:
			return c07gStmt{g.prefix(1) + g.args(1), "call"}
		}
	}
	switch c := g.r.Intn(100); {
	case c < 14: // local
		nn := g.r.Range(1, 4)
		var ns []string
		for i := 0; i < nn; i++ {
			ns = append(ns, g.newName())
		}
		s := "local " + strings.Join(ns, ", ")
		if g.r.Chance(85) {
			s += " = " + g.exprList(g.r.Range(1, 4), d)
		}
		g.declare(ns...)
		return c07gStmt{s, "local"}
	case c < 26: // assignment, possibly multiple
		nn := g.r.Range(1, 3)
		if g.r.Chance(60) {
			nn = 1
		}
		var ls []string
		for i := 0; i < nn; i++ {
			ls = append(ls, g.lhs(d-1))
		}
		return c07gStmt{strings.Join(ls, ", ") + " = " + g.exprList(g.r.Range(1, 3), d), "assign"}
	case c < 34:
		return c07gStmt{g.prefix(d) + g.args(d), "call"}
	case c < 38:
		return c07gStmt{g.prefix(d) + ":" + Pick(g.r, gFields) + g.args(d), "methodcall"}
	case c < 43:
		return c07gStmt{"do\n" + g.block(d-1, false) + "end", "do"}
	case c < 56: // if
		s := "if " + g.cond(2) + " then\n" + g.block(d-1, false)
		for k := g.r.Intn(3); k > 0 && g.r.Chance(40); k-- {
			s += "elseif " + g.cond(2) + " then\n" + g.block(d-1, false)
		}
		if g.r.Chance(45) {
			s += "else\n" + g.block(d-1, false)
		}
		return c07gStmt{s + "end", "if"}
	case c < 63:
		return c07gStmt{"while " + g.cond(2) + " do\n" + g.block(d-1, true) + "end", "while"}
	case c < 69: // repeat: the condition sees the block's locals
		g.scopes = append(g.scopes, nil)
		n := g.newName()
		body := ""
		if g.r.Chance(50) {
			body = "local " + n + " = " + g.expr(1) + "\n"
			g.declare(n)
		}
		f.loopDepth++
		body += g.block(d-1, false)
		f.loopDepth--
		cond := g.cond(2)
		g.scopes = g.scopes[:len(g.scopes)-1]
		return c07gStmt{"repeat\n" + body + "until " + cond, "repeat"}
	case c < 76: // numeric for
		n := g.newName()
		s := "for " + n + " = " + g.expr(1) + ", " + g.expr(1)
		if g.r.Chance(40) {
			s += ", " + g.expr(1)
		}
		g.scopes = append(g.scopes, []string{n})
		s += " do\n" + g.block(d-1, true) + "end"
		g.scopes = g.scopes[:len(g.scopes)-1]
		return c07gStmt{s, "numfor"}
	case c < 83: // generic for
		nn := g.r.Range(1, 3)
		var ns []string
		for i := 0; i < nn; i++ {
			ns = append(ns, g.newName())
		}
		var el string
		switch g.r.Intn(4) {
		case 0:
			el = "pairs(" + g.anyVar() + ")"
		case 1:
			el = "next, " + g.anyVar()
		case 2:
			el = g.exprList(g.r.Range(1, 4), 1)
		default:
			el = g.multi(1)
		}
		g.scopes = append(g.scopes, ns)
		s := "for " + strings.Join(ns, ", ") + " in " + el + " do\n" + g.block(d-1, true) + "end"
		g.scopes = g.scopes[:len(g.scopes)-1]
		return c07gStmt{s, "genfor"}
	case c < 88: // function definitions
		switch g.r.Intn(4) {
		case 0:
			n := g.newName()
			g.declare(n) // local function: the name is in scope inside the body
			return c07gStmt{"local function " + n + g.funcBody(false, d-1), "Localfunction"}
		case 1:
			return c07gStmt{"function " + Pick(g.r, gGlobals) + g.funcBody(false, d-1), "function"}
		case 2:
			return c07gStmt{"function " + g.anyVar() + "." + Pick(g.r, gFields) + g.funcBody(false, d-1), "function"}
		default:
			return c07gStmt{"function " + g.anyVar() + "." + Pick(g.r, gFields) + ":" + Pick(g.r, gFields) + g.funcBody(true, d-1), "function"}
		}
	case c < 92: // label + backward goto
		f.nlabel++
		l := "L" + strconv.Itoa(f.nlabel) + "_" + strconv.Itoa(len(g.funcs))
		f.labels = append(f.labels, l)
		return c07gStmt{"::" + l + "::", ":label"}
	case c < 96:
		if len(f.labels) > 0 {
			l := Pick(g.r, f.labels)
			if g.r.Chance(50) {
				return c07gStmt{"if " + g.cond(1) + " then goto " + l + " end", "Goto"}
			}
			return c07gStmt{"do goto " + l + " end", "Goto"}
		}
		// forward goto over a nested block (no local declared at this level in between)
		f.nlabel++
		l := "F" + strconv.Itoa(f.nlabel) + "_" + strconv.Itoa(len(g.funcs))
		return c07gStmt{"goto " + l + "\ndo\n" + g.block(d-1, false) + "end\n::" + l + "::", "Goto"}
	case c < 98:
		return c07gStmt{"do " + g.returnStmt(d) + " end", "Return"}
	default:
		if f.loopDepth > 0 {
			return c07gStmt{"do break end", "break"}
		}
		return c07gStmt{"do end", "do"}
	}
}

// c07genProgram: top-level statements of one random program
func c07genProgram(r *Rng) []c07gStmt {
	g := &pgen{r: r, scopes: [][]string{nil}, funcs: []*gFunc{{vararg: true}}}
	g.budget = r.Range(4, 45)
	depth := r.Range(1, 4)
	var out []c07gStmt
	n := r.Range(2, 12)
	for i := 0; i < n && g.budget > 0; i++ {
		st := g.stmt(depth)
		out = append(out, st)
	}
	if r.Chance(30) {
		out = append(out, c07gStmt{g.returnStmt(depth), "Return"})
	}
	return out
}
