package main

// C07: the RK family of the adversarial profile ("adv:rk-…" cases).
//
// Every instruction kind whose operand may be "register or constant" (SELF, GETTABLE/GETTABLEKS, SETTABLE/SETTABLEKS from
// assignments, table constructors and function definition statements, ADD…POW, EQ/LT/LE) or names a constant through Bx
// (LOADK, GETGLOBAL, SETGLOBAL) is EXECUTED — not only compiled — with its constant on each side of the RK limit
// (index ≤ 255: constant operand; 256…511 and ≥ 512: the compiler loads the constant into a register first, which is then a
// register the instruction may also write), for every kind of the other operand / receiver (local, upvalue, global, field
// of a table = temporary, call result = temporary, operator result = temporary, constant) and every kind of destination (table store, fresh local,
// existing local, global, upvalue, call argument, constructor item, branch condition, and the overlapping shapes
// `a = a:m()`, `x = x[k]`, `x = x + K`, `t = t.o:m()`).  Each probe appends its value to a list whose contents are known by
// construction; the list is compared in Go (no Lua-side formatting), the run is under recover, so a Go panic of the VM on
// this compiler output, a wrong operand or a wrong destination are all reported.
//
// A program is `clean` (three sections of all combinations: pool ≤ 255, 256…511, ≥ 512) or `window` (the section is
// shifted so that a seed-chosen / every (thorough) combination sits exactly on the boundary index 255|256 and 511|512).
// The pool size at a point of the program is MEASURED by compiling the prefix with the front end under test, so the
// boundaries are hit without this file having to predict which shared names the compiler interns when.

import (
	"fmt"
	"math"
	"strconv"
	"strings"
	"time"

	lua "github.com/yuin/gopher-lua"
)

type rkOperand struct {
	name               string
	obj, num, cmp, str string // the expression of this kind in the object / number (arithmetic) / number (comparison) / string domain
	fld                [3]string
	id                 string  // what ids[object] says
	nv                 float64 // its number
	sv                 string  // its string
	ref                string  // a variable of `run`'s scope that holds the same object (read-back of stores)
	chain              bool    // a name chain: may prefix the name of a function definition statement / be an assignment target prefix
}

var rkOperands = []rkOperand{
	{name: "loc", obj: "Lo", num: "Ln", cmp: "Ln", str: "Ls", id: "L", nv: 2, sv: "sl", ref: "Lo", chain: true},
	{name: "upv", obj: "Uo", num: "Un", cmp: "Un", str: "Us", id: "U", nv: 4, sv: "su", ref: "Uo", chain: true},
	{name: "glo", obj: "Go", num: "Gn", cmp: "Gn", str: "Gs", id: "G", nv: 8, sv: "sg", ref: "Gref", chain: true},
	{name: "fld", obj: "H.o", num: "H.n", cmp: "H.n", str: "H.s", id: "F", nv: 16, sv: "sf", ref: "Fref", chain: true},
	{name: "call", obj: "geto()", num: "getn()", cmp: "getn()", str: "gets()", id: "C", nv: 32, sv: "sc", ref: "Cref"},
	{name: "expr", obj: "(Uo and Lo)", num: "(Ln + Un)", cmp: "(Ln + Un)", str: "(Ls .. Us)", id: "L", nv: 6, sv: "slsu", ref: "Lo"},
	{name: "con", obj: `("str")`, num: `"64"`, cmp: "64", str: `"sk"`, id: "S", nv: 64, sv: "sk", ref: "Sref"},
}

const rkFld = 3 // index of the "field of a table" operand

func (x rkOperand) expr(dom string) string {
	switch dom {
	case "obj":
		return x.obj
	case "num":
		return x.num
	case "cmp":
		return x.cmp
	}
	return x.str
}

// destinations of an expression probe
const (
	dField  = iota // R[n] = E                     (value of a table store)
	dNewLoc        // local v = E
	dOldLoc        // v0 = E                       (existing local of the function)
	dGlobal        // gres = E
	dUpval         // ures = E
	dArg           // f(n, E)                      (second call argument)
	dItem          // {E}                          (positional constructor item)
	dSelf          // a = E(a)                     (the destination is the operand's own register)
	dCond          // if E then … else … end       (branch condition; comparisons and logical expressions only)
)

var rkDestNames = []string{"field", "newlocal", "oldlocal", "global", "upvalue", "arg", "item", "self", "cond"}

type rkCombo struct {
	x    int    // operand kind (index into rkOperands)
	d    int    // destination kind, or the value kind of a store probe
	opnd string // the operand expression
	pre  string // a declaration the probe needs in front (its own do-block)
}

type rkProg struct {
	body   strings.Builder // body of `run` so far
	want   []string
	fkeys  []string // literals of the field keys every object is given (value: key .. "@" .. id)
	mkeys  []string // literals of the method keys every object is given (result: key .. "/" .. ids[self] .. "/" .. arg)
	gkeys  []string // names of the globals defined before `run` (value: name .. "!")
	next   int      // fresh number: every probe gets its own constants
	sec    int      // section number (rotates operators / variants against the combination list)
	nfill  int
	vararg bool
	strs   bool // filler constants are strings (else numbers)
}

type rkKind struct {
	name   string
	combos []rkCombo
	gen    func(p *rkProg, i int, c rkCombo)
}

func rkLit(v float64) string { return strconv.FormatFloat(v, 'g', -1, 64) }
func rkNum(v float64) string { return lua.LNumber(v).String() }
func rkBool(b bool) string {
	if b {
		return "true"
	}
	return "false"
}

func (p *rkProg) line(code string, want ...string) {
	if strings.HasPrefix(code, "(") {
		code = ";" + code // not a call of the previous statement's value
	}
	p.body.WriteString(code)
	p.body.WriteByte('\n')
	p.want = append(p.want, want...)
}

// expr: one expression probe, its value delivered to destination c.d
func (p *rkProg) expr(c rkCombo, e, want string) {
	var s string
	switch c.d {
	case dField:
		s = "n = n + 1; R[n] = " + e
	case dNewLoc:
		s = "do local v = " + e + "; n = n + 1; R[n] = v end"
	case dOldLoc:
		s = "v0 = " + e + "; n = n + 1; R[n] = v0"
	case dGlobal:
		s = "gres = " + e + "; n = n + 1; R[n] = gres"
	case dUpval:
		s = "ures = " + e + "; n = n + 1; R[n] = ures"
	case dArg:
		s = "do local p, q = f(n, " + e + "); n = n + 1; R[n] = q end"
	case dItem:
		s = "n = n + 1; R[n] = rd({" + e + "}, 1)"
	case dSelf:
		s = "a = " + e + "; n = n + 1; R[n] = a"
	case dCond:
		s = "if " + e + " then v0 = true else v0 = false end; n = n + 1; R[n] = v0"
		want = rkBool(want != "false" && want != "nil")
	}
	if c.pre != "" {
		s = "do " + c.pre + "; " + s + " end"
	}
	p.line(s, want)
}

// rkExprCombos: operand kind × destination kind for an expression probe over one value domain
func rkExprCombos(dom string, cond bool) []rkCombo {
	var cs []rkCombo
	dests := []int{dField, dNewLoc, dOldLoc, dGlobal, dUpval, dArg, dItem}
	if cond {
		dests = append(dests, dCond)
	}
	for xi, x := range rkOperands {
		for _, d := range dests {
			cs = append(cs, rkCombo{x: xi, d: d, opnd: x.expr(dom)})
		}
		cs = append(cs, rkCombo{x: xi, d: dSelf, opnd: "a", pre: "local a = " + x.expr(dom)}) // a = a:m(), x = x[k], x = x + K
	}
	// t = t.o:m(): the destination local holds the table the operand is fetched from
	cs = append(cs, rkCombo{x: rkFld, d: dSelf, opnd: "a" + rkOperands[rkFld].expr(dom)[1:], pre: "local a = H"})
	return cs
}

// the values a store probe stores: each kind of non-constant value, a fresh number constant, a fresh string constant
const rkVals = 7

func rkVal(v, i int) (expr, want string) {
	switch v {
	case 5:
		return strconv.Itoa(i) + ".75", rkNum(float64(i) + 0.75)
	case 6:
		return fmt.Sprintf(`"v%d"`, i), fmt.Sprintf("v%d", i)
	}
	return rkOperands[v].num, rkNum(rkOperands[v].nv)
}

// rkConstTargets: also probe a CONSTANT as the table of an assignment target (`("str").k = v`, stored through the string
// metatable's __newindex).  Off: /repo b47a12e miscompiles that shape (compileAssignStmtLeft lets PropagateKMV turn the
// constant into an RK code, which is then used as the 8-bit REGISTER operand A of SETTABLE(KS): the store goes to an
// unrelated register, a Go nil dereference when that register was never written) — a genuine defect, reported with
// fixes/C07-const-assign-target.diff; switch on once that fix is in the tree.
const rkConstTargets = true

func rkStoreCombos(extra int) []rkCombo {
	var cs []rkCombo
	for xi, x := range rkOperands {
		if x.name == "con" && !rkConstTargets {
			continue
		}
		for v := 0; v < rkVals+extra; v++ {
			cs = append(cs, rkCombo{x: xi, d: v, opnd: x.obj})
		}
	}
	return cs
}

func rkArith(op string, a, b float64) float64 {
	switch op {
	case "+":
		return a + b
	case "-":
		return a - b
	case "*":
		return a * b
	case "/":
		return a / b
	case "%":
		return a - math.Floor(a/b)*b // Lua 5.1 manual §2.5.1
	}
	return math.Pow(a, b)
}

func rkCompare(op string, a, b float64) bool {
	switch op {
	case "<":
		return a < b
	case "<=":
		return a <= b
	case ">":
		return a > b
	case ">=":
		return a >= b
	case "==":
		return a == b
	}
	return a != b
}

var rkArithOps = []string{"+", "-", "*", "/", "%", "^"}
var rkRelOps = []string{"<", "<=", ">", ">=", "==", "~="}

func rkKinds() []rkKind {
	var ks []rkKind
	// ---- SELF: the method name is the constant
	ks = append(ks, rkKind{"self", rkExprCombos("obj", false), func(p *rkProg, i int, c rkCombo) {
		p.mkeys = append(p.mkeys, fmt.Sprintf(`"m%d"`, i))
		switch (i + p.sec) % 3 { // the argument behind the implicit self: a local, a fresh constant (a second LOADK behind the name's), a call
		case 0:
			p.expr(c, fmt.Sprintf("%s:m%d(Ln)", c.opnd, i), fmt.Sprintf("m%d/%s/2", i, rkOperands[c.x].id))
		case 1:
			p.expr(c, fmt.Sprintf(`%s:m%d("a%d")`, c.opnd, i, i), fmt.Sprintf("m%d/%s/a%d", i, rkOperands[c.x].id, i))
		case 2:
			p.expr(c, fmt.Sprintf("%s:m%d(getn(), Ln)", c.opnd, i), fmt.Sprintf("m%d/%s/32", i, rkOperands[c.x].id))
		}
	}})
	// ---- GETTABLEKS / GETTABLE with a constant key
	ks = append(ks, rkKind{"getfield", rkExprCombos("obj", false), func(p *rkProg, i int, c rkCombo) {
		p.fkeys = append(p.fkeys, fmt.Sprintf(`"k%d"`, i))
		p.expr(c, fmt.Sprintf("%s.k%d", c.opnd, i), fmt.Sprintf("k%d@%s", i, rkOperands[c.x].id))
	}})
	ks = append(ks, rkKind{"getindex", rkExprCombos("obj", false), func(p *rkProg, i int, c rkCombo) {
		p.fkeys = append(p.fkeys, fmt.Sprintf("%d.25", i))
		p.expr(c, fmt.Sprintf("%s[%d.25]", c.opnd, i), fmt.Sprintf("%d.25@%s", i, rkOperands[c.x].id))
	}})
	// ---- ADD … POW, constant on the right / on the left (dyadic constants: + - * % are exact)
	ks = append(ks, rkKind{"arith-right", rkExprCombos("num", false), func(p *rkProg, i int, c rkCombo) {
		op, k := rkArithOps[(i+p.sec)%6], (float64(i)+0.5)/64
		if rkOperands[c.x].name == "con" && c.d != dSelf && (i/6)%2 == 1 {
			// both operands fresh constants (a numeral string is not folded): two LOADKs, B and C both temporaries beyond 255
			p.expr(c, fmt.Sprintf(`"%d.5" %s %s`, i, op, rkLit(k)), rkNum(rkArith(op, float64(i)+0.5, k)))
			return
		}
		p.expr(c, fmt.Sprintf("%s %s %s", c.opnd, op, rkLit(k)), rkNum(rkArith(op, rkOperands[c.x].nv, k)))
	}})
	ks = append(ks, rkKind{"arith-left", rkExprCombos("num", false), func(p *rkProg, i int, c rkCombo) {
		op, k := rkArithOps[(i+p.sec)%6], (float64(i)+0.125)/16
		p.expr(c, fmt.Sprintf("%s %s %s", rkLit(k), op, c.opnd), rkNum(rkArith(op, k, rkOperands[c.x].nv)))
	}})
	// ---- EQ / LT / LE, both operand orders, both outcomes, value and branch context
	ks = append(ks, rkKind{"compare", rkExprCombos("cmp", true), func(p *rkProg, i int, c rkCombo) {
		j := i + p.sec
		op, k := rkRelOps[j%6], float64(i)+0.375
		if (j/12)%2 == 1 {
			k = -k
		}
		if (j/6)%2 == 1 {
			p.expr(c, fmt.Sprintf("%s %s %s", rkLit(k), op, c.opnd), rkBool(rkCompare(op, k, rkOperands[c.x].nv)))
		} else {
			p.expr(c, fmt.Sprintf("%s %s %s", c.opnd, op, rkLit(k)), rkBool(rkCompare(op, rkOperands[c.x].nv, k)))
		}
	}})
	ks = append(ks, rkKind{"compare-string", rkExprCombos("str", true), func(p *rkProg, i int, c rkCombo) {
		j := i + p.sec
		op := []string{"==", "~=", "<", ">="}[j%4]
		k := fmt.Sprintf("q%d", i) // "q…" < "s…"
		res := map[string]bool{"==": false, "~=": true, "<": false, ">=": true}[op]
		if (j/4)%2 == 1 {
			p.expr(c, fmt.Sprintf(`"%s" %s %s`, k, op, c.opnd), rkBool(map[string]bool{"==": false, "~=": true, "<": true, ">=": false}[op]))
		} else {
			p.expr(c, fmt.Sprintf(`%s %s "%s"`, c.opnd, op, k), rkBool(res))
		}
	}})
	// ---- constants that are always loaded (LOADK Bx): concatenation, logical operators, plain values, unary operators, for bounds
	ks = append(ks, rkKind{"concat", rkExprCombos("str", false), func(p *rkProg, i int, c rkCombo) {
		if (i+p.sec)%2 == 1 {
			p.expr(c, fmt.Sprintf(`"z%d" .. %s`, i, c.opnd), fmt.Sprintf("z%d%s", i, rkOperands[c.x].sv))
		} else {
			p.expr(c, fmt.Sprintf(`%s .. "z%d"`, c.opnd, i), fmt.Sprintf("%sz%d", rkOperands[c.x].sv, i))
		}
	}})
	ks = append(ks, rkKind{"logic", rkExprCombos("str", true), func(p *rkProg, i int, c rkCombo) {
		switch (i + p.sec) % 4 {
		case 0:
			p.expr(c, fmt.Sprintf(`%s and "o%d" or %s`, c.opnd, i, c.opnd), fmt.Sprintf("o%d", i))
		case 1:
			p.expr(c, fmt.Sprintf(`not %s or "o%d"`, c.opnd, i), fmt.Sprintf("o%d", i))
		case 2:
			p.expr(c, fmt.Sprintf(`%s == "o%d" or %s`, c.opnd, i, c.opnd), rkOperands[c.x].sv)
		case 3:
			p.expr(c, fmt.Sprintf(`%s ~= "o%d" and "p%d"`, c.opnd, i, i), fmt.Sprintf("p%d", i))
		}
	}})
	ks = append(ks, rkKind{"loadk", rkExprCombos("str", false), func(p *rkProg, i int, c rkCombo) {
		switch (c.x + p.sec) % 7 { // the operand kind only selects the variant here
		case 0:
			p.expr(c, fmt.Sprintf(`"y%d"`, i), fmt.Sprintf("y%d", i))
		case 1:
			p.expr(c, fmt.Sprintf("%d.625", i), rkNum(float64(i)+0.625))
		case 2:
			p.expr(c, fmt.Sprintf(`#"yy%d"`, i), strconv.Itoa(len(fmt.Sprintf("yy%d", i))))
		case 3:
			p.expr(c, fmt.Sprintf(`-"%d.625"`, i), rkNum(-(float64(i) + 0.625)))
		case 4:
			p.expr(c, fmt.Sprintf(`not "w%d"`, i), "false")
		case 5:
			p.expr(c, fmt.Sprintf(`("w%d")`, i), fmt.Sprintf("w%d", i))
		case 6:
			p.line(fmt.Sprintf("for j = %d.625, %d.625 do n = n + 1; R[n] = j end", i, i), rkNum(float64(i)+0.625))
		}
	}})
	// ---- GETGLOBAL Bx
	var gg []rkCombo
	for rep := 0; rep < 3; rep++ {
		for _, d := range []int{dField, dNewLoc, dOldLoc, dGlobal, dUpval, dArg, dItem, dCond} {
			gg = append(gg, rkCombo{d: d})
		}
	}
	ks = append(ks, rkKind{"getglobal", gg, func(p *rkProg, i int, c rkCombo) {
		p.gkeys = append(p.gkeys, fmt.Sprintf(`"gg%d"`, i))
		p.expr(c, fmt.Sprintf("gg%d", i), fmt.Sprintf("gg%d!", i))
	}})
	// ---- table constructor: SETTABLEKS / SETTABLE with constant key, constant value, register key, register value
	var cc []rkCombo
	for xi, x := range rkOperands {
		for _, d := range []int{dNewLoc, dGlobal, dArg} {
			cc = append(cc, rkCombo{x: xi, d: d, opnd: x.cmp})
		}
	}
	ks = append(ks, rkKind{"constructor", cc, func(p *rkProg, i int, c rkCombo) {
		x := rkOperands[c.x]
		tb := fmt.Sprintf(`{k%d = %s, sv = "c%d", [%d.5] = %s, [%s] = %d.75, [%d.125] = "d%d"}`, i, c.opnd, i, i, c.opnd, c.opnd, i, i, i)
		rd := fmt.Sprintf(`n = n + 1; R[n] = rd(t, "k%d"); n = n + 1; R[n] = t.sv; n = n + 1; R[n] = rd(t, %d.5); n = n + 1; R[n] = rd(t, %s); n = n + 1; R[n] = rd(t, %d.125)`, i, i, rkLit(x.nv), i)
		var s string
		switch c.d {
		case dNewLoc:
			s = "do local t = " + tb + "; " + rd + " end"
		case dGlobal:
			s = "gres = " + tb + "; do local t = gres; " + rd + " end"
		case dArg:
			s = "do local p, t = f(n, " + tb + "); " + rd + " end"
		}
		p.line(s, rkNum(x.nv), fmt.Sprintf("c%d", i), rkNum(x.nv), rkNum(float64(i)+0.75), fmt.Sprintf("d%d", i))
	}})
	// ---- assignments to a field / an index: SETTABLEKS / SETTABLE (key always in a register, value RK)
	ks = append(ks, rkKind{"setfield", rkStoreCombos(2), func(p *rkProg, i int, c rkCombo) {
		x := rkOperands[c.x]
		switch c.d {
		case rkVals: // multiple assignment with a local among the targets
			p.line(fmt.Sprintf(`%s.s%d, v0 = Ln, "w%d"; n = n + 1; R[n] = rd(%s, "s%d"); n = n + 1; R[n] = v0`, c.opnd, i, i, x.ref, i), "2", fmt.Sprintf("w%d", i))
		case rkVals + 1: // multiple assignment, table targets only
			p.line(fmt.Sprintf(`%s.s%d, %s.t%d = Un, "w%d"; n = n + 1; R[n] = rd(%s, "s%d"); n = n + 1; R[n] = rd(%s, "t%d")`, c.opnd, i, c.opnd, i, i, x.ref, i, x.ref, i), "4", fmt.Sprintf("w%d", i))
		default:
			v, w := rkVal(c.d, i)
			p.line(fmt.Sprintf(`%s.s%d = %s; n = n + 1; R[n] = rd(%s, "s%d")`, c.opnd, i, v, x.ref, i), w)
		}
	}})
	ks = append(ks, rkKind{"setindex", rkStoreCombos(2), func(p *rkProg, i int, c rkCombo) {
		x := rkOperands[c.x]
		switch c.d {
		case rkVals: // key in a local, constant value
			p.line(fmt.Sprintf(`%s[Ln] = %d.75; n = n + 1; R[n] = rd(%s, 2)`, c.opnd, i, x.ref), rkNum(float64(i)+0.75))
		case rkVals + 1: // key from a call, constant value
			p.line(fmt.Sprintf(`%s[gets()] = "w%d"; n = n + 1; R[n] = rd(%s, "sc")`, c.opnd, i, x.ref), fmt.Sprintf("w%d", i))
		default:
			v, w := rkVal(c.d, i)
			p.line(fmt.Sprintf(`%s[%d.5] = %s; n = n + 1; R[n] = rd(%s, %d.5)`, c.opnd, i, v, x.ref, i), w)
		}
	}})
	// ---- function definition statements: the last name is a constant key (loadRk for methods)
	var fc []rkCombo
	for rep := 0; rep < 2; rep++ {
		for xi, x := range rkOperands {
			if x.chain {
				for v := 0; v < 3; v++ {
					fc = append(fc, rkCombo{x: xi, d: v, opnd: x.obj})
				}
			}
		}
	}
	ks = append(ks, rkKind{"funcdef", fc, func(p *rkProg, i int, c rkCombo) {
		x := rkOperands[c.x]
		switch c.d {
		case 0:
			p.line(fmt.Sprintf(`function %s:d%d(b) return ids[self] end; n = n + 1; R[n] = rd(%s, "d%d")(%s)`, c.opnd, i, x.ref, i, x.ref), x.id)
		case 1:
			p.line(fmt.Sprintf(`function %s.e%d(b) return b end; n = n + 1; R[n] = rd(%s, "e%d")(Ln)`, c.opnd, i, x.ref, i), "2")
		case 2: // a longer chain: the receiver of the method is itself fetched with a constant key
			p.line(fmt.Sprintf(`%s.sub%d = {}; function %s.sub%d:d%d(b) return b end; n = n + 1; R[n] = rd(rd(%s, "sub%d"), "d%d")(Ln, Un)`, c.opnd, i, c.opnd, i, i, x.ref, i, i), "4")
		}
	}})
	// ---- SETGLOBAL Bx
	var sg []rkCombo
	for rep := 0; rep < 3; rep++ {
		for v := 0; v < rkVals+1; v++ {
			sg = append(sg, rkCombo{d: v})
		}
	}
	ks = append(ks, rkKind{"setglobal", sg, func(p *rkProg, i int, c rkCombo) {
		if c.d == rkVals {
			p.line(fmt.Sprintf(`gs%d, gt%d = Ls, "w%d"; n = n + 1; R[n] = rd(_G, "gs%d"); n = n + 1; R[n] = rd(_G, "gt%d")`, i, i, i, i, i), "sl", fmt.Sprintf("w%d", i))
			return
		}
		v, w := rkVal(c.d, i)
		p.line(fmt.Sprintf(`gs%d = %s; n = n + 1; R[n] = rd(_G, "gs%d")`, i, v, i), w)
	}})
	return ks
}

// ---------------------------------------------------------------------------------------------------------------------

const rkUpvalues = "local ids, Uo, Un, Us, Gref, Fref, H, Cref, geto, getn, gets, Sref, rd, ures\n"

func (p *rkProg) open() string {
	if p.vararg {
		return "local function run(Lo, Ln, Ls, ...)\nlocal R, n, v0 = {}, 0, nil\n"
	}
	return "local function run(Lo, Ln, Ls)\nlocal R, n, v0 = {}, 0, nil\n"
}

// measure: the size of `run`'s constant pool when its body is the text generated so far (-1: the prefix does not compile)
func (p *rkProg) measure() int {
	src := rkUpvalues + p.open() + p.body.String() + "return R\nend\n"
	ch := make(chan int, 1)
	go func() {
		pr, kind, _ := compileSrc(src)
		if kind != "" || pr == nil || len(pr.FunctionPrototypes) == 0 {
			ch <- -1
			return
		}
		ch <- len(pr.FunctionPrototypes[len(pr.FunctionPrototypes)-1].Constants)
	}()
	select {
	case n := <-ch:
		return n
	case <-time.After(20 * time.Second):
		return -1
	}
}

func (p *rkProg) section(k *rkKind) {
	p.sec++
	p.line(fmt.Sprintf("-- section %d", p.sec))
	for _, c := range k.combos {
		p.next++
		k.gen(p, p.next, c)
	}
}

// fillTo: filler constants so that the next new constant of `run` gets index `target`
func (p *rkProg) fillTo(target int) {
	have := p.measure()
	n := target - have
	if have < 0 {
		n = 300 // the front end under test rejects the prefix: whatever happens to the whole program is reported by the executor
	}
	if n <= 0 {
		return
	}
	var sb strings.Builder
	sb.WriteString("do local filler = {")
	for j := 0; j < n; j++ {
		p.nfill++
		if p.strs {
			fmt.Fprintf(&sb, `"F%d", `, p.nfill)
		} else {
			fmt.Fprintf(&sb, "%d, ", 1000000+p.nfill)
		}
		if j%20 == 19 {
			sb.WriteByte('\n')
		}
	}
	sb.WriteString("} end")
	p.line(sb.String())
}

func rkList(xs []string) string {
	var sb strings.Builder
	for i, x := range xs {
		sb.WriteString(x)
		sb.WriteString(", ")
		if i%20 == 19 {
			sb.WriteByte('\n')
		}
	}
	return sb.String()
}

// source: the whole chunk — objects with every key the probes use, the operands of every kind, then `run`
func (p *rkProg) source() string {
	var sb strings.Builder
	sb.WriteString("local ids = {}\n")
	sb.WriteString("local function fill(o, id)\nids[o] = id\nlocal ks = {" + rkList(p.fkeys) + "}\n" +
		"for i = 1, #ks do local k = ks[i]; o[k] = k .. \"@\" .. id end\n" +
		"local ms = {" + rkList(p.mkeys) + "}\n" +
		"for i = 1, #ms do local k = ms[i]; o[k] = function(self, a) return k .. \"/\" .. (ids[self] or \"?\") .. \"/\" .. a end end\n" +
		"return o\nend\n")
	sb.WriteString("local function globals()\nlocal gs = {" + rkList(p.gkeys) + "}\nfor i = 1, #gs do _G[gs[i]] = gs[i] .. \"!\" end\nend\nglobals()\n")
	sb.WriteString("local Uo, Un, Us = fill({}, \"U\"), 4, \"su\"\n")
	sb.WriteString("Go, Gn, Gs = fill({}, \"G\"), 8, \"sg\"\nlocal Gref = Go\n")
	sb.WriteString("local Fref = fill({}, \"F\")\nlocal H = {o = Fref, n = 16, s = \"sf\"}\n")
	sb.WriteString("local Cref = fill({}, \"C\")\nlocal function geto() return Cref end\nlocal function getn() return 32 end\nlocal function gets() return \"sc\" end\n")
	sb.WriteString("local Sref = fill({}, \"S\")\nids[\"str\"] = \"S\"\nsetmeta(\"str\", {__index = Sref, __newindex = Sref})\n")
	sb.WriteString("local function rd(o, k) return o[k] end\nlocal ures\n")
	sb.WriteString(p.open())
	sb.WriteString(p.body.String())
	sb.WriteString("return \"@list\", R, n\nend\n")
	if p.vararg {
		sb.WriteString("return run(fill({}, \"L\"), 2, \"sl\", 91, 92, 93)\n")
	} else {
		sb.WriteString("return run(fill({}, \"L\"), 2, \"sl\")\n")
	}
	return sb.String()
}

func (p *rkProg) expect() string { return "ok:" + strings.Join(p.want, ";") }

// rkClean: all combinations with the pool ≤ 255, then 256…511, then ≥ 512
func rkClean(k *rkKind, strs bool) *rkProg {
	p := &rkProg{strs: strs, vararg: strs}
	p.section(k)
	p.fillTo(256)
	p.section(k)
	p.fillTo(512)
	p.section(k)
	return p
}

// rkSectionSize: how many constants one section of the kind adds
func rkSectionSize(k *rkKind) int {
	p := &rkProg{}
	a := p.measure()
	p.section(k)
	b := p.measure()
	if a < 0 || b <= a {
		return len(k.combos)
	}
	return b - a
}

// rkWindow: the section starts r constants below the boundary, once for 255|256 and once for 511|512
func rkWindow(k *rkKind, strs bool, r int) *rkProg {
	p := &rkProg{strs: strs, vararg: !strs}
	p.fillTo(256 - r)
	p.section(k)
	p.fillTo(512 - r)
	p.section(k)
	return p
}

// rkGrid: quick = per kind 2 clean programs (number / string fillers; plain / vararg function) and 2 window programs at
// seed-chosen offsets; full = the window at every offset
func rkGrid(r *Rng, full bool) []advCase {
	var g []advCase
	add := func(name string, p *rkProg) {
		src := p.source()
		g = append(g, advCase{name: name, expect: p.expect(), src: func() string { return src }})
	}
	kinds := rkKinds()
	for ki := range kinds {
		k := &kinds[ki]
		add("rk-"+k.name+"-clean-numbers", rkClean(k, false))
		add("rk-"+k.name+"-clean-strings", rkClean(k, true))
		size := rkSectionSize(k)
		if full {
			for off := 1; off <= size; off++ {
				add(fmt.Sprintf("rk-%s-window-%d", k.name, off), rkWindow(k, off%2 == 0, off))
			}
		} else {
			kr := r.Fork(uint64(ki))
			for i := 0; i < 2; i++ {
				off := 1 + kr.Intn(size)
				add(fmt.Sprintf("rk-%s-window-%d", k.name, off), rkWindow(k, i == 1, off))
			}
		}
	}
	return g
}
