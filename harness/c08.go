package main

// C08: loading arbitrary bytes ends in a function or a syntax error, never a crash; layout is irrelevant.
//
// Streams (all seeded):
//   bytes   random bytes / token soup / mutated + truncated programs      → L lex (outcome + token stream)
//   prog    generated valid programs in ≥ 7 layouts                        → L lex 1 per layout + Impl-vs-Impl
//                                                                           proto equality (modulo lines) + traces
//   trunc   one generated program cut at every byte offset                 → L lex per prefix
//   num     numerals                                                       → L num
//   deep    nesting up to depth 10^4                                       → outcome only (+ L lex when small)
//   file    LoadFile with / without `#` first line vs LoadString           → Impl vs Impl
//   lexfile the .lua files shipped with the repository                     → L lex
// A Go panic escaping LoadString / LoadFile / Scan, or a timeout, is an `X` line (violation outright).

import (
	"encoding/hex"
	"fmt"
	"os"
	"path/filepath"
	"regexp"
	"sort"
	"strconv"
	"strings"
	"time"

	lua "github.com/yuin/gopher-lua"
	"github.com/yuin/gopher-lua/parse"
)

const c08Timeout = 30 * time.Second

type c08Loaded struct {
	outcome string // fn | err | PANIC | TIMEOUT
	msg     string
	proto   *lua.FunctionProto
}

// c08Load runs the real LoadString under recover + timeout.
func c08Load(src string) c08Loaded {
	ch := make(chan c08Loaded, 1)
	go func() {
		var res c08Loaded
		defer func() {
			if r := recover(); r != nil {
				res = c08Loaded{outcome: "PANIC", msg: fmt.Sprint(r)}
			}
			ch <- res
		}()
		L := lua.NewState(lua.Options{SkipOpenLibs: true})
		defer L.Close()
		fn, err := L.LoadString(src)
		if err != nil {
			res = c08Loaded{outcome: "err", msg: err.Error()}
			if ae, ok := err.(*lua.ApiError); !ok || ae.Type != lua.ApiErrorSyntax {
				res.outcome = "PANIC"
				res.msg = "error value is not an ApiErrorSyntax: " + err.Error()
			}
			return
		}
		if fn == nil || fn.Proto == nil {
			res = c08Loaded{outcome: "PANIC", msg: "nil function without error"}
			return
		}
		res = c08Loaded{outcome: "fn", proto: fn.Proto}
	}()
	select {
	case r := <-ch:
		return r
	case <-hangAfter(c08Timeout):
		noteHang()
		return c08Loaded{outcome: "TIMEOUT"}
	}
}

// c08Tokens drives the real scanner the way Lexer.Lex does and renders the stream for the wire.
func c08Tokens(src string) (toks []string, panicked string) {
	defer func() {
		if r := recover(); r != nil {
			panicked = fmt.Sprint(r)
		}
	}()
	sc := parse.NewScanner(strings.NewReader(src), "<string>")
	lx := &parse.Lexer{PrevTokenType: parse.TNil}
	for i := 0; i <= len(src)+1; i++ {
		lx.PrevTokenType = lx.Token.Type
		tok, err := sc.Scan(lx)
		if err != nil {
			if pe, ok := err.(*parse.Error); ok {
				toks = append(toks, fmt.Sprintf("E:%s:%s:%d:%d", hex.EncodeToString([]byte(pe.Message)), hex.EncodeToString([]byte(pe.Token)), pe.Pos.Line, pe.Pos.Column))
			} else {
				toks = append(toks, "E:"+hex.EncodeToString([]byte(err.Error()))+"::0:0")
			}
			return
		}
		pnl := 0
		if lx.PNewLine {
			pnl = 1
		}
		toks = append(toks, fmt.Sprintf("%d:%s:%d:%d:%d", tok.Type, hex.EncodeToString([]byte(tok.Str)), tok.Pos.Line, tok.Pos.Column, pnl))
		if tok.Type < 0 {
			return
		}
		lx.Token = tok
	}
	panicked = "scanner produced more tokens than input bytes (no progress)"
	return
}

func hexOrDash(b []byte) string {
	if len(b) == 0 {
		return "-"
	}
	return hex.EncodeToString(b)
}

// c08LexLines: the request line(s) for one input.
func c08LexLines(input []byte, valid string) ([]string, c08Loaded) {
	src := string(input)
	ld := c08Load(src)
	var out []string
	if ld.outcome == "PANIC" || ld.outcome == "TIMEOUT" {
		out = append(out, fmt.Sprintf("X load-%s => %s %s", strings.ToLower(ld.outcome), hexOrDash(input), strings.ReplaceAll(ld.msg, "\n", " ")))
		return out, ld
	}
	// "never depends on anything but the bytes": loading the same bytes again gives the same error text / the same
	// prototype (a Go map walked in its random order inside the front end shows here)
	if len(src) <= 4096 {
		again := 2
		if strings.Contains(src, "goto") || strings.Contains(src, "::") {
			again = 6
		}
		fp := func(l c08Loaded) string {
			if l.outcome == "fn" && l.proto != nil {
				var sb strings.Builder
				dumpProto(l.proto, &sb, true)
				return "fn " + sb.String()
			}
			return l.outcome + " " + l.msg
		}
		first := fp(ld)
		for i := 0; i < again; i++ {
			if nx := fp(c08Load(src)); nx != first {
				if len(first) > 300 {
					first = first[:300]
				}
				if len(nx) > 300 {
					nx = nx[:300]
				}
				out = append(out, fmt.Sprintf("X load-nondeterministic => %s first=%s again=%s", hexOrDash(input), strings.ReplaceAll(first, " ", "_"), strings.ReplaceAll(nx, " ", "_")))
				return out, ld
			}
		}
	}
	toks, p := c08Tokens(src)
	if p != "" {
		out = append(out, fmt.Sprintf("X scan-panic => %s %s", hexOrDash(input), strings.ReplaceAll(p, "\n", " ")))
		return out, ld
	}
	out = append(out, "L lex "+valid+" "+hexOrDash(input)+" => "+ld.outcome+" "+strings.Join(toks, " "))
	return out, ld
}

// dumpProto: everything the VM executes and the debugger names, without line information.
func dumpProto(p *lua.FunctionProto, sb *strings.Builder, lines bool) {
	fmt.Fprintf(sb, "{np=%d va=%d nu=%d nr=%d code=", p.NumParameters, p.IsVarArg, p.NumUpvalues, p.NumUsedRegisters)
	for _, c := range p.Code {
		fmt.Fprintf(sb, "%08x,", c)
	}
	sb.WriteString(" k=")
	for _, k := range p.Constants {
		switch v := k.(type) {
		case lua.LNumber:
			sb.WriteString(encNum(float64(v)))
		case lua.LString:
			sb.WriteString("s" + hex.EncodeToString([]byte(string(v))))
		default:
			sb.WriteString("?" + k.String())
		}
		sb.WriteByte(',')
	}
	sb.WriteString(" loc=")
	for _, l := range p.DbgLocals {
		fmt.Fprintf(sb, "%s:%d:%d,", l.Name, l.StartPc, l.EndPc)
	}
	sb.WriteString(" up=" + strings.Join(p.DbgUpvalues, ","))
	sb.WriteString(" calls=")
	for _, c := range p.DbgCalls {
		fmt.Fprintf(sb, "%s:%d,", c.Name, c.Pc)
	}
	if lines {
		fmt.Fprintf(sb, " lines=%d-%d:%v", p.LineDefined, p.LastLineDefined, p.DbgSourcePositions)
	}
	for _, f := range p.FunctionPrototypes {
		dumpProto(f, sb, lines)
	}
	sb.WriteByte('}')
}

var c08PosRe = regexp.MustCompile(`<string>:\d+:`)

func c08Trace(src string) string {
	o := RunLua(src, 5*time.Second, nil)
	msg := o.Msg
	if i := strings.Index(msg, "\nstack traceback"); i >= 0 {
		msg = msg[:i]
	}
	msg = c08PosRe.ReplaceAllString(msg, "<string>:N:")
	if o.Err == "" {
		msg = ""
	}
	return strings.Join(o.Emits, ";") + " | " + strings.Join(o.Results, ",") + " | " + o.Err + " " + msg
}

type c08Variant struct {
	name string
	src  string
}

func c08Variants(seed uint64, size int) ([]c08Variant, map[string]int) {
	r := NewRng(seed)
	body, hist := c08genProgram(r.Fork(1), size)
	canon := renderProgram(body, nil, 0, false, false)
	vs := []c08Variant{
		{"canon", layout(canon, "canon", nil)},
		{"min", layout(canon, "min", r.Fork(2))},
		{"crlf", layout(canon, "crlf", nil)},
		{"cr", layout(canon, "cr", nil)},
		{"lfcr", layout(canon, "lfcr", nil)},
		{"rand-blanks", layout(canon, "rand", r.Fork(3))},
		{"parens", layout(renderProgram(body, r.Fork(4), 30, false, false), "canon", nil)},
		{"literals", layout(renderProgram(body, r.Fork(5), 0, true, true), "canon", nil)},
		{"rand-all", layout(renderProgram(body, r.Fork(6), 20, true, true), "rand", r.Fork(7))},
		{"min-all", layout(renderProgram(body, r.Fork(8), 15, true, true), "min", r.Fork(9))},
	}
	// the scanner reads through a 4096-byte buffer and looks one byte ahead at every line end: the same texts
	// shifted by leading blanks so that a two-byte line end straddles the end of the first buffer fill
	// (blanks before the first token change neither the tokens nor their lines)
	ar := r.Fork(10)
	for _, bi := range []int{2, 4, 8} { // crlf, lfcr, rand-all
		if a := alignTwoByteLineEnd(vs[bi].src, ar, 4095); a != "" {
			vs = append(vs, c08Variant{vs[bi].name + "-straddle", a})
		}
	}
	return vs, hist
}

// alignTwoByteLineEnd prefixes src with blanks so that the first byte of one of its CR LF / LF CR pairs lands on
// byte offset `at` (the last byte of a buffer fill); "" when src has no such pair before that offset.
func alignTwoByteLineEnd(src string, r *Rng, at int) string {
	var pos []int
	for i := 0; i+1 < len(src) && i <= at; i++ {
		if (src[i] == '\r' && src[i+1] == '\n') || (src[i] == '\n' && src[i+1] == '\r') {
			pos = append(pos, i)
			i++
		}
	}
	if len(pos) == 0 {
		return ""
	}
	i := pos[r.Intn(len(pos))]
	return strings.Repeat(" ", at-i) + src
}

func c08Prog(seed uint64, size int, run bool) []string {
	vs, _ := c08Variants(seed, size)
	var out []string
	ref, refTrace := "", ""
	for i, v := range vs {
		lines, ld := c08LexLines([]byte(v.src), "1")
		out = append(out, lines...)
		if ld.outcome != "fn" {
			continue // reported through the L line (Spec: a generated program must load) or the X line
		}
		var sb strings.Builder
		dumpProto(ld.proto, &sb, false)
		tr := ""
		if run {
			tr = c08Trace(v.src)
		}
		if i == 0 {
			ref, refTrace = sb.String(), tr
			// generated programs are bounded by construction: a Go panic escaping the protected call or a
			// non-terminating run is a defect of the implementation (DoString = LoadString + PCall)
			if strings.Contains(tr, " | gopanic ") || strings.Contains(tr, " | timeout ") {
				out = append(out, fmt.Sprintf("X dostring-panic-or-hang => %q src=%s", tr[strings.LastIndex(tr, " | "):], hex.EncodeToString([]byte(v.src))))
			}
			continue
		}
		if ref == "" {
			continue
		}
		if sb.String() != ref {
			out = append(out, fmt.Sprintf("X layout-proto => variant=%s differs from canon; canon=%s variant=%s", v.name, hex.EncodeToString([]byte(vs[0].src)), hex.EncodeToString([]byte(v.src))))
		} else if run && tr != refTrace {
			out = append(out, fmt.Sprintf("X layout-trace => variant=%s canon-trace=%q variant-trace=%q src=%s", v.name, refTrace, tr, hex.EncodeToString([]byte(v.src))))
		}
	}
	return out
}

// c08File: LoadFile (with the `#` first-line skip) against LoadString of the same text with the first line
// turned into a comment; line tables included (the skipped line still counts as line 1).
func c08File(content []byte, dir string, idx int) []string {
	p := filepath.Join(dir, fmt.Sprintf("c%d.lua", idx))
	if err := os.WriteFile(p, content, 0o644); err != nil {
		return []string{"X file-write => " + err.Error()}
	}
	defer os.Remove(p)
	type res struct {
		outcome, dump string
	}
	loadFile := func() (r res) {
		defer func() {
			if x := recover(); x != nil {
				r = res{outcome: "PANIC " + fmt.Sprint(x)}
			}
		}()
		L := lua.NewState(lua.Options{SkipOpenLibs: true})
		defer L.Close()
		fn, err := L.LoadFile(p)
		if err != nil {
			return res{outcome: "err"}
		}
		var sb strings.Builder
		dumpProto(fn.Proto, &sb, true)
		return res{"fn", sb.String()}
	}
	got := loadFile()
	equiv := string(content)
	if len(content) > 0 && content[0] == '#' {
		// the reference loader drops the first line up to (not including) its line feed
		i := strings.IndexByte(equiv, '\n')
		if i < 0 {
			equiv = ""
		} else {
			equiv = equiv[i:]
		}
	}
	ld := c08Load(equiv)
	want := res{outcome: ld.outcome}
	if ld.outcome == "fn" {
		var sb strings.Builder
		dumpProto(ld.proto, &sb, true)
		want.dump = sb.String()
	}
	if strings.HasPrefix(got.outcome, "PANIC") {
		return []string{"X loadfile-panic => " + hexOrDash(content) + " " + got.outcome}
	}
	// the Lua-level loaders see the same bytes and must come to the same result: loadfile(path) as LState.LoadFile;
	// loadstring(text) and load(reader) — the text handed over in pieces cut at arbitrary points — as LState.LoadString
	if lf := c08LuaLoaders(content, p, idx); lf != "" {
		return []string{lf}
	}
	if got != want {
		return []string{fmt.Sprintf("X loadfile-differs => content=%s LoadFile=%s LoadString(first line dropped)=%s", hexOrDash(content), got.outcome, want.outcome)}
	}
	return []string{"L lex 0 " + hexOrDash([]byte(equiv)) + " => " + ld.outcome + " " + func() string { t, _ := c08Tokens(equiv); return strings.Join(t, " ") }()}
}

// c08LuaLoaders: "" when loadfile / loadstring / load agree with the Go-level loaders on this content.
func c08LuaLoaders(content []byte, path string, idx int) (diff string) {
	defer func() {
		if x := recover(); x != nil {
			diff = "X lua-loader-panic => " + hexOrDash(content) + " " + strings.ReplaceAll(fmt.Sprint(x), "\n", " ")
		}
	}()
	L := lua.NewState()
	defer L.Close()
	dump := func(v lua.LValue) string {
		fn, ok := v.(*lua.LFunction)
		if !ok || fn.Proto == nil {
			return "err"
		}
		var sb strings.Builder
		dumpProto(fn.Proto, &sb, true)
		return "fn " + sb.String()
	}
	call := func(name string, args ...lua.LValue) string {
		if err := L.CallByParam(lua.P{Fn: L.GetGlobal(name), NRet: 1, Protect: true}, args...); err != nil {
			return "raised " + err.Error()
		}
		v := L.Get(-1)
		L.Pop(1)
		return dump(v)
	}
	want := "err"
	if fn, err := L.LoadFile(path); err == nil {
		want = dump(fn)
	}
	if got := call("loadfile", lua.LString(path)); got != want {
		return fmt.Sprintf("X loadfile-lua-differs => content=%s loadfile=%.40s LState.LoadFile=%.40s", hexOrDash(content), got, want)
	}
	text := string(content)
	want = "err"
	if fn, err := L.LoadString(text); err == nil {
		want = dump(fn)
	}
	if got := call("loadstring", lua.LString(text)); got != want {
		return fmt.Sprintf("X loadstring-lua-differs => content=%s loadstring=%.40s LState.LoadString=%.40s", hexOrDash(content), got, want)
	}
	// load(reader): pieces cut at seeded points (single bytes, halves, everything at once); the reader ends with nil
	r := NewRng(uint64(idx)*2654435761 + uint64(len(content)))
	var pieces []string
	for rest := text; len(rest) > 0; {
		n := 1 + r.Intn(len(rest))
		if r.Chance(30) {
			n = 1
		}
		pieces, rest = append(pieces, rest[:n]), rest[n:]
	}
	i := 0
	reader := L.NewFunction(func(L *lua.LState) int {
		if i >= len(pieces) {
			return 0
		}
		L.Push(lua.LString(pieces[i]))
		i++
		return 1
	})
	if got := call("load", reader, lua.LString("<string>")); got != want {
		return fmt.Sprintf("X load-reader-differs => content=%s pieces=%d load=%.40s LState.LoadString=%.40s", hexOrDash(content), len(pieces), got, want)
	}
	return ""
}

func c08Deep(kind string, n int) string {
	rep := strings.Repeat
	switch kind {
	case "paren":
		return "return " + rep("(", n) + "1" + rep(")", n)
	case "table":
		return "return " + rep("{", n) + rep("}", n)
	case "func":
		return rep("function f() ", n) + rep(" end", n)
	case "funcx":
		return "return " + rep("function() return ", n) + "1" + rep(" end", n)
	case "unm":
		return "return " + rep("- ", n) + "x"
	case "not":
		return "return " + rep("not ", n) + "x"
	case "concat":
		return "return x" + rep("..x", n)
	case "pow":
		return "return x" + rep("^x", n)
	case "do":
		return rep("do ", n) + rep(" end", n)
	case "if":
		return rep("if x then ", n) + rep(" end", n)
	case "while":
		return rep("while x do ", n) + rep(" end", n)
	case "repeat":
		return rep("repeat ", n) + rep(" until x", n)
	case "call":
		return "return " + rep("f(", n) + rep(")", n)
	case "index":
		return "return x" + rep("[1]", n)
	case "elseif":
		return "if x then " + rep(" elseif x then ", n) + " end"
	case "openparen":
		return rep("(", n)
	case "opentable":
		return "x=" + rep("{", n)
	case "openfunc":
		return rep("function f() ", n)
	case "locals":
		return "local a" + rep(",a", n)
	case "args":
		return "f(1" + rep(",1", n) + ")"
	case "tbl":
		return "x={1" + rep(",1", n) + "}"
	case "bracket":
		return "x=[" + rep("=", n) + "[a]" + rep("=", n) + "]"
	case "comment":
		return "--[" + rep("=", n) + "[a]" + rep("=", n-1) + "]"
	case "and":
		return "return x" + rep(" and x", n)
	case "method":
		return "return x" + rep(":m()", n)
	case "tblnest":
		return "x=" + rep("{a=", n) + "1" + rep("}", n)
	case "forin":
		return rep("for k in p do ", n) + rep(" end", n)
	case "lt":
		return "return x" + rep(" < x", n)
	}
	return ""
}

var c08DeepKinds = []string{"paren", "table", "func", "funcx", "unm", "not", "concat", "pow", "do", "if", "while", "repeat", "call", "index", "elseif", "openparen", "opentable", "openfunc", "locals", "args", "tbl", "bracket", "comment", "and", "method", "tblnest", "forin", "lt"}

var c08TmpDir string

func execC08(ops []Op) []string {
	var out []string
	var buf []byte
	have := false
	valid := "0"
	flush := func() {
		if have {
			l, _ := c08LexLines(buf, valid)
			out = append(out, l...)
		}
		buf, have = nil, false
	}
	for _, op := range ops {
		a := op.Args
		switch a[0] {
		case "valid":
			valid = "1"
		case "b":
			if a[1] != "-" {
				b, _ := hex.DecodeString(a[1])
				buf = append(buf, b...)
			}
			have = true
		case "prog":
			flush()
			seed, _ := strconv.ParseUint(a[1], 10, 64)
			size, _ := strconv.Atoi(a[2])
			out = append(out, c08Prog(seed, size, true)...)
		case "trunc":
			flush()
			seed, _ := strconv.ParseUint(a[1], 10, 64)
			size, _ := strconv.Atoi(a[2])
			vs, _ := c08Variants(seed, size)
			src := vs[len(vs)-2].src // the rand-all layout: comments, long strings, CR/LF mixes
			if len(src) > 1500 {
				src = vs[1].src
			}
			for i := 0; i <= len(src); i++ {
				l, _ := c08LexLines([]byte(src[:i]), "0")
				out = append(out, l...)
			}
		case "num":
			flush()
			b, _ := hex.DecodeString(a[1])
			o := RunLua("return "+string(b), 5*time.Second, nil)
			r := "err"
			if o.Err == "gopanic" || o.Err == "timeout" {
				out = append(out, "X num-"+o.Err+" => "+a[1]+" "+o.Msg)
				continue
			}
			if o.Err == "" && len(o.Results) == 1 {
				r = o.Results[0]
			} else if o.Err == "" {
				r = "multi"
			}
			out = append(out, "L num "+a[1]+" => "+r)
		case "deep":
			flush()
			n, _ := strconv.Atoi(a[2])
			src := c08Deep(a[1], n)
			if len(src) <= 40000 {
				l, _ := c08LexLines([]byte(src), "0")
				out = append(out, l...)
			} else {
				ld := c08Load(src)
				if ld.outcome == "PANIC" || ld.outcome == "TIMEOUT" {
					out = append(out, fmt.Sprintf("X load-%s => deep %s %d %s", strings.ToLower(ld.outcome), a[1], n, strings.ReplaceAll(ld.msg, "\n", " ")))
				}
			}
		case "file":
			flush()
			b := []byte{}
			if a[1] != "-" {
				b, _ = hex.DecodeString(a[1])
			}
			idx, _ := strconv.Atoi(a[2])
			out = append(out, c08File(b, c08TmpDir, idx)...)
		case "run":
			// a valid program given literally (corpus): must load, and running it must neither panic nor hang
			flush()
			b, _ := hex.DecodeString(a[1])
			l, ld := c08LexLines(b, "1")
			out = append(out, l...)
			if ld.outcome == "fn" {
				tr := c08Trace(string(b))
				if strings.Contains(tr, " | gopanic ") || strings.Contains(tr, " | timeout ") {
					out = append(out, fmt.Sprintf("X dostring-panic-or-hang => %q src=%s", tr[strings.LastIndex(tr, " | "):], a[1]))
				}
			}
		case "lexfile":
			flush()
			b, err := os.ReadFile(a[1])
			if err == nil {
				l, _ := c08LexLines(b, "0")
				out = append(out, l...)
			}
		case "render": // family `render` (c08_render.go)
			flush()
			out = append(out, execC08Render(a)...)
		default:
			panic("bad op " + a[0])
		}
	}
	flush()
	return out
}

// ---------- generators of the byte-level streams ----------

var c08Soup = []string{"and", "break", "do", "else", "elseif", "end", "false", "for", "function", "goto", "if", "in", "local", "nil", "not", "or",
	"repeat", "return", "then", "true", "until", "while", "+", "-", "*", "/", "%", "^", "#", "==", "~=", "<=", ">=", "<", ">", "=", "(", ")", "{", "}", "[", "]",
	";", ":", ",", ".", "..", "...", "::", "x", "y", "_a1", "f", "t", "0", "1", "42", "3.5", ".5", "5.", "1e3", "1E-2", "0x1F", "0xa", "3e", "0x", "08", "0010", "1..2", "3ex",
	"\"s\"", "'s'", "\"a\\nb\"", "'\\65\\066\\0'", "\"\\", "\"\\256\"", "'\\q'", "[[long]]", "[==[l\n]]]==]", "[=[", "[=", "\"unterminated", "'a\nb'",
	"--c\n", "--[[c]]", "--[==[c\n]==]", "--[[open", "--[=x\n", "--", "-- [[\n", " ", "  ", "\t", "\n", "\r", "\r\n", "\n\r", "\f", "\v", "\x00", "~", "!", "@", "$", "&", "|", "\\", "?", "`", "\x80", "\xff", "\xc3\xa9", "\xef\xbb\xbf",
	"f()", "(g)", "a.b", "a:b()", "t[1]", "{1,2}", "function() end", "local x = 1", "x = x + 1", "return x", "if x then", "for i=1,2 do", "end end", "::l::", "goto l"}

func genSoup(r *Rng) []Op {
	n := r.Range(1, 14)
	ops := make([]Op, 0, n)
	for i := 0; i < n; i++ {
		s := Pick(r, c08Soup)
		if r.Chance(60) {
			s += Pick(r, []string{" ", " ", "\n", "", "\t", "\r\n"})
		}
		ops = append(ops, Op{Args: []string{"b", hexOrDash([]byte(s))}})
	}
	return ops
}

func genRandomBytes(r *Rng) []Op {
	n := r.Range(0, 24)
	var ops []Op
	for i := 0; i < n; i++ {
		var b byte
		switch c := r.Intn(100); {
		case c < 40:
			b = byte(r.Intn(256))
		case c < 70:
			b = byte(r.Range(32, 126))
		default:
			b = Pick(r, []byte{'"', '\'', '\\', '[', ']', '=', '-', '\n', '\r', '.', '0', 'x', 'e', '~', ' ', '9', '+'})
		}
		ops = append(ops, Op{Args: []string{"b", hex.EncodeToString([]byte{b})}})
	}
	if n == 0 {
		ops = append(ops, Op{Args: []string{"b", "-"}})
	}
	return ops
}

// a valid program (some layout) with a few byte-level mutations, cut into fragments so that ddmin can shrink it
func genMutated(r *Rng) []Op {
	vs, _ := c08Variants(r.U64(), r.Range(1, 4))
	src := []byte(Pick(r, vs).src)
	nm := r.Range(1, 3)
	for i := 0; i < nm && len(src) > 0; i++ {
		p := r.Intn(len(src))
		switch r.Intn(4) {
		case 0:
			src[p] = byte(r.Intn(256))
		case 1:
			src = append(src[:p], src[p+1:]...)
		case 2:
			ins := Pick(r, []string{"\"", "'", "\\", "[[", "]]", "--", "\n", "\r", "(", ")", "end", "0x", "e", ".", "=", "~", "\f", "\x00", "\xff"})
			src = append(src[:p], append([]byte(ins), src[p:]...)...)
		default:
			q := r.Intn(len(src))
			src[p], src[q] = src[q], src[p]
		}
	}
	if r.Chance(30) && len(src) > 0 {
		src = src[:r.Intn(len(src))]
	}
	var ops []Op
	for len(src) > 0 {
		k := r.Range(1, 12)
		if k > len(src) {
			k = len(src)
		}
		ops = append(ops, Op{Args: []string{"b", hex.EncodeToString(src[:k])}})
		src = src[k:]
	}
	if len(ops) == 0 {
		ops = append(ops, Op{Args: []string{"b", "-"}})
	}
	return ops
}

func genNumeral(r *Rng) string {
	digits := func(n int) string {
		var sb strings.Builder
		for i := 0; i < n; i++ {
			sb.WriteByte(byte('0' + r.Intn(10)))
		}
		return sb.String()
	}
	switch c := r.Intn(100); {
	case c < 25:
		return strconv.Itoa(r.Intn(100000))
	case c < 40:
		return strings.Repeat("0", r.Range(1, 3)) + digits(r.Range(1, 4))
	case c < 55:
		return Pick(r, []string{"0x", "0X"}) + strconv.FormatInt(int64(r.Intn(1<<30)), 16)
	case c < 70:
		return digits(r.Range(1, 3)) + "." + digits(r.Range(0, 3))
	case c < 85:
		return digits(r.Range(1, 3)) + Pick(r, []string{"e", "E"}) + Pick(r, []string{"", "+", "-"}) + digits(r.Range(0, 2))
	case c < 92:
		return "." + digits(r.Range(1, 3))
	default:
		return Pick(r, []string{"0", "00", "0x", "3e", "3e+", "1..2", ".5.5", "0xg", "9007199254740992", "9007199254740993", "0xffffffffffffffff", "0x7fffffffffffffff", "1e400", "08", "09.5", "007", "0077", "1e+05", "5.", "0x10p1", "1_0", "0b11", "0o17", "0e0", "00e1"})
	}
}

var c08Corpus = []string{
	"", "#", "\n", "\r", "return", "x = 1 \f y = 2", "x = 1 \v y = 2", "--[= c\nreturn 1", "--[==\nreturn 1", "--[", "--[[", "--[=[ ]]",
	"return \"\\256\"", "return 3e", "return 3e\n", "return 0010", "f()\n(g)()", "f()\n--c\n(g)()", "f() --[[\n]] (g)()", "a = [==[\r\n\r\nx]==]",
	"a = 'x\\\r\ny'", "a = \"x\\\n\ry\"", "return 1 .. 2", "return 1..2", "x=.", "~", "a.b:c = 1", "x = = 1", "local function", "return ...",
	"goto = 1", "::a:: ::a::", "goto nowhere", "break", "for i = 1 do end", "x = function( ... , a) end", "return {[1]=1;2,}", "return (...)",
	"local t = {} t.x, t.y = 1", "a = 0x", "a = 0xg", "a = 1e", "a = .5.5", "a = 5..", "a = 3..2", "\xef\xbb\xbfreturn 1", "return '\\", "return [[", "return [=[ ]]",
	"x = #!/bin/lua", "a = 'a\\z'", "a = '\\x41'", "a = \"\\u{41}\"", "x = 1 -- c", "x = 1 --", "x = 1 -", "return - - 1", "return ---1\n", "return -\n-1",
}

// c08StmtForms: every expression form × every way of putting it where a statement is expected × block context —
// most are syntax errors, some are valid calls/assignments; each must end in a function or an error, never a panic
// (the parser's `stat: prefixexp` action and the compiler's statement switch have a case per node type).
func c08StmtForms() []string {
	exprs := []string{"1", "'x'", "nil", "true", "...", "{}", "function() end", "a", "a.b", "a[1]", "a + b", "a or b", "not a", "-a", "#a",
		"a .. b", "a == b", "f()", "a:m()", "f{}", "f''", "(a)", "((a))", "[[s]]", "0x10", "a and f()", "f().x", "f()[1]"}
	wraps := []string{"%s", "(%s)", "((%s))", "(%s)()", "(%s).x", "(%s).x = 1", "(%s)[1] = 2", "(%s):m()", "(%s) = 1", "%s = 1", "%s, %s = 1, 2",
		"(%s), a = 1, 2", "local x = (%s) (%s)", "(%s) 'lit'", "(%s) {}"}
	ctxs := []string{"%s", "do %s end", "function g(...) %s end", "local function g(...) %s end", "function g(p) %s end", "return function() return function(q) %s end end", "if a then %s end", "if a then else %s end", "while a do %s end",
		"repeat %s until a", "for i = 1, 2 do %s end", "for k in f() do %s end", "%s ; %s", "%s %s", "::l:: %s goto l", "return function(...) %s end"}
	var out []string
	for _, e := range exprs {
		for _, w := range wraps {
			st := strings.ReplaceAll(w, "%s", e)
			for _, c := range ctxs {
				out = append(out, strings.ReplaceAll(c, "%s", st))
			}
		}
	}
	return out
}

// c08GotoForms: goto/label placements (valid and invalid: into the scope of a local, into a nested block, out of a
// function, duplicate and unknown labels, labels at block ends, continue-style) × the blocks and locals AROUND them —
// the diagnostics of the goto resolver index scope tables by counts taken from the enclosing function.
func c08GotoForms() []string {
	inners := []string{
		"do goto l1; local b; ::l1:: print(b) end", "goto l1; local b; ::l1:: print(b)", "do goto l1; local b, c, d; ::l1:: print(b) end",
		"do local z; goto l1; local b; ::l1:: print(b) end", "repeat goto l1; local b; ::l1:: until b", "goto l1; do local b; ::l1:: end",
		"do goto l1 end local b ::l1:: print(b)", "::l1:: ::l1::", "do ::l1:: end ::l1::", "goto nowhere", "do goto l1; local b; ::l1:: end",
		"goto l1; local b; ::l1::", "do local b; goto l1; ::l1:: print(b) end", "while x do goto l1; local b; ::l1:: b = 1 end",
		"for j = 1, 2 do goto cont; local b; ::cont:: end", "for j = 1, 2 do goto cont; local b = j; print(b); ::cont:: ; end",
		"goto l1; local function g() end; ::l1:: g()", "do goto l1; local function g() ::l1:: end end", "local function g() goto l1 end ::l1::",
		"::l1:: do goto l1 end", "do do goto l1; local b; local c; ::l1:: print(c) end end", "if x then goto l1; local b; ::l1:: print(b) end",
		"if x then goto l1 else local b; ::l1:: print(b) end", "goto l1; local b = function() return b end; ::l1:: return b",
		"do goto l2; local b; ::l1:: ::l2:: print(b) end", "do goto l1; ::l0:: local b; ::l1:: print(b); goto l0 end",
		// several label-less gotos at once: which one the error names must be a function of the text
		"goto n1 goto n2", "goto n1; do goto n2 end", "goto n1; goto n2; goto n3", "do goto n1 end do goto n2 end goto n3",
		"if x then goto n1 else goto n2 end", "while x do goto n1 end repeat goto n2 until x goto n3; goto n4",
	}
	outers := []string{"%s", "local a; %s", "local a, b2, c2; %s", "for i = 1, 3 do %s end", "for k, v in pairs({}) do %s end",
		"function f(p, q) %s end", "function f(...) %s end", "local function f(p) local q; do local r; %s end end",
		"while true do local w; %s; break end", "repeat local u; %s until true", "do local a; do local a2; do local a3; %s end end end",
		"local t = {f = function(self, x2) %s end}", "return function() local a; return function() local a1, a2; %s end end"}
	var out []string
	for _, in := range inners {
		for _, o := range outers {
			out = append(out, strings.ReplaceAll(o, "%s", in))
		}
	}
	return out
}

// c08ValidGotoForms: texts that are VALID (goto as in Lua 5.2: a label at the end of its block may be jumped to over
// local declarations — the early-exit / continue idiom) in every kind of block, including function bodies and the
// chunk itself; each must load.
func c08ValidGotoForms() []string {
	inners := []string{
		"goto done; local v = 1; ::done::", "if x then goto done end local v = 1; print(v) ::done::", "do goto done end local v ::done::",
		"goto done; local a, b, c; local function h() return a end ::done::", "do goto fin; local v; ::fin:: end",
		"if x then goto e elseif y then goto e end local v = 2 ::e::", "while x do goto e end local v ::e::",
		"for j = 1, 2 do if j == 1 then goto e end end local v = 3 ::e::", "::top:: if x then goto bottom end local v ::bottom::",
		"for j = 1, 3 do if j == 2 then goto continue end local y = j; print(y) ::continue:: end",
		"while x do x = not x; if y then goto continue end local z = 1 ::continue:: end",
		"goto l1; ::l0:: local v; ::l1::", "do do goto out end end local v ::out::",
	}
	outers := []string{"%s", "local a; %s", "local a, b2, c2; %s", "for i = 1, 3 do %s end", "for k, v2 in pairs({}) do %s end", "function f(p, q) %s end",
		"function f(...) %s end", "local function f(p) local q; do local r; %s end end", "do local a; do local a2; do local a3; %s end end end",
		"local t = {f = function(self, x2) %s end}", "return function() local a; return function() local a1, a2; %s end end",
		"if x then %s end", "if x then elseif y then %s else %s end", "local m = {} function m:go(n) %s end", "while x do %s end"}
	var out []string
	for _, in := range inners {
		for _, o := range outers {
			out = append(out, strings.ReplaceAll(o, "%s", in))
		}
	}
	return out
}

func init() { props["C08"] = runC08 }

func runC08(run *Run) {
	nBytes, nSoup, nMut, nProg, nTrunc, nNum, nFile := 4000, 5000, 5000, 500, 25, 2500, 300
	deepSizes := []int{10, 199, 250, 2000}
	if run.Tier == "thorough" {
		nBytes, nSoup, nMut, nProg, nTrunc, nNum, nFile = 150000, 150000, 120000, 6000, 300, 40000, 3000
		deepSizes = []int{10, 199, 250, 2000, 10000}
	}
	run.Rule = "inputs: random bytes, token soup (valid and malformed lexemes incl. every blank/line-end/comment form), generated valid programs in 13 layouts each (canonical, minimal-separator, CRLF, CR, LFCR, random blanks+comments+semicolons, redundant parentheses, alternative literal spellings, all combined, and the two-byte-line-end layouts shifted so that a CR LF / LF CR pair straddles the scanner's 4096-byte read-ahead buffer), byte-level mutations and truncations of those, every prefix of selected programs, 6720 statement forms (expression form × statement wrapper × block context), 338 goto/label forms (placement × surrounding blocks and locals) + 195 valid goto idioms (label at the end of every kind of block: must load), numerals, nesting up to depth 10^4 (thorough; 2000 quick), LoadFile with '#' first lines, the repository's .lua files. Each input: real LoadString under recover+timeout (panic/timeout = violation), real token stream vs the Lean scanner model (exact incl. line/column/PNewLine/error), vs the Lua 5.1 lexical grammar (Spec); layouts of one program: instruction-identical protos modulo line tables and identical emit traces (Impl vs Impl). distinct = distinct op-kind skeletons of cases with >= 3 ops"
	run.Assume = []string{
		"bufio.Reader: ReadByte/UnreadByte deliver the bytes of the input in order (modelled as a list of bytes)",
		"the goyacc table driver and the compiler are not modelled: their outcome is observed on the real code only (panic/timeout detection, layout invariance Impl vs Impl)",
		"numeral values are compared only when the numeral denotes an integer below 2^53 (rounding of strconv.ParseFloat is C16's subject)",
		"Go stack exhaustion on nesting deeper than 10^4 is not explored (a fatal error cannot be recovered in-process)"}
	run.Trusted = append(run.Trusted, "the program generator/c08renderer of harness/c08gen.go (claims its output is valid Lua 5.1 + goto)")
	root := NewRng(uint64(run.Seed))
	dir, err := os.MkdirTemp("", "c08-")
	if err == nil {
		c08TmpDir = dir
		defer os.RemoveAll(dir)
	}
	var cases []Case
	idx := 0
	add := func(ops []Op, note string) {
		cases = append(cases, Case{Idx: idx, Ops: ops, Note: note})
		idx++
	}
	for i, c := range loadCorpus("C08") {
		cases = append(cases, Case{Idx: -1 - i, Ops: c, Note: "corpus"})
	}
	for _, s := range c08Corpus {
		add([]Op{{Args: []string{"b", hexOrDash([]byte(s))}}}, "builtin")
	}
	idx = 100000
	for _, s := range c08StmtForms() {
		add([]Op{{Args: []string{"b", hexOrDash([]byte(s))}}}, "stmtform")
	}
	for _, s := range c08GotoForms() {
		add([]Op{{Args: []string{"b", hexOrDash([]byte(s))}}}, "gotoform")
	}
	for _, s := range c08ValidGotoForms() {
		add([]Op{{Args: []string{"valid"}}, {Args: []string{"b", hexOrDash([]byte(s))}}}, "gotovalid")
	}
	idx = len(c08Corpus)
	idx = 1000
	for i := 0; i < nBytes; i++ {
		add(genRandomBytes(root.Fork(uint64(idx))), "bytes")
	}
	idx = 1000000
	for i := 0; i < nSoup; i++ {
		add(genSoup(root.Fork(uint64(idx))), "soup")
	}
	idx = 2000000
	for i := 0; i < nMut; i++ {
		add(genMutated(root.Fork(uint64(idx))), "mutated")
	}
	idx = 3000000
	for i := 0; i < nProg; i++ {
		r := root.Fork(uint64(idx))
		add([]Op{{Args: []string{"prog", strconv.FormatUint(r.U64()>>1, 10), strconv.Itoa(r.Range(1, 9))}}}, "prog")
	}
	idx = 4000000
	for i := 0; i < nTrunc; i++ {
		r := root.Fork(uint64(idx))
		add([]Op{{Args: []string{"trunc", strconv.FormatUint(r.U64()>>1, 10), strconv.Itoa(r.Range(1, 4))}}}, "trunc")
	}
	idx = 5000000
	for i := 0; i < nNum; i++ {
		r := root.Fork(uint64(idx))
		add([]Op{{Args: []string{"num", hex.EncodeToString([]byte(genNumeral(r)))}}}, "num")
	}
	idx = 6000000
	for _, n := range deepSizes {
		for _, k := range c08DeepKinds {
			add([]Op{{Args: []string{"deep", k, strconv.Itoa(n)}}}, "deep")
		}
	}
	idx = 7000000
	fileHeads := []string{"", "#", "#!/usr/bin/lua", "#!/usr/bin/env lua\n", "#\n", "# x\r\n", "#\r", "##\n", "#!lua\n\n"}
	for i := 0; i < nFile; i++ {
		r := root.Fork(uint64(idx))
		vs, _ := c08Variants(r.U64()>>1, r.Range(0, 3))
		body := Pick(r, vs).src
		if r.Chance(15) {
			body = ""
		}
		head := Pick(r, fileHeads)
		if i%4 == 3 {
			// a first line that does not fit the loader's 4096-byte buffer (length around 1× and 2× the buffer
			// size), with each kind of line end and without any
			n := Pick(r, []int{4090, 4094, 4095, 4096, 4097, 4098, 5000, 8190, 8191, 8192, 8193, 9000}) + r.Intn(2)
			head = "#!" + strings.Repeat(Pick(r, []string{"x", "-", " ", "a b"}), n)[:n] + Pick(r, []string{"\n", "\r\n", "", "\n\n"})
		}
		content := head + body
		add([]Op{{Args: []string{"file", hexOrDash([]byte(content)), strconv.Itoa(i)}}}, "file")
	}
	idx = 8000000
	repo := envOr("VERIF_REPO", "/repo")
	var files []string
	for _, pat := range []string{"_glua-tests/*.lua", "_lua5.1-tests/*.lua", "_state.go"} {
		m, _ := filepath.Glob(filepath.Join(repo, pat))
		files = append(files, m...)
	}
	sort.Strings(files)
	for _, f := range files {
		if st, err := os.Stat(f); err == nil && st.Size() < 400000 {
			add([]Op{{Args: []string{"lexfile", f}}}, "lexfile")
		}
	}
	cases = append(cases, c08RenderCases(run, root, 9000000)...) // family `render` (c08_render.go)
	run.Rule += c08RenderRule
	if only := os.Getenv("C08_ONLY"); only != "" { // development aid: restrict to some streams
		var keep []Case
		for _, c := range cases {
			if strings.Contains(","+only+",", ","+c.Note+",") {
				keep = append(keep, c)
			}
		}
		cases = keep
	}
	t0 := time.Now()
	runCases(run, cases, execC08, classifyTagged)
	run.Extra["correspondence_wall_s"] = time.Since(t0).Seconds()
	if dbg := os.Getenv("C08_DEBUG"); dbg != "" { // development aid: every failure, one per line
		var sb strings.Builder
		for _, f := range run.Failures {
			fmt.Fprintf(&sb, "case=%d kind=%s finding=%s\n  REQ %s\n  REP %s\n", f.CaseIdx, f.Kind, f.Finding, f.Line, f.Reply)
		}
		os.WriteFile(dbg, []byte(sb.String()), 0o644)
	}
	// input distribution of the program generator (measured on the programs of this run)
	gh := map[string]int{}
	for _, c := range cases {
		if c.Note == "prog" {
			seed, _ := strconv.ParseUint(c.Ops[0].Args[1], 10, 64)
			size, _ := strconv.Atoi(c.Ops[0].Args[2])
			_, h := c08Variants(seed, size)
			for k, v := range h {
				gh[k] += v
			}
		}
	}
	run.Extra["program_generator_histogram"] = gh
	kinds := map[string]int{}
	for _, c := range cases {
		kinds[c.Note]++
	}
	run.Extra["cases_by_stream"] = kinds
	run.Extra["layouts_per_program"] = 13
}
