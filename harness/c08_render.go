package main

// C08, family `render`: the objects of the round-trip theorems on the real code.
//
// The harness draws random token lists + layouts in the vocabulary of lean/GLua/Spec/LexRender.lean (names, keywords,
// operators, numerals, quoted strings spelled character by character, long strings; blanks, short and long
// comments), asks the Lean engine to render them (`LR render <desc>`: the rendering, `WF`, the guards of the
// `_partial` theorems), lexes the rendering with the REAL scanner and sends both back (`LR check …`): the engine
// compares the real token stream with the Model (exact) and — when the description is well-formed — with the
// stream the theorems predict (type, Str, line, column, PNewLine) and with the Spec's reference lexer.
// A second, independent renderer (rtTok.text / rtSep.text below) must agree with Lean's `render`.

import (
	"encoding/hex"
	"fmt"
	"os"
	"strconv"
	"strings"
)

const c08RenderRule = "; family render: random token lists + layouts in the vocabulary of the round-trip theorems (lean/GLua/Spec/LexRender.lean), rendered by the Lean engine (and by an independent Go renderer that must agree), lexed by the real scanner: token stream = Model (exact) and, for well-formed descriptions, = the stream the theorems predict (type, Str, line, column, PNewLine) = the Spec's reference lexer"

type rtTok struct {
	desc string // wire form
	text string // Go rendering
	kind byte   // 'n' name/keyword, 'd' number, 's' string, 'p' punctuation (for needSep of c08gen.go)
}

type rtSep struct {
	desc    string
	text    string
	comment bool
	open    bool // unterminated short comment
}

var rtKeywords = []string{"and", "break", "do", "else", "elseif", "end", "false", "for", "function", "goto", "if", "in", "local", "nil",
	"not", "or", "repeat", "return", "then", "true", "until", "while"}

var rtSymbols = []string{"+", "-", "*", "/", "%", "^", "#", "<", ">", "=", "(", ")", "{", "}", "[", "]", ";", ":", ",", ".",
	"..", "==", "~=", "<=", ">=", "::", "..."}

func rtHx(s string) string { return hex.EncodeToString([]byte(s)) }

func rtIsKeyword(s string) bool {
	for _, k := range rtKeywords {
		if k == s {
			return true
		}
	}
	return false
}

func rtDigits(r *Rng, lo, hi int, alphabet string) string {
	n := r.Range(lo, hi)
	var sb strings.Builder
	for i := 0; i < n; i++ {
		sb.WriteByte(alphabet[r.Intn(len(alphabet))])
	}
	return sb.String()
}

func rtName(r *Rng) string {
	const first = "abcdefghijklmnopqrstuvwxyzABCDEFGHIJKLMNOPQRSTUVWXYZ_"
	const rest = first + "0123456789"
	for {
		var sb strings.Builder
		sb.WriteByte(first[r.Intn(len(first))])
		n := r.Intn(6)
		if r.Chance(10) { // near keywords: `en`, `ends`, `Do`
			k := Pick(r, rtKeywords)
			switch r.Intn(3) {
			case 0:
				return k + string(rest[r.Intn(len(rest))])
			case 1:
				if len(k) > 1 {
					return k[:len(k)-1]
				}
			default:
				return strings.ToUpper(k[:1]) + k[1:]
			}
		}
		for i := 0; i < n; i++ {
			sb.WriteByte(rest[r.Intn(len(rest))])
		}
		if !rtIsKeyword(sb.String()) {
			return sb.String()
		}
	}
}

// closes: does the closing bracket of the level occur in content+closer before the end of the content?
func rtNoClose(level int, content string) bool {
	cl := "]" + strings.Repeat("=", level) + "]"
	return strings.Index(content+cl, cl) == len(content)
}

func rtLongContent(r *Rng, allowCR bool) string {
	n := r.Intn(9)
	var sb strings.Builder
	for i := 0; i < n; i++ {
		switch c := r.Intn(100); {
		case c < 22:
			sb.WriteByte(']')
		case c < 40:
			sb.WriteByte('=')
		case c < 48:
			sb.WriteByte('[')
		case c < 60:
			sb.WriteByte('\n')
		case c < 68:
			if allowCR {
				sb.WriteByte('\r')
			} else {
				sb.WriteByte('-')
			}
		case c < 90:
			{
				const al = "ab -\"'\\x"
				sb.WriteByte(al[r.Intn(len(al))])
			}
		default:
			b := byte(r.Intn(256))
			if b == '\r' && !allowCR {
				b = 0
			}
			sb.WriteByte(b)
		}
	}
	return sb.String()
}

func genRtTok(r *Rng) rtTok {
	switch c := r.Intn(100); {
	case c < 18:
		n := rtName(r)
		return rtTok{"n" + rtHx(n), n, 'n'}
	case c < 30:
		k := Pick(r, rtKeywords)
		return rtTok{"k" + rtHx(k), k, 'n'}
	case c < 55:
		s := Pick(r, rtSymbols)
		return rtTok{"y" + rtHx(s), s, 'p'}
	case c < 62:
		d := rtDigits(r, 1, 6, "0123456789")
		return rtTok{"d" + rtHx(d), d, 'd'}
	case c < 68:
		x := Pick(r, []string{"x", "X"})
		h := rtDigits(r, 1, 6, "0123456789abcdefABCDEF")
		return rtTok{"x" + rtHx(x) + rtHx(h), "0" + x + h, 'd'}
	case c < 78:
		ip := rtDigits(r, 0, 4, "0123456789")
		fpDesc, fpText := "-", ""
		if r.Chance(60) || ip == "" {
			lo := 0
			if ip == "" {
				lo = 1
			}
			fp := rtDigits(r, lo, 4, "0123456789")
			fpDesc, fpText = "="+rtHx(fp), "."+fp
		}
		eDesc, sDesc, dsDesc, exText := "-", "-", "", ""
		if r.Chance(50) {
			e := Pick(r, []string{"e", "E"})
			sg := Pick(r, []string{"", "+", "-"})
			ds := rtDigits(r, 1, 3, "0123456789")
			eDesc, dsDesc, exText = rtHx(e), rtHx(ds), e+sg+ds
			if sg != "" {
				sDesc = rtHx(sg)
			}
		}
		return rtTok{"f" + rtHx(ip) + "." + fpDesc + "." + eDesc + "." + sDesc + "." + dsDesc, ip + fpText + exText, 'd'}
	case c < 92:
		q := Pick(r, []string{"\"", "'"})
		n := r.Intn(8)
		var ds []string
		var sb strings.Builder
		sb.WriteString(q)
		short := false // the previous character was a short decimal escape
		for i := 0; i < n; i++ {
			k := r.Intn(100)
			switch {
			case k < 40:
				b := byte(r.Intn(256))
				if r.Chance(60) {
					const al = "ab 0123456789-[]=\x00\xff"
					b = al[r.Intn(len(al))]
				}
				if b == q[0] || b == '\\' || b == '\n' || b == '\r' || (short && b >= '0' && b <= '9') {
					b = 'z'
				}
				ds = append(ds, "r"+hex.EncodeToString([]byte{b}))
				sb.WriteByte(b)
				short = false
			case k < 55:
				const al = "abfnrtv\\\"'"
				e := al[r.Intn(len(al))]
				ds = append(ds, "e"+hex.EncodeToString([]byte{e}))
				sb.WriteByte('\\')
				sb.WriteByte(e)
				short = false
			case k < 67:
				b := r.Intn(256)
				ds = append(ds, "d"+hex.EncodeToString([]byte{byte(b)}))
				sb.WriteString(fmt.Sprintf("\\%03d", b))
				short = false
			case k < 76:
				b := r.Intn(10)
				ds = append(ds, "1"+hex.EncodeToString([]byte{byte(b)}))
				sb.WriteString(fmt.Sprintf("\\%d", b))
				short = true
			case k < 85:
				b := r.Intn(100)
				ds = append(ds, "2"+hex.EncodeToString([]byte{byte(b)}))
				sb.WriteString(fmt.Sprintf("\\%02d", b))
				short = true
			default:
				e := Pick(r, []string{"\n", "\r", "\r\n", "\n\r"})
				ds = append(ds, "n"+rtHx(e))
				sb.WriteString("\\" + e)
				short = false
			}
		}
		sb.WriteString(q)
		cs := "-"
		if len(ds) > 0 {
			cs = strings.Join(ds, "_")
		}
		return rtTok{"q" + rtHx(q) + "." + cs, sb.String(), 's'}
	default:
		for {
			level := r.Intn(4)
			first := Pick(r, []string{"", "", "\n", "\r", "\r\n", "\n\r"})
			content := rtLongContent(r, false)
			if !rtNoClose(level, content) {
				continue
			}
			if (first == "" || first == "\r") && strings.HasPrefix(content, "\n") {
				continue
			}
			eq := strings.Repeat("=", level)
			return rtTok{"L" + strconv.Itoa(level) + "." + rtHx(first) + "." + rtHx(content), "[" + eq + "[" + first + content + "]" + eq + "]", 's'}
		}
	}
}

var rtCommentWords = []string{"", " ", "x", " note", " -- nested", " [not long", "]] ", " ]=] ", "\t tab", " end", " \"quote", "[", "[x", "[ [", "#!", " \x80\xff", "- -", " return", "-"}

func genRtSep(r *Rng, allowOpen bool) rtSep {
	switch c := r.Intn(100); {
	case c < 62:
		const al = " \t\n\r\f\v \n\r"
		b := al[r.Intn(len(al))]
		return rtSep{desc: "b" + hex.EncodeToString([]byte{b}), text: string(b)}
	case c < 84:
		text := Pick(r, rtCommentWords)
		if r.Chance(25) {
			text = strings.Map(func(c rune) rune {
				if c == '\n' || c == '\r' {
					return ' '
				}
				return c
			}, rtLongContent(r, false))
			if strings.HasPrefix(text, "[") {
				text = " " + text
			}
		}
		if allowOpen && r.Chance(50) {
			return rtSep{desc: "s" + rtHx(text) + ".-", text: "--" + text, comment: true, open: true}
		}
		e := Pick(r, []string{"\n", "\r"})
		return rtSep{desc: "s" + rtHx(text) + "." + rtHx(e), text: "--" + text + e, comment: true}
	default:
		for {
			level := r.Intn(4)
			content := rtLongContent(r, true)
			if !rtNoClose(level, content) {
				continue
			}
			eq := strings.Repeat("=", level)
			return rtSep{desc: "l" + strconv.Itoa(level) + "." + rtHx(content), text: "--[" + eq + "[" + content + "]" + eq + "]", comment: true}
		}
	}
}

// genRtCase: one description (wire form), the Go rendering, and whether the generator meant it to be well-formed.
func genRtCase(r *Rng) (desc string, text string, meantWF bool) {
	n := r.Intn(9)
	if r.Chance(5) {
		n = r.Range(9, 30)
	}
	toks := make([]rtTok, n)
	for i := range toks {
		toks[i] = genRtTok(r)
		if i > 0 && r.Chance(12) { // `)` `(`: the PNewLine flag
			toks[i-1] = rtTok{"y" + rtHx(")"), ")", 'p'}
			toks[i] = rtTok{"y" + rtHx("("), "(", 'p'}
		}
	}
	meantWF = true
	sabotage := -1
	if r.Chance(5) {
		sabotage = r.Intn(4)
	}
	var parts []string
	var sb strings.Builder
	for i := 0; i <= n; i++ {
		var gap []rtSep
		k := 0
		switch c := r.Intn(100); {
		case c < 35:
			k = 0
		case c < 70:
			k = 1
		case c < 90:
			k = 2
		default:
			k = r.Range(3, 5)
		}
		for j := 0; j < k; j++ {
			gap = append(gap, genRtSep(r, i == n && j == k-1))
		}
		if i > 0 && i < n && len(gap) == 0 && needSep(gTok{text: toks[i-1].text, kind: toks[i-1].kind}, gTok{text: toks[i].text, kind: toks[i].kind}) {
			if sabotage == 0 {
				meantWF = false
			} else {
				gap = []rtSep{{desc: "b20", text: " "}}
			}
		}
		if sabotage == 1 && i == n/2 { // a short comment starting with `[=` (no second `[`)
			gap = append([]rtSep{{desc: "s" + rtHx("[= deco") + ".0a", text: "--[= deco\n", comment: true}}, gap...)
			sabotage = -1
		}
		if sabotage == 2 && i == n/2 { // not a short comment for Lua 5.1: the text opens a long bracket
			gap = append([]rtSep{{desc: "s" + rtHx("[==[ x") + ".0a", text: "--[==[ x\n", comment: true}}, gap...)
			meantWF = false
			sabotage = -1
		}
		if i > 0 && len(gap) > 0 && gap[0].comment && toks[i-1].text == "-" {
			gap = append([]rtSep{{desc: "b0a", text: "\n"}}, gap...)
		}
		var ds []string
		for _, s := range gap {
			ds = append(ds, s.desc)
			sb.WriteString(s.text)
		}
		if len(ds) == 0 {
			parts = append(parts, "-")
		} else {
			parts = append(parts, strings.Join(ds, ","))
		}
		if i < n {
			t := toks[i]
			if sabotage == 3 && i == n/2 && t.kind == 'n' && t.desc[0] == 'k' { // a keyword spelled as a name
				t.desc = "n" + t.desc[1:]
				meantWF = false
				sabotage = -1
			}
			parts = append(parts, t.desc)
			sb.WriteString(t.text)
		}
	}
	return strings.Join(parts, ";"), sb.String(), meantWF
}

// c08RenderCases: phase 1 — draw the descriptions and let the Lean engine render them; the cases carry the
// description and Lean's rendering (so that a replay needs no second driver run).
func c08RenderCases(run *Run, root *Rng, base int) []Case {
	n := 2500
	if run.Tier == "thorough" {
		n = 60000
	}
	descs := make([]string, n)
	texts := make([]string, n)
	meant := make([]bool, n)
	lines := make([]string, n)
	for i := 0; i < n; i++ {
		descs[i], texts[i], meant[i] = genRtCase(root.Fork(uint64(base + i)))
		lines[i] = "LR render " + descs[i]
	}
	var replies []string
	for lo := 0; lo < n; lo += 20000 {
		hi := lo + 20000
		if hi > n {
			hi = n
		}
		out, err := runDriver(lines[lo:hi])
		if err != nil {
			run.Failures = append(run.Failures, Failure{CaseIdx: -998, Kind: "HARNESS", Reply: "LR render: " + err.Error()})
			return nil
		}
		replies = append(replies, out...)
	}
	var cases []Case
	for i, rp := range replies {
		f := strings.Fields(rp)
		if len(f) != 5 || f[0] != "R" {
			run.Failures = append(run.Failures, Failure{CaseIdx: base + i, Kind: "HARNESS", Line: lines[i], Reply: rp})
			continue
		}
		if f[4] != hexOrDash([]byte(texts[i])) {
			// the two renderers disagree: an error of the harness or of `render`, not of the implementation
			run.Failures = append(run.Failures, Failure{CaseIdx: base + i, Kind: "HARNESS", Line: lines[i],
				Reply: "Lean render = " + f[4] + " but the harness renders " + hexOrDash([]byte(texts[i]))})
			continue
		}
		if f[1] == "1" {
			run.Hist["render:WF"]++
		} else {
			run.Hist["render:not WF (Model only)"]++
		}
		if meant[i] && f[1] != "1" {
			run.Hist["render:generator meant WF, Spec says no"]++
			if os.Getenv("C08_DEBUG") != "" {
				fmt.Println("render: meant WF, not WF:", descs[i], strconv.Quote(texts[i]))
			}
		}
		cases = append(cases, Case{Idx: base + i, Ops: []Op{{Args: []string{"render", descs[i], f[4]}}}, Note: "render"})
	}
	return cases
}

// execC08Render: phase 2 — the real scanner (and the real loader, for crashes) on Lean's rendering.
func execC08Render(a []string) []string {
	var b []byte
	if a[2] != "-" {
		b, _ = hex.DecodeString(a[2])
	}
	src := string(b)
	ld := c08Load(src)
	if ld.outcome == "PANIC" || ld.outcome == "TIMEOUT" {
		return []string{fmt.Sprintf("X load-%s => %s %s", strings.ToLower(ld.outcome), a[2], strings.ReplaceAll(ld.msg, "\n", " "))}
	}
	toks, p := c08Tokens(src)
	if p != "" {
		return []string{fmt.Sprintf("X scan-panic => %s %s", a[2], strings.ReplaceAll(p, "\n", " "))}
	}
	return []string{"LR check " + a[1] + " " + a[2] + " => " + strings.Join(toks, " ")}
}
