package main

// C08: Lua program generator with a c08renderer that varies the lexical layout.
//
// Programs are generated as ASTs (typed, scoped, bounded loops: they run to completion and log through emit(...)),
// then rendered to a token list, then laid out under a style:
//   canon : one blank between tokens, LF after every statement
//   min   : no blank unless two tokens would fuse, everything on one line, `;` between statements at random
//   rand  : random blanks (space, tab, LF, CR, CRLF, LFCR), line comments, long comments of any level, optional
//           semicolons, redundant parentheses, alternative spellings of the same literal
//   crlf / cr : canonical with CRLF / CR line ends and tabs
// Only layout changes between styles: the token *meaning* (names, operators, literal values) is the same, so every
// rendering must compile to the same prototype (modulo line tables) and produce the same trace.

import (
	"fmt"
	"math"
	"strconv"
	"strings"
)

// ---------- tokens ----------

type gTok struct {
	text     string // spelling for this rendering
	kind     byte   // 'n' name/keyword, 'd' number, 's' string, 'p' punctuation
	noNL     bool   // no line terminator may precede this token (call parenthesis)
	stmtEnd  bool   // a statement ends after this token (optional `;`, line break in canonical styles)
	canSemi  bool   // `;` allowed after this statement end
	nextOpen bool   // the next statement starts with `(`: a `;` is mandatory here
}

// ---------- AST ----------

type gExpr struct {
	k      string // nil true false num str vararg name index dot call method func bin un table paren
	s      string // name / operator / method / string bytes
	n      float64
	a, b   *gExpr
	list   []*gExpr
	fields []gField
	params []string
	varg   bool
	body   []*gStmt
	sugar  bool // call with a single string/table argument may be written without parentheses
}

type gField struct {
	kind byte // 'p' positional, 'n' name = v, 'k' [k] = v
	name string
	key  *gExpr
	val  *gExpr
}

type gStmt struct {
	k       string // local assign call do while repeat if fornum forin func localfunc return break goto label
	names   []string
	lhs     []*gExpr
	rhs     []*gExpr
	e       *gExpr
	body    []*gStmt
	elifs   []gElif
	els     []*gStmt
	hasElse bool
	fname   []string // function a.b.c
	method  string   // function a.b:m
	fn      *gExpr
	label   string
}

type gElif struct {
	cond *gExpr
	body []*gStmt
}

// ---------- generator ----------

type gVar struct {
	name string
	typ  byte // 'N' number 'C' loop counter (number, never assigned by generated code) 'S' string 'T' table 'F' function(2 args → number) 'A' any
}

type progGen struct {
	r      *Rng
	scopes [][]gVar
	nname  int
	depth  int
	inLoop int
	inFunc int
	varg   []bool
	labels int
	budget int
	hist   map[string]int
}

func newProgGen(r *Rng, budget int) *progGen {
	return &progGen{r: r, scopes: [][]gVar{{}}, varg: []bool{true}, budget: budget, hist: map[string]int{}}
}

var gNamePool = []string{"a", "b", "c", "x", "y", "z", "foo", "bar", "_", "_1", "t", "n", "i1", "v_", "End", "nill", "e", "E1", "xff", "f", "g", "self_", "andy", "do_", "Z9"}

func (g *progGen) fresh() string {
	g.nname++
	base := Pick(g.r, gNamePool)
	if g.r.Chance(50) {
		return base + strconv.Itoa(g.nname)
	}
	return base + "_" + strconv.Itoa(g.nname)
}

func (g *progGen) push()               { g.scopes = append(g.scopes, []gVar{}) }
func (g *progGen) pop()                { g.scopes = g.scopes[:len(g.scopes)-1] }
func (g *progGen) declare(v gVar)      { g.scopes[len(g.scopes)-1] = append(g.scopes[len(g.scopes)-1], v) }
func (g *progGen) varsOf(t byte) []gVar {
	var res []gVar
	for _, sc := range g.scopes {
		for _, v := range sc {
			if v.typ == t || (t == 'R' && (v.typ == 'N' || v.typ == 'C')) {
				res = append(res, v)
			}
		}
	}
	return res
}

func numE(n float64) *gExpr  { return &gExpr{k: "num", n: n} }
func nameE(s string) *gExpr  { return &gExpr{k: "name", s: s} }
func strE(s string) *gExpr   { return &gExpr{k: "str", s: s} }
func binE(op string, a, b *gExpr) *gExpr { return &gExpr{k: "bin", s: op, a: a, b: b} }

func (g *progGen) randString() string {
	n := g.r.Intn(8)
	if g.r.Chance(10) {
		n = g.r.Range(8, 40)
	}
	var sb strings.Builder
	for i := 0; i < n; i++ {
		switch c := g.r.Intn(100); {
		case c < 55:
			sb.WriteByte(byte(g.r.Range(97, 122)))
		case c < 65:
			sb.WriteByte(Pick(g.r, []byte{' ', '\t', '-', '[', ']', '=', '.', ';', '#', '%'}))
		case c < 72:
			sb.WriteByte(byte(g.r.Range(48, 57)))
		case c < 78:
			sb.WriteByte(Pick(g.r, []byte{'"', '\'', '\\'}))
		case c < 84:
			sb.WriteByte(Pick(g.r, []byte{'\n', '\r', 0, 7, 8, 11, 12, 127}))
		case c < 88:
			sb.WriteString(Pick(g.r, []string{"]]", "]=]", "--", "\r\n", "\n\r", "[[", "]==]"}))
		default:
			sb.WriteByte(byte(g.r.Range(128, 255)))
		}
	}
	return sb.String()
}

func (g *progGen) randNum() float64 {
	switch c := g.r.Intn(100); {
	case c < 50:
		return float64(g.r.Range(0, 12))
	case c < 65:
		return float64(g.r.Range(13, 100000))
	case c < 75:
		return float64(g.r.Range(0, 40)) / Pick(g.r, []float64{2, 4, 8})
	case c < 82:
		return Pick(g.r, []float64{255, 256, 65535, 4294967296, 1e15, 9007199254740992, 1e100, 0.1, 1e-3, 3.14159})
	default:
		return float64(g.r.Range(0, 9))
	}
}

// numeric expression
func (g *progGen) numExpr(d int) *gExpr {
	g.hist["expr"]++
	if d <= 0 || g.r.Chance(30) {
		vs := g.varsOf('R')
		if len(vs) > 0 && g.r.Chance(55) {
			return nameE(Pick(g.r, vs).name)
		}
		return numE(g.randNum())
	}
	switch c := g.r.Intn(100); {
	case c < 40:
		op := Pick(g.r, []string{"+", "-", "*", "/", "%", "^", "+", "-", "*"})
		g.hist["arith"]++
		return binE(op, g.numExpr(d-1), g.numExpr(d-1))
	case c < 50:
		g.hist["unm"]++
		return &gExpr{k: "un", s: "-", a: g.numExpr(d - 1)}
	case c < 58:
		g.hist["len"]++
		if g.r.Bool() {
			return &gExpr{k: "un", s: "#", a: g.strExpr(d - 1)}
		}
		if vs := g.varsOf('T'); len(vs) > 0 {
			return &gExpr{k: "un", s: "#", a: nameE(Pick(g.r, vs).name)}
		}
		return &gExpr{k: "un", s: "#", a: g.tableExpr(d - 1)}
	case c < 70:
		if vs := g.varsOf('F'); len(vs) > 0 {
			g.hist["callexpr"]++
			return &gExpr{k: "call", a: nameE(Pick(g.r, vs).name), list: []*gExpr{g.numExpr(d - 1), g.numExpr(d - 1)}}
		}
		return g.numExpr(d - 1)
	case c < 78:
		// (cond) and n1 or n2  — n1 is a number, hence truthy
		g.hist["andor"]++
		return binE("or", binE("and", g.boolExpr(d-1), g.numExpr(d-1)), g.numExpr(d-1))
	case c < 84:
		g.hist["funcexpr-call"]++
		// immediately applied function expression
		f := g.funcExpr(2, false)
		return &gExpr{k: "call", a: &gExpr{k: "paren", a: f}, list: []*gExpr{g.numExpr(d - 1), g.numExpr(d - 1)}}
	case c < 90:
		g.hist["select#"]++
		args := []*gExpr{strE("#")}
		for i := g.r.Intn(3); i > 0; i-- {
			args = append(args, g.anyExpr(d-1))
		}
		if g.varg[len(g.varg)-1] && g.r.Bool() {
			args = append(args, &gExpr{k: "vararg"})
		}
		return &gExpr{k: "call", a: nameE("select"), list: args}
	default:
		return &gExpr{k: "paren", a: g.numExpr(d - 1)}
	}
}

func (g *progGen) strExpr(d int) *gExpr {
	g.hist["expr"]++
	if d <= 0 || g.r.Chance(45) {
		vs := g.varsOf('S')
		if len(vs) > 0 && g.r.Chance(40) {
			return nameE(Pick(g.r, vs).name)
		}
		g.hist["strlit"]++
		return strE(g.randString())
	}
	switch c := g.r.Intn(100); {
	case c < 60:
		g.hist["concat"]++
		var l, r *gExpr
		if g.r.Chance(30) {
			l = numE(float64(g.r.Range(0, 99)))
		} else {
			l = g.strExpr(d - 1)
		}
		if g.r.Chance(30) {
			r = numE(float64(g.r.Range(0, 99)))
		} else {
			r = g.strExpr(d - 1)
		}
		return binE("..", l, r)
	case c < 80:
		g.hist["method-call"]++
		// ("x"):rep(n) / s:upper()
		recv := g.strExpr(d - 1)
		if g.r.Bool() {
			return &gExpr{k: "method", a: recv, s: "rep", list: []*gExpr{numE(float64(g.r.Range(0, 3)))}}
		}
		return &gExpr{k: "method", a: recv, s: Pick(g.r, []string{"upper", "lower", "reverse"})}
	default:
		g.hist["tostring"]++
		return &gExpr{k: "call", a: nameE("tostring"), list: []*gExpr{g.numExpr(d - 1)}, sugar: true}
	}
}

func (g *progGen) boolExpr(d int) *gExpr {
	g.hist["expr"]++
	if d <= 0 || g.r.Chance(20) {
		return &gExpr{k: Pick(g.r, []string{"true", "false", "nil"})}
	}
	switch c := g.r.Intn(100); {
	case c < 50:
		g.hist["compare"]++
		op := Pick(g.r, []string{"<", "<=", ">", ">=", "==", "~="})
		if g.r.Chance(25) {
			return binE(op, g.strExpr(d-1), g.strExpr(d-1))
		}
		return binE(op, g.numExpr(d-1), g.numExpr(d-1))
	case c < 65:
		g.hist["not"]++
		return &gExpr{k: "un", s: "not", a: g.boolExpr(d - 1)}
	case c < 85:
		g.hist["andor"]++
		return binE(Pick(g.r, []string{"and", "or"}), g.boolExpr(d-1), g.boolExpr(d-1))
	default:
		g.hist["compare"]++
		return binE(Pick(g.r, []string{"==", "~="}), g.anyExpr(d-1), g.anyExpr(d-1))
	}
}

func (g *progGen) tableExpr(d int) *gExpr {
	g.hist["table"]++
	e := &gExpr{k: "table"}
	n := g.r.Intn(5)
	for i := 0; i < n; i++ {
		switch c := g.r.Intn(100); {
		case c < 50:
			e.fields = append(e.fields, gField{kind: 'p', val: g.anyExpr(d - 1)})
		case c < 75:
			e.fields = append(e.fields, gField{kind: 'n', name: Pick(g.r, []string{"x", "y", "name", "_k", "n1"}) + strconv.Itoa(i), val: g.anyExpr(d - 1)})
		default:
			var k *gExpr
			if g.r.Bool() {
				k = strE(g.randString() + strconv.Itoa(i))
			} else {
				k = numE(float64(10 + i))
			}
			e.fields = append(e.fields, gField{kind: 'k', key: k, val: g.anyExpr(d - 1)})
		}
	}
	return e
}

func (g *progGen) anyExpr(d int) *gExpr {
	switch c := g.r.Intn(100); {
	case c < 40:
		return g.numExpr(d)
	case c < 65:
		return g.strExpr(d)
	case c < 80:
		return g.boolExpr(d)
	case c < 88:
		if d > 0 {
			return g.tableExpr(d)
		}
		return numE(1)
	case c < 94:
		if vs := g.varsOf('T'); len(vs) > 0 {
			g.hist["index"]++
			t := nameE(Pick(g.r, vs).name)
			if g.r.Bool() {
				return &gExpr{k: "dot", a: t, s: Pick(g.r, []string{"x0", "y1", "name2", "zz"})}
			}
			return &gExpr{k: "index", a: t, b: g.anyKey(d)}
		}
		return g.numExpr(d)
	default:
		if g.varg[len(g.varg)-1] {
			g.hist["vararg"]++
			// `(...)` : first vararg or nil — a single value
			return &gExpr{k: "paren", a: &gExpr{k: "vararg"}}
		}
		return g.strExpr(d)
	}
}

func (g *progGen) anyKey(d int) *gExpr {
	if g.r.Bool() {
		return numE(float64(g.r.Range(1, 4)))
	}
	return strE(Pick(g.r, []string{"x0", "k", "a b", ""}))
}

// function expression with `np` number parameters returning a number
func (g *progGen) funcExpr(np int, varg bool) *gExpr {
	g.hist["function"]++
	f := &gExpr{k: "func", varg: varg}
	g.push()
	g.inFunc++
	g.varg = append(g.varg, varg)
	saveLoop := g.inLoop
	g.inLoop = 0
	for i := 0; i < np; i++ {
		n := g.fresh()
		f.params = append(f.params, n)
		g.declare(gVar{n, 'N'})
	}
	if g.depth < 3 && g.budget > 0 {
		f.body = g.block(g.r.Intn(3), false)
	}
	ret := &gStmt{k: "return", rhs: []*gExpr{g.numExpr(1)}}
	if varg && g.r.Bool() {
		ret.rhs = append(ret.rhs, &gExpr{k: "vararg"})
	}
	f.body = append(f.body, ret)
	g.inLoop = saveLoop
	g.varg = g.varg[:len(g.varg)-1]
	g.inFunc--
	g.pop()
	return f
}

func (g *progGen) emitStmt(d int) *gStmt {
	g.hist["emit"]++
	n := g.r.Range(1, 3)
	var args []*gExpr
	for i := 0; i < n; i++ {
		args = append(args, g.anyExpr(d))
	}
	if g.r.Chance(15) {
		if vs := g.varsOf('F'); len(vs) > 0 {
			// multi-value in last position is fine: F functions return exactly what they return in every layout
			args = append(args, &gExpr{k: "call", a: nameE(Pick(g.r, vs).name), list: []*gExpr{numE(1), numE(2)}})
		}
	}
	return &gStmt{k: "call", e: &gExpr{k: "call", a: nameE("emit"), list: args}}
}

func (g *progGen) block(n int, newScope bool) []*gStmt {
	if newScope {
		g.push()
		defer g.pop()
	}
	g.depth++
	defer func() { g.depth-- }()
	var out []*gStmt
	for i := 0; i < n && g.budget > 0; i++ {
		out = append(out, g.stmt())
	}
	return out
}

func (g *progGen) stmt() *gStmt {
	g.budget--
	d := 2
	if g.depth > 2 {
		d = 1
	}
	deep := g.depth >= 4
	c := g.r.Intn(100)
	g.hist["stmt"]++
	switch {
	case c < 16:
		g.hist["local"]++
		st := &gStmt{k: "local"}
		n := g.r.Range(1, 3)
		var vs []gVar
		for i := 0; i < n; i++ {
			nm := g.fresh()
			st.names = append(st.names, nm)
			switch t := g.r.Intn(10); {
			case t < 5:
				st.rhs = append(st.rhs, g.numExpr(d))
				vs = append(vs, gVar{nm, 'N'})
			case t < 8:
				st.rhs = append(st.rhs, g.strExpr(d))
				vs = append(vs, gVar{nm, 'S'})
			default:
				st.rhs = append(st.rhs, g.tableExpr(d))
				vs = append(vs, gVar{nm, 'T'})
			}
		}
		if g.r.Chance(8) {
			// `local a, b` without initialisers
			st.rhs = nil
			for i := range vs {
				vs[i].typ = 'A'
			}
		}
		for _, v := range vs {
			g.declare(v)
		}
		return st
	case c < 30:
		return g.emitStmt(d)
	case c < 42:
		g.hist["assign"]++
		st := &gStmt{k: "assign"}
		n := g.r.Range(1, 2)
		used := map[string]bool{}
		for i := 0; i < n; i++ {
			switch t := g.r.Intn(10); {
			case t < 4:
				if vs := g.varsOf('N'); len(vs) > 0 {
					v := Pick(g.r, vs)
					if !used[v.name] {
						used[v.name] = true
						st.lhs = append(st.lhs, nameE(v.name))
						st.rhs = append(st.rhs, g.numExpr(d))
						continue
					}
				}
				fallthrough
			case t < 7:
				if vs := g.varsOf('T'); len(vs) > 0 {
					v := Pick(g.r, vs)
					key := "f" + strconv.Itoa(g.r.Intn(3)) + strconv.Itoa(i)
					if g.r.Bool() {
						st.lhs = append(st.lhs, &gExpr{k: "dot", a: nameE(v.name), s: key})
					} else {
						st.lhs = append(st.lhs, &gExpr{k: "index", a: nameE(v.name), b: strE(key)})
					}
					st.rhs = append(st.rhs, g.anyExpr(d))
					continue
				}
				fallthrough
			default:
				gn := "G" + strconv.Itoa(g.r.Intn(4)) + strconv.Itoa(i)
				st.lhs = append(st.lhs, nameE(gn))
				st.rhs = append(st.rhs, g.numExpr(d))
			}
		}
		return st
	case c < 50 && !deep:
		g.hist["if"]++
		st := &gStmt{k: "if", e: g.boolExpr(d), body: g.block(g.r.Range(0, 2), true)}
		for i := g.r.Intn(3); i > 0; i-- {
			st.elifs = append(st.elifs, gElif{g.boolExpr(d), g.block(g.r.Range(0, 2), true)})
		}
		if g.r.Bool() {
			st.hasElse = true
			st.els = g.block(g.r.Range(0, 2), true)
		}
		return st
	case c < 57 && !deep:
		g.hist["fornum"]++
		st := &gStmt{k: "fornum"}
		g.push()
		nm := g.fresh()
		st.names = []string{nm}
		st.rhs = []*gExpr{numE(float64(g.r.Range(0, 2))), numE(float64(g.r.Range(1, 3)))}
		if g.r.Chance(40) {
			st.rhs = append(st.rhs, numE(float64(g.r.Range(1, 2))))
		}
		g.declare(gVar{nm, 'N'})
		g.inLoop++
		st.body = g.block(g.r.Range(1, 3), false)
		g.inLoop--
		g.pop()
		return st
	case c < 62 && !deep:
		g.hist["forin"]++
		st := &gStmt{k: "forin"}
		g.push()
		k, v := g.fresh(), g.fresh()
		st.names = []string{k, v}
		var tbl *gExpr
		if vs := g.varsOf('T'); len(vs) > 0 && g.r.Bool() {
			tbl = nameE(Pick(g.r, vs).name)
		} else {
			tbl = &gExpr{k: "table", fields: []gField{{kind: 'p', val: numE(7)}, {kind: 'p', val: strE("s")}, {kind: 'p', val: numE(9)}}}
		}
		st.rhs = []*gExpr{{k: "call", a: nameE("ipairs"), list: []*gExpr{tbl}, sugar: true}}
		g.declare(gVar{k, 'N'})
		g.declare(gVar{v, 'A'})
		g.inLoop++
		st.body = g.block(g.r.Range(1, 2), false)
		g.inLoop--
		g.pop()
		return st
	case c < 67 && !deep:
		g.hist["while"]++
		// local n = 0; while n < k do n = n + 1 … end   (rendered as two statements inside a do-block)
		cnt := g.fresh()
		g.push()
		g.declare(gVar{cnt, 'C'})
		g.inLoop++
		body := []*gStmt{{k: "assign", lhs: []*gExpr{nameE(cnt)}, rhs: []*gExpr{binE("+", nameE(cnt), numE(1))}}}
		g.push()
		body = append(body, g.block(g.r.Range(0, 2), false)...)
		g.pop()
		g.inLoop--
		g.pop()
		loop := &gStmt{k: "while", e: binE("<", nameE(cnt), numE(float64(g.r.Range(1, 3)))), body: body}
		if g.r.Chance(35) {
			g.hist["repeat"]++
			loop = &gStmt{k: "repeat", e: binE(">=", nameE(cnt), numE(float64(g.r.Range(1, 3)))), body: body}
		}
		return &gStmt{k: "do", body: []*gStmt{{k: "local", names: []string{cnt}, rhs: []*gExpr{numE(0)}}, loop}}
	case c < 72 && !deep:
		g.hist["do"]++
		return &gStmt{k: "do", body: g.block(g.r.Range(0, 3), true)}
	case c < 80 && !deep:
		g.hist["localfunc"]++
		nm := g.fresh()
		// declared before the body is generated: recursion is not generated (the body never calls nm: it is
		// added to the scope after the body)
		f := g.funcExpr(2, g.r.Chance(30))
		g.declare(gVar{nm, 'F'})
		if g.r.Bool() {
			return &gStmt{k: "localfunc", names: []string{nm}, fn: f}
		}
		return &gStmt{k: "local", names: []string{nm}, rhs: []*gExpr{f}}
	case c < 85 && !deep:
		g.hist["funcstmt"]++
		// function T.a.b(x, y) / function T:m(x, y) on a fresh table
		tn := g.fresh()
		g.declare(gVar{tn, 'A'})
		tbl := &gStmt{k: "local", names: []string{tn}, rhs: []*gExpr{{k: "table", fields: []gField{{kind: 'n', name: "sub", val: &gExpr{k: "table"}}}}}}
		fs := &gStmt{k: "func", fname: []string{tn}}
		if g.r.Bool() {
			fs.fname = append(fs.fname, "sub")
		}
		var call *gExpr
		if g.r.Bool() {
			fs.method = "m" + strconv.Itoa(g.r.Intn(9))
			fs.fn = g.funcExpr(2, false)
			var recv *gExpr = nameE(tn)
			if len(fs.fname) == 2 {
				recv = &gExpr{k: "dot", a: recv, s: "sub"}
			}
			call = &gExpr{k: "method", a: recv, s: fs.method, list: []*gExpr{numE(3), numE(4)}}
		} else {
			fn := "fn" + strconv.Itoa(g.r.Intn(9))
			fs.fname = append(fs.fname, fn)
			fs.fn = g.funcExpr(2, false)
			var f *gExpr = nameE(tn)
			for _, p := range fs.fname[1:] {
				f = &gExpr{k: "dot", a: f, s: p}
			}
			call = &gExpr{k: "call", a: f, list: []*gExpr{numE(3), numE(4)}}
		}
		em := &gStmt{k: "call", e: &gExpr{k: "call", a: nameE("emit"), list: []*gExpr{call}}}
		return &gStmt{k: "do", body: []*gStmt{tbl, fs, em}}
	case c < 89 && g.inLoop > 0:
		g.hist["break"]++
		// break must be the last statement of its block: wrap in `do break end` or `if c then break end`
		if g.r.Bool() {
			return &gStmt{k: "do", body: []*gStmt{{k: "break"}}}
		}
		return &gStmt{k: "if", e: g.boolExpr(1), body: []*gStmt{{k: "break"}}}
	case c < 93 && !deep:
		g.hist["goto"]++
		// do … goto L … ::L:: end  (forward jump over statements that declare no locals at this level)
		g.labels++
		lb := "L" + strconv.Itoa(g.labels)
		var body []*gStmt
		body = append(body, g.emitStmt(1))
		if g.r.Bool() {
			body = append(body, &gStmt{k: "if", e: g.boolExpr(1), body: []*gStmt{{k: "goto", label: lb}}})
		} else {
			body = append(body, &gStmt{k: "goto", label: lb})
		}
		body = append(body, g.emitStmt(1))
		body = append(body, &gStmt{k: "label", label: lb})
		if g.r.Bool() {
			body = append(body, g.emitStmt(1))
		}
		return &gStmt{k: "do", body: body}
	case c < 96 && g.inFunc == 0 && g.depth <= 1:
		g.hist["return-in-do"]++
		// an early `do return … end` is not generated at top level (it would hide the rest); use a call statement
		return g.emitStmt(d)
	default:
		g.hist["callstmt"]++
		if vs := g.varsOf('F'); len(vs) > 0 {
			return &gStmt{k: "call", e: &gExpr{k: "call", a: nameE(Pick(g.r, vs).name), list: []*gExpr{g.numExpr(1), g.numExpr(1)}}}
		}
		if g.r.Bool() {
			// statement starting with `(`
			return &gStmt{k: "call", e: &gExpr{k: "call", a: &gExpr{k: "paren", a: nameE("emit")}, list: []*gExpr{g.numExpr(1)}}}
		}
		return &gStmt{k: "call", e: &gExpr{k: "method", a: &gExpr{k: "paren", a: strE("q")}, s: "len"}}
	}
}

func c08genProgram(r *Rng, size int) ([]*gStmt, map[string]int) {
	g := newProgGen(r, size)
	body := g.block(size, false)
	// final observation of everything numeric / string in scope, then results
	var args []*gExpr
	for _, v := range g.scopes[0] {
		if v.typ == 'N' || v.typ == 'S' || v.typ == 'A' {
			args = append(args, nameE(v.name))
		}
		if len(args) >= 6 {
			break
		}
	}
	if len(args) > 0 {
		body = append(body, &gStmt{k: "call", e: &gExpr{k: "call", a: nameE("emit"), list: args}})
	}
	ret := &gStmt{k: "return"}
	for i := g.r.Intn(3); i > 0; i-- {
		ret.rhs = append(ret.rhs, g.anyExpr(1))
	}
	if g.r.Chance(70) {
		body = append(body, ret)
	}
	return body, g.hist
}

// ---------- rendering to tokens ----------

type c08renderer struct {
	r       *Rng // nil = canonical spelling of literals, no redundant parentheses
	toks    []gTok
	parens  int // percentage of redundant parentheses
	altLit  bool
	altCall bool
}

func (rd *c08renderer) p(s string)  { rd.toks = append(rd.toks, gTok{text: s, kind: 'p'}) }
func (rd *c08renderer) kw(s string) { rd.toks = append(rd.toks, gTok{text: s, kind: 'n'}) }

var binPrec = map[string][2]int{ // left, right binding: an operand needs precedence ≥ the given number
	"or": {1, 2}, "and": {2, 3},
	"<": {3, 4}, ">": {3, 4}, "<=": {3, 4}, ">=": {3, 4}, "==": {3, 4}, "~=": {3, 4},
	"..": {5, 4}, // right associative
	"+":  {6, 7}, "-": {6, 7},
	"*": {7, 8}, "/": {7, 8}, "%": {7, 8},
	"^": {11, 10}, // right associative, binds tighter than unary (9)
}
var binLevel = map[string]int{"or": 1, "and": 2, "<": 3, ">": 3, "<=": 3, ">=": 3, "==": 3, "~=": 3, "..": 4, "+": 6, "-": 6, "*": 7, "/": 7, "%": 7, "^": 10}

const unaryLevel = 9

func exprLevel(e *gExpr) int {
	switch e.k {
	case "bin":
		return binLevel[e.s]
	case "un":
		return unaryLevel
	}
	return 100
}

// isPrefixExp: can be followed by a call / index suffix without parentheses
func isPrefixExp(e *gExpr) bool {
	switch e.k {
	case "name", "index", "dot", "call", "method", "paren":
		return true
	}
	return false
}

func (rd *c08renderer) fmtNum(n float64) string {
	canon := strconv.FormatFloat(n, 'g', -1, 64)
	if strings.ContainsAny(canon, "IN") { // Inf / NaN never generated
		return "0"
	}
	if !rd.altLit || rd.r == nil {
		if strings.HasPrefix(canon, "0.") && rd.r != nil && rd.r.Bool() {
			return canon[1:]
		}
		return canon
	}
	isInt := n == math.Trunc(n) && n >= 0 && n < 1e15
	if isInt {
		v := int64(n)
		switch rd.r.Intn(9) {
		case 0:
			return fmt.Sprintf("0x%x", v)
		case 1:
			return fmt.Sprintf("0X%X", v)
		case 2:
			return fmt.Sprintf("%d.0", v)
		case 3:
			return fmt.Sprintf("%d.", v)
		case 4:
			return fmt.Sprintf("%de0", v)
		case 5:
			return fmt.Sprintf("%dE+0", v)
		case 6:
			return fmt.Sprintf("%d0e-1", v)
		case 7:
			if v%10 == 0 && v > 0 {
				return fmt.Sprintf("%de1", v/10)
			}
			return fmt.Sprintf("%d.00", v)
		}
		return canon
	}
	// non-integers: correctly rounded decimal → binary conversion gives the same double for each spelling
	switch rd.r.Intn(5) {
	case 0:
		return strconv.FormatFloat(n, 'e', -1, 64)
	case 1:
		return strings.ToUpper(strconv.FormatFloat(n, 'e', -1, 64))
	case 2:
		if strings.HasPrefix(canon, "0.") {
			return canon[1:]
		}
	case 3:
		if !strings.ContainsAny(canon, "e") && strings.Contains(canon, ".") {
			return canon + "0"
		}
	}
	return canon
}

func quoteLua(s string, q byte, r *Rng, allDecimal bool) string {
	var sb strings.Builder
	sb.WriteByte(q)
	for i := 0; i < len(s); i++ {
		c := s[i]
		nextDigit := i+1 < len(s) && s[i+1] >= '0' && s[i+1] <= '9'
		dec := func() {
			if nextDigit || (r != nil && r.Bool()) {
				fmt.Fprintf(&sb, "\\%03d", c)
			} else {
				fmt.Fprintf(&sb, "\\%d", c)
			}
		}
		switch {
		case allDecimal:
			dec()
		case c == q || c == '\\':
			sb.WriteByte('\\')
			sb.WriteByte(c)
		case c == '\n':
			if r != nil && r.Chance(40) {
				// backslash followed by a real line terminator
				sb.WriteByte('\\')
				sb.WriteString(Pick(r, []string{"\n", "\r", "\r\n", "\n\r"}))
			} else {
				sb.WriteString("\\n")
			}
		case c == '\r':
			sb.WriteString("\\r")
		case c == 0:
			dec()
		case c == 7 && r != nil && r.Bool():
			sb.WriteString("\\a")
		case c == 8 && r != nil && r.Bool():
			sb.WriteString("\\b")
		case c == 9 && r != nil && r.Bool():
			sb.WriteString("\\t")
		case c == 11 && r != nil && r.Bool():
			sb.WriteString("\\v")
		case c == 12 && r != nil && r.Bool():
			sb.WriteString("\\f")
		case c < 32 || c == 127:
			dec()
		case c >= 128 && r != nil && r.Chance(30):
			dec()
		case (c == '"' || c == '\'') && r != nil && r.Chance(30):
			sb.WriteByte('\\')
			sb.WriteByte(c)
		default:
			sb.WriteByte(c)
		}
	}
	sb.WriteByte(q)
	return sb.String()
}

func (rd *c08renderer) fmtStr(s string) string {
	if rd.r == nil || !rd.altLit {
		return quoteLua(s, '"', nil, false)
	}
	switch c := rd.r.Intn(10); {
	case c < 3:
		return quoteLua(s, '"', rd.r, false)
	case c < 6:
		return quoteLua(s, '\'', rd.r, false)
	case c < 7:
		return quoteLua(s, Pick(rd.r, []byte{'"', '\''}), rd.r, true)
	default:
		// long bracket: no CR in the content (it would be normalised), and a level whose closing bracket does not occur
		if strings.ContainsAny(s, "\r") {
			return quoteLua(s, '"', rd.r, false)
		}
		for level := rd.r.Intn(3); level < 8; level++ {
			cl := "]" + strings.Repeat("=", level) + "]"
			// the content followed by the closing bracket must not contain an earlier closing bracket
			if strings.Contains(s+cl[:len(cl)-1], cl) {
				continue
			}
			open := "[" + strings.Repeat("=", level) + "["
			body := s
			// line terminators inside: any spelling denotes \n
			if strings.Contains(body, "\n") && rd.r.Bool() {
				body = strings.ReplaceAll(body, "\n", Pick(rd.r, []string{"\r\n", "\r", "\n\r"}))
			}
			lead := ""
			if strings.HasPrefix(s, "\n") || rd.r.Chance(30) {
				lead = Pick(rd.r, []string{"\n", "\r\n", "\r", "\n\r"}) // the first line terminator is skipped
				if body != "" && (body[0] == '\n' || body[0] == '\r') {
					lead = body[:1] // same byte twice never pairs up
				}
			}
			return open + lead + body + cl
		}
		return quoteLua(s, '"', rd.r, false)
	}
}

func (rd *c08renderer) wrapChance(e *gExpr) bool {
	if rd.r == nil || rd.parens == 0 {
		return false
	}
	switch e.k {
	case "call", "method", "vararg": // parentheses would truncate multiple values
		return false
	}
	return rd.r.Chance(rd.parens)
}

// expr renders e where an operand of precedence ≥ min is required
func (rd *c08renderer) expr(e *gExpr, min int) {
	need := exprLevel(e) < min
	extra := 0
	if rd.wrapChance(e) {
		extra = 1
		if rd.r.Chance(20) {
			extra = 2
		}
	}
	if need {
		extra++
	}
	for i := 0; i < extra; i++ {
		rd.p("(")
	}
	rd.exprRaw(e)
	for i := 0; i < extra; i++ {
		rd.p(")")
	}
}

// prefix renders e in a position that requires a prefix expression (callee, indexed object, method receiver)
func (rd *c08renderer) prefix(e *gExpr) {
	if isPrefixExp(e) {
		if e.k != "call" && e.k != "method" && rd.wrapChance(e) {
			rd.p("(")
			rd.exprRaw(e)
			rd.p(")")
			return
		}
		rd.exprRaw(e)
		return
	}
	rd.p("(")
	rd.expr(e, 0)
	rd.p(")")
}

func (rd *c08renderer) args(list []*gExpr, sugar bool) {
	if len(list) == 1 && (list[0].k == "str" || list[0].k == "table") && rd.r != nil && rd.altCall && (sugar || rd.r.Chance(50)) {
		// f"…"  f[[…]]  f{…}
		rd.exprRaw(list[0])
		return
	}
	rd.toks = append(rd.toks, gTok{text: "(", kind: 'p', noNL: true})
	for i, a := range list {
		if i > 0 {
			rd.p(",")
		}
		rd.expr(a, 0)
	}
	rd.p(")")
}

func (rd *c08renderer) funcBody(f *gExpr) {
	rd.p("(")
	for i, pn := range f.params {
		if i > 0 {
			rd.p(",")
		}
		rd.kw(pn)
	}
	if f.varg {
		if len(f.params) > 0 {
			rd.p(",")
		}
		rd.p("...")
	}
	rd.p(")")
	rd.block(f.body)
	rd.kw("end")
}

func (rd *c08renderer) exprRaw(e *gExpr) {
	switch e.k {
	case "nil", "true", "false":
		rd.kw(e.k)
	case "num":
		rd.toks = append(rd.toks, gTok{text: rd.fmtNum(e.n), kind: 'd'})
	case "str":
		rd.toks = append(rd.toks, gTok{text: rd.fmtStr(e.s), kind: 's'})
	case "vararg":
		rd.p("...")
	case "name":
		rd.kw(e.s)
	case "paren":
		rd.p("(")
		rd.expr(e.a, 0)
		rd.p(")")
	case "index":
		rd.prefix(e.a)
		rd.p("[")
		rd.expr(e.b, 0)
		rd.p("]")
	case "dot":
		rd.prefix(e.a)
		rd.p(".")
		rd.kw(e.s)
	case "call":
		rd.prefix(e.a)
		rd.args(e.list, e.sugar)
	case "method":
		rd.prefix(e.a)
		rd.p(":")
		rd.kw(e.s)
		rd.args(e.list, false)
	case "func":
		rd.kw("function")
		rd.funcBody(e)
	case "bin":
		pr := binPrec[e.s]
		rd.expr(e.a, pr[0])
		if e.s == "and" || e.s == "or" {
			rd.kw(e.s)
		} else {
			rd.p(e.s)
		}
		rd.expr(e.b, pr[1])
	case "un":
		if e.s == "not" {
			rd.kw("not")
		} else {
			rd.p(e.s)
		}
		rd.expr(e.a, unaryLevel)
	case "table":
		rd.p("{")
		for i, f := range e.fields {
			if i > 0 {
				if rd.r != nil && rd.r.Chance(30) {
					rd.p(";")
				} else {
					rd.p(",")
				}
			}
			switch f.kind {
			case 'n':
				rd.kw(f.name)
				rd.p("=")
			case 'k':
				rd.p("[")
				rd.expr(f.key, 0)
				rd.p("]")
				rd.p("=")
			}
			rd.expr(f.val, 0)
		}
		if len(e.fields) > 0 && rd.r != nil && rd.r.Chance(20) {
			rd.p(Pick(rd.r, []string{",", ";"})) // trailing separator
		}
		rd.p("}")
	default:
		panic("render: " + e.k)
	}
}

func (rd *c08renderer) exprList(l []*gExpr) {
	for i, e := range l {
		if i > 0 {
			rd.p(",")
		}
		rd.expr(e, 0)
	}
}

func (rd *c08renderer) endStmt(canSemi bool) {
	if n := len(rd.toks); n > 0 {
		rd.toks[n-1].stmtEnd = true
		rd.toks[n-1].canSemi = canSemi
	}
}

func (rd *c08renderer) block(b []*gStmt) {
	for _, s := range b {
		start := len(rd.toks)
		rd.stmt(s)
		if start < len(rd.toks) && rd.toks[start].text == "(" && start > 0 {
			rd.toks[start-1].nextOpen = true
		}
	}
}

func (rd *c08renderer) stmt(s *gStmt) {
	switch s.k {
	case "local":
		rd.kw("local")
		for i, n := range s.names {
			if i > 0 {
				rd.p(",")
			}
			rd.kw(n)
		}
		if len(s.rhs) > 0 {
			rd.p("=")
			rd.exprList(s.rhs)
		}
	case "assign":
		for i, l := range s.lhs {
			if i > 0 {
				rd.p(",")
			}
			rd.exprRaw(l) // a var: name, index or dot (its object may be parenthesised by prefix())
		}
		rd.p("=")
		rd.exprList(s.rhs)
	case "call":
		rd.exprRaw(s.e)
	case "do":
		rd.kw("do")
		rd.block(s.body)
		rd.kw("end")
	case "while":
		rd.kw("while")
		rd.expr(s.e, 0)
		rd.kw("do")
		rd.block(s.body)
		rd.kw("end")
	case "repeat":
		rd.kw("repeat")
		rd.block(s.body)
		rd.kw("until")
		rd.expr(s.e, 0)
	case "if":
		rd.kw("if")
		rd.expr(s.e, 0)
		rd.kw("then")
		rd.block(s.body)
		for _, ei := range s.elifs {
			rd.kw("elseif")
			rd.expr(ei.cond, 0)
			rd.kw("then")
			rd.block(ei.body)
		}
		if s.hasElse {
			rd.kw("else")
			rd.block(s.els)
		}
		rd.kw("end")
	case "fornum":
		rd.kw("for")
		rd.kw(s.names[0])
		rd.p("=")
		rd.exprList(s.rhs)
		rd.kw("do")
		rd.block(s.body)
		rd.kw("end")
	case "forin":
		rd.kw("for")
		for i, n := range s.names {
			if i > 0 {
				rd.p(",")
			}
			rd.kw(n)
		}
		rd.kw("in")
		rd.exprList(s.rhs)
		rd.kw("do")
		rd.block(s.body)
		rd.kw("end")
	case "localfunc":
		rd.kw("local")
		rd.kw("function")
		rd.kw(s.names[0])
		rd.funcBody(s.fn)
	case "func":
		rd.kw("function")
		for i, n := range s.fname {
			if i > 0 {
				rd.p(".")
			}
			rd.kw(n)
		}
		if s.method != "" {
			rd.p(":")
			rd.kw(s.method)
		}
		rd.funcBody(s.fn)
	case "return":
		rd.kw("return")
		rd.exprList(s.rhs)
	case "break":
		rd.kw("break")
	case "goto":
		rd.kw("goto")
		rd.kw(s.label)
	case "label":
		rd.p("::")
		rd.kw(s.label)
		rd.p("::")
	default:
		panic("render stmt: " + s.k)
	}
	rd.endStmt(true)
}

// ---------- layout ----------

func isAlnumByte(c byte) bool {
	return c == '_' || (c >= '0' && c <= '9') || (c >= 'a' && c <= 'z') || (c >= 'A' && c <= 'Z')
}

// needSep: would the two spellings fuse (lex differently) when written without a blank?
func needSep(a, b gTok) bool {
	if a.text == "" || b.text == "" {
		return false
	}
	x, y := a.text[len(a.text)-1], b.text[0]
	switch {
	case (a.kind == 'n' || a.kind == 'd') && isAlnumByte(y):
		return true
	case a.kind == 'd' && y == '.':
		return true
	case x == '.' && a.kind != 's' && (y == '.' || (y >= '0' && y <= '9')):
		return true
	case x == '-' && a.kind == 'p' && y == '-':
		return true
	case x == '[' && a.kind == 'p' && (y == '[' || y == '='):
		return true
	case a.kind == 'p' && (x == '<' || x == '>' || x == '=' || x == '~') && y == '=':
		return true
	case a.kind == 'p' && x == ':' && y == ':':
		return true
	}
	return false
}

var gCommentWords = []string{"", " ", "x", " note", " -- nested", " [not long", "]] ", " ]=] ", "\t tab", " end", " \"quote", " 'q", " \\", "#!", " \x80\xff", "- -", " return"}

func randComment(r *Rng, allowNL bool) string {
	if allowNL && r.Chance(60) {
		// line comment: its text must not start with `[` (that could open a long comment)
		return "--" + Pick(r, gCommentWords) + Pick(r, []string{"\n", "\r", "\r\n", "\n\r"})
	}
	level := r.Intn(4)
	cl := "]" + strings.Repeat("=", level) + "]"
	body := Pick(r, []string{"", " c ", "x", " ]] ", " ]=] ", "--", " [[ ", "\"'"})
	if allowNL && r.Chance(40) {
		body += Pick(r, []string{"\n", "\r\n", "\n\n", "\r"}) + "more"
	}
	if strings.Contains(body+cl[:len(cl)-1], cl) {
		body = " c "
	}
	return "--[" + strings.Repeat("=", level) + "[" + body + cl
}

func randBlank(r *Rng, allowNL bool, must bool) string {
	var sb strings.Builder
	n := 0
	switch c := r.Intn(100); {
	case c < 35:
		n = 0
	case c < 75:
		n = 1
	case c < 92:
		n = 2
	default:
		n = r.Range(3, 6)
	}
	if must && n == 0 {
		n = 1
	}
	for i := 0; i < n; i++ {
		switch c := r.Intn(100); {
		case c < 45:
			sb.WriteByte(' ')
		case c < 55:
			sb.WriteByte('\t')
		case c < 85:
			if allowNL {
				sb.WriteString(Pick(r, []string{"\n", "\r", "\r\n", "\n\r", "\n", "\n\n"}))
			} else {
				sb.WriteByte(' ')
			}
		default:
			sb.WriteString(randComment(r, allowNL))
		}
	}
	return sb.String()
}

// layout writes the tokens under a style.
func layout(toks []gTok, style string, r *Rng) string {
	var sb strings.Builder
	nl := "\n"
	switch style {
	case "crlf":
		nl = "\r\n"
	case "cr":
		nl = "\r"
	case "lfcr":
		nl = "\n\r"
	}
	for i, t := range toks {
		if i > 0 {
			prev := toks[i-1]
			switch style {
			case "min":
				if needSep(prev, t) {
					sb.WriteByte(' ')
				}
			case "rand":
				sep := randBlank(r, !t.noNL, false)
				if sep == "" && needSep(prev, t) {
					sep = " "
				}
				// a separator that begins with a comment directly after `-` would fuse: `-` `--c` → `---c`
				if strings.HasPrefix(sep, "-") && strings.HasSuffix(prev.text, "-") && prev.kind == 'p' {
					sep = " " + sep
				}
				sb.WriteString(sep)
			default:
				if prev.stmtEnd {
					sb.WriteString(nl)
					if style != "canon" {
						sb.WriteByte('\t')
					}
				} else {
					sb.WriteByte(' ')
				}
			}
		}
		sb.WriteString(t.text)
		if t.stmtEnd {
			semi := t.nextOpen
			if !semi && t.canSemi && r != nil && (style == "rand" || style == "min") && r.Chance(35) {
				semi = true
			}
			if semi {
				if style == "rand" {
					sb.WriteString(randBlank(r, true, false))
				}
				sb.WriteByte(';')
			}
		}
	}
	switch style {
	case "rand":
		sb.WriteString(randBlank(r, true, false))
		if r.Chance(20) {
			sb.WriteString("--" + Pick(r, gCommentWords)) // line comment ended by EOF
		}
	case "min":
	default:
		sb.WriteString(nl)
	}
	return sb.String()
}

// renderProgram: the token list of one spelling of the program
func renderProgram(body []*gStmt, r *Rng, parens int, altLit, altCall bool) []gTok {
	rd := &c08renderer{r: r, parens: parens, altLit: altLit, altCall: altCall}
	rd.block(body)
	return rd.toks
}
