package main

// C09: table histories through the Go table API and Lua-level operations.

import (
	"encoding/hex"
	"fmt"
	"math"
	"sort"
	"strconv"
	"strings"

	lua "github.com/yuin/gopher-lua"
)

type tblWorld struct {
	L    *lua.LState
	tbls map[int]*lua.LTable
	refs map[int]lua.LValue
	rt   *RefTable
	fns  map[string]*lua.LFunction
	subs map[int]ctorSpec // nested constructors defined by `sub` ops (c09_ctor.go)
}

const tblPrelude = `
function lset(t,k,v) t[k]=v end
function lget(t,k) return t[k] end
function llen(t) return #t end
function lnext(t,k) return next(t,k) end
function lipairs(t) local n=0 for i,v in ipairs(t) do n=i end return n end
function lpop(t) local n=#t t[n]=nil return n end
function lpush(t,v) local n=#t t[n+1]=v return n end
function lremove(t,p) return table.remove(t,p) end
function lipairs2(t) local r, n = {}, 0 for i,v in ipairs(t) do r[n+1]=i r[n+2]=v n=n+2 end return r, n end
`

func newTblWorld() *tblWorld {
	L := lua.NewState(lua.Options{SkipOpenLibs: false})
	if err := L.DoString(tblPrelude); err != nil {
		panic(err)
	}
	w := &tblWorld{L: L, tbls: map[int]*lua.LTable{}, refs: map[int]lua.LValue{}, rt: NewRefTable(), fns: map[string]*lua.LFunction{}, subs: map[int]ctorSpec{}}
	for _, n := range []string{"lset", "lget", "llen", "lnext", "lipairs", "lpop", "lpush", "lremove", "lipairs2"} {
		w.fns[n] = L.GetGlobal(n).(*lua.LFunction)
	}
	return w
}

func (w *tblWorld) dec(tok string) lua.LValue {
	switch {
	case tok == "nil":
		return lua.LNil
	case tok == "T":
		return lua.LTrue
	case tok == "F":
		return lua.LFalse
	case tok == "nan":
		return lua.LNumber(math.NaN())
	case tok[0] == 'i':
		f, _ := strconv.ParseFloat(tok[1:], 64)
		return lua.LNumber(f)
	case tok[0] == 'f':
		b, _ := strconv.ParseUint(tok[1:], 10, 64)
		return lua.LNumber(math.Float64frombits(b))
	case tok[0] == 's':
		b, _ := hex.DecodeString(tok[1:])
		return lua.LString(string(b))
	case tok[0] == 'r':
		n, _ := strconv.Atoi(tok[1:])
		if v, ok := w.refs[n]; ok {
			return v
		}
		t := w.L.NewTable()
		w.rt.Bind(t, n)
		w.refs[n] = t
		return t
	}
	panic("bad token " + tok)
}

func (w *tblWorld) enc(v lua.LValue) string { return encVal(v, w.rt) }

// protected Lua-level call; returns results or "err"
func (w *tblWorld) lcall(fn string, nret int, args ...lua.LValue) ([]lua.LValue, bool) {
	top := w.L.GetTop()
	err := w.L.CallByParam(lua.P{Fn: w.fns[fn], NRet: nret, Protect: true}, args...)
	if err != nil {
		w.L.SetTop(top)
		return nil, false
	}
	res := make([]lua.LValue, nret)
	for i := 0; i < nret; i++ {
		res[i] = w.L.Get(top + 1 + i)
	}
	w.L.SetTop(top)
	return res, true
}

func execTable(ops []Op) []string {
	w := newTblWorld()
	defer w.L.Close()
	var out []string
	emit := func(args []string, reply string) {
		l := "T " + strings.Join(args, " ")
		if reply != "" {
			l += " => " + reply
		}
		out = append(out, l)
	}
	for _, op := range ops {
		a := op.Args
		name := a[0]
		id, _ := strconv.Atoi(a[1])
		tb := w.tbls[id]
		if name == "numkey" {
			// key normalisation: a[1] = float64 bit pattern (decimal).  Observed through the public API only: the
			// Lua-level store raises for NaN; on a fresh table RawSet(v) followed by RawGetH(v) tells whether the key was
			// routed to the hash part (isArrayKey is unexported); the canonical token is the harness's encNum
			bits, _ := strconv.ParseUint(a[1], 10, 64)
			v := lua.LNumber(math.Float64frombits(bits))
			ft := w.L.NewTable()
			_, ok := w.lcall("lset", 0, ft, v, lua.LTrue)
			reply := ""
			switch {
			case !ok:
				reply = "nan"
			case ft.RawGet(v) != lua.LTrue:
				out = append(out, "X numkey-store-not-readable => "+a[1])
				continue
			case ft.RawGetH(v) == lua.LTrue:
				reply = "hash " + encNum(float64(v))
			default:
				reply = "arr " + encNum(float64(v))
			}
			emit([]string{"numkey", a[1], strconv.Itoa(lua.MaxArrayIndex)}, reply)
			continue
		}
		if tb == nil && name != "new" && name != "ctor" && name != "sub" {
			continue // (a shrunk case may have lost the op that creates the table)
		}
		switch name {
		case "new":
			acap, _ := strconv.Atoi(a[2])
			w.tbls[id] = w.L.CreateTable(acap, 0)
			emit([]string{"new", a[1], a[2], strconv.Itoa(lua.MaxArrayIndex)}, "")
		case "sub": // defines a nested constructor, used by a later `ctor`
			w.subs[id] = parseCtorSpec(a[2:])
		case "ctor": // a table constructor executed as Lua source on the real VM (c09_ctor.go)
			out = append(out, w.execCtor(id, parseCtorSpec(a[2:]), w.subs)...)
		case "lpop", "lpush": // the list idioms t[#t] = nil and t[#t+1] = v: one `#` observation and one store
			var res []lua.LValue
			var ok bool
			v := "nil"
			if name == "lpop" {
				res, ok = w.lcall("lpop", 1, tb)
			} else {
				v = a[2]
				res, ok = w.lcall("lpush", 1, tb, w.dec(v))
			}
			if !ok {
				out = append(out, "X "+name+"-raised => "+a[1])
				break
			}
			n := int(res[0].(lua.LNumber))
			emit([]string{"len", a[1]}, strconv.Itoa(n))
			if name == "lpush" {
				n++
			}
			emit([]string{"lset", a[1], "i" + strconv.Itoa(n), v}, "ok")
		case "set":
			tb.RawSet(w.dec(a[2]), w.dec(a[3]))
			emit(a, "")
		case "seti":
			k, _ := strconv.Atoi(a[2][1:])
			tb.RawSetInt(k, w.dec(a[3]))
			emit(a, "")
		case "sets":
			tb.RawSetString(string(w.dec(a[2]).(lua.LString)), w.dec(a[3]))
			emit(a, "")
		case "seth":
			tb.RawSetH(w.dec(a[2]), w.dec(a[3]))
			emit(a, "")
		case "lset": // Lua-level t[k]=v
			_, ok := w.lcall("lset", 0, tb, w.dec(a[2]), w.dec(a[3]))
			r := "ok"
			if !ok {
				r = "err"
			}
			if a[2] == "nan" {
				emit([]string{"lsetnan", a[1], a[3]}, r)
			} else {
				emit(a, r)
			}
		case "apiset": // LState.RawSet (validating Go API)
			r := "ok"
			func() {
				defer func() {
					if recover() != nil {
						r = "err"
					}
				}()
				w.L.RawSet(tb, w.dec(a[2]), w.dec(a[3]))
			}()
			if a[2] == "nan" {
				emit([]string{"lsetnan", a[1], a[3]}, r)
			} else {
				emit([]string{"lset", a[1], a[2], a[3]}, r)
			}
		case "get":
			emit(a, w.enc(tb.RawGet(w.dec(a[2]))))
		case "geti":
			k, _ := strconv.Atoi(a[2][1:])
			emit(a, w.enc(tb.RawGetInt(k)))
		case "gets":
			emit(a, w.enc(tb.RawGetString(string(w.dec(a[2]).(lua.LString)))))
		case "geth":
			emit(a, w.enc(tb.RawGetH(w.dec(a[2]))))
		case "lget":
			res, ok := w.lcall("lget", 1, tb, w.dec(a[2]))
			r := "err"
			if ok {
				r = w.enc(res[0])
			}
			emit([]string{"get", a[1], a[2]}, r)
		case "len":
			emit(a, strconv.Itoa(tb.Len()))
		case "llen":
			res, ok := w.lcall("llen", 1, tb)
			r := "err"
			if ok {
				r = w.enc(res[0])[1:]
			}
			emit([]string{"len", a[1]}, r)
		case "objlen":
			emit([]string{"len", a[1]}, strconv.Itoa(w.L.ObjLen(tb)))
		case "maxn":
			emit(a, strconv.Itoa(tb.MaxN()))
		case "append":
			tb.Append(w.dec(a[2]))
			emit(a, "")
		case "insert":
			k, _ := strconv.Atoi(a[2][1:])
			tb.Insert(k, w.dec(a[3]))
			emit(a, "")
		case "remove":
			k, _ := strconv.Atoi(a[2][1:])
			emit(a, w.enc(tb.Remove(k)))
		case "foreach":
			var ps []string
			tb.ForEach(func(k, v lua.LValue) { ps = append(ps, w.enc(k)+"="+w.enc(v)) })
			sort.Strings(ps)
			emit(a, strings.Join(ps, " "))
		case "ipairs": // ipairs visits 1..n up to the first nil: report n, checked through `geti`s
			res, ok := w.lcall("lipairs", 1, tb)
			n := -1
			if ok {
				n = int(res[0].(lua.LNumber))
			}
			// ipairs stops at the first nil: keys 1..n non-nil, n+1 nil  (spec side: via gets)
			for i := 1; i <= n; i++ {
				emit([]string{"geti", a[1], "i" + strconv.Itoa(i)}, w.enc(tb.RawGetInt(i)))
				if tb.RawGetInt(i) == lua.LNil {
					out = append(out, "X ipairs-visited-nil => "+strconv.Itoa(i))
				}
			}
			emit([]string{"geti", a[1], "i" + strconv.Itoa(n+1)}, "nil")
			// … and the pairs the generic `for` delivers, in order (Model: ipairsRun over ipairsaux / RawGetInt)
			if res, ok := w.lcall("lipairs2", 2, tb); ok {
				rt := res[0].(*lua.LTable)
				cnt := int(res[1].(lua.LNumber))
				toks := []string{strconv.Itoa(cnt / 2)}
				for i := 1; i <= cnt; i++ {
					toks = append(toks, w.enc(rt.RawGetInt(i)))
				}
				emit([]string{"ipairs", a[1]}, strings.Join(toks, " "))
			} else {
				out = append(out, "X ipairs-raised => "+a[1])
			}
		case "travmod": // traversal under modification through every traversal entry point (c09_travmod.go)
			out = append(out, w.execTravMod(a[1], tb, a[2], parseTravModPlan(a[3:]))...)
		case "trbegin": // scripted chains (corpus): the Spec session of a traversal starts here …
			emit(a, "")
		case "next": // … and every `next <key>` is one call of LTable.Next with that key
			k, v := tb.Next(w.dec(a[2]))
			emit(a, w.enc(k)+" "+w.enc(v))
		case "trav":
			// full traversal from nil with interleaved clear/overwrite of existing fields;
			// a[2] = seed, a[3] = mode (go: tb.Next, lua: next(t,k), api: L.Next), a[4] = modification percentage,
			// a[5] (optional) = percentage of steps followed by a Remove / table.remove (which only clears or shifts
			// existing fields but shrinks the array part), a[6] (optional) = 1: the stores may also re-insert a field
			// that was present when the traversal began and has been cleared since (its slot still exists)
			seed, _ := strconv.Atoi(a[2])
			pct, _ := strconv.Atoi(a[4])
			rmPct, reins := 0, false
			if len(a) > 5 {
				rmPct, _ = strconv.Atoi(a[5])
			}
			if len(a) > 6 {
				reins = a[6] == "1"
			}
			r := NewRng(uint64(seed))
			emit([]string{"trbegin", a[1]}, "")
			var atBegin []lua.LValue
			tb.ForEach(func(k2, _ lua.LValue) { atBegin = append(atBegin, k2) })
			sort.Slice(atBegin, func(i, j int) bool { return w.enc(atBegin[i]) < w.enc(atBegin[j]) })
			var key lua.LValue = lua.LNil
			var seen []lua.LValue
			entries := 0
			tb.ForEach(func(_, _ lua.LValue) { entries++ })
			for steps := 0; ; steps++ {
				if steps > 4*entries+200 {
					// (a traversal that keeps going is reported once, not as a hundred thousand request lines)
					out = append(out, fmt.Sprintf("X traversal-does-not-terminate => %d steps over a table of %d entries, last key %s", steps, entries, w.enc(key)))
					return out
				}
				var k, v lua.LValue
				switch a[3] {
				case "go":
					k, v = tb.Next(key)
				case "api":
					k, v = w.L.Next(tb, key)
				default:
					res, ok := w.lcall("lnext", 2, tb, key)
					if !ok {
						out = append(out, "X next-raised => "+w.enc(key))
						return out
					}
					k, v = res[0], res[1]
				}
				emit([]string{"next", a[1], w.enc(key)}, w.enc(k)+" "+w.enc(v))
				if k == lua.LNil {
					break
				}
				seen = append(seen, k)
				key = k
				if r.Chance(pct) {
					// clear or overwrite an existing field (any present key, visited or not)
					var present []lua.LValue
					tb.ForEach(func(k2, _ lua.LValue) { present = append(present, k2) })
					if len(present) > 0 {
						sort.Slice(present, func(i, j int) bool { return w.enc(present[i]) < w.enc(present[j]) })
						tk := present[r.Intn(len(present))]
						var nv lua.LValue = lua.LNil
						if r.Bool() {
							nv = lua.LNumber(1000 + r.Intn(1000))
						}
						if reins && r.Bool() {
							// any key that had a field when the traversal began (possibly cleared since): re-insertion
							tk = atBegin[r.Intn(len(atBegin))]
							nv = lua.LNumber(2000 + r.Intn(1000))
						}
						if a[3] == "go" {
							tb.RawSet(tk, nv)
							emit([]string{"set", a[1], w.enc(tk), w.enc(nv)}, "")
						} else {
							_, ok := w.lcall("lset", 0, tb, tk, nv)
							rr := "ok"
							if !ok {
								rr = "err"
							}
							emit([]string{"lset", a[1], w.enc(tk), w.enc(nv)}, rr)
						}
					}
				}
				if rmPct > 0 && r.Chance(rmPct) {
					// a list helper in the middle of the traversal: pop (#t), front, a middle position, out of range
					n := tb.Len()
					pos := Pick(r, []int{n, n, n, 1, r.Range(1, n+1), n + 1, 0, -1})
					ps := "i" + strconv.Itoa(pos)
					if a[3] == "lua" {
						res, ok := w.lcall("lremove", 1, tb, lua.LNumber(pos))
						if !ok {
							out = append(out, "X table.remove-raised => "+ps)
							return out
						}
						emit([]string{"remove", a[1], ps}, w.enc(res[0]))
					} else {
						emit([]string{"remove", a[1], ps}, w.enc(tb.Remove(pos)))
					}
				}
			}
		default:
			panic("bad op " + name)
		}
	}
	return out
}

// ---------- generator ----------

func genTableCase(r *Rng, maxOps int, mai int) []Op {
	var ops []Op
	add := func(args ...string) { ops = append(ops, Op{Args: args}) }
	ntab := 1
	if r.Chance(15) {
		ntab = 2
	}
	for i := 1; i <= ntab; i++ {
		acap := 0
		if r.Chance(20) {
			acap = r.Range(1, 8)
		}
		add("new", strconv.Itoa(i), strconv.Itoa(acap))
	}
	return append(ops, genTableHistory(r, maxOps, mai, ntab, make([]int, ntab+1), len(ops))...)
}

// genTableHistory: a random history over the tables 1..ntab, which exist already; alen[t] is the largest array
// index known to be in use in table t (alen[0] is unused); base = number of ops the case has already.
func genTableHistory(r *Rng, maxOps int, mai int, ntab int, alen []int, base int) []Op {
	var ops []Op
	add := func(args ...string) { ops = append(ops, Op{Args: args}) }
	// shadow knowledge used for state-aware argument choice
	used := make([][]string, ntab+1)
	strs := []string{"s61", "s62", "s31", "s", "s6b6579", "s00ff", "s312e30"} // a b "1" "" key \0\xff "1.0"
	genKey := func(t int) string {
		switch c := r.Intn(100); {
		case c < 38:
			return "i" + strconv.Itoa(r.Range(1, alen[t]+2))
		case c < 43:
			return "i" + strconv.Itoa(r.Range(alen[t]+2, alen[t]+6))
		case c < 48:
			return "i0"
		case c < 53:
			return "i" + strconv.Itoa(-r.Range(1, 3))
		case c < 57:
			if mai < 1000 {
				return "i" + strconv.Itoa(mai+r.Range(-2, 2))
			}
			return Pick(r, []string{"i67108866", "i67108865", "i9007199254740992", "i4294967296", "i-9007199254740992"}) // the exact boundary is exercised with the tunable lowered (a 1 GiB array otherwise)
		case c < 63:
			return encNum(float64(r.Range(-4, 8)) + Pick(r, []float64{0.5, 0.25, -0.5}))
		case c < 80:
			return Pick(r, strs)
		case c < 86:
			return Pick(r, []string{"T", "F"})
		case c < 92:
			return "r" + strconv.Itoa(r.Range(1, 3))
		default:
			if len(used[t]) > 0 {
				return Pick(r, used[t])
			}
			return "i1"
		}
	}
	genVal := func() string {
		switch c := r.Intn(100); {
		case c < 22:
			return "nil"
		case c < 60:
			return "i" + strconv.Itoa(r.Range(-5, 99))
		case c < 80:
			return Pick(r, strs)
		case c < 88:
			return Pick(r, []string{"T", "F"})
		case c < 94:
			return encNum(float64(r.Range(0, 9)) + 0.5)
		default:
			return "r" + strconv.Itoa(r.Range(1, 3))
		}
	}
	isArr := func(k string) (int, bool) {
		if k[0] != 'i' {
			return 0, false
		}
		n, err := strconv.Atoi(k[1:])
		if err != nil || n < 1 || n >= mai {
			return 0, false
		}
		return n, true
	}
	note := func(t int, k string) {
		used[t] = append(used[t], k)
		if n, ok := isArr(k); ok && n > alen[t] {
			alen[t] = n
		}
	}
	nops := r.Range(3, maxOps) - base
	for len(ops) < nops {
		t := r.Range(1, ntab)
		ts := strconv.Itoa(t)
		switch c := r.Intn(100); {
		case c < 34: // stores
			k := genKey(t)
			v := genVal()
			_, arr := isArr(k)
			switch m := r.Intn(10); {
			case m < 3:
				add("set", ts, k, v)
			case m < 6:
				add("lset", ts, k, v)
			case m < 7:
				add("apiset", ts, k, v)
			case m < 8 && k[0] == 'i' && len(k) < 12:
				add("seti", ts, k, v)
			case k[0] == 's' && m < 9:
				add("sets", ts, k, v)
			case !arr: // hash accessors only with hash-part keys
				add("seth", ts, k, v)
			default:
				add("set", ts, k, v)
			}
			note(t, k)
		case c < 36:
			add(Pick(r, []string{"lset", "apiset"}), ts, Pick(r, []string{"nan", "nil"}), genVal())
		case c < 58: // reads
			k := genKey(t)
			_, arr := isArr(k)
			switch m := r.Intn(10); {
			case m < 4:
				add("get", ts, k)
			case m < 6:
				add("lget", ts, k)
			case m < 7 && k[0] == 'i' && len(k) < 12:
				add("geti", ts, k)
			case k[0] == 's' && m < 9:
				add("gets", ts, k)
			case !arr:
				add("geth", ts, k)
			default:
				add("get", ts, k)
			}
		case c < 68:
			switch o := Pick(r, []string{"len", "llen", "objlen", "maxn", "lpop", "lpush"}); o {
			case "lpush": // t[#t+1] = v
				add(o, ts, genVal())
				alen[t]++
			default: // lpop: t[#t] = nil
				add(o, ts)
			}
		case c < 74:
			v := genVal()
			add("append", ts, v)
			if v != "nil" {
				alen[t]++
			}
		case c < 79:
			add("insert", ts, "i"+strconv.Itoa(r.Range(-1, alen[t]+3)), genVal())
			alen[t]++
		case c < 84:
			add("remove", ts, "i"+strconv.Itoa(r.Range(-1, alen[t]+2)))
		case c < 88:
			add("foreach", ts)
		case c < 91:
			add("ipairs", ts)
		default:
			if r.Chance(35) { // every traversal entry point, the visitor clearing / overwriting existing fields
				add("travmod", ts, Pick(r, travModEntries), "rnd", strconv.Itoa(r.Intn(1<<30)), Pick(r, []string{"0", "40", "100"}))
				break
			}
			pct := Pick(r, []int{0, 0, 30, 60})
			rm := Pick(r, []int{0, 0, 0, 25})
			reins := Pick(r, []string{"0", "0", "1"})
			add("trav", ts, strconv.Itoa(r.Intn(1<<30)), Pick(r, []string{"go", "lua", "api"}), strconv.Itoa(pct), strconv.Itoa(rm), reins)
		}
	}
	// always end with a full observation
	for t := 1; t <= ntab; t++ {
		ts := strconv.Itoa(t)
		add("len", ts)
		add("foreach", ts)
		add("trav", ts, "1", "go", "0")
	}
	return ops
}

// genNumKeyCases: bit patterns around every boundary of the key classifier (±0, 1, fractions next to integers, 2^52,
// 2^53, ±2^63, MaxArrayIndex-1/+0/+1, subnormals, ±Inf, quiet/signalling/negative NaNs) + random ones of four shapes.
func genNumKeyCases(root *Rng, n int, mai int) []Case {
	f := math.Float64bits
	special := []uint64{0, 1 << 63, f(1), f(-1), f(0.5), f(1.5), f(2), f(3), f(-0.5), f(4503599627370496), f(4503599627370497),
		f(4503599627370495.5), f(9007199254740992), f(9007199254740994), f(4611686018427387904), f(9223372036854775808), f(-9223372036854775808),
		f(9223372036854774784), f(-9223372036854777856), f(18446744073709551616), f(1e300), f(-1e300), 1, 0x000FFFFFFFFFFFFF, 0x0010000000000000,
		0x7FF0000000000000, 0xFFF0000000000000, 0x7FF8000000000000, 0x7FF0000000000001, 0xFFF8000000000000, 0x7FFFFFFFFFFFFFFF,
		f(float64(mai - 1)), f(float64(mai)), f(float64(mai + 1)), f(float64(mai) - 0.5), f(float64(mai-1) - 0.25), f(math.Nextafter(float64(mai), 0)),
		f(math.Nextafter(1, 2)), f(math.Nextafter(1, 0)), f(math.Nextafter(0, 1)), f(67108863), f(67108864), f(67108865)}
	var cases []Case
	var ops []Op
	flush := func(idx int) {
		if len(ops) > 0 {
			cases = append(cases, Case{Idx: idx, Ops: ops, Note: "numkey"})
			ops = nil
		}
	}
	for i, b := range special {
		ops = append(ops, Op{Args: []string{"numkey", strconv.FormatUint(b, 10)}})
		if len(ops) == 16 {
			flush(6000000 + i)
		}
	}
	flush(6000999)
	for i := 0; i < n; i++ {
		r := root.Fork(uint64(6100000 + i))
		for j := 0; j < 16; j++ {
			var b uint64
			switch r.Intn(5) {
			case 0:
				b = r.U64()
			case 1:
				b = f(float64(r.Range(-10, mai+10)))
			case 2:
				b = f(float64(r.Range(-10, mai+10)) + Pick(r, []float64{0.5, 0.25, -0.125, 1e-9}))
			case 3: // exponent around the integral/non-integral boundary, low fraction bits cleared
				e := uint64(1023 + r.Range(-3, 66))
				fr := r.U64() & (1<<52 - 1)
				fr &^= (uint64(1) << uint(r.Range(0, 52))) - 1
				b = uint64(r.Intn(2))<<63 | e<<52 | fr
			default: // a neighbour of an integral double
				x := float64(r.Range(0, 1<<20)) * math.Pow(2, float64(r.Range(0, 44)))
				b = f(math.Nextafter(x, Pick(r, []float64{math.Inf(1), math.Inf(-1), x})))
			}
			ops = append(ops, Op{Args: []string{"numkey", strconv.FormatUint(b, 10)}})
		}
		flush(6100000 + i)
	}
	return cases
}

func skeletonOf(ops []Op) string {
	var sb strings.Builder
	for _, o := range ops {
		sb.WriteString(o.Args[0])
		if len(o.Args) > 2 {
			sb.WriteByte(':')
			sb.WriteByte(o.Args[2][0])
		}
		sb.WriteByte(' ')
	}
	return sb.String()
}

func init() { props["C09"] = runC09 }

func runC09(run *Run) {
	nCases, maxOps := 3000, 40
	if run.Tier == "thorough" {
		nCases, maxOps = 60000, 120
	}
	run.Rule = "random table histories (state-aware keys: array window, 0, negatives, >=MaxArrayIndex, 2^53, fractions, strings incl. \"1\", booleans, tables; Go API + Lua-level ops; traversals with interleaved clear/overwrite/re-insertion of cleared fields and Remove/table.remove; every traversal entry point — Next chains via Go/API/Lua, pairs, ipairs, LTable.ForEach, LState.ForEach — with a visitor that clears/overwrites an already visited / the current / a not yet visited existing field: bounded-exhaustive over small tables with fields in array part, strdict and dict, and seeded multi-store schedules) executed on the real LTable and replayed on the Lean Model (exact) and Spec (finite map, border, traversal completeness); + tables built by table constructors executed as Lua source on the real VM (bounded-exhaustive: explicit integer keys x number of positional items x trailing call/vararg, small sizes and the SETLIST batch boundary; random: every key class, nested, invalid keys), read back key by key / # / pairs / ForEach against the stores the manual says the constructor is equivalent to + exhaustive array-part sweeps (every length 1..80: shrink from the end by every k, tail run of nils of every length in one step, holes from every middle position, growth) with the border law checked after every step; distinct = distinct op-kind/key-class skeletons with >= 1 store and >= 1 observation"
	run.Assume = []string{"Go map semantics (lookup/insert/delete by ==; iteration order unspecified) — maps are modelled as association lists and ForEach's hash part is compared as a set",
		"number keys are canonicalised by the harness (integral float64 → its integer; -0.0 → 0) before they reach the model; the canonicalisation itself (encNum) and the array/hash routing are compared with the Model's numKey / goIsArrayKey on float64 bit patterns (numkey pass)",
		"the array part is not driven to MaxArrayIndex-1 elements (1 GiB) in the default configuration; the boundary is exercised with the exported tunable lowered",
		"the meaning of a table constructor (manual 2.5.7: positional items numbered from 1, a trailing call/vararg contributes all its values, name = e is [\"name\"] = e) is computed by the harness and replayed on Model and Spec as the equivalent stores; only constructors that store no key twice are generated"}
	root := NewRng(uint64(run.Seed))
	var cases []Case
	corpus := loadCorpus("C09")
	for i, c := range corpus {
		cases = append(cases, Case{Idx: -1 - i, Ops: c, Note: "corpus"})
	}
	for i := 0; i < nCases; i++ {
		r := root.Fork(uint64(i))
		cases = append(cases, Case{Idx: i, Ops: genTableCase(r, maxOps, lua.MaxArrayIndex)})
	}
	runCases(run, cases, execTable, classifyNone)
	// second pass (it runs before the lowered-MaxArrayIndex pass so that its small exhaustive cases are the ones
	// reported first): tables built by constructors executed as Lua source on the real VM (c09_ctor.go):
	// bounded-exhaustive mixes of explicit integer keys and positional items (small sizes and the SETLIST batch
	// boundary), then random constructors over every key class continued as random histories
	nCtor, maxSmall, maxN, maxHole := 300, 7, 80, 24
	if run.Tier == "thorough" {
		nCtor, maxSmall, maxN, maxHole = 6000, 12, 140, 64
	}
	cases = genCtorSweep(lua.FieldsPerFlush, maxSmall)
	for i := 0; i < nCtor; i++ {
		r := root.Fork(uint64(5000000 + i))
		cases = append(cases, Case{Idx: 5000000 + i, Ops: genCtorRandom(r, maxOps, lua.MaxArrayIndex), Note: "ctor-random"})
	}
	runCases(run, interleave(cases, 16), execTable, classifyNone)
	// ... the same with the exported tunable FieldsPerFlush lowered to 3, which brings the batch boundary into the
	// exhaustive small sweep
	savedFpf := lua.FieldsPerFlush
	lua.FieldsPerFlush = 3
	cases = genCtorSweep(3, maxSmall+1)
	for i := 0; i < nCtor/3; i++ {
		r := root.Fork(uint64(5100000 + i))
		cases = append(cases, Case{Idx: 5100000 + i, Ops: genCtorRandom(r, maxOps, lua.MaxArrayIndex), Note: "ctor-random-fpf3"})
	}
	runCases(run, interleave(cases, 16), execTable, classifyNone)
	lua.FieldsPerFlush = savedFpf
	// third pass: exhaustive sweeps over the array part, the border law checked after every step: every list
	// length n, the last k elements cleared for every k (t[#t]=nil, t[i]=nil, RawSetInt, RawSet), a trailing run of
	// nils of every length appearing in one step, holes growing from every middle position, and growth (hole
	// filled upwards / downwards, then growth past the end through every store path)
	runCases(run, interleave(genArraySweeps(maxN, maxHole), 16), execTable, classifyNone)
	// fourth pass: the hash part after many deletions (insertion-order bookkeeping), see genHashChurnSweeps
	churnN := 130
	if run.Tier == "thorough" {
		churnN = 300
	}
	runCases(run, interleave(genHashChurnSweeps(churnN), 8), execTable, classifyNone)
	// traversal-under-modification sweep (c09_travmod.go): bounded-exhaustive over small tables with fields in every part x
	// every traversal entry point (Next chains through Go / API / Lua, pairs, ipairs, LTable.ForEach, LState.ForEach) x the
	// visit at which the visitor stores x target class (already visited / current / not yet visited) x clear / overwrite
	{
		nrnd := 4
		if run.Tier == "thorough" {
			nrnd = 60
		}
		runCases(run, interleave(genTravModSweep(root, nrnd), 16), execTable, classifyNone)
	}
	// key-normalisation pass: float64 bit patterns → canonical key and array/hash routing (Model: numKey, goIsArrayKey);
	// MaxArrayIndex lowered so that a key routed to the array part costs at most a 4096-element array
	{
		savedMai := lua.MaxArrayIndex
		lua.MaxArrayIndex = 4096
		nk := 250
		if run.Tier == "thorough" {
			nk = 6000
		}
		runCases(run, genNumKeyCases(root, nk, 4096), execTable, classifyNone)
		lua.MaxArrayIndex = savedMai
	}
	// last pass: the exported tunable MaxArrayIndex lowered so that the array/hash routing boundary is
	// reachable without a 1 GiB array (the Model takes MaxArrayIndex as a parameter of every table)
	saved := lua.MaxArrayIndex
	for _, mai := range []int{6, 17} {
		lua.MaxArrayIndex = mai
		cases = nil
		for i := 0; i < nCases/3; i++ {
			r := root.Fork(uint64(1000000*mai + i))
			cases = append(cases, Case{Idx: 1000000*mai + i, Ops: genTableCase(r, maxOps, mai)})
		}
		// ... and tables built by constructors (c09_ctor.go): positional items at or above MaxArrayIndex go to the hash part
		for i := 0; i < nCases/30; i++ {
			r := root.Fork(uint64(5200000 + 100000*mai + i))
			cases = append(cases, Case{Idx: 5200000 + 100000*mai + i, Ops: genCtorRandom(r, maxOps, mai), Note: "ctor-random-mai"})
		}
		runCases(run, cases, execTable, classifyNone)
	}
	lua.MaxArrayIndex = saved

	_ = fmt.Sprint
}
