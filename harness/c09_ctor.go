package main

// C09, second part: tables built by table CONSTRUCTORS executed as Lua source on the real VM, and exhaustive
// shrink / hole / growth sweeps over the array part with the border law checked after every step.
//
// A constructor is one op
//
//	ctor <id> <mode> <field>...        (sub <id> <mode> <field>... only defines a nested constructor)
//
// with blank-free field tokens
//
//	P:<val>            positional item                         exp
//	K:<key>:<val>      explicit key                            [key] = exp
//	N:<hexname>:<val>  name field                              name = exp
//	Q:<v>,<v>,...      positional, parenthesised call          (G(v, v, ...))      -- exactly one value
//	C:<v>,<v>,...      trailing multi-value call (last field)  G(v, v, ...)        -- all values
//	V:<v>,<v>,...      trailing vararg (last field)            ...                 -- all values
//
// <val>/<key> are wire tokens (nil T F i.. f.. s.. r1..r3, `nan` as a key) or `@<id>` for a nested constructor.
// mode: c = literals, g = every key/value goes through a call `I(x)` (so the last positional item is an
// open call: SETLIST with B = 0), p = `(I(x))` and integer keys written as `k.0`.
//
// The MEANING of the constructor is derived here from the manual (§2.5.7: positional items are numbered
// 1, 2, ... in order, a trailing call / vararg contributes all its values, `name = e` is `["name"] = e`) and sent
// to the Lean engine as the equivalent sequence of stores (in the order the VM performs them: keyed fields in
// source order, positional items in batches of FieldsPerFlush and at the end).  The implementation side is the
// table the real VM built from the source text; every later observation (reads key by key, #, pairs/next,
// ForEach, ipairs) is judged against Model and finite-map Spec.  Only constructors whose meaning the manual
// fixes are generated: no key is stored twice.

import (
	"encoding/hex"
	"fmt"
	"math"
	"strconv"
	"strings"

	lua "github.com/yuin/gopher-lua"
)

type ctorField struct {
	kind byte
	key  string
	val  string
	vals []string
}

type ctorSpec struct {
	mode   string
	fields []ctorField
}

func (f ctorField) tok() string {
	switch f.kind {
	case 'P':
		return "P:" + f.val
	case 'K':
		return "K:" + f.key + ":" + f.val
	case 'N':
		return "N:" + f.key + ":" + f.val
	default:
		return string(f.kind) + ":" + strings.Join(f.vals, ",")
	}
}

func parseCtorSpec(args []string) ctorSpec {
	sp := ctorSpec{mode: "c"}
	if len(args) > 0 {
		sp.mode = args[0]
		args = args[1:]
	}
	for _, t := range args {
		parts := strings.Split(t, ":")
		if len(parts) < 2 || len(parts[0]) != 1 {
			continue
		}
		f := ctorField{kind: parts[0][0]}
		switch f.kind {
		case 'P':
			f.val = parts[1]
		case 'K', 'N':
			if len(parts) < 3 {
				continue
			}
			f.key, f.val = parts[1], parts[2]
		case 'Q', 'C', 'V':
			if parts[1] != "" {
				f.vals = strings.Split(parts[1], ",")
			}
		default:
			continue
		}
		sp.fields = append(sp.fields, f)
	}
	return sp
}

func ctorOp(name string, id int, sp ctorSpec) Op {
	a := []string{name, strconv.Itoa(id), sp.mode}
	for _, f := range sp.fields {
		a = append(a, f.tok())
	}
	return Op{Args: a}
}

// multi reports whether field i is a trailing multi-value field (a call / vararg in last position).
func (sp ctorSpec) multi(i int) bool {
	f := sp.fields[i]
	return i == len(sp.fields)-1 && (f.kind == 'C' || f.kind == 'V')
}

// ---- rendering as Lua source ----

func c09Lit(tok string, dotZero bool) string {
	switch {
	case tok == "nil":
		return "nil"
	case tok == "T":
		return "true"
	case tok == "F":
		return "false"
	case tok == "nan":
		return "(0/0)"
	case tok[0] == 'i':
		if dotZero && len(tok) < 10 {
			return tok[1:] + ".0"
		}
		return tok[1:]
	case tok[0] == 'f':
		b, _ := strconv.ParseUint(tok[1:], 10, 64)
		return strconv.FormatFloat(math.Float64frombits(b), 'g', 17, 64)
	case tok[0] == 's':
		b, _ := hex.DecodeString(tok[1:])
		var sb strings.Builder
		sb.WriteByte('"')
		for _, c := range b {
			fmt.Fprintf(&sb, "\\%03d", c)
		}
		sb.WriteByte('"')
		return sb.String()
	case tok[0] == 'r':
		return "R" + tok[1:]
	}
	return "nil"
}

func subID(tok string) (int, bool) {
	if len(tok) > 1 && tok[0] == '@' {
		n, err := strconv.Atoi(tok[1:])
		return n, err == nil
	}
	return 0, false
}

func renderCtor(sp ctorSpec, subs map[int]ctorSpec, depth int) string {
	wrap := func(e string) string {
		switch sp.mode {
		case "g":
			return "I(" + e + ")"
		case "p":
			return "(I(" + e + "))"
		}
		return e
	}
	expr := func(tok string, isKey bool) string {
		if id, ok := subID(tok); ok {
			if depth > 4 {
				return wrap("{}")
			}
			return wrap(renderCtor(subs[id], subs, depth+1))
		}
		return wrap(c09Lit(tok, isKey && sp.mode == "p"))
	}
	lits := func(vs []string) string {
		var e []string
		for _, v := range vs {
			e = append(e, c09Lit(v, false))
		}
		return strings.Join(e, ", ")
	}
	var parts []string
	vararg := ""
	hasVar := false
	for i, f := range sp.fields {
		switch f.kind {
		case 'P':
			parts = append(parts, expr(f.val, false))
		case 'K':
			parts = append(parts, "["+expr(f.key, true)+"] = "+expr(f.val, false))
		case 'N':
			b, _ := hex.DecodeString(f.key)
			parts = append(parts, string(b)+" = "+expr(f.val, false))
		case 'Q':
			parts = append(parts, "(G("+lits(f.vals)+"))")
		case 'C':
			if sp.multi(i) {
				parts = append(parts, "G("+lits(f.vals)+")")
			}
		case 'V':
			if sp.multi(i) {
				parts = append(parts, "...")
				vararg, hasVar = lits(f.vals), true
			}
		}
	}
	sep := ", "
	if len(sp.fields)%2 == 1 {
		sep = "; "
	}
	body := "{" + strings.Join(parts, sep) + "}"
	if hasVar {
		return "(function(...) return " + body + " end)(" + vararg + ")"
	}
	return body
}

// ---- the meaning of a constructor: the stores it is equivalent to ----

type ctorStore struct {
	op  string // lset (keyed field) | seti (positional item)
	key string
	val string
}

// ctorMeaning returns the stores in VM order, the number of positional items the compiler counts for the array
// size hint, the total number of positional values, and whether a keyed field has a nil / NaN key (the
// constructor must then raise; errVal is that field's value token).
func ctorMeaning(sp ctorSpec, fpf int) (stores []ctorStore, arraycount, npos int, errKey, errVal string) {
	valTok := func(tok string) string {
		if id, ok := subID(tok); ok {
			return "r" + strconv.Itoa(100+id)
		}
		return tok
	}
	var pending []ctorStore
	flush := func() {
		stores = append(stores, pending...)
		pending = nil
	}
	pos := func(v string) {
		npos++
		pending = append(pending, ctorStore{"seti", "i" + strconv.Itoa(npos), v})
	}
	for i, f := range sp.fields {
		last := i == len(sp.fields)-1
		switch f.kind {
		case 'P':
			pos(valTok(f.val))
			if !(last && sp.mode == "g") { // `I(x)` in last position is an open call
				arraycount++
				if len(pending) == fpf {
					flush()
				}
			}
		case 'Q':
			v := "nil"
			if len(f.vals) > 0 {
				v = f.vals[0]
			}
			pos(v)
			arraycount++
			if len(pending) == fpf {
				flush()
			}
		case 'K':
			if f.key == "nil" || f.key == "nan" {
				if errKey == "" {
					errKey, errVal = f.key, valTok(f.val)
				}
				continue
			}
			stores = append(stores, ctorStore{"lset", f.key, valTok(f.val)})
		case 'N':
			stores = append(stores, ctorStore{"lset", "s" + f.key, valTok(f.val)})
		case 'C', 'V':
			if sp.multi(i) {
				for _, v := range f.vals {
					pos(v)
				}
			}
		}
	}
	flush()
	return
}

// ---- executor side ----

const ctorPrelude = "local R1, R2, R3 = ...\nlocal function G(...) return ... end\nlocal function I(x) return x end\nreturn "

// execCtor runs the constructor on the real VM, registers the resulting table(s) and returns the request lines.
func (w *tblWorld) execCtor(id int, sp ctorSpec, subs map[int]ctorSpec) (out []string) {
	mai := strconv.Itoa(lua.MaxArrayIndex)
	ids := strconv.Itoa(id)
	expr := renderCtor(sp, subs, 0)
	src := ctorPrelude + expr
	out = append(out, "T note "+ids+" lua: return "+expr+"   -- G(...) returns its arguments, I(x) returns x, R1..R3 are tables")
	// every constructor reachable from this one
	type node struct {
		id int
		sp ctorSpec
	}
	nodes := []node{{id, sp}}
	seen := map[int]bool{}
	for i := 0; i < len(nodes) && len(nodes) < 16; i++ {
		for _, f := range nodes[i].sp.fields {
			for _, tok := range []string{f.key, f.val} {
				if sid, ok := subID(tok); ok && !seen[sid] {
					seen[sid] = true
					nodes = append(nodes, node{sid, subs[sid]})
				}
			}
		}
	}
	mustRaise, errKey, errVal := false, "", ""
	for _, n := range nodes {
		if _, _, _, ek, ev := ctorMeaning(n.sp, lua.FieldsPerFlush); ek != "" && !mustRaise {
			mustRaise, errKey, errVal = true, ek, ev
		}
	}
	var res lua.LValue = lua.LNil
	raised := ""
	func() {
		defer func() {
			if r := recover(); r != nil {
				raised = fmt.Sprint("go-panic: ", r)
				out = append(out, "X ctor-panic => "+strings.ReplaceAll(fmt.Sprint(r), " ", "_"))
			}
		}()
		top := w.L.GetTop()
		fn, err := w.L.LoadString(src)
		if err != nil {
			raised = "compile: " + err.Error()
			out = append(out, "X ctor-does-not-compile => "+strings.ReplaceAll(err.Error(), " ", "_"))
			return
		}
		w.L.Push(fn)
		for _, r := range []string{"r1", "r2", "r3"} {
			w.L.Push(w.dec(r))
		}
		if err := w.L.PCall(3, 1, nil); err != nil {
			raised = err.Error()
			w.L.SetTop(top)
			return
		}
		res = w.L.Get(-1)
		w.L.SetTop(top)
	}()
	if mustRaise || raised != "" {
		// no table is produced; later ops of the case see fresh empty tables
		for _, n := range nodes {
			w.tbls[n.id] = w.L.NewTable()
			if n.id != id {
				w.refs[100+n.id] = w.tbls[n.id]
				w.rt.Bind(w.tbls[n.id], 100+n.id)
			}
			out = append(out, "T new "+strconv.Itoa(n.id)+" 0 "+mai)
		}
		switch {
		case mustRaise:
			r := "ok"
			if raised != "" {
				r = "err"
			}
			if errKey == "nan" {
				out = append(out, "T lsetnan "+ids+" "+errVal+" => "+r)
			} else {
				out = append(out, "T lset "+ids+" nil "+errVal+" => "+r)
			}
		case !strings.HasPrefix(raised, "go-panic") && !strings.HasPrefix(raised, "compile"):
			out = append(out, "X ctor-raised => "+strings.ReplaceAll(raised, " ", "_"))
		}
		return out
	}
	tb, ok := res.(*lua.LTable)
	if !ok {
		out = append(out, "X ctor-gave-no-table => "+res.Type().String())
		tb = w.L.NewTable()
	}
	// bind the tables: nested ones are found at the key their field stores them under
	var bind func(id int, sp ctorSpec, tb *lua.LTable, depth int)
	bind = func(id int, sp ctorSpec, tb *lua.LTable, depth int) {
		w.tbls[id] = tb
		npos := 0
		for i, f := range sp.fields {
			var at lua.LValue = lua.LNil
			switch f.kind {
			case 'P':
				npos++
				at = tb.RawGetInt(npos)
			case 'Q':
				npos++
			case 'K':
				at = tb.RawGet(w.dec(f.key))
			case 'N':
				b, _ := hex.DecodeString(f.key)
				at = tb.RawGetString(string(b))
			default:
				if sp.multi(i) {
					npos += len(f.vals)
				}
			}
			if sid, ok := subID(f.val); ok && depth < 5 {
				if _, done := w.tbls[sid]; done {
					continue
				}
				st, isT := at.(*lua.LTable)
				if !isT { // the nested table is not where the constructor put it: the read-back will show it
					st = w.L.NewTable()
				}
				w.refs[100+sid] = st
				w.rt.Bind(st, 100+sid)
				bind(sid, subs[sid], st, depth+1)
			}
		}
	}
	for _, n := range nodes[1:] {
		delete(w.tbls, n.id)
	}
	bind(id, sp, tb, 0)
	for _, n := range nodes {
		if _, ok := w.tbls[n.id]; !ok {
			w.tbls[n.id] = w.L.NewTable()
		}
		stores, ac, _, _, _ := ctorMeaning(n.sp, lua.FieldsPerFlush)
		ns := strconv.Itoa(n.id)
		out = append(out, "T new "+ns+" "+strconv.Itoa(ac)+" "+mai)
		for _, s := range stores {
			if s.op == "lset" {
				out = append(out, "T lset "+ns+" "+s.key+" "+s.val+" => ok")
			} else {
				out = append(out, "T seti "+ns+" "+s.key+" "+s.val)
			}
		}
	}
	return out
}

// ---- generators ----

var sweepVals = []string{"i7", "s61", "F", "T", "i-3", "f4602678819172646912", "s", "i0"} // 0.5 = f4602678819172646912

func sweepVal(i int) string {
	if i%3 == 0 {
		return sweepVals[(i/3)%len(sweepVals)]
	}
	return "i" + strconv.Itoa(100+i)
}

type caseBuilder struct {
	ops []Op
}

func (b *caseBuilder) add(args ...string) { b.ops = append(b.ops, Op{Args: args}) }

// readback: every explicit key, the positional window (all of it when small, the flush boundaries otherwise),
// one index past the end, then #, ForEach, ipairs and a Lua-level traversal.
func ctorReadback(b *caseBuilder, id int, sp ctorSpec, variant int) {
	ids := strconv.Itoa(id)
	_, _, npos, _, _ := ctorMeaning(sp, 50)
	maxInt := npos
	for _, f := range sp.fields {
		switch f.kind {
		case 'K':
			if f.key == "nil" || f.key == "nan" {
				continue
			}
			variant++
			switch {
			case f.key[0] == 'i' && len(f.key) < 10 && variant%3 == 0:
				b.add("geti", ids, f.key)
			case variant%3 == 1:
				b.add("get", ids, f.key)
			default:
				b.add("lget", ids, f.key)
			}
			if f.key[0] == 'i' && len(f.key) < 8 {
				if n, _ := strconv.Atoi(f.key[1:]); n > maxInt {
					maxInt = n
				}
			}
		case 'N':
			variant++
			if variant%2 == 0 {
				b.add("gets", ids, "s"+f.key)
			} else {
				b.add("lget", ids, "s"+f.key)
			}
		}
	}
	idx := map[int]bool{}
	if npos <= 12 {
		for i := 1; i <= npos+1; i++ {
			idx[i] = true
		}
	} else {
		for _, i := range []int{1, 2, 49, 50, 51, 52, 99, 100, 101, 102, npos - 1, npos, npos + 1} {
			if i >= 1 && i <= npos+1 {
				idx[i] = true
			}
		}
	}
	idx[maxInt+1] = true
	for i := 1; i <= maxInt+1; i++ {
		if idx[i] {
			variant++
			if variant%2 == 0 {
				b.add("geti", ids, "i"+strconv.Itoa(i))
			} else {
				b.add("lget", ids, "i"+strconv.Itoa(i))
			}
		}
	}
	b.add("llen", ids)
	b.add("len", ids)
	b.add("foreach", ids)
	if npos <= 12 || variant%4 == 0 {
		b.add("ipairs", ids)
	}
	b.add("trav", ids, "1", Pick(NewRng(uint64(variant)), []string{"lua", "go", "api"}), "0")
}

func posFields(lo, n int) []ctorField {
	var fs []ctorField
	for i := 0; i < n; i++ {
		fs = append(fs, ctorField{kind: 'P', val: sweepVal(lo + i)})
	}
	return fs
}

func insertField(fs []ctorField, at int, f ctorField) []ctorField {
	res := append([]ctorField{}, fs[:at]...)
	res = append(res, f)
	return append(res, fs[at:]...)
}

func multiVals(lo, n int) []string {
	var vs []string
	for i := 0; i < n; i++ {
		vs = append(vs, sweepVal(lo+i))
	}
	return vs
}

var ctorModes = []string{"c", "g", "p"}

// genCtorSweep: bounded-exhaustive constructors mixing explicit integer keys with positional items.
//   - small: npos positional items (0..maxSmall), an optional trailing call/vararg of 0..3 values, and every non-empty
//     set of explicit integer keys out of {total+1 .. total+3} plus 0 / -1, placed before / inside / after the items
//   - boundary: the same around multiples of the SETLIST batch size (FieldsPerFlush)
func genCtorSweep(fpf int, maxSmall int) []Case {
	var cases []Case
	n := 0
	emit := func(sp ctorSpec, note string) {
		b := &caseBuilder{}
		b.ops = append(b.ops, ctorOp("ctor", 1, sp))
		ctorReadback(b, 1, sp, n)
		cases = append(cases, Case{Idx: 3000000 + n, Ops: b.ops, Note: note})
		n++
	}
	trailers := []struct {
		kind byte
		n    int
	}{{0, 0}, {'C', 0}, {'C', 1}, {'C', 2}, {'C', 3}, {'V', 0}, {'V', 1}, {'V', 2}, {'V', 3}}
	for npos := 0; npos <= maxSmall; npos++ {
		for ti, tr := range trailers {
			total := npos + tr.n
			// key sets: non-empty subsets of {total+1, total+2, total+3}, some with 0 or -1 added
			for mask := 1; mask < 8; mask++ {
				var keys []int
				for d := 1; d <= 3; d++ {
					if mask&(1<<(d-1)) != 0 {
						keys = append(keys, total+d)
					}
				}
				if (mask+npos+ti)%4 == 0 {
					keys = append(keys, -((mask + npos) % 2))
				}
				places := []int{0, npos}
				if npos >= 2 {
					places = append(places, npos/2)
				}
				for pi, place := range places {
					if tr.kind != 0 && mask != 1 && mask != 2 && mask != 4 && mask != 7 && pi > 0 {
						continue // the full cross product only for the single keys and the full set
					}
					fs := posFields(1, npos)
					for j, k := range keys {
						kf := ctorField{kind: 'K', key: "i" + strconv.Itoa(k), val: sweepVal(50 + 2*k + j)}
						at := place
						if j%2 == 1 && pi == 2 {
							at = 0 // interleaved: alternate between the middle and the front
						}
						fs = insertField(fs, at, kf)
					}
					if tr.kind != 0 {
						fs = append(fs, ctorField{kind: tr.kind, vals: multiVals(npos+1, tr.n)})
					}
					emit(ctorSpec{mode: ctorModes[n%3], fields: fs}, "ctor-small")
				}
			}
		}
	}
	// flush boundaries
	for _, base := range []int{fpf, 2 * fpf} {
		for dn := -1; dn <= 2; dn++ {
			npos := base + dn
			if npos < 1 || (fpf < 10 && dn == 2) {
				continue
			}
			for ti, tr := range []struct {
				kind byte
				n    int
			}{{0, 0}, {'V', 2}, {'C', 1}, {'C', 0}} {
				if base == 2*fpf && ti >= 2 {
					continue
				}
				total := npos + tr.n
				for _, dk := range []int{1, 2, 9} {
					places := []int{0, npos / 2, fpf - 1, fpf, npos}
					for pi, place := range places {
						if place > npos || (pi > 0 && place == places[pi-1]) {
							continue
						}
						if (dk == 2 || tr.kind == 'C') && pi != 0 && pi != 3 {
							continue
						}
						fs := posFields(1, npos)
						fs = insertField(fs, place, ctorField{kind: 'K', key: "i" + strconv.Itoa(total+dk), val: "s6b"})
						if tr.kind != 0 {
							fs = append(fs, ctorField{kind: tr.kind, vals: multiVals(npos+1, tr.n)})
						}
						emit(ctorSpec{mode: ctorModes[n%3], fields: fs}, "ctor-flush-boundary")
					}
				}
			}
		}
	}
	// a trailing call / vararg that delivers about one batch of values by itself
	for _, npos := range []int{0, 1, fpf - 1, fpf} {
		for _, nt := range []int{fpf - 1, fpf, fpf + 1, 2*fpf + 1} {
			for ki, kind := range []byte{'V', 'C'} {
				total := npos + nt
				fs := posFields(1, npos)
				fs = insertField(fs, (ki*npos)/2, ctorField{kind: 'K', key: "i" + strconv.Itoa(total+1+2*ki), val: "s6b"})
				fs = append(fs, ctorField{kind: kind, vals: multiVals(npos+1, nt)})
				emit(ctorSpec{mode: ctorModes[n%3], fields: fs}, "ctor-long-tail")
			}
		}
	}
	return cases
}

// genCtorRandom: a random constructor (all key classes, name fields, nil values, nested constructors, trailing
// call / vararg, parenthesised calls, sometimes an invalid key), read back, then continued as a random history.
func genCtorRandom(r *Rng, maxOps int, mai int) []Op {
	nextSub := 2
	var pre []Op
	var readbacks []func(b *caseBuilder)
	var gen func(id int, depth int) ctorSpec
	gen = func(id int, depth int) ctorSpec {
		sp := ctorSpec{mode: Pick(r, ctorModes)}
		npos := r.Range(0, 6)
		switch c := r.Intn(100); {
		case c < 8:
			npos = r.Range(48, 53)
		case c < 11:
			npos = r.Range(98, 103)
		case c < 25:
			npos = 0
		}
		if depth > 0 && npos > 8 {
			npos = r.Range(0, 4)
		}
		ntrail := -1
		if r.Chance(35) {
			ntrail = r.Range(0, 4)
		}
		total := npos
		if ntrail > 0 {
			total += ntrail
		}
		var val func(nest bool) string
		val = func(nest bool) string {
			switch c := r.Intn(100); {
			case c < 12:
				return "nil"
			case c < 50:
				return "i" + strconv.Itoa(r.Range(-5, 99))
			case c < 65:
				return Pick(r, []string{"s61", "s", "s31", "s00ff"})
			case c < 75:
				return Pick(r, []string{"T", "F"})
			case c < 82:
				return encNum(float64(r.Range(0, 9)) + 0.5)
			case c < 88:
				return "r" + strconv.Itoa(r.Range(1, 3))
			default:
				if nest && depth < 2 && nextSub <= 5 {
					sid := nextSub
					nextSub++
					sub := gen(sid, depth+1)
					pre = append(pre, ctorOp("sub", sid, sub))
					readbacks = append(readbacks, func(b *caseBuilder) { ctorReadback(b, sid, sub, sid) })
					return "@" + strconv.Itoa(sid)
				}
				return "i1"
			}
		}
		// explicit keys: distinct, never one of the positional indices 1..total
		usedK := map[string]bool{}
		nkeys := r.Range(0, 5)
		if npos == 0 && ntrail <= 0 && nkeys == 0 {
			nkeys = r.Range(0, 3)
		}
		var keyed []ctorField
		names := []string{"a", "b", "key", "x1", "_"}
		for j := 0; j < nkeys; j++ {
			var k string
			switch c := r.Intn(100); {
			case c < 45:
				k = "i" + strconv.Itoa(total+r.Range(1, 4))
			case c < 52:
				k = "i" + strconv.Itoa(total+r.Range(5, 70))
			case c < 60:
				k = "i" + strconv.Itoa(-r.Range(0, 3))
			case c < 65:
				if mai < 1000 {
					k = "i" + strconv.Itoa(mai+r.Range(-2, 2))
				} else {
					k = Pick(r, []string{"i67108864", "i67108865", "i9007199254740992", "i4294967296"})
				}
			case c < 72:
				k = encNum(float64(r.Range(-2, total+2)) + Pick(r, []float64{0.5, 0.25}))
			case c < 82:
				k = Pick(r, []string{"s61", "s31", "s", "s312e30", "s00ff"})
			case c < 87:
				k = Pick(r, []string{"T", "F"})
			case c < 92:
				k = "r" + strconv.Itoa(r.Range(1, 3))
			default:
				nm := Pick(r, names)
				k = "N" + hex.EncodeToString([]byte(nm))
			}
			canon := k
			if k[0] == 'N' {
				canon = "s" + k[1:]
			}
			if n, err := strconv.Atoi(canon[1:]); canon[0] == 'i' && err == nil && n >= 1 && n <= total {
				continue
			}
			if usedK[canon] {
				continue
			}
			usedK[canon] = true
			if k[0] == 'N' {
				keyed = append(keyed, ctorField{kind: 'N', key: k[1:], val: val(true)})
			} else {
				keyed = append(keyed, ctorField{kind: 'K', key: k, val: val(true)})
			}
		}
		if depth == 0 && r.Chance(4) {
			keyed = append(keyed, ctorField{kind: 'K', key: Pick(r, []string{"nil", "nan"}), val: val(false)})
		}
		var fs []ctorField
		for i := 0; i < npos; i++ {
			if r.Chance(10) {
				fs = append(fs, ctorField{kind: 'Q', vals: append([]string{val(false)}, multiVals(90, r.Range(0, 2))...)})
			} else {
				fs = append(fs, ctorField{kind: 'P', val: val(true)})
			}
		}
		for _, kf := range keyed {
			at := r.Intn(len(fs) + 1)
			if r.Chance(30) {
				at = 0
			} else if r.Chance(30) {
				at = len(fs)
			}
			fs = insertField(fs, at, kf)
		}
		if ntrail >= 0 {
			var vs []string
			for i := 0; i < ntrail; i++ {
				vs = append(vs, val(false))
			}
			fs = append(fs, ctorField{kind: Pick(r, []byte{'C', 'V'}), vals: vs})
		}
		sp.fields = fs
		return sp
	}
	top := gen(1, 0)
	b := &caseBuilder{ops: pre}
	b.ops = append(b.ops, ctorOp("ctor", 1, top))
	ctorReadback(b, 1, top, r.Intn(1000))
	for _, rb := range readbacks {
		rb(b)
	}
	// continue as an ordinary history on the constructed table
	_, _, npos, errKey, _ := ctorMeaning(top, 50)
	if errKey == "" {
		b.ops = append(b.ops, genTableHistory(r, maxOps, mai, 1, []int{0, npos}, 0)...)
	}
	return b.ops
}

// ---- shrink / hole / growth sweeps over the array part ----

var buildMethods = []string{"append", "lset", "seti", "ctor", "lpush", "insert", "set"}

func buildList(b *caseBuilder, n int, method string) {
	if method == "ctor" {
		b.ops = append(b.ops, ctorOp("ctor", 1, ctorSpec{mode: "c", fields: posFields(1, n)}))
		return
	}
	b.add("new", "1", "0")
	for i := 1; i <= n; i++ {
		k, v := "i"+strconv.Itoa(i), sweepVal(i)
		switch method {
		case "append":
			b.add("append", "1", v)
		case "lpush":
			b.add("lpush", "1", v)
		case "insert":
			b.add("insert", "1", k, v)
		default:
			b.add(method, "1", k, v)
		}
	}
}

func lenObs(b *caseBuilder, i int) {
	b.add([]string{"llen", "len", "objlen"}[i%3], "1")
}

func genArraySweeps(maxN, maxHole int) []Case {
	var cases []Case
	n0 := 0
	emit := func(b *caseBuilder, note string) {
		b.add("foreach", "1")
		b.add("len", "1")
		b.add("ipairs", "1")
		cases = append(cases, Case{Idx: 4000000 + n0, Ops: b.ops, Note: note})
		n0++
	}
	clearMethods := []string{"lpop", "lset", "seti", "set"}
	for n := 1; n <= maxN; n++ {
		// A. shrink from the end: the last k elements cleared, for every k in 1..n, border checked after every step
		for ci, cm := range clearMethods {
			b := &caseBuilder{}
			buildList(b, n, buildMethods[(n+ci)%len(buildMethods)])
			lenObs(b, n)
			for k := 1; k <= n; k++ {
				j := "i" + strconv.Itoa(n-k+1)
				if cm == "lpop" {
					b.add("lpop", "1") // t[#t] = nil; reports #t
					if k%8 == 0 || k == n {
						lenObs(b, k)
					}
				} else {
					b.add(cm, "1", j, "nil")
					lenObs(b, k+ci)
				}
			}
			if cm == "lpop" || n%5 == 0 {
				// grow again over the emptied array part: t[#t+1] = v
				for i := 1; i <= n+2; i++ {
					b.add("lpush", "1", sweepVal(i+1))
				}
			}
			emit(b, "shrink-from-end")
		}
		// B2. the trailing run of nils appears in ONE step, for every run length: t[1..p] and t[n] present, t[n] cleared
		{
			b := &caseBuilder{}
			buildList(b, n, buildMethods[(n+4)%len(buildMethods)])
			cm := clearMethods[1+n%3]
			for p := n - 1; p >= 0; p-- {
				b.add(cm, "1", "i"+strconv.Itoa(n), "nil")
				lenObs(b, p)
				b.add(cm, "1", "i"+strconv.Itoa(n), sweepVal(p))
				if p > 0 {
					b.add(cm, "1", "i"+strconv.Itoa(p), "nil")
					if p%4 == 0 {
						lenObs(b, p+1)
					}
				}
			}
			emit(b, "tail-run-in-one-step")
		}
		// C. growth: the last index stored first (the array part is created with a hole of n-1), then the hole is
		// filled upwards / downwards; then growth past the end through every store path
		for dir := 0; dir < 2; dir++ {
			b := &caseBuilder{}
			b.add("new", "1", strconv.Itoa((n+dir)%3))
			sm := []string{"lset", "seti", "set", "insert"}[(n+dir)%4]
			b.add(sm, "1", "i"+strconv.Itoa(n), sweepVal(n))
			lenObs(b, n)
			for s := 1; s < n; s++ {
				j := s
				if dir == 1 {
					j = n - s
				}
				if sm == "insert" {
					b.add("lset", "1", "i"+strconv.Itoa(j), sweepVal(j))
				} else {
					b.add(sm, "1", "i"+strconv.Itoa(j), sweepVal(j))
				}
				lenObs(b, s+dir)
			}
			b.add("lpush", "1", "T")
			b.add("append", "1", "F")
			b.add("insert", "1", "i"+strconv.Itoa(n+3), "i1")
			lenObs(b, n)
			b.add("lset", "1", "i"+strconv.Itoa(n+5), "i2") // a new hole at the end, then filled
			lenObs(b, n+1)
			b.add("append", "1", "i3")
			b.add("lpush", "1", "i4")
			lenObs(b, n+2)
			emit(b, "growth")
		}
	}
	// B1. holes from the middle: for every n <= maxHole and every start, a run of cleared elements growing upwards
	// (a, a+1, ..., n) and downwards (a, a-1, ..., 1), border checked after every step
	for n := 1; n <= maxHole; n++ {
		for a := 1; a <= n; a++ {
			for dir := 0; dir < 2; dir++ {
				if (a == n && dir == 1 && n > 1) || (a == 1 && dir == 1) {
					continue // covered by A / trivial
				}
				b := &caseBuilder{}
				buildList(b, n, buildMethods[(n+a+dir)%len(buildMethods)])
				cm := clearMethods[1+(n+a)%3]
				for j := a; j >= 1 && j <= n; {
					b.add(cm, "1", "i"+strconv.Itoa(j), "nil")
					lenObs(b, j)
					if dir == 0 {
						j++
					} else {
						j--
					}
				}
				b.add("lpush", "1", "i5")
				b.add("append", "1", "i6")
				emit(b, "hole-from-middle")
			}
		}
	}
	return cases
}

// interleave reorders cases so that the contiguous shards of runDriverSharded get an even share of every size.
func interleave(cases []Case, shards int) []Case {
	res := make([]Case, 0, len(cases))
	for s := 0; s < shards; s++ {
		for i := s; i < len(cases); i += shards {
			res = append(res, cases[i])
		}
	}
	return res
}

// genHashChurnSweeps: the hash part after MANY deletions — n keys inserted (strings, non-array numbers, booleans,
// through every store path), the first / last / alternate d of them deleted, then 1..3 brand-new keys inserted and, now
// and then, an old key re-inserted — followed by complete traversals (Go Next, Lua next, ForEach) and reads of every
// key: any bookkeeping of the insertion-order list that is rebuilt, compacted or trimmed on some threshold of dead
// keys must keep "every present key exactly once".  n and d sweep small values and the powers of two around 32/64/128.
func genHashChurnSweeps(maxN int) []Case {
	var cases []Case
	idx := 0
	key := func(i int) string {
		switch i % 4 {
		case 0:
			return "s" + c09HexOf("k"+strconv.Itoa(i))
		case 1:
			return "i" + strconv.Itoa(200000000+i*7) // beyond MaxArrayIndex: a hash-part key
		case 2:
			return "i" + strconv.Itoa(-i) // zero and negative integers are hash-part keys too
		default:
			return "f" + strconv.FormatUint(math.Float64bits(float64(i)+0.5), 10) // non-integral number
		}
	}
	// store paths valid for the key's class (RawSetString for strings, RawSetH for non-string hash-part keys only)
	setOp := func(b *caseBuilder, i int, k, v string) {
		switch {
		case k[0] == 's' && i%3 == 0:
			b.add("sets", "1", k, v)
		case k[0] != 's' && i%3 == 1:
			b.add("seth", "1", k, v)
		case i%3 == 2:
			b.add("lset", "1", k, v)
		default:
			b.add("set", "1", k, v)
		}
	}
	for _, n := range []int{3, 8, 33, 34, 40, 65, 66, 70, 130} {
		if n > maxN {
			continue
		}
		for _, d := range []int{n / 2, n - 1, n, 32, 33, 64, 65} {
			if d < 0 || d > n {
				continue
			}
			for pattern := 0; pattern < 3; pattern++ { // delete the first d / the last d / every other key up to d
				for fresh := 2; fresh <= 3; fresh++ {
					if (n+d+pattern+fresh)%2 == 1 && n > 40 {
						continue // half of the big grid per run shape keeps the quick tier quick
					}
					b := &caseBuilder{}
					b.add("new", "1", "0")
					for i := 0; i < n; i++ {
						setOp(b, i, key(i), sweepVal(i+1))
					}
					deleted := map[int]bool{}
					for j := 0; j < d; j++ {
						i := j
						switch pattern {
						case 1:
							i = n - 1 - j
						case 2:
							i = (2 * j) % n
							for deleted[i] {
								i = (i + 1) % n
							}
						}
						deleted[i] = true
						setOp(b, i+j, key(i), "nil")
					}
					for f := 0; f < fresh; f++ {
						setOp(b, f, key(n+10+f), sweepVal(500+f))
						if f == 1 && d > 0 { // an old key comes back
							for i := range deleted {
								setOp(b, i, key(i), sweepVal(900))
								delete(deleted, i)
								break
							}
						}
					}
					for _, mode := range []string{"go", "lua", "api"} {
						b.add("trav", "1", "1", mode, "0")
					}
					b.add("foreach", "1")
					for i := 0; i < n+13; i += 1 + n/16 {
						b.add("get", "1", key(i))
					}
					cases = append(cases, Case{Idx: 4500000 + idx, Ops: b.ops, Note: "hash-churn"})
					idx++
				}
			}
		}
	}
	return cases
}

func c09HexOf(s string) string {
	const hx = "0123456789abcdef"
	b := make([]byte, 0, 2*len(s))
	for i := 0; i < len(s); i++ {
		b = append(b, hx[s[i]>>4], hx[s[i]&15])
	}
	return string(b)
}
