package main

// C09: traversal under modification, every traversal entry point.
//
// op  `travmod <id> <entry> one <step> <class> <j> <action>`   one modification, made by the visitor of visit no. <step>
//     `travmod <id> <entry> rnd <seed> <pct>`                  a modification after each visit with probability <pct> %
//     `travmod <id> <entry> none`                              read-only traversal
//
// entry   next-go  LTable.Next chain            next-api  LState.Next chain        next-lua  next(t,k) chain called from Go
//         pairs    `for k,v in pairs(t)` whose body stores into t                   ipairs    `for i,v in ipairs(t)` likewise
//         fe-go    LTable.ForEach, the callback stores into t                       fe-api    LState.ForEach likewise
// class   v = a field that has already been visited, c = the field being visited, n = a field not visited yet
//         (always a field that EXISTS at that moment; <j> selects one of the class, in the order of the wire encoding)
// action  clr = assign nil, ovw = assign a fresh number
//
// Request lines: `trbegin`, then per visit `next <prev> => k v` (next-*/pairs), `fevisit => k v` (fe-*), `ipvisit => i v`
// (ipairs), each followed by the `set`/`lset` line of the store its visitor made, then `next <last> => nil nil` / `feend` /
// `ipend`.  The Lean engine replays them on the Model (Next exactly; ForEach as Go's range over the live slices/maps:
// Model.feStep/feEnd; ipairs as ipairsaux on the current table) and on the Spec (each key at most once, with the value it has
// at that moment; every field that stayed present is visited; ipairs: exactly 1..n up to the first nil of the current table).

import (
	"sort"
	"strconv"

	lua "github.com/yuin/gopher-lua"
)

const travModPrelude = `
function lpairsmod(t, visit) for k,v in pairs(t) do local tk,tv,doit = visit(k,v) if doit then t[tk]=tv end end end
function lipairsmod(t, visit) for i,v in ipairs(t) do local tk,tv,doit = visit(i,v) if doit then t[tk]=tv end end end
`

type travModPlan struct {
	kind   string // one | rnd | none
	step   int
	class  string
	j      int
	action string
	rng    *Rng
	pct    int
}

func parseTravModPlan(a []string) travModPlan {
	p := travModPlan{kind: a[0]}
	switch p.kind {
	case "one":
		p.step, _ = strconv.Atoi(a[1])
		p.class = a[2]
		p.j, _ = strconv.Atoi(a[3])
		p.action = a[4]
	case "rnd":
		seed, _ := strconv.Atoi(a[1])
		p.rng = NewRng(uint64(seed))
		p.pct, _ = strconv.Atoi(a[2])
	}
	return p
}

func (w *tblWorld) execTravMod(id string, tb *lua.LTable, entry string, plan travModPlan) (out []string) {
	emit := func(args []string, reply string) {
		l := "T " + args[0]
		for _, x := range args[1:] {
			l += " " + x
		}
		if reply != "" {
			l += " => " + reply
		}
		out = append(out, l)
	}
	if _, ok := w.fns["lpairsmod"]; !ok {
		if err := w.L.DoString(travModPrelude); err != nil {
			panic(err)
		}
		for _, n := range []string{"lpairsmod", "lipairsmod"} {
			w.fns[n] = w.L.GetGlobal(n).(*lua.LFunction)
		}
	}
	// the fields that exist when the traversal begins (collected through the Next chain, not through ForEach)
	var atBegin []lua.LValue
	for k, _ := tb.Next(lua.LNil); k != lua.LNil && len(atBegin) < 1000; k, _ = tb.Next(k) {
		atBegin = append(atBegin, k)
	}
	sort.Slice(atBegin, func(i, j int) bool { return w.enc(atBegin[i]) < w.enc(atBegin[j]) })
	luaStore := entry == "next-lua" || entry == "pairs" || entry == "ipairs"
	emit([]string{"trbegin", id}, "")
	var visited []lua.LValue
	step := 0
	runaway := false
	// decide: called by the visitor of (cur, _) after the visit has been reported; returns the store to make
	decide := func(cur lua.LValue) (tk, tv lua.LValue, do bool) {
		s := step
		step++
		if step > 4*len(atBegin)+50 {
			runaway = true
			return lua.LNil, lua.LNil, false
		}
		wasVisited := func(k lua.LValue) bool {
			for _, x := range visited[:len(visited)-1] { // (the last one is cur)
				if x == k {
					return true
				}
			}
			return false
		}
		var cv, cc, cn []lua.LValue
		for _, k := range atBegin {
			if tb.RawGet(k) == lua.LNil {
				continue
			}
			switch {
			case k == cur:
				cc = append(cc, k)
			case wasVisited(k):
				cv = append(cv, k)
			default:
				cn = append(cn, k)
			}
		}
		class, j, action := "", 0, ""
		switch plan.kind {
		case "one":
			if s != plan.step {
				return lua.LNil, lua.LNil, false
			}
			class, j, action = plan.class, plan.j, plan.action
		case "rnd":
			if !plan.rng.Chance(plan.pct) {
				return lua.LNil, lua.LNil, false
			}
			class = Pick(plan.rng, []string{"v", "c", "n", "n"})
			j = plan.rng.Intn(8)
			action = Pick(plan.rng, []string{"clr", "ovw"})
		default:
			return lua.LNil, lua.LNil, false
		}
		cands := map[string][]lua.LValue{"v": cv, "c": cc, "n": cn}[class]
		if len(cands) == 0 {
			return lua.LNil, lua.LNil, false
		}
		tk = cands[j%len(cands)]
		tv = lua.LNil
		if action == "ovw" {
			tv = lua.LNumber(5000 + 10*s + j%10)
		}
		return tk, tv, true
	}
	goStore := func(tk, tv lua.LValue) {
		if luaStore {
			_, ok := w.lcall("lset", 0, tb, tk, tv)
			r := "ok"
			if !ok {
				r = "err"
			}
			emit([]string{"lset", id, w.enc(tk), w.enc(tv)}, r)
		} else {
			tb.RawSet(tk, tv)
			emit([]string{"set", id, w.enc(tk), w.enc(tv)}, "")
		}
	}
	switch entry {
	case "next-go", "next-api", "next-lua":
		var key lua.LValue = lua.LNil
		for {
			var k, v lua.LValue
			switch entry {
			case "next-go":
				k, v = tb.Next(key)
			case "next-api":
				k, v = w.L.Next(tb, key)
			default:
				res, ok := w.lcall("lnext", 2, tb, key)
				if !ok {
					return append(out, "X next-raised => "+w.enc(key))
				}
				k, v = res[0], res[1]
			}
			emit([]string{"next", id, w.enc(key)}, w.enc(k)+" "+w.enc(v))
			if k == lua.LNil {
				break
			}
			visited = append(visited, k)
			key = k
			if tk, tv, do := decide(k); do {
				goStore(tk, tv)
			}
			if runaway {
				return append(out, "X traversal-does-not-terminate => "+entry)
			}
		}
	case "pairs", "ipairs":
		var prev lua.LValue = lua.LNil
		visit := w.L.NewFunction(func(L *lua.LState) int {
			k, v := L.Get(1), L.Get(2)
			if entry == "pairs" {
				emit([]string{"next", id, w.enc(prev)}, w.enc(k)+" "+w.enc(v))
			} else {
				emit([]string{"ipvisit", id}, w.enc(k)+" "+w.enc(v))
			}
			prev = k
			visited = append(visited, k)
			tk, tv, do := decide(k)
			if runaway {
				L.RaiseError("c09: traversal does not terminate")
			}
			if do { // the store itself is made by the Lua loop body: t[tk] = tv
				emit([]string{"lset", id, w.enc(tk), w.enc(tv)}, "ok")
			}
			L.Push(tk)
			L.Push(tv)
			L.Push(lua.LBool(do))
			return 3
		})
		fn := "lpairsmod"
		if entry == "ipairs" {
			fn = "lipairsmod"
		}
		if _, ok := w.lcall(fn, 0, tb, visit); !ok {
			return append(out, "X "+entry+"-raised => "+strconv.Itoa(step))
		}
		if entry == "pairs" {
			emit([]string{"next", id, w.enc(prev)}, "nil nil")
		} else {
			emit([]string{"ipend", id}, "end")
		}
	case "fe-go", "fe-api":
		cb := func(k, v lua.LValue) {
			if runaway {
				return
			}
			emit([]string{"fevisit", id}, w.enc(k)+" "+w.enc(v))
			visited = append(visited, k)
			if tk, tv, do := decide(k); do {
				goStore(tk, tv)
			}
		}
		if entry == "fe-go" {
			tb.ForEach(cb)
		} else {
			w.L.ForEach(tb, cb)
		}
		if runaway {
			return append(out, "X traversal-does-not-terminate => "+entry)
		}
		emit([]string{"feend", id}, "end")
	default:
		panic("bad travmod entry " + entry)
	}
	return out
}

// travModShapes: small tables with fields in every part (array part incl. a hole, strdict, dict), tombstones in
// keys/k2i left by earlier deletions, a preallocated array part.  n = number of fields, pre = length of the ipairs prefix.
type travModShape struct {
	name  string
	setup [][]string
	n     int
	pre   int
}

var travModShapes = []travModShape{
	{"all-parts", [][]string{{"new", "1", "0"}, {"set", "1", "i1", "i10"}, {"set", "1", "i2", "i20"}, {"sets", "1", "s61", "i1"},
		{"lset", "1", "s62", "i2"}, {"seth", "1", "T", "i3"}, {"set", "1", "f4602678819172646912", "i4"}}, 6, 2},
	{"hole-tombstones", [][]string{{"new", "1", "0"}, {"set", "1", "i1", "i10"}, {"set", "1", "i3", "i30"}, {"set", "1", "s61", "i1"},
		{"set", "1", "s62", "i2"}, {"set", "1", "s63", "i3"}, {"set", "1", "s62", "nil"}, {"set", "1", "F", "i5"}, {"set", "1", "i-1", "i6"},
		{"set", "1", "F", "nil"}, {"set", "1", "i0", "i7"}}, 6, 1},
	{"array-only", [][]string{{"new", "1", "4"}, {"set", "1", "i1", "s61"}, {"seti", "1", "i2", "F"}, {"lset", "1", "i3", "i30"}, {"append", "1", "i40"}}, 4, 4},
	{"strings-only", [][]string{{"new", "1", "0"}, {"sets", "1", "s61", "i1"}, {"sets", "1", "s", "i2"}, {"lset", "1", "s31", "i3"}}, 3, 0},
	{"dict-only", [][]string{{"new", "1", "0"}, {"seth", "1", "T", "i1"}, {"seth", "1", "F", "i2"}, {"set", "1", "f4609434218613702656", "i3"}, {"set", "1", "r1", "i4"}}, 4, 0},
	{"prealloc-mixed", [][]string{{"new", "1", "8"}, {"append", "1", "i10"}, {"append", "1", "i20"}, {"append", "1", "i30"}, {"lset", "1", "s6b6579", "s76"},
		{"lset", "1", "i9007199254740992", "T"}}, 5, 3},
}

var travModEntries = []string{"next-go", "next-api", "next-lua", "pairs", "fe-go", "fe-api", "ipairs"}

// genTravModSweep: bounded-exhaustive — every shape x every entry point x every visit number x every class of target
// (visited / current / not yet visited) x every member of the class x {clear, overwrite}, plus the read-only traversal,
// plus `nrnd` seeded schedules with several modifications per traversal.
func genTravModSweep(root *Rng, nrnd int) []Case {
	var cases []Case
	idx := 7000000
	add := func(sh travModShape, tm ...string) {
		var ops []Op
		for _, s := range sh.setup {
			ops = append(ops, Op{Args: s})
		}
		ops = append(ops, Op{Args: append([]string{"travmod", "1"}, tm...)})
		// full observation afterwards: the table itself is what the stores made of it
		ops = append(ops, Op{Args: []string{"foreach", "1"}}, Op{Args: []string{"len", "1"}}, Op{Args: []string{"trav", "1", "1", "go", "0"}})
		cases = append(cases, Case{Idx: idx, Ops: ops, Note: "travmod-" + sh.name})
		idx++
	}
	for _, sh := range travModShapes {
		for _, e := range travModEntries {
			add(sh, e, "none")
			steps := sh.n
			if e == "ipairs" {
				steps = sh.pre
			}
			for s := 0; s < steps; s++ {
				for _, cl := range []struct {
					c string
					m int
				}{{"v", s}, {"c", 1}, {"n", sh.n - 1 - s}} {
					for j := 0; j < cl.m; j++ {
						for _, act := range []string{"clr", "ovw"} {
							add(sh, e, "one", strconv.Itoa(s), cl.c, strconv.Itoa(j), act)
						}
					}
				}
			}
			for i := 0; i < nrnd; i++ {
				r := root.Fork(uint64(7500000 + idx))
				add(sh, e, "rnd", strconv.Itoa(r.Intn(1<<30)), Pick(r, []string{"50", "100", "100"}))
			}
		}
	}
	return cases
}
