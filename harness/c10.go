package main

// C10: the Go value-stack API, the call contract and the object-level API.
//
// A case = one `world` op (registry options, values the top-level host caller holds, the chain of
// activations: Lua frames with live locals and host frames with own stack values) followed by the ops that the
// innermost activation (a host function, or the top level for depth 0) executes through the public API.
// Each op becomes one request line for the Lean engine "C10" (Model = state.go transcription, Spec = a list).

import (
	"encoding/hex"
	"errors"
	"fmt"
	"math"
	"os"
	"strconv"
	"strings"
	"sync/atomic"
	"time"

	lua "github.com/yuin/gopher-lua"
)

type frameSpec struct {
	kind string // "L" | "G"
	mode string // G: c (Call) | p (PCall) | b (CallByParam protected) | u (CallByParam unprotected)
	nret int    // wanted results (-1 = MultRet)
	own  int    // G: values the host frame pushes on its own stack before calling
}

type apiWorld struct {
	L          *lua.LState
	rt         *RefTable
	refs       map[int]lua.LValue
	out        []string
	depth      int
	chain      []frameSpec // index 1..depth-1
	fns        []lua.LValue
	ops        []Op
	gfnret     int
	retPending bool
	raised     bool
	calleeArgs []string
	junk, prod int
	fail       int
	tight      bool
	nups       int            // upvalues of the Go closure that is the activation under test
	hfinal     *lua.LFunction // that closure (nil at depth 0)
}

// upvalues the closures of the activation under test are created with (SetFuncs), first `nups` of them
var c10UpInit = []lua.LValue{lua.LNumber(7101), lua.LString("up2"), lua.LNil}

func (w *apiWorld) emit(req, reply string) {
	l := "C10 " + req
	if reply != "" {
		l += " => " + reply
	}
	w.out = append(w.out, l)
}

func (w *apiWorld) enc(v lua.LValue) string {
	if v == nil {
		return "G"
	}
	return encVal(v, w.rt)
}

func (w *apiWorld) dec(tok string) lua.LValue {
	switch {
	case tok == "nil":
		return lua.LNil
	case tok == "T":
		return lua.LTrue
	case tok == "F":
		return lua.LFalse
	case tok[0] == 'i':
		f, _ := strconv.ParseFloat(tok[1:], 64)
		return lua.LNumber(f)
	case tok[0] == 'f':
		b, _ := strconv.ParseUint(tok[1:], 10, 64)
		return lua.LNumber(math.Float64frombits(b))
	case tok[0] == 's':
		b, _ := hex.DecodeString(tok[1:])
		return lua.LString(string(b))
	case tok[0] == 'r':
		n, _ := strconv.Atoi(tok[1:])
		if v, ok := w.refs[n]; ok {
			return v
		}
		// r1..r10: tables; r11: Lua function, r12: host function, r13: userdata, r14: thread, r15: channel
		var t lua.LValue
		switch n {
		case 11:
			t = w.L.G.Global.RawGetString("handler")
		case 12:
			t = w.L.NewFunction(func(L *lua.LState) int { return 0 })
		case 13:
			t = w.L.NewUserData()
		case 14:
			t, _ = w.L.NewThread()
		case 15:
			t = lua.LChannel(make(chan lua.LValue))
		default:
			t = w.L.NewTable()
		}
		w.rt.Bind(t, n)
		w.refs[n] = t
		return t
	}
	panic("bad token " + tok)
}

func (w *apiWorld) dump(L *lua.LState) string {
	n := L.GetTop()
	parts := []string{"ok"}
	for i := 1; i <= n; i++ {
		parts = append(parts, w.enc(L.Get(i)))
	}
	return strings.Join(parts, " ")
}

func trimSlots(s []string) []string {
	n := len(s)
	for n > 0 && s[n-1] == "G" {
		n--
	}
	return s[:n]
}

func (w *apiWorld) slots(L *lua.LState, from, to int) []string {
	vals := L.VerifRegistryValues(from, to)
	s := make([]string, len(vals))
	for i, v := range vals {
		s[i] = w.enc(v)
	}
	return trimSlots(s)
}

func (w *apiWorld) frameLine(L *lua.LState) {
	sn := L.VerifSnapshot()
	base := 0
	if sn.HasFrame {
		base = sn.LocalBase
	}
	w.emit(fmt.Sprintf("frame %d %d %d %d %d %s", base, sn.Top, sn.RegCap, L.Options.RegistryGrowStep, L.Options.RegistryMaxSize,
		strings.Join(w.slots(L, 0, sn.RegCap), " ")), "")
}

// pframeLine: the cells behind the pseudo-indices, read from the exported fields (not through Get).
func (w *apiWorld) pframeLine(L *lua.LState) {
	env, has := "-", "F"
	var ups []string
	if w.depth > 0 && w.hfinal != nil {
		has = "T"
		env = w.enc(w.hfinal.Env)
		for _, u := range w.hfinal.Upvalues {
			ups = append(ups, w.enc(u.Value()))
		}
	}
	w.emit(strings.TrimSpace(fmt.Sprintf("pframe %s %s %s %s %s %s", has, w.enc(L.G.Registry), w.enc(L.G.Global), w.enc(L.Env), env,
		strings.Join(ups, " "))), "")
}

// pseudoIdx: reg | env | glob | up<n>
func pseudoIdx(which string) int {
	switch which {
	case "reg":
		return lua.RegistryIndex
	case "env":
		return lua.EnvironIndex
	case "glob":
		return lua.GlobalsIndex
	}
	n, _ := strconv.Atoi(strings.TrimPrefix(which, "up"))
	return lua.UpvalueIndex(n)
}

func isTableTok(v lua.LValue) string {
	if _, ok := v.(*lua.LTable); ok {
		return "T"
	}
	return "F"
}

// preplace: Replace at a pseudo-index. Registry and globals are put back afterwards (the harness itself lives on them);
// while the new globals table is installed, SetGlobal / GetGlobal must go to it.
func (w *apiWorld) preplaceOp(L *lua.LState, which string, v lua.LValue) {
	idx := pseudoIdx(which)
	var orig lua.LValue
	switch which {
	case "reg":
		orig = L.G.Registry
	case "glob":
		orig = L.G.Global
	}
	w.guarded(L, fmt.Sprintf("preplace %d %s %s", idx, w.enc(v), isTableTok(v)), func() { L.Replace(idx, v) })
	w.emit(fmt.Sprintf("pget %d", idx), w.enc(L.Get(idx)))
	switch which {
	case "glob":
		nt := v.(*lua.LTable)
		L.SetGlobal("zz", lua.LNumber(5))
		w.emit(fmt.Sprintf("eq newglobals %s %s %s | i5 nil i5", w.enc(nt.RawGetString("zz")), w.enc(orig.(*lua.LTable).RawGetString("zz")),
			w.enc(L.GetGlobal("zz"))), "")
	case "env":
		w.emit(fmt.Sprintf("eq fenv %s | %s", w.enc(L.GetFEnv(w.hfinal)), w.enc(v)), "")
	}
	if orig != nil {
		w.guarded(L, fmt.Sprintf("preplace %d %s T", idx, w.enc(orig)), func() { L.Replace(idx, orig) })
		w.emit(fmt.Sprintf("pget %d", idx), w.enc(L.Get(idx)))
	}
}

// toOp: the To* conversions at an index = the conversion (as Lua defines it: l_to evaluates tonumber / tostring / truth /
// type on the same value) of what Get gives there.
func (w *apiWorld) toOp(L *lua.LState, idx int, pseudo bool) {
	v := L.Get(idx)
	if pseudo {
		w.emit(fmt.Sprintf("pget %d", idx), w.enc(v))
	} else {
		w.emit(fmt.Sprintf("get %d", idx), w.enc(v))
	}
	same := func(x lua.LValue, isNil bool) string {
		switch {
		case isNil:
			return "nil"
		case x == v:
			return "same"
		}
		return "other"
	}
	tb, fn, ud, th, ch := L.ToTable(idx), L.ToFunction(idx), L.ToUserData(idx), L.ToThread(idx), L.ToChannel(idx)
	got := []string{w.enc(lbool(L.ToBool(idx))), strconv.Itoa(L.ToInt(idx)), strconv.FormatInt(L.ToInt64(idx), 10), encNum(float64(L.ToNumber(idx))),
		"s" + hexOf(L.ToString(idx)), same(tb, tb == nil), same(fn, fn == nil), same(ud, ud == nil), same(th, th == nil),
		same(lua.LChannel(ch), ch == nil)}
	want := []string{"?"}
	if w.tight {
		return // the oracle is a Lua call
	}
	if r, ok := w.lcall(L, "l_to", 4, v); ok {
		n := float64(r[1].(lua.LNumber))
		ty := string(r[3].(lua.LString))
		is := func(t string) string {
			if ty == t {
				return "same"
			}
			return "nil"
		}
		want = []string{w.enc(r[0]), strconv.Itoa(int(n)), strconv.FormatInt(int64(n), 10), encNum(n), "s" + hexOf(string(r[2].(lua.LString))),
			is("table"), is("function"), is("userdata"), is("thread"), is("channel")}
	}
	w.emit("eq to:"+strconv.Itoa(idx)+" "+strings.Join(got, " ")+" | "+strings.Join(want, " "), "")
	w.resyncLine(L)
}

func (w *apiWorld) snapLine(L *lua.LState) {
	sn := L.VerifSnapshot()
	w.emit("snap", strings.TrimSpace(fmt.Sprintf("%d %d %s", sn.Top, sn.RegCap, strings.Join(w.slots(L, 0, sn.RegCap), " "))))
}

// resync: after callee code ran, the dead slots above top hold whatever the callee left; the model takes them over.
func (w *apiWorld) resyncLine(L *lua.LState) {
	sn := L.VerifSnapshot()
	w.emit(strings.TrimSpace(fmt.Sprintf("resync %d %s", sn.RegCap, strings.Join(w.slots(L, sn.Top, sn.RegCap), " "))), "")
}

func (w *apiWorld) gettopLine(L *lua.LState) { w.emit("gettop", strconv.Itoa(L.GetTop())) }

// sweepLine: Get at every index from -(top+2) to top+2.
func (w *apiWorld) sweepLine(L *lua.LState) {
	n := L.GetTop() + 2
	var parts []string
	for i := -n; i <= n; i++ {
		parts = append(parts, w.enc(L.Get(i)))
	}
	w.emit("sweep", strings.Join(parts, " "))
}

// guarded runs a mutator; an error raised by the API (register underflow, registry overflow) is reported as
// the op's reply `err` and then continues to unwind the activation chain, as it would in a real host function.
func (w *apiWorld) guarded(L *lua.LState, req string, f func()) {
	func() {
		defer func() {
			if r := recover(); r != nil {
				if _, ok := r.(*lua.ApiError); ok {
					w.raised = true
					w.emit(req, "err")
				}
				panic(r)
			}
		}()
		f()
	}()
	w.emit(req, w.dump(L))
}

// runOps executes the innermost activation's ops; returns the count the host function returns.
func (w *apiWorld) runOps(L *lua.LState) int {
	w.frameLine(L)
	w.pframeLine(L)
	for _, op := range w.ops {
		a := op.Args
		switch a[0] {
		case "push":
			v := w.dec(a[1])
			w.guarded(L, op.String(), func() { L.Push(v) })
		case "pop":
			n, _ := strconv.Atoi(a[1])
			w.guarded(L, op.String(), func() { L.Pop(n) })
		case "settop":
			n, _ := strconv.Atoi(a[1])
			w.guarded(L, op.String(), func() { L.SetTop(n) })
		case "insert":
			n, _ := strconv.Atoi(a[2])
			v := w.dec(a[1])
			w.guarded(L, op.String(), func() { L.Insert(v, n) })
		case "remove":
			n, _ := strconv.Atoi(a[1])
			w.guarded(L, op.String(), func() { L.Remove(n) })
		case "replace":
			n, _ := strconv.Atoi(a[1])
			v := w.dec(a[2])
			w.guarded(L, op.String(), func() { L.Replace(n, v) })
		case "get":
			n, _ := strconv.Atoi(a[1])
			w.emit(op.String(), w.enc(L.Get(n)))
		case "gettop":
			w.gettopLine(L)
		case "sweep":
			w.sweepLine(L)
		case "snap":
			w.snapLine(L)
		case "pget": // pget reg|env|glob|up<n>
			if strings.HasPrefix(a[1], "up") && w.depth == 0 {
				continue // no running function: the call has no meaning (in this implementation: nil dereference)
			}
			w.emit(fmt.Sprintf("pget %d", pseudoIdx(a[1])), w.enc(L.Get(pseudoIdx(a[1]))))
		case "preplace": // preplace reg|env|glob|up<n> <value token>
			if strings.HasPrefix(a[1], "up") && w.depth == 0 {
				continue
			}
			w.preplaceOp(L, a[1], w.dec(a[2]))
		case "to": // to <index> | to reg|env|glob|up<n>
			if n, err := strconv.Atoi(a[1]); err == nil {
				w.toOp(L, n, false)
			} else if !(strings.HasPrefix(a[1], "up") && w.depth == 0) {
				w.toOp(L, pseudoIdx(a[1]), true)
			}
		case "fail":
			// the activation under test itself fails (1: Lua error, 2: Go runtime panic, 6: Go value): whatever protected
			// call of the chain catches it runs its handler; at top level there is nothing to unwind to
			if w.depth == 0 {
				continue
			}
			w.snapLine(L)
			w.raised = true
			switch a[1] {
			case "1":
				L.RaiseError("inner failure")
			case "2":
				var t *lua.LTable
				t.RawSetInt(1, lua.LNil)
			default:
				panic(errors.New("inner go value"))
			}
		case "call":
			if w.tight {
				continue // callee code in a nearly exhausted registry: overflow there is C12's subject
			}
			w.callOp(L, a)
		case "callg":
			if w.tight {
				continue
			}
			w.callgOp(L, a)
		case "xidx":
			w.xidxOp(L, a)
		case "pfailat":
			if w.tight {
				continue
			}
			w.pfailatOp(L, a)
		case "objh":
			if w.tight {
				continue
			}
			w.objhOp(L, a)
		case "objc0":
			w.objc0Op(L)
		case "objcr":
			if w.tight {
				continue
			}
			w.objcrOp(L, a)
		case "obj":
			if w.tight {
				continue
			}
			w.objOp(L, a)
			w.emit("nop", w.dump(L))
			w.resyncLine(L)
		case "ret":
			n, _ := strconv.Atoi(a[1])
			if n > L.GetTop() {
				n = L.GetTop()
			}
			w.snapLine(L)
			w.gfnret, w.retPending = n, true
			return n
		default:
			panic("bad op " + a[0])
		}
	}
	w.snapLine(L)
	w.gfnret, w.retPending = 0, true
	return 0
}

// handler kinds of a protected call (optional 9th argument of a call op in the modes pcallh / cbph; default hret).
// returning: hret (Lua), hgo / hgo0 (host function returning 1 / 0 values), hpcall (Lua, runs pcalls of its own),
// hgonest (host function making a failing protected call whose handler fails, then returning);
// failing: hraise / hraiseobj / hfault / hoverflow (Lua: error(string), error(table), runtime fault, call-stack overflow),
// hgoraise (host function: RaiseError), hgopanic (host function: panic with a Go value), hgonestraise.
var c10HandlerKinds = []string{"hret", "hgo", "hgo0", "hpcall", "hgonest", "hraise", "hraiseobj", "hfault", "hoverflow", "hgoraise", "hgopanic", "hgonestraise"}

func handlerReturns(hk string) bool {
	switch hk {
	case "hret", "hgo", "hgo0", "hpcall", "hgonest":
		return true
	}
	return false
}

func (w *apiWorld) handlerFn(L *lua.LState, hk string, salt int) *lua.LFunction {
	switch hk {
	case "hret":
		return L.G.Global.RawGetString("handler").(*lua.LFunction)
	case "hraise", "hraiseobj", "hfault", "hoverflow", "hpcall":
		return L.G.Global.RawGetString(hk).(*lua.LFunction)
	}
	return L.NewFunction(func(L *lua.LState) int {
		eo := L.Get(1)
		for j := 0; j < salt%3; j++ {
			L.Push(lua.LNumber(6501 + j))
		}
		switch hk {
		case "hgo":
			L.Push(lua.LString("H:go"))
			return 1
		case "hgo0":
			return 0
		case "hgoraise":
			L.RaiseError("HE:go")
		case "hgopanic":
			switch salt % 3 {
			case 0:
				panic(errors.New("HP:error value"))
			case 1:
				panic("HP:string")
			default:
				var t *lua.LTable
				t.RawSetInt(1, lua.LNil)
			}
		case "hgonest", "hgonestraise":
			// the handler is itself a host function (at a deeper base, above the failed frames) that makes a failing
			// protected call whose handler fails; its own view must be intact afterwards
			own := L.GetTop()
			L.Push(lua.LNumber(4401))
			L.Push(L.NewFunction(func(L *lua.LState) int {
				L.Push(lua.LNumber(1))
				L.RaiseError("inner boom")
				return 0
			}))
			L.Push(lua.LNumber(4402))
			err := L.PCall(1, 2, L.G.Global.RawGetString("hraise").(*lua.LFunction))
			w.emit(fmt.Sprintf("eq hnest %d %s %s %s %s %s | %d %s i4401 i4401 nil T", L.GetTop(), w.enc(L.Get(1)), w.enc(L.Get(own+1)),
				w.enc(L.Get(-1)), w.enc(L.Get(own+2)), w.enc(lbool(err != nil)), own+1, w.enc(eo)), "")
			L.Push(lua.LNumber(4403))
			L.Replace(-2, lua.LNumber(4404))
			w.emit(fmt.Sprintf("eq hnest2 %d %s %s | %d i4404 i4403", L.GetTop(), w.enc(L.Get(own+1)), w.enc(L.Get(-1)), own+2), "")
			L.Pop(2)
			if hk == "hgonestraise" {
				L.RaiseError("HE:nest")
			}
			L.Push(lua.LString("H:nest"))
			return 1
		}
		return 0
	})
}

// callOp: call <mode> <callee> <nargs> <nret> <produced> <junk> <fail> [<handler kind>]
// fail: 0 returns; 1 Lua error; 2 runtime fault (Lua callee) / Go runtime panic (host callee); 4 call-stack overflow;
// 5 registry overflow; 6 a Go value panics (host callee: directly; Lua callee: in a host function it calls).
func (w *apiWorld) callOp(L *lua.LState, a []string) {
	mode, callee := a[1], a[2]
	nargs, _ := strconv.Atoi(a[3])
	nret, _ := strconv.Atoi(a[4])
	prod, _ := strconv.Atoi(a[5])
	junk, _ := strconv.Atoi(a[6])
	fail, _ := strconv.Atoi(a[7])
	hk := "hret"
	if len(a) > 8 {
		hk = a[8]
	}
	protected := mode == "pcall" || mode == "pcallh" || mode == "cbpp" || mode == "cbph" || mode == "gpcall"
	if !protected || fail == 3 || fail > 6 {
		fail = 0
	}
	if mode == "gpcall" {
		callee, nargs, nret = "go", 1, -1
	}
	if callee != "go" {
		junk = 0
	}
	w.junk, w.prod, w.fail = junk, prod, fail
	L.SetGlobal("P", lua.LNumber(prod))
	L.SetGlobal("FAIL", lua.LNumber(fail))
	var rec *lua.LFunction
	rec = L.NewFunction(func(L *lua.LState) int {
		L.Push(lua.LNumber(1))
		L.Push(rec)
		L.Call(0, 0)
		return 0
	})
	goCallee := func(L *lua.LState) int {
		n := L.GetTop()
		w.calleeArgs = []string{strconv.Itoa(n)}
		for i := 1; i <= n; i++ {
			w.calleeArgs = append(w.calleeArgs, w.enc(L.Get(i)))
		}
		for j := 0; j < w.junk; j++ {
			L.Push(lua.LNumber(6001 + j))
		}
		if w.fail > 0 {
			// partial results, then the failure
			for j := 0; j < w.prod/2; j++ {
				L.Push(lua.LNumber(7001 + j))
			}
			switch w.fail {
			case 1:
				L.RaiseError("boom")
			case 4: // unbounded recursion through the API: the call-frame stack overflows
				L.Push(rec)
				L.Call(0, 0)
			case 5: // pushes until the registry is exhausted
				for j := 0; ; j++ {
					L.Push(lua.LNumber(j))
				}
			case 6:
				if w.prod%2 == 0 {
					panic(errors.New("go value"))
				}
				panic("go string value")
			}
			var t *lua.LTable
			t.RawSetInt(1, lua.LNil) // a Go runtime panic inside the callee
		}
		for j := 0; j < w.prod; j++ {
			L.Push(lua.LNumber(7001 + j))
		}
		return w.prod
	}
	var fn lua.LValue
	switch callee {
	case "lua":
		fn = L.G.Global.RawGetString("lcallee")
	case "luatail":
		fn = L.G.Global.RawGetString("lcalleetail")
	default:
		fn = L.NewFunction(goCallee)
	}
	var args []lua.LValue
	var wantArgs []string
	for j := 0; j < nargs; j++ {
		v := lua.LNumber(8001 + j)
		if j == 1 {
			v = lua.LNumber(0) // a falsy-looking but real value
		}
		args = append(args, v)
	}
	if nargs >= 3 {
		args[2] = lua.LNil
	}
	wantArgs = append(wantArgs, strconv.Itoa(nargs))
	for _, v := range args {
		wantArgs = append(wantArgs, w.enc(v))
	}
	w.calleeArgs = nil
	var handler *lua.LFunction
	if mode == "pcallh" || mode == "cbph" {
		handler = w.handlerFn(L, hk, nargs+prod+junk)
	}
	var err error
	switch mode {
	case "call", "pcall", "pcallh":
		L.Push(fn)
		w.emit("push "+w.enc(fn), w.dump(L))
		for _, v := range args {
			L.Push(v)
			w.emit("push "+w.enc(v), w.dump(L))
		}
		if mode == "call" {
			L.Call(nargs, nret)
		} else {
			err = L.PCall(nargs, nret, handler)
		}
	case "gpcall":
		w.emit("push T", "?")
		w.emit("push "+w.enc(args[0]), "?")
		err = L.GPCall(goCallee, args[0])
	default: // cbp, cbpp, cbph
		w.emit("push T", "?")
		for _, v := range args {
			w.emit("push "+w.enc(v), "?")
		}
		err = L.CallByParam(lua.P{Fn: fn, NRet: nret, Protect: mode != "cbp", Handler: handler}, args...)
	}
	junkToks := make([]string, 0, junk)
	for j := 0; j < junk; j++ {
		junkToks = append(junkToks, "i"+strconv.Itoa(6001+j))
	}
	if fail == 0 && err != nil && strings.Contains(err.Error(), "registry overflow") {
		fail = 3 // the callee ran out of registry: a failed protected call like any other
	}
	if fail > 0 {
		// the exit path of PCall's deferred function: no handler / the handler returned / the handler call itself failed
		// (when the callee exhausted the call-frame stack or the registry a well-behaved handler may not even start)
		path := "none"
		switch {
		case handler == nil:
		case !handlerReturns(hk):
			path = "failed"
		case fail >= 3 && fail <= 5:
			path = "either"
		default:
			path = "returned"
		}
		w.emit(strings.TrimSpace(fmt.Sprintf("pcallfail %d %s ; %s", nargs, path, strings.Join(junkToks, " "))), w.dump(L))
		w.emit("eq perr "+w.enc(lbool(err != nil))+" | T", "")
		// what the error value is belongs to C07/C08; here only: a handler that returns normally and could run
		// (the callee did not exhaust the call-frame stack or the registry) produced the error value
		if handler != nil && err != nil && handlerReturns(hk) && hk != "hgo0" && fail != 4 && fail != 5 {
			obj := lua.LValue(lua.LNil)
			if ae, ok := err.(*lua.ApiError); ok && ae.Object != nil {
				obj = ae.Object
			}
			pre := ""
			if s, ok := obj.(lua.LString); ok && strings.HasPrefix(string(s), "H:") {
				pre = "H:"
			}
			w.emit("eq handler s"+hexOf(pre)+" | s"+hexOf("H:"), "")
		}
	} else {
		prodToks := make([]string, 0, prod)
		for j := 0; j < prod; j++ {
			prodToks = append(prodToks, "i"+strconv.Itoa(7001+j))
		}
		w.emit(fmt.Sprintf("call %d %d ; %s ; %s", nargs, nret, strings.Join(junkToks, " "), strings.Join(prodToks, " ")), w.dump(L))
		w.emit("eq perr "+w.enc(lbool(err != nil))+" | F", "")
	}
	if fail != 3 {
		w.emit("eq cargs "+strings.Join(w.calleeArgs, " ")+" | "+strings.Join(wantArgs, " "), "")
	}
	w.resyncLine(L)
	if protected {
		// after ANY protected call, failed or not, the caller's view is the list: every index, both directions
		w.gettopLine(L)
		w.sweepLine(L)
	}
}

func parseChain(s string) []frameSpec {
	res := []frameSpec{{}} // index 0 unused
	if s == "-" || s == "" {
		return res
	}
	for _, t := range strings.Split(s, ",") {
		f := strings.Split(t, ".")
		fs := frameSpec{kind: f[0]}
		if f[0] == "L" {
			fs.nret, _ = strconv.Atoi(f[1])
		} else {
			fs.mode = f[1]
			fs.nret, _ = strconv.Atoi(f[2])
			fs.own, _ = strconv.Atoi(f[3])
		}
		res = append(res, fs)
	}
	return res
}

func collect(L *lua.LState, from, to int) []lua.LValue {
	var r []lua.LValue
	for i := from; i <= to; i++ {
		r = append(r, L.Get(i))
	}
	return r
}

func (w *apiWorld) encAll(vs []lua.LValue) string {
	p := make([]string, len(vs))
	for i, v := range vs {
		p[i] = w.enc(v)
	}
	return strings.Join(p, " ")
}

func (w *apiWorld) retLine(wantret int, received []lua.LValue) {
	w.retPending = false
	w.emit(fmt.Sprintf("ret %d %d", w.gfnret, wantret), w.encAll(received))
}

// a case that hangs leaves a spinning goroutine behind (it cannot be killed in-process): on a tree where many cases
// hang, later cases get a shorter limit and, past a second threshold, are reported as hung without being run, so that
// the run still ends (with violations) in reasonable time. Nothing of this is reachable while no case times out.
var c10Hung int32

// execAPI: world <depth> <chain> <k> <prepush> <grow> <max> <topnret>
func execAPI(ops []Op) (out []string) {
	limit := 20 * time.Second
	if n := atomic.LoadInt32(&c10Hung); n >= 32 {
		return []string{"X timeout => not run: 32 earlier cases of this run hung"}
	} else if n >= 8 {
		limit = 4 * time.Second
	}
	done := make(chan []string, 1)
	go func() {
		var w *apiWorld
		defer func() {
			if r := recover(); r != nil {
				var o []string
				if w != nil {
					o = w.out
				}
				done <- append(o, fmt.Sprintf("X crash => %v", strings.ReplaceAll(fmt.Sprint(r), "\n", " ")))
			}
		}()
		w = &apiWorld{rt: NewRefTable(), refs: map[int]lua.LValue{}}
		w.run(ops)
		done <- w.out
	}()
	select {
	case o := <-done:
		return o
	case <-hangAfter(limit):
		noteHang()
		atomic.AddInt32(&c10Hung, 1)
		return []string{fmt.Sprintf("X timeout => %v", limit)}
	}
}

func (w *apiWorld) run(ops []Op) {
	if len(ops) == 0 || ops[0].Args[0] != "world" || len(ops[0].Args) < 8 {
		// shrinking may drop the world op: run with the default world
		ops = append([]Op{{Args: []string{"world", "1", "-", "1", "0", "0", "0", "-1"}}}, ops...)
	}
	wa := ops[0].Args
	w.depth, _ = strconv.Atoi(wa[1])
	w.chain = parseChain(wa[2])
	if w.depth > 0 && len(w.chain) != w.depth {
		panic("chain/depth mismatch")
	}
	k, _ := strconv.Atoi(wa[3])
	prepush, _ := strconv.Atoi(wa[4])
	grow, _ := strconv.Atoi(wa[5])
	max, _ := strconv.Atoi(wa[6])
	topnret, _ := strconv.Atoi(wa[7])
	if len(wa) > 8 {
		w.nups, _ = strconv.Atoi(wa[8])
		if w.nups < 0 || w.nups > len(c10UpInit) {
			w.nups = 0
		}
	}
	for _, o := range ops[1:] {
		if o.Args[0] != "world" {
			w.ops = append(w.ops, o)
		}
	}
	opts := lua.Options{}
	w.tight = max > 0 && max <= 256
	if max > 0 {
		opts = lua.Options{RegistrySize: 128, RegistryMaxSize: max, RegistryGrowStep: grow}
	}
	L := lua.NewState(opts)
	defer L.Close()
	w.L = L
	L.SetGlobal("newud", L.NewFunction(func(L *lua.LState) int {
		ud := L.NewUserData()
		if mt, ok := L.Get(1).(*lua.LTable); ok {
			L.SetMetatable(ud, mt)
		}
		L.Push(ud)
		return 1
	}))
	L.SetGlobal("newgofn", L.NewFunction(func(L *lua.LState) int {
		f := L.NewFunction(func(L *lua.LState) int {
			env, _ := L.Get(lua.EnvironIndex).(*lua.LTable)
			if env == nil {
				return 0
			}
			L.Push(env.RawGetString("X"))
			return 1
		})
		if isgo, ok := L.G.Global.RawGetString("ISGO").(*lua.LTable); ok {
			isgo.RawSet(f, lua.LTrue)
		}
		L.Push(f)
		return 1
	}))
	L.SetGlobal("cargs", L.NewFunction(func(L *lua.LState) int {
		n := L.GetTop()
		w.calleeArgs = []string{w.enc(L.Get(1))[1:]}
		for i := 2; i <= n; i++ {
			w.calleeArgs = append(w.calleeArgs, w.enc(L.Get(i)))
		}
		return 0
	}))
	L.SetGlobal("gopanic", L.NewFunction(func(L *lua.LState) int {
		L.Push(lua.LNumber(1))
		panic(errors.New("go value in a nested host function"))
	}))
	L.SetGlobal("chk", L.NewFunction(func(L *lua.LState) int {
		i := int(L.ToNumber(1))
		want := []lua.LValue{lua.LNumber(i*100 + 1), lua.LString("L" + strconv.Itoa(i)), lua.LNumber(i*100 + 3)}
		w.emit(fmt.Sprintf("eq locals%d %s | %s", i, w.encAll(collect(L, 2, 4)), w.encAll(want)), "")
		return 0
	}))
	L.SetGlobal("recv", L.NewFunction(func(L *lua.LState) int {
		i := int(L.ToNumber(1))
		if i == w.depth-1 && w.retPending {
			n := int(L.ToNumber(2))
			w.retLine(w.chain[i].nret, collect(L, 3, 2+n))
		}
		return 0
	}))
	if err := L.DoString(apiPrelude); err != nil {
		panic(err)
	}
	// the activation chain
	chainfns := L.NewTable()
	w.fns = make([]lua.LValue, w.depth+2)
	// the activation under test and a peer are closures made by one SetFuncs call: same initial upvalues, cells of their own
	fnt := L.SetFuncs(L.NewTable(), map[string]lua.LGFunction{
		"hfinal": func(L *lua.LState) int { return w.runOps(L) },
		"peer": func(L *lua.LState) int {
			for i := 1; i <= w.nups+1; i++ {
				L.Push(L.Get(lua.UpvalueIndex(i)))
			}
			return w.nups + 1
		}}, c10UpInit[:w.nups]...)
	hfinal := fnt.RawGetString("hfinal").(*lua.LFunction)
	if w.depth > 0 {
		w.hfinal = hfinal
	}
	gstep := L.NewFunction(func(L *lua.LState) int {
		i := int(L.ToNumber(1))
		spec := w.chain[i]
		n := L.GetTop()
		args := collect(L, 2, n)
		for j := 0; j < spec.own; j++ {
			L.Push(lua.LNumber(i*1000 + j))
		}
		before := w.encAll(collect(L, 1, n+spec.own))
		next := w.fns[i+1]
		cargs := append([]lua.LValue{lua.LNumber(i + 1)}, args...)
		var err error
		// modes with an error handler: h (PCall, Lua handler that returns), x (PCall, Lua handler that raises),
		// y (CallByParam+Protect, host handler panicking with a Go value), z (CallByParam+Protect, host handler that returns)
		var handler *lua.LFunction
		switch spec.mode {
		case "h":
			handler = w.handlerFn(L, "hret", i)
		case "x":
			handler = w.handlerFn(L, "hraise", i)
		case "y":
			handler = w.handlerFn(L, "hgopanic", i)
		case "z":
			handler = w.handlerFn(L, "hgo", i)
		}
		switch spec.mode {
		case "c", "p", "h", "x":
			L.Push(next)
			for _, v := range cargs {
				L.Push(v)
			}
			if spec.mode == "c" {
				L.Call(len(cargs), spec.nret)
			} else {
				err = L.PCall(len(cargs), spec.nret, handler)
			}
		case "b", "y", "z":
			err = L.CallByParam(lua.P{Fn: next, NRet: spec.nret, Protect: true, Handler: handler}, cargs...)
		default:
			err = L.CallByParam(lua.P{Fn: next, NRet: spec.nret}, cargs...)
		}
		top := L.GetTop()
		w.emit(fmt.Sprintf("eq gown%d %s | %s", i, w.encAll(collect(L, 1, n+spec.own)), before), "")
		// the same values addressed from the end of the list (what lies above them is what the call left)
		res := collect(L, n+spec.own+1, top)
		w.emit(fmt.Sprintf("eq gneg%d %s | %s", i, w.encAll(collect(L, -(n+spec.own)-len(res), -1-len(res))), before), "")
		if err != nil {
			w.emit(fmt.Sprintf("eq gfail%d %d | 0", i, len(res)), "")
			w.retPending = false
			w.raised = false // caught by this frame's protected call
			return 0
		}
		if i == w.depth-1 && w.retPending {
			w.retLine(spec.nret, res)
		}
		return len(res)
	})
	for i := 1; i < w.depth; i++ {
		if w.chain[i].kind == "G" {
			w.fns[i] = gstep
		} else {
			nm := "lstepM"
			if w.chain[i].nret >= 0 {
				nm = "lstep" + strconv.Itoa(w.chain[i].nret)
			}
			w.fns[i] = L.G.Global.RawGetString(nm)
		}
		chainfns.RawSetInt(i, w.fns[i])
	}
	if w.depth > 0 {
		w.fns[w.depth] = hfinal
		chainfns.RawSetInt(w.depth, hfinal)
	}
	L.G.Global.RawSetString("chainfns", chainfns)
	// the top-level host caller's own stack values
	for j := 0; j < prepush; j++ {
		L.Push(lua.LNumber(900 + j))
	}
	before := w.encAll(collect(L, 1, prepush))
	if w.depth == 0 {
		func() {
			defer func() {
				if r := recover(); r != nil {
					if _, ok := r.(*lua.ApiError); ok && w.raised {
						return // an API error at top level (no protected call) is delivered as a panic(*ApiError)
					}
					panic(r)
				}
			}()
			w.runOps(L)
		}()
		return
	}
	L.Push(w.fns[1])
	L.Push(lua.LNumber(1))
	for j := 0; j < k; j++ {
		if j == 1 {
			L.Push(lua.LNil)
		} else {
			L.Push(lua.LNumber(50 + j))
		}
	}
	err := L.PCall(k+1, topnret, nil)
	if err != nil && !w.raised && strings.Contains(err.Error(), "registry overflow") {
		// the chain itself (not the activation under test) ran out of registry: a catchable Lua error, fine
		w.raised = true
	}
	w.emit("eq toperr "+w.enc(lbool(err != nil))+" | "+w.enc(lbool(w.raised)), "")
	w.emit(fmt.Sprintf("eq toplevel %s | %s", w.encAll(collect(L, 1, prepush)), before), "")
	if err == nil && w.depth == 1 && w.retPending {
		w.retLine(topnret, collect(L, prepush+1, L.GetTop()))
	}
	if err != nil {
		w.emit(fmt.Sprintf("eq topclean %d | %d", L.GetTop(), prepush), "")
	}
	if w.nups > 0 && !w.tight {
		// stores through upvalue indices in the activation under test went to its own cells only
		top := L.GetTop()
		if L.CallByParam(lua.P{Fn: fnt.RawGetString("peer"), NRet: lua.MultRet, Protect: true}) == nil {
			w.emit(fmt.Sprintf("eq peerups %s | %s", w.encAll(collect(L, top+1, L.GetTop())),
				w.encAll(append(append([]lua.LValue{}, c10UpInit[:w.nups]...), lua.LNil))), "")
		}
		L.SetTop(top)
	}
}

// ---------- generator ----------

var c10Vals = []string{"nil", "nil", "T", "F", "i0", "i1", "i-7", "i42", "s61", "s", "s6e696c", "r1", "r2", "r3"}

// values for the To* conversions: numeric and almost-numeric strings ("10", "0x10", " 5 ", "1e2", "5.5", "-3", "0x", "1e", "5 5"),
// and one reference object of every other type (Lua function, host function, userdata, thread, channel)
var c10ConvVals = []string{"s3130", "s30783130", "s203520", "s316532", "s352e35", "s2d33", "s3078", "s3165", "s352035", "r11", "r12", "r13", "r14", "r15"}

func genStackVal(r *Rng) string {
	switch c := r.Intn(100); {
	case c < 18:
		return "nil"
	case c < 60:
		return "i" + strconv.Itoa(r.Range(-9, 99))
	case c < 66:
		return encNum(float64(r.Range(0, 9)) + 0.5)
	case c < 72:
		return Pick(r, c10ConvVals)
	default:
		return Pick(r, c10Vals)
	}
}

func genWorld(r *Rng, forceDepth int, allowTight bool) ([]string, int) {
	depth := r.Range(0, 6)
	if forceDepth >= 0 {
		depth = forceDepth
	}
	var chain []string
	for i := 1; i < depth; i++ {
		if r.Chance(55) {
			chain = append(chain, "L."+strconv.Itoa(Pick(r, []int{-1, -1, 0, 1, 2, 3})))
		} else {
			chain = append(chain, fmt.Sprintf("G.%s.%d.%d", Pick(r, []string{"c", "c", "c", "p", "b", "u", "u", "h", "x", "y", "z"}), Pick(r, []int{-1, -1, 0, 1, 2, 3, 4}), r.Range(0, 3)))
		}
	}
	cs := "-"
	if len(chain) > 0 {
		cs = strings.Join(chain, ",")
	}
	k := r.Range(0, 4)
	prepush, grow, max := 0, 0, 0
	switch c := r.Intn(100); {
	case c < 25: // default registry (no growth), small host-caller stack
		prepush = r.Range(0, 5)
	case c < 90: // growth enabled, the host caller's values bring top close to / over the initial 128 slots
		max, grow = 4096, Pick(r, []int{1, 1, 2, 7, 32})
		prepush = Pick(r, []int{0, 3, 60, 100, 110, 118, 121, 124, 126, 127, 128, 129, 140})
	case !allowTight:
		max, grow, prepush = 4096, 3, 125
	default: // tight maximum: overflow is a Lua error, never a crash
		max, grow = Pick(r, []int{136, 160, 200}), Pick(r, []int{1, 4, 32})
		prepush = Pick(r, []int{60, 90, 100})
	}
	k2 := k
	if depth == 0 {
		k2 = 0
	}
	return []string{"world", strconv.Itoa(depth), cs, strconv.Itoa(k2), strconv.Itoa(prepush), strconv.Itoa(grow), strconv.Itoa(max),
			strconv.Itoa(Pick(r, []int{-1, -1, 0, 1, 2, 3})), strconv.Itoa(r.Range(0, 3))}, func() int {
			if depth == 0 {
				return prepush
			}
			return k2 + 1
		}()
}

func genCallOp(r *Rng) []string {
	mode := Pick(r, []string{"call", "call", "pcall", "pcall", "pcallh", "pcallh", "cbp", "cbpp", "cbph", "cbph", "gpcall"})
	fail := 0
	if mode != "call" && mode != "cbp" && r.Chance(40) {
		fail = Pick(r, []int{1, 1, 1, 2, 2, 2, 6, 6, 4, 5})
	}
	op := []string{"call", mode, Pick(r, []string{"lua", "luatail", "go", "go"}), strconv.Itoa(r.Range(0, 4)),
		strconv.Itoa(r.Range(-1, 4)), strconv.Itoa(r.Range(0, 4)), strconv.Itoa(r.Range(0, 3)), strconv.Itoa(fail)}
	if mode == "pcallh" || mode == "cbph" {
		op = append(op, Pick(r, c10HandlerKinds))
	}
	return op
}

// histGen: state-aware generation of one activation's history; `top` shadows the size of the private list.
type histGen struct {
	r   *Rng
	top int
	ops []Op
}

func (g *histGen) add(args ...string) { g.ops = append(g.ops, Op{Args: args}) }

func (g *histGen) idx(forInsert bool) int {
	r, top := g.r, g.top
	switch c := r.Intn(100); {
	case c < 30:
		if top == 0 {
			return 1
		}
		return r.Range(1, top)
	case c < 55:
		if top == 0 {
			return -1
		}
		return -r.Range(1, top)
	case c < 63:
		return top + 1
	case c < 71:
		return -(top + 1)
	case c < 78:
		return 0
	case c < 83:
		return top
	case c < 88:
		return -top
	case c < 91:
		return 1
	case c < 94:
		return -1
	case c < 97:
		if forInsert && r.Chance(30) {
			return -(top + 2)
		}
		return top + r.Range(2, 4) // beyond top+1; Insert pads with nil there (C10-insert-beyond-top-gap, fixed)
	default:
		return -(top + r.Range(2, 300))
	}
}

// call adds a call op and keeps the shadow of top: function+args are pushed and removed; results stay
func (g *histGen) call(co []string) {
	g.add(co...)
	if co[7] == "0" || co[1] == "call" || co[1] == "cbp" {
		nr, _ := strconv.Atoi(co[4])
		if co[1] == "gpcall" {
			nr = -1
		}
		if nr < 0 {
			nr, _ = strconv.Atoi(co[5])
		}
		g.top += nr
	}
}

// stackOp adds one stack-API operation (c in [0,95) selects the kind as in the history generator).
func (g *histGen) stackOp(c int) {
	r := g.r
	switch {
	case c < 24:
		g.add("push", genStackVal(r))
		g.top++
	case c < 27: // burst of pushes (registry growth inside the activation)
		n := r.Range(5, 40)
		for j := 0; j < n; j++ {
			g.add("push", "i"+strconv.Itoa(1000+j))
		}
		g.top += n
	case c < 34:
		n := 0
		if g.top > 0 {
			n = r.Range(0, intMin(g.top, 3))
		}
		if r.Chance(12) {
			n = g.top
		}
		g.add("pop", strconv.Itoa(n))
		g.top -= n
	case c < 44:
		var n int
		top := g.top
		switch m := r.Intn(10); {
		case m < 4:
			n = r.Range(0, top+3)
		case m < 5:
			n = top + r.Range(4, 40)
		case m < 8:
			n = -r.Range(1, top+1)
		case m < 9:
			n = -(top + 2)
		default:
			n = top
		}
		g.add("settop", strconv.Itoa(n))
		if n >= 0 {
			g.top = n
		} else {
			g.top = top + n + 1
			if g.top < 0 {
				g.top = 0
			}
		}
	case c < 56:
		i := g.idx(true)
		g.add("insert", genStackVal(r), strconv.Itoa(i))
		if i > g.top+1 {
			g.top = i // nil-padded up to i-1, the value at i
		} else {
			g.top++
		}
	case c < 66:
		i := g.idx(false)
		g.add("remove", strconv.Itoa(i))
		if (i >= 1 && i <= g.top) || (i <= -1 && i >= -g.top) {
			g.top--
		}
	case c < 76:
		g.add("replace", strconv.Itoa(g.idx(false)), genStackVal(r))
	case c < 83:
		g.add("get", strconv.Itoa(g.idx(false)))
	case c < 86: // the To* conversions at the same kinds of indices, and at pseudo-indices
		if r.Chance(15) {
			g.add("to", genPseudo(r))
		} else {
			g.add("to", strconv.Itoa(g.idx(false)))
		}
	case c < 88:
		g.add("gettop")
	case c < 89: // Get / Replace at a pseudo-index (tables where a table is required; the failing stores are endings)
		which := genPseudo(r)
		switch {
		case r.Chance(45):
			g.add("pget", which)
		case strings.HasPrefix(which, "up"):
			g.add("preplace", which, genStackVal(r))
		default:
			g.add("preplace", which, Pick(r, []string{"r4", "r5", "r6"}))
		}
	case c < 93:
		g.add("sweep")
	default:
		g.add("snap")
	}
}

func genPseudo(r *Rng) string {
	return Pick(r, []string{"reg", "env", "glob", "up1", "up1", "up2", "up3", "up4", "up9"})
}

// ending: how the activation under test finishes.
func (g *histGen) ending() {
	r := g.r
	g.add("sweep")
	switch c := r.Intn(100); {
	case c < 66:
		g.add("ret", strconv.Itoa(r.Range(0, intMin(g.top, 5))))
	case c < 74:
		g.add("ret", strconv.Itoa(g.top))
	case c < 80: // register underflow: a Lua error that unwinds the chain
		g.add("pop", strconv.Itoa(g.top+r.Range(1, 3)))
	case c < 88: // the activation itself fails: the chain's protected calls (and their handlers) take over
		g.add("fail", strconv.Itoa(Pick(r, []int{1, 1, 2, 6})))
	case c < 91: // a non-table stored as registry / environment / globals: a Lua error
		g.add("preplace", Pick(r, []string{"reg", "env", "glob"}), Pick(r, []string{"nil", "i1", "s61", "r11", "r13"}))
	}
}

// genAPICase: state-aware history.
func genAPICase(r *Rng, maxOps int, profile string) []Op {
	world, top := genWorld(r, -1, profile == "stack")
	g := &histGen{r: r, top: top}
	g.add(world...)
	nops := r.Range(3, maxOps)
	for len(g.ops) < nops {
		c := r.Intn(100)
		if profile == "obj" {
			if c < 60 {
				g.add(genObjOp(r)...)
				continue
			}
			if c < 70 {
				g.objh()
				continue
			}
		} else if profile == "call" {
			if c < 30 {
				g.call(genCallOp(r))
				continue
			}
			if c < 45 {
				g.callg()
				continue
			}
		}
		c = r.Intn(100)
		if r.Chance(1) {
			g.xidx()
			continue
		}
		switch {
		case c < 95:
			g.stackOp(c)
		case c < 98:
			g.call(genCallOp(r))
		default:
			g.add(genObjOp(r)...)
		}
	}
	g.ending()
	return g.ops
}

// protCases: protected calls made from inside the activation under test, bounded-exhaustive over
// depth 0..6 x handler {none + every handler kind} x callee {lua, luatail, go}
// x outcome {returns, Lua error, fault / Go runtime panic, call-stack overflow, registry overflow, Go value panic}
// x entry {PCall, CallByParam+Protect} (full: crossed; otherwise the entry alternates so that every (handler, callee, outcome)
// combination goes through both entries at neighbouring depths);
// own values below the call window, nargs / NRet / produced / junk and the chain above come from the seed. The call is
// followed by the whole-registry snapshot, stack-API operations on the caller's list, a second protected call of a
// random kind and the usual endings (results returned to the chain, or a failure the chain's handlers deal with).
func protCases(r *Rng, full bool) [][]Op {
	var res [][]Op
	i := 0
	hks := append([]string{"-"}, c10HandlerKinds...)
	for ei, entry := range []string{"pcall", "cbp"} {
		for hi, hk := range hks {
			for ci, callee := range []string{"lua", "luatail", "go"} {
				for fi, fail := range []int{0, 1, 2, 4, 5, 6} {
					for depth := 0; depth <= 6; depth++ { // innermost: cheap and expensive cases spread evenly over the driver shards
						if !full && (hi+ci+fi+depth)%2 != ei {
							continue
						}
						i++
						rr := r.Fork(uint64(i))
						world, top := genWorld(rr, depth, false)
						if fail == 5 && world[6] != "0" {
							world[5] = "32" // a callee pushing up to the maximum in steps of 1 or 2 slots costs ~30 ms of copying per case
						}
						g := &histGen{r: rr, top: top}
						g.add(world...)
						for j := rr.Range(0, 3); j > 0; j-- {
							g.add("push", genStackVal(rr))
							g.top++
						}
						mode := entry
						switch {
						case hk != "-":
							mode += "h"
						case entry == "cbp":
							mode = "cbpp"
						}
						co := []string{"call", mode, callee, strconv.Itoa(rr.Range(0, 4)), strconv.Itoa(rr.Range(-1, 4)), strconv.Itoa(rr.Range(0, 4)),
							strconv.Itoa(rr.Range(0, 3)), strconv.Itoa(fail)}
						if hk != "-" {
							co = append(co, hk)
						}
						g.call(co)
						g.add("snap")
						for j := rr.Range(2, 5); j > 0; j-- {
							c := rr.Intn(95)
							if c >= 24 && c < 27 {
								c = 0 // no bursts here
							}
							g.stackOp(c)
						}
						co2 := genCallOp(rr)
						if co2[7] == "4" || co2[7] == "5" {
							co2[7] = "1" // one overflowing callee per case is enough (they are the expensive ones)
						}
						g.call(co2)
						g.stackOp(rr.Intn(95))
						g.ending()
						res = append(res, g.ops)
					}
				}
			}
		}
	}
	return res
}

// pseudoCases: Get / Replace / To* at every pseudo-index (registry, environment, globals, upvalue 1..4 and far beyond) for
// activations at depth 0..4 whose closure has 0..3 upvalues, with own stack values that must stay what they are; then one
// value of every type on the stack and the To* conversions at every index from -(top+1) to top+1.
func pseudoCases(r *Rng) [][]Op {
	var res [][]Op
	i := 0
	for depth := 0; depth <= 4; depth++ {
		for nups := 0; nups <= 3; nups++ {
			for _, ending := range []string{"ret", "reg", "env", "glob"} {
				i++
				rr := r.Fork(uint64(i))
				world, top := genWorld(rr, depth, false)
				world[8] = strconv.Itoa(nups)
				g := &histGen{r: rr, top: top}
				g.add(world...)
				for j := rr.Range(1, 3); j > 0; j-- {
					g.add("push", genStackVal(rr))
					g.top++
				}
				for _, which := range []string{"reg", "env", "glob", "up1", "up2", "up3", "up4", "up200"} {
					g.add("pget", which)
					g.add("to", which)
					if strings.HasPrefix(which, "up") {
						g.add("preplace", which, genStackVal(rr))
					} else if depth > 0 || which != "env" {
						g.add("preplace", which, "r"+strconv.Itoa(rr.Range(4, 9)))
					}
					g.add("pget", which)
					if rr.Chance(30) {
						g.stackOp(rr.Intn(24)) // a push in between
					}
				}
				g.add("snap")
				if ending == "ret" {
					// one value of every type, converted at every index
					for _, v := range append(append([]string{}, c10Vals[2:]...), c10ConvVals...) {
						g.add("push", v)
						g.top++
					}
					for j := -(g.top + 1); j <= g.top+1; j++ {
						if j < -30 && j > -(g.top-1) || j > 30 && j < g.top-1 {
							continue // the caller-side values of a deep top-level list: a few are enough
						}
						g.add("to", strconv.Itoa(j))
					}
					g.add("sweep")
					g.add("ret", strconv.Itoa(rr.Range(0, 3)))
				} else {
					g.add("sweep")
					g.add("preplace", ending, Pick(rr, []string{"nil", "i1", "s61", "T", "r11", "r13"}))
				}
				res = append(res, g.ops)
			}
		}
	}
	return res
}

func intMin(a, b int) int {
	if a < b {
		return a
	}
	return b
}

// gridCases: all (nargs, NRet, produced) in [0,4]^3 (+ MultRet) for Lua and Go callees through every call entry.
func gridCases(r *Rng) [][]Op {
	var res [][]Op
	i := 0
	for _, mode := range []string{"call", "pcall", "cbp", "cbpp"} {
		for _, callee := range []string{"lua", "go"} {
			for nargs := 0; nargs <= 4; nargs++ {
				for nret := -1; nret <= 4; nret++ {
					for prod := 0; prod <= 4; prod++ {
						i++
						rr := r.Fork(uint64(i))
						world, _ := genWorld(rr, Pick(rr, []int{0, 1, 2, 3, 5}), false)
						ops := []Op{{Args: world}}
						for j := 0; j < rr.Range(0, 3); j++ {
							ops = append(ops, Op{Args: []string{"push", genStackVal(rr)}})
						}
						ops = append(ops, Op{Args: []string{"call", mode, callee, strconv.Itoa(nargs), strconv.Itoa(nret), strconv.Itoa(prod),
							strconv.Itoa(rr.Range(0, 2)), "0"}})
						if mode == "pcall" || mode == "cbpp" {
							// the same shape failing: nothing may be left
							ops = append(ops, Op{Args: []string{"call", Pick(rr, []string{mode, mode, "pcallh", "cbph"}), Pick(rr, []string{callee, "luatail"}), strconv.Itoa(nargs),
								strconv.Itoa(nret), strconv.Itoa(prod), strconv.Itoa(rr.Range(0, 2)), strconv.Itoa(rr.Range(1, 2))}})
						}
						ops = append(ops, Op{Args: []string{"sweep"}})
						res = append(res, ops)
					}
				}
			}
		}
	}
	return res
}

func init() { props["C10"] = runC10; replayExec["C10"] = execC10 }

// execC10: the executor of a case by its family: objspec cases are written in the C04M request language (c10_objspec.go),
// Next reference cases start with `nexttbl`, everything else is an activation history.
func execC10(ops []Op) []string {
	if len(ops) > 0 {
		switch ops[0].Args[0] {
		case "fn", "tbl", "ud", "set", "mt":
			return execMeta(ops)
		case "nexttbl":
			return execNextRef(ops)
		}
	}
	return execAPI(ops)
}

func runC10(run *Run) {
	if f := os.Getenv("C10_DUMP"); f != "" { // dev helper: print the request lines of one corpus file and the driver's verdicts
		for _, c := range loadCorpus("C10") {
			if len(c) > 0 && strings.Contains(f, c[0].String()) || f == "all" {
				lines := safeExec(execAPI, c)
				out, _ := runDriver(append([]string{"reset"}, lines...))
				for i, l := range lines {
					v := "?"
					if i+1 < len(out) {
						v = out[i+1]
					}
					fmt.Printf("%s   -> %s\n", l, v)
				}
			}
		}
		os.Exit(0)
	}
	nHist, nCall, nObj, maxOps := 2600, 500, 900, 36
	if run.Tier == "thorough" {
		nHist, nCall, nObj, maxOps = 70000, 20000, 30000, 70
	}
	run.Rule = "random histories of Push/Pop/Get/SetTop/Insert/Remove/Replace/GetTop (valid, 0, ±top, ±(top+1), far-out indices; nil values inside the list) executed through the public API inside a host function reached through a chain of 0–6 activations (Lua frames with live locals, host frames with own stack values; depth 0 = top level), with the registry at 128 slots + forced growth / tight maximum, each step replayed on the Lean Model of state.go (exact: list, results, whole registry snapshot incl. caller prefix) and on the list Spec; bounded-exhaustive TEST grid (nargs, NRet, produced) in [0,4]x[-1,4]x[0,4] x {Lua, Go callee} x {Call, PCall, CallByParam, CallByParam+Protect} plus failing protected variants; bounded-exhaustive TEST grid of protected calls made inside the activation: depth 0..6 x entry {PCall, CallByParam+Protect} x handler {none, 5 returning kinds, 7 failing kinds: Lua error / table error / fault / call-stack overflow / RaiseError / Go value panic / nested failing protected call} x callee {lua, luatail, go} x outcome {returns, Lua error, fault or Go runtime panic, call-stack overflow, registry overflow, Go value panic}, each followed by gettop + full index sweep + whole-registry snapshot + stack operations + a second protected call (Model = PCall's deferred function by exit path, Spec = list without function/arguments/partial results); host frames of the chain with returning/raising/panicking handlers and activations that fail; Get/Replace/To* at pseudo-indices (registry, environment, globals, upvalues within/beyond a SetFuncs closure's 0..3 upvalues) on the Model of those branches and the manual's cells Spec, the ten To* conversions at valid/negative/beyond-top/pseudo indices for values of every type vs the Lua definitions on the same value; GetFEnv/SetFEnv/ForEach/Register/SetFuncs vs Lua twins; object-level API vs the same operands evaluated by a Lua chunk in the same state (Impl vs Impl, handler logs compared); composed call contract: host callees called directly / through __call performing a history of stack operations and returning any count up to their top, through every call entry (random + TEST grid nargs x NRet x kind x entry x count); Get / Replace at extreme indices (around the pseudo-index range, 2^40, 2^62, MaxInt64-300..MaxInt64 incl. the ones where base+idx-1 does not fit an int, MinInt64); ToStringMeta / ObjLen / Concat with host-function handlers performing stack operations (Model: Push/Push/Call(n,1)/reg.Pop), Concat() without operand, __concat returning every kind of value; protected calls failing inside 0..3 nested host activations x handler none / returning / failing x both protected entries (Model: frame entries, pushes, raiseError's push, handler frame, PCall's deferred function); object-level entries against an implementation-independent oracle: operands described to the Lean side (MetaModel + manual Spec) which computes expected handler calls and results — comparison handlers different / same / one-sided / shared metatable / __le missing / mixed types in both operand orders, __metatable in {absent, false, true, 0, \"\", \"locked\", table, userdata, function} on objects of every type, __index / __newindex chains through GetTable / GetField / GetGlobal / SetTable / SetField / SetGlobal, Concat / ObjLen / ToStringMeta handler placements, L.Next traversals vs the stored contents (all bounded-exhaustive TESTS); distinct = distinct op-kind skeletons"
	run.Assume = []string{"the activation's entry state is read through the verif hooks VerifSnapshot / VerifRegistryValues (read-only)",
		"host callee bodies are replayed on the Model as the history of stack operations they perform + the count they return (callg / hcall / pfailat) or as 'pushes junk then its results' (call); Lua callees (OP_RETURN) are tied only through the observed list after the call",
		"dead slots above top are re-synchronised from the real registry after callee code ran (they are semantically dead: nothing reads them; Insert beyond top+1 sets the skipped slots to nil)",
		"object-level entries: expected handler calls and results are computed by the Lean side (MetaModel = dispatch code, MetaSpec = manual) from a description of the operands (objspec family, request language of the C04M engine); handlers are opaque (log entry + return values); formatting of non-integral numbers is compared in Go only"}
	root := NewRng(uint64(run.Seed))
	var cases []Case
	for i, c := range loadCorpus("C10") {
		cases = append(cases, Case{Idx: -1 - i, Ops: c, Note: "corpus"})
	}
	for i := 0; i < nHist; i++ {
		cases = append(cases, Case{Idx: i, Ops: genAPICase(root.Fork(uint64(i)), maxOps, "stack")})
	}
	for i := 0; i < nCall; i++ {
		cases = append(cases, Case{Idx: 1000000 + i, Ops: genAPICase(root.Fork(uint64(1000000+i)), maxOps/2, "call")})
	}
	for i := 0; i < nObj; i++ {
		cases = append(cases, Case{Idx: 2000000 + i, Ops: genAPICase(root.Fork(uint64(2000000+i)), maxOps/2, "obj")})
	}
	for i, g := range gridCases(root.Fork(777)) {
		cases = append(cases, Case{Idx: 3000000 + i, Ops: g, Note: "grid"})
	}
	var prot [][]Op
	if run.Tier == "thorough" {
		for round := 0; round < 6; round++ {
			prot = append(prot, protCases(root.Fork(uint64(778+1000*round)), true)...)
		}
	} else {
		prot = protCases(root.Fork(778), false)
	}
	for i, g := range prot {
		cases = append(cases, Case{Idx: 4000000 + i, Ops: g, Note: "prot"})
	}
	pseudo := pseudoCases(root.Fork(779))
	for i, g := range pseudo {
		cases = append(cases, Case{Idx: 5000000 + i, Ops: g, Note: "pseudo"})
	}
	deep := callgGrid(root.Fork(780))
	for i, g := range deep {
		cases = append(cases, Case{Idx: 6000000 + i, Ops: g, Note: "callg"})
	}
	xidx := idxCases(root.Fork(781))
	for i, g := range xidx {
		cases = append(cases, Case{Idx: 7000000 + i, Ops: g, Note: "xidx"})
	}
	objh := objhCases(root.Fork(782))
	for i, g := range objh {
		cases = append(cases, Case{Idx: 8000000 + i, Ops: g, Note: "objh"})
	}
	pfa := pfailatCases(root.Fork(786))
	for i, g := range pfa {
		cases = append(cases, Case{Idx: 10000000 + i, Ops: g, Note: "pfailat"})
	}
	var ospec [][]Op
	ospec = append(ospec, cmpCases(root.Fork(783))...)
	ospec = append(ospec, getmtCases(root.Fork(784))...)
	ospec = append(ospec, chainCases()...)
	ospec = append(ospec, strCases(root.Fork(785))...)
	ospec = append(ospec, nextCases()...)
	for i, g := range ospec {
		cases = append(cases, Case{Idx: 9000000 + i, Ops: g, Note: "objspec"})
	}
	if only := os.Getenv("C10_ONLY"); only != "" { // dev helper: run one family only (corpus | hist | call | obj | grid | prot | pseudo)
		fam := func(c Case) string {
			switch {
			case c.Idx < 0:
				return "corpus"
			case c.Idx < 1000000:
				return "hist"
			case c.Idx < 2000000:
				return "call"
			case c.Idx < 3000000:
				return "obj"
			case c.Idx < 4000000:
				return "grid"
			case c.Idx < 5000000:
				return "prot"
			case c.Idx < 6000000:
				return "pseudo"
			case c.Idx < 7000000:
				return "callg"
			case c.Idx < 8000000:
				return "xidx"
			case c.Idx < 9000000:
				return "objh"
			case c.Idx < 10000000:
				return "objspec"
			}
			return "pfailat"
		}
		var sel []Case
		for _, c := range cases {
			if fam(c) == only {
				sel = append(sel, c)
			}
		}
		cases = sel
	}
	// batches bound the memory held for request lines (a frame line carries the whole live registry)
	for lo := 0; lo < len(cases); lo += 6000 {
		hi := lo + 6000
		if hi > len(cases) {
			hi = len(cases)
		}
		runCases(run, cases[lo:hi], execC10, classifyTagged)
	}
	run.Extra["grid_cases"] = len(gridCases(root.Fork(777)))
	run.Extra["protected_call_cases"] = len(prot)
	run.Extra["pseudo_index_cases"] = len(pseudo)
	run.Extra["composed_call_cases"] = len(deep)
	run.Extra["extreme_index_cases"] = len(xidx)
	run.Extra["handler_sequence_cases"] = len(objh)
	run.Extra["nested_protected_failure_cases"] = len(pfa)
	run.Extra["independent_object_oracle_cases"] = len(ospec)
}
