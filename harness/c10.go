package main

// C10: the Go value-stack API, the call contract and the object-level API.
//
// A case = one `world` op (registry options, values the top-level host caller holds, the chain of
// activations: Lua frames with live locals and host frames with own stack values) followed by the ops that the
// innermost activation (a host function, or the top level for depth 0) executes through the public API.
// Each op becomes one request line for the Lean engine "C10" (Model = state.go transcription, Spec = a list).

import (
	"encoding/hex"
	"fmt"
	"math"
	"os"
	"strconv"
	"strings"
	"time"

	lua "github.com/yuin/gopher-lua"
)

type frameSpec struct {
	kind string // "L" | "G"
	mode string // G: c (Call) | p (PCall) | b (CallByParam protected) | u (CallByParam unprotected)
	nret int    // wanted results (-1 = MultRet)
	own  int    // G: values the host frame pushes on its own stack before calling
}

type apiWorld struct {
	L          *lua.LState
	rt         *RefTable
	refs       map[int]lua.LValue
	out        []string
	depth      int
	chain      []frameSpec // index 1..depth-1
	fns        []lua.LValue
	ops        []Op
	gfnret     int
	retPending bool
	raised     bool
	calleeArgs []string
	junk, prod int
	fail       int
	tight      bool
}

func (w *apiWorld) emit(req, reply string) {
	l := "C10 " + req
	if reply != "" {
		l += " => " + reply
	}
	w.out = append(w.out, l)
}

func (w *apiWorld) enc(v lua.LValue) string {
	if v == nil {
		return "G"
	}
	return encVal(v, w.rt)
}

func (w *apiWorld) dec(tok string) lua.LValue {
	switch {
	case tok == "nil":
		return lua.LNil
	case tok == "T":
		return lua.LTrue
	case tok == "F":
		return lua.LFalse
	case tok[0] == 'i':
		f, _ := strconv.ParseFloat(tok[1:], 64)
		return lua.LNumber(f)
	case tok[0] == 'f':
		b, _ := strconv.ParseUint(tok[1:], 10, 64)
		return lua.LNumber(math.Float64frombits(b))
	case tok[0] == 's':
		b, _ := hex.DecodeString(tok[1:])
		return lua.LString(string(b))
	case tok[0] == 'r':
		n, _ := strconv.Atoi(tok[1:])
		if v, ok := w.refs[n]; ok {
			return v
		}
		t := w.L.NewTable()
		w.rt.Bind(t, n)
		w.refs[n] = t
		return t
	}
	panic("bad token " + tok)
}

func (w *apiWorld) dump(L *lua.LState) string {
	n := L.GetTop()
	parts := []string{"ok"}
	for i := 1; i <= n; i++ {
		parts = append(parts, w.enc(L.Get(i)))
	}
	return strings.Join(parts, " ")
}

func trimSlots(s []string) []string {
	n := len(s)
	for n > 0 && s[n-1] == "G" {
		n--
	}
	return s[:n]
}

func (w *apiWorld) slots(L *lua.LState, from, to int) []string {
	vals := L.VerifRegistryValues(from, to)
	s := make([]string, len(vals))
	for i, v := range vals {
		s[i] = w.enc(v)
	}
	return trimSlots(s)
}

func (w *apiWorld) frameLine(L *lua.LState) {
	sn := L.VerifSnapshot()
	base := 0
	if sn.HasFrame {
		base = sn.LocalBase
	}
	w.emit(fmt.Sprintf("frame %d %d %d %d %d %s", base, sn.Top, sn.RegCap, L.Options.RegistryGrowStep, L.Options.RegistryMaxSize,
		strings.Join(w.slots(L, 0, sn.RegCap), " ")), "")
}

func (w *apiWorld) snapLine(L *lua.LState) {
	sn := L.VerifSnapshot()
	w.emit("snap", strings.TrimSpace(fmt.Sprintf("%d %d %s", sn.Top, sn.RegCap, strings.Join(w.slots(L, 0, sn.RegCap), " "))))
}

// resync: after callee code ran, the dead slots above top hold whatever the callee left; the model takes them over.
func (w *apiWorld) resyncLine(L *lua.LState) {
	sn := L.VerifSnapshot()
	w.emit(strings.TrimSpace(fmt.Sprintf("resync %d %s", sn.RegCap, strings.Join(w.slots(L, sn.Top, sn.RegCap), " "))), "")
}

// guarded runs a mutator; an error raised by the API (register underflow, registry overflow) is reported as
// the op's reply `err` and then continues to unwind the activation chain, as it would in a real host function.
func (w *apiWorld) guarded(L *lua.LState, req string, f func()) {
	func() {
		defer func() {
			if r := recover(); r != nil {
				if _, ok := r.(*lua.ApiError); ok {
					w.raised = true
					w.emit(req, "err")
				}
				panic(r)
			}
		}()
		f()
	}()
	w.emit(req, w.dump(L))
}

// runOps executes the innermost activation's ops; returns the count the host function returns.
func (w *apiWorld) runOps(L *lua.LState) int {
	w.frameLine(L)
	for _, op := range w.ops {
		a := op.Args
		switch a[0] {
		case "push":
			v := w.dec(a[1])
			w.guarded(L, op.String(), func() { L.Push(v) })
		case "pop":
			n, _ := strconv.Atoi(a[1])
			w.guarded(L, op.String(), func() { L.Pop(n) })
		case "settop":
			n, _ := strconv.Atoi(a[1])
			w.guarded(L, op.String(), func() { L.SetTop(n) })
		case "insert":
			n, _ := strconv.Atoi(a[2])
			v := w.dec(a[1])
			w.guarded(L, op.String(), func() { L.Insert(v, n) })
		case "remove":
			n, _ := strconv.Atoi(a[1])
			w.guarded(L, op.String(), func() { L.Remove(n) })
		case "replace":
			n, _ := strconv.Atoi(a[1])
			v := w.dec(a[2])
			w.guarded(L, op.String(), func() { L.Replace(n, v) })
		case "get":
			n, _ := strconv.Atoi(a[1])
			w.emit(op.String(), w.enc(L.Get(n)))
		case "gettop":
			w.emit(op.String(), strconv.Itoa(L.GetTop()))
		case "sweep":
			n := L.GetTop() + 2
			var parts []string
			for i := -n; i <= n; i++ {
				parts = append(parts, w.enc(L.Get(i)))
			}
			w.emit(op.String(), strings.Join(parts, " "))
		case "snap":
			w.snapLine(L)
		case "call":
			if w.tight {
				continue // callee code in a nearly exhausted registry: overflow there is C12's subject
			}
			w.callOp(L, a)
		case "obj":
			if w.tight {
				continue
			}
			w.objOp(L, a)
			w.emit("nop", w.dump(L))
			w.resyncLine(L)
		case "ret":
			n, _ := strconv.Atoi(a[1])
			if n > L.GetTop() {
				n = L.GetTop()
			}
			w.snapLine(L)
			w.gfnret, w.retPending = n, true
			return n
		default:
			panic("bad op " + a[0])
		}
	}
	w.snapLine(L)
	w.gfnret, w.retPending = 0, true
	return 0
}

// callOp: call <mode> <callee> <nargs> <nret> <produced> <junk> <fail>
func (w *apiWorld) callOp(L *lua.LState, a []string) {
	mode, callee := a[1], a[2]
	nargs, _ := strconv.Atoi(a[3])
	nret, _ := strconv.Atoi(a[4])
	prod, _ := strconv.Atoi(a[5])
	junk, _ := strconv.Atoi(a[6])
	fail, _ := strconv.Atoi(a[7])
	protected := mode == "pcall" || mode == "pcallh" || mode == "cbpp" || mode == "cbph" || mode == "gpcall"
	if !protected {
		fail = 0
	}
	if mode == "gpcall" {
		callee, nargs, nret = "go", 1, -1
	}
	if callee != "go" {
		junk = 0
	}
	w.junk, w.prod, w.fail = junk, prod, fail
	L.SetGlobal("P", lua.LNumber(prod))
	L.SetGlobal("FAIL", lua.LNumber(fail))
	goCallee := func(L *lua.LState) int {
		n := L.GetTop()
		w.calleeArgs = []string{strconv.Itoa(n)}
		for i := 1; i <= n; i++ {
			w.calleeArgs = append(w.calleeArgs, w.enc(L.Get(i)))
		}
		for j := 0; j < w.junk; j++ {
			L.Push(lua.LNumber(6001 + j))
		}
		if w.fail > 0 {
			// partial results, then the failure
			for j := 0; j < w.prod/2; j++ {
				L.Push(lua.LNumber(7001 + j))
			}
			if w.fail == 1 {
				L.RaiseError("boom")
			}
			var t *lua.LTable
			t.RawSetInt(1, lua.LNil) // a Go runtime panic inside the callee
		}
		for j := 0; j < w.prod; j++ {
			L.Push(lua.LNumber(7001 + j))
		}
		return w.prod
	}
	var fn lua.LValue
	switch callee {
	case "lua":
		fn = L.G.Global.RawGetString("lcallee")
	case "luatail":
		fn = L.G.Global.RawGetString("lcalleetail")
	default:
		fn = L.NewFunction(goCallee)
	}
	var args []lua.LValue
	var wantArgs []string
	for j := 0; j < nargs; j++ {
		v := lua.LNumber(8001 + j)
		if j == 1 {
			v = lua.LNumber(0) // a falsy-looking but real value
		}
		args = append(args, v)
	}
	if nargs >= 3 {
		args[2] = lua.LNil
	}
	wantArgs = append(wantArgs, strconv.Itoa(nargs))
	for _, v := range args {
		wantArgs = append(wantArgs, w.enc(v))
	}
	w.calleeArgs = nil
	var handler *lua.LFunction
	if mode == "pcallh" || mode == "cbph" {
		handler = L.G.Global.RawGetString("handler").(*lua.LFunction)
	}
	var err error
	switch mode {
	case "call", "pcall", "pcallh":
		L.Push(fn)
		w.emit("push "+w.enc(fn), w.dump(L))
		for _, v := range args {
			L.Push(v)
			w.emit("push "+w.enc(v), w.dump(L))
		}
		if mode == "call" {
			L.Call(nargs, nret)
		} else {
			err = L.PCall(nargs, nret, handler)
		}
	case "gpcall":
		w.emit("push T", "?")
		w.emit("push "+w.enc(args[0]), "?")
		err = L.GPCall(goCallee, args[0])
	default: // cbp, cbpp, cbph
		w.emit("push T", "?")
		for _, v := range args {
			w.emit("push "+w.enc(v), "?")
		}
		err = L.CallByParam(lua.P{Fn: fn, NRet: nret, Protect: mode != "cbp", Handler: handler}, args...)
	}
	junkToks := make([]string, 0, junk)
	for j := 0; j < junk; j++ {
		junkToks = append(junkToks, "i"+strconv.Itoa(6001+j))
	}
	if fail == 0 && err != nil && strings.Contains(err.Error(), "registry overflow") {
		fail = 3 // the callee ran out of registry: a failed protected call like any other
	}
	if fail > 0 {
		w.emit(strings.TrimSpace(fmt.Sprintf("pcallfail %d ; %s", nargs, strings.Join(junkToks, " "))), w.dump(L))
		w.emit("eq perr "+w.enc(lbool(err != nil))+" | T", "")
		if handler != nil && err != nil {
			obj := lua.LValue(lua.LNil)
			if ae, ok := err.(*lua.ApiError); ok && ae.Object != nil {
				obj = ae.Object
			}
			pre := ""
			if s, ok := obj.(lua.LString); ok && strings.HasPrefix(string(s), "H:") {
				pre = "H:"
			}
			w.emit("eq handler s"+hexOf(pre)+" | s"+hexOf("H:"), "")
		}
	} else {
		prodToks := make([]string, 0, prod)
		for j := 0; j < prod; j++ {
			prodToks = append(prodToks, "i"+strconv.Itoa(7001+j))
		}
		w.emit(fmt.Sprintf("call %d %d ; %s ; %s", nargs, nret, strings.Join(junkToks, " "), strings.Join(prodToks, " ")), w.dump(L))
		w.emit("eq perr "+w.enc(lbool(err != nil))+" | F", "")
	}
	if fail != 3 {
		w.emit("eq cargs "+strings.Join(w.calleeArgs, " ")+" | "+strings.Join(wantArgs, " "), "")
	}
	w.resyncLine(L)
}

func parseChain(s string) []frameSpec {
	res := []frameSpec{{}} // index 0 unused
	if s == "-" || s == "" {
		return res
	}
	for _, t := range strings.Split(s, ",") {
		f := strings.Split(t, ".")
		fs := frameSpec{kind: f[0]}
		if f[0] == "L" {
			fs.nret, _ = strconv.Atoi(f[1])
		} else {
			fs.mode = f[1]
			fs.nret, _ = strconv.Atoi(f[2])
			fs.own, _ = strconv.Atoi(f[3])
		}
		res = append(res, fs)
	}
	return res
}

func collect(L *lua.LState, from, to int) []lua.LValue {
	var r []lua.LValue
	for i := from; i <= to; i++ {
		r = append(r, L.Get(i))
	}
	return r
}

func (w *apiWorld) encAll(vs []lua.LValue) string {
	p := make([]string, len(vs))
	for i, v := range vs {
		p[i] = w.enc(v)
	}
	return strings.Join(p, " ")
}

func (w *apiWorld) retLine(wantret int, received []lua.LValue) {
	w.retPending = false
	w.emit(fmt.Sprintf("ret %d %d", w.gfnret, wantret), w.encAll(received))
}

// execAPI: world <depth> <chain> <k> <prepush> <grow> <max> <topnret>
func execAPI(ops []Op) (out []string) {
	done := make(chan []string, 1)
	go func() {
		var w *apiWorld
		defer func() {
			if r := recover(); r != nil {
				var o []string
				if w != nil {
					o = w.out
				}
				done <- append(o, fmt.Sprintf("X crash => %v", strings.ReplaceAll(fmt.Sprint(r), "\n", " ")))
			}
		}()
		w = &apiWorld{rt: NewRefTable(), refs: map[int]lua.LValue{}}
		w.run(ops)
		done <- w.out
	}()
	select {
	case o := <-done:
		return o
	case <-time.After(20 * time.Second):
		return []string{"X timeout => 20s"}
	}
}

func (w *apiWorld) run(ops []Op) {
	if len(ops) == 0 || ops[0].Args[0] != "world" || len(ops[0].Args) < 8 {
		// shrinking may drop the world op: run with the default world
		ops = append([]Op{{Args: []string{"world", "1", "-", "1", "0", "0", "0", "-1"}}}, ops...)
	}
	wa := ops[0].Args
	w.depth, _ = strconv.Atoi(wa[1])
	w.chain = parseChain(wa[2])
	if w.depth > 0 && len(w.chain) != w.depth {
		panic("chain/depth mismatch")
	}
	k, _ := strconv.Atoi(wa[3])
	prepush, _ := strconv.Atoi(wa[4])
	grow, _ := strconv.Atoi(wa[5])
	max, _ := strconv.Atoi(wa[6])
	topnret, _ := strconv.Atoi(wa[7])
	for _, o := range ops[1:] {
		if o.Args[0] != "world" {
			w.ops = append(w.ops, o)
		}
	}
	opts := lua.Options{}
	w.tight = max > 0 && max <= 256
	if max > 0 {
		opts = lua.Options{RegistrySize: 128, RegistryMaxSize: max, RegistryGrowStep: grow}
	}
	L := lua.NewState(opts)
	defer L.Close()
	w.L = L
	L.SetGlobal("newud", L.NewFunction(func(L *lua.LState) int {
		ud := L.NewUserData()
		if mt, ok := L.Get(1).(*lua.LTable); ok {
			L.SetMetatable(ud, mt)
		}
		L.Push(ud)
		return 1
	}))
	L.SetGlobal("cargs", L.NewFunction(func(L *lua.LState) int {
		n := L.GetTop()
		w.calleeArgs = []string{w.enc(L.Get(1))[1:]}
		for i := 2; i <= n; i++ {
			w.calleeArgs = append(w.calleeArgs, w.enc(L.Get(i)))
		}
		return 0
	}))
	L.SetGlobal("chk", L.NewFunction(func(L *lua.LState) int {
		i := int(L.ToNumber(1))
		want := []lua.LValue{lua.LNumber(i*100 + 1), lua.LString("L" + strconv.Itoa(i)), lua.LNumber(i*100 + 3)}
		w.emit(fmt.Sprintf("eq locals%d %s | %s", i, w.encAll(collect(L, 2, 4)), w.encAll(want)), "")
		return 0
	}))
	L.SetGlobal("recv", L.NewFunction(func(L *lua.LState) int {
		i := int(L.ToNumber(1))
		if i == w.depth-1 && w.retPending {
			n := int(L.ToNumber(2))
			w.retLine(w.chain[i].nret, collect(L, 3, 2+n))
		}
		return 0
	}))
	if err := L.DoString(apiPrelude); err != nil {
		panic(err)
	}
	// the activation chain
	chainfns := L.NewTable()
	w.fns = make([]lua.LValue, w.depth+2)
	hfinal := L.NewFunction(func(L *lua.LState) int { return w.runOps(L) })
	gstep := L.NewFunction(func(L *lua.LState) int {
		i := int(L.ToNumber(1))
		spec := w.chain[i]
		n := L.GetTop()
		args := collect(L, 2, n)
		for j := 0; j < spec.own; j++ {
			L.Push(lua.LNumber(i*1000 + j))
		}
		before := w.encAll(collect(L, 1, n+spec.own))
		next := w.fns[i+1]
		cargs := append([]lua.LValue{lua.LNumber(i + 1)}, args...)
		var err error
		switch spec.mode {
		case "c", "p":
			L.Push(next)
			for _, v := range cargs {
				L.Push(v)
			}
			if spec.mode == "c" {
				L.Call(len(cargs), spec.nret)
			} else {
				err = L.PCall(len(cargs), spec.nret, nil)
			}
		case "b":
			err = L.CallByParam(lua.P{Fn: next, NRet: spec.nret, Protect: true}, cargs...)
		default:
			err = L.CallByParam(lua.P{Fn: next, NRet: spec.nret}, cargs...)
		}
		top := L.GetTop()
		w.emit(fmt.Sprintf("eq gown%d %s | %s", i, w.encAll(collect(L, 1, n+spec.own)), before), "")
		res := collect(L, n+spec.own+1, top)
		if err != nil {
			w.emit(fmt.Sprintf("eq gfail%d %d | 0", i, len(res)), "")
			w.retPending = false
			w.raised = false // caught by this frame's protected call
			return 0
		}
		if i == w.depth-1 && w.retPending {
			w.retLine(spec.nret, res)
		}
		return len(res)
	})
	for i := 1; i < w.depth; i++ {
		if w.chain[i].kind == "G" {
			w.fns[i] = gstep
		} else {
			nm := "lstepM"
			if w.chain[i].nret >= 0 {
				nm = "lstep" + strconv.Itoa(w.chain[i].nret)
			}
			w.fns[i] = L.G.Global.RawGetString(nm)
		}
		chainfns.RawSetInt(i, w.fns[i])
	}
	if w.depth > 0 {
		w.fns[w.depth] = hfinal
		chainfns.RawSetInt(w.depth, hfinal)
	}
	L.G.Global.RawSetString("chainfns", chainfns)
	// the top-level host caller's own stack values
	for j := 0; j < prepush; j++ {
		L.Push(lua.LNumber(900 + j))
	}
	before := w.encAll(collect(L, 1, prepush))
	if w.depth == 0 {
		func() {
			defer func() {
				if r := recover(); r != nil {
					if _, ok := r.(*lua.ApiError); ok && w.raised {
						return // an API error at top level (no protected call) is delivered as a panic(*ApiError)
					}
					panic(r)
				}
			}()
			w.runOps(L)
		}()
		return
	}
	L.Push(w.fns[1])
	L.Push(lua.LNumber(1))
	for j := 0; j < k; j++ {
		if j == 1 {
			L.Push(lua.LNil)
		} else {
			L.Push(lua.LNumber(50 + j))
		}
	}
	err := L.PCall(k+1, topnret, nil)
	if err != nil && !w.raised && strings.Contains(err.Error(), "registry overflow") {
		// the chain itself (not the activation under test) ran out of registry: a catchable Lua error, fine
		w.raised = true
	}
	w.emit("eq toperr "+w.enc(lbool(err != nil))+" | "+w.enc(lbool(w.raised)), "")
	w.emit(fmt.Sprintf("eq toplevel %s | %s", w.encAll(collect(L, 1, prepush)), before), "")
	if err == nil && w.depth == 1 && w.retPending {
		w.retLine(topnret, collect(L, prepush+1, L.GetTop()))
	}
	if err != nil {
		w.emit(fmt.Sprintf("eq topclean %d | %d", L.GetTop(), prepush), "")
	}
}

// ---------- generator ----------

var c10Vals = []string{"nil", "nil", "T", "F", "i0", "i1", "i-7", "i42", "s61", "s", "s6e696c", "r1", "r2", "r3"}

func genStackVal(r *Rng) string {
	switch c := r.Intn(100); {
	case c < 18:
		return "nil"
	case c < 60:
		return "i" + strconv.Itoa(r.Range(-9, 99))
	case c < 66:
		return encNum(float64(r.Range(0, 9)) + 0.5)
	default:
		return Pick(r, c10Vals)
	}
}

func genWorld(r *Rng, forceDepth int, allowTight bool) ([]string, int) {
	depth := r.Range(0, 6)
	if forceDepth >= 0 {
		depth = forceDepth
	}
	var chain []string
	for i := 1; i < depth; i++ {
		if r.Chance(55) {
			chain = append(chain, "L."+strconv.Itoa(Pick(r, []int{-1, -1, 0, 1, 2, 3})))
		} else {
			chain = append(chain, fmt.Sprintf("G.%s.%d.%d", Pick(r, []string{"c", "c", "p", "b", "u"}), Pick(r, []int{-1, -1, 0, 1, 2, 3, 4}), r.Range(0, 3)))
		}
	}
	cs := "-"
	if len(chain) > 0 {
		cs = strings.Join(chain, ",")
	}
	k := r.Range(0, 4)
	prepush, grow, max := 0, 0, 0
	switch c := r.Intn(100); {
	case c < 25: // default registry (no growth), small host-caller stack
		prepush = r.Range(0, 5)
	case c < 90: // growth enabled, the host caller's values bring top close to / over the initial 128 slots
		max, grow = 4096, Pick(r, []int{1, 1, 2, 7, 32})
		prepush = Pick(r, []int{0, 3, 60, 100, 110, 118, 121, 124, 126, 127, 128, 129, 140})
	case !allowTight:
		max, grow, prepush = 4096, 3, 125
	default: // tight maximum: overflow is a Lua error, never a crash
		max, grow = Pick(r, []int{136, 160, 200}), Pick(r, []int{1, 4, 32})
		prepush = Pick(r, []int{60, 90, 100})
	}
	k2 := k
	if depth == 0 {
		k2 = 0
	}
	return []string{"world", strconv.Itoa(depth), cs, strconv.Itoa(k2), strconv.Itoa(prepush), strconv.Itoa(grow), strconv.Itoa(max),
		strconv.Itoa(Pick(r, []int{-1, -1, 0, 1, 2, 3}))}, func() int {
		if depth == 0 {
			return prepush
		}
		return k2 + 1
	}()
}

func genCallOp(r *Rng) []string {
	mode := Pick(r, []string{"call", "call", "pcall", "pcall", "pcallh", "cbp", "cbpp", "cbph", "gpcall"})
	fail := 0
	if mode != "call" && mode != "cbp" && r.Chance(35) {
		fail = r.Range(1, 2)
	}
	return []string{"call", mode, Pick(r, []string{"lua", "luatail", "go", "go"}), strconv.Itoa(r.Range(0, 4)),
		strconv.Itoa(r.Range(-1, 4)), strconv.Itoa(r.Range(0, 4)), strconv.Itoa(r.Range(0, 3)), strconv.Itoa(fail)}
}

// genAPICase: state-aware history; `top` shadows the size of the private list.
func genAPICase(r *Rng, maxOps int, profile string) []Op {
	var ops []Op
	add := func(args ...string) { ops = append(ops, Op{Args: args}) }
	world, top := genWorld(r, -1, profile == "stack")
	add(world...)
	idx := func(forInsert bool) int {
		switch c := r.Intn(100); {
		case c < 30:
			if top == 0 {
				return 1
			}
			return r.Range(1, top)
		case c < 55:
			if top == 0 {
				return -1
			}
			return -r.Range(1, top)
		case c < 63:
			return top + 1
		case c < 71:
			return -(top + 1)
		case c < 78:
			return 0
		case c < 83:
			return top
		case c < 88:
			return -top
		case c < 91:
			return 1
		case c < 94:
			return -1
		case c < 97:
			if forInsert {
				return -(top + 2)
			}
			return top + r.Range(2, 4)
		default:
			return -(top + r.Range(2, 300))
		}
	}
	nops := r.Range(3, maxOps)
	for len(ops) < nops {
		c := r.Intn(100)
		if profile == "obj" {
			if c < 70 {
				add(genObjOp(r)...)
				continue
			}
		} else if profile == "call" {
			if c < 45 {
				add(genCallOp(r)...)
				continue
			}
		}
		c = r.Intn(100)
		switch {
		case c < 24:
			add("push", genStackVal(r))
			top++
		case c < 27: // burst of pushes (registry growth inside the activation)
			n := r.Range(5, 40)
			for j := 0; j < n; j++ {
				add("push", "i"+strconv.Itoa(1000+j))
			}
			top += n
		case c < 34:
			n := 0
			if top > 0 {
				n = r.Range(0, intMin(top, 3))
			}
			if r.Chance(12) {
				n = top
			}
			add("pop", strconv.Itoa(n))
			top -= n
		case c < 44:
			var n int
			switch m := r.Intn(10); {
			case m < 4:
				n = r.Range(0, top+3)
			case m < 5:
				n = top + r.Range(4, 40)
			case m < 8:
				n = -r.Range(1, top+1)
			case m < 9:
				n = -(top + 2)
			default:
				n = top
			}
			add("settop", strconv.Itoa(n))
			if n >= 0 {
				top = n
			} else {
				top = top + n + 1
				if top < 0 {
					top = 0
				}
			}
		case c < 56:
			i := idx(true)
			add("insert", genStackVal(r), strconv.Itoa(i))
			top++
		case c < 66:
			i := idx(false)
			add("remove", strconv.Itoa(i))
			if (i >= 1 && i <= top) || (i <= -1 && i >= -top) {
				top--
			}
		case c < 76:
			add("replace", strconv.Itoa(idx(false)), genStackVal(r))
		case c < 86:
			add("get", strconv.Itoa(idx(false)))
		case c < 89:
			add("gettop")
		case c < 93:
			add("sweep")
		case c < 95:
			add("snap")
		case c < 98:
			co := genCallOp(r)
			add(co...)
			// shadow of top: function+args are pushed and removed; results stay
			if co[7] == "0" || co[1] == "call" || co[1] == "cbp" {
				nr, _ := strconv.Atoi(co[4])
				if co[1] == "gpcall" {
					nr = -1
				}
				if nr < 0 {
					nr, _ = strconv.Atoi(co[5])
				}
				top += nr
			}
		default:
			add(genObjOp(r)...)
		}
	}
	add("sweep")
	switch c := r.Intn(100); {
	case c < 70:
		add("ret", strconv.Itoa(r.Range(0, intMin(top, 5))))
	case c < 78:
		add("ret", strconv.Itoa(top))
	case c < 84: // register underflow: a Lua error that unwinds the chain
		add("pop", strconv.Itoa(top+r.Range(1, 3)))
	}
	return ops
}

func intMin(a, b int) int {
	if a < b {
		return a
	}
	return b
}

// gridCases: all (nargs, NRet, produced) in [0,4]^3 (+ MultRet) for Lua and Go callees through every call entry.
func gridCases(r *Rng) [][]Op {
	var res [][]Op
	i := 0
	for _, mode := range []string{"call", "pcall", "cbp", "cbpp"} {
		for _, callee := range []string{"lua", "go"} {
			for nargs := 0; nargs <= 4; nargs++ {
				for nret := -1; nret <= 4; nret++ {
					for prod := 0; prod <= 4; prod++ {
						i++
						rr := r.Fork(uint64(i))
						world, _ := genWorld(rr, Pick(rr, []int{0, 1, 2, 3, 5}), false)
						ops := []Op{{Args: world}}
						for j := 0; j < rr.Range(0, 3); j++ {
							ops = append(ops, Op{Args: []string{"push", genStackVal(rr)}})
						}
						ops = append(ops, Op{Args: []string{"call", mode, callee, strconv.Itoa(nargs), strconv.Itoa(nret), strconv.Itoa(prod),
							strconv.Itoa(rr.Range(0, 2)), "0"}})
						if mode == "pcall" || mode == "cbpp" {
							// the same shape failing: nothing may be left
							ops = append(ops, Op{Args: []string{"call", Pick(rr, []string{mode, mode, "pcallh", "cbph"}), Pick(rr, []string{callee, "luatail"}), strconv.Itoa(nargs),
								strconv.Itoa(nret), strconv.Itoa(prod), strconv.Itoa(rr.Range(0, 2)), strconv.Itoa(rr.Range(1, 2))}})
						}
						ops = append(ops, Op{Args: []string{"sweep"}})
						res = append(res, ops)
					}
				}
			}
		}
	}
	return res
}

func init() { props["C10"] = runC10; replayExec["C10"] = execAPI }

func runC10(run *Run) {
	if f := os.Getenv("C10_DUMP"); f != "" { // dev helper: print the request lines of one corpus file and the driver's verdicts
		for _, c := range loadCorpus("C10") {
			if len(c) > 0 && strings.Contains(f, c[0].String()) || f == "all" {
				lines := safeExec(execAPI, c)
				out, _ := runDriver(append([]string{"reset"}, lines...))
				for i, l := range lines {
					v := "?"
					if i+1 < len(out) {
						v = out[i+1]
					}
					fmt.Printf("%s   -> %s\n", l, v)
				}
			}
		}
		os.Exit(0)
	}
	nHist, nCall, nObj, maxOps := 2600, 500, 900, 36
	if run.Tier == "thorough" {
		nHist, nCall, nObj, maxOps = 70000, 20000, 30000, 70
	}
	run.Rule = "random histories of Push/Pop/Get/SetTop/Insert/Remove/Replace/GetTop (valid, 0, ±top, ±(top+1), far-out indices; nil values inside the list) executed through the public API inside a host function reached through a chain of 0–6 activations (Lua frames with live locals, host frames with own stack values; depth 0 = top level), with the registry at 128 slots + forced growth / tight maximum, each step replayed on the Lean Model of state.go (exact: list, results, whole registry snapshot incl. caller prefix) and on the list Spec; bounded-exhaustive TEST grid (nargs, NRet, produced) in [0,4]x[-1,4]x[0,4] x {Lua, Go callee} x {Call, PCall, CallByParam, CallByParam+Protect} plus failing protected variants; object-level API vs the same operands evaluated by a Lua chunk in the same state (Impl vs Impl, handler logs compared); distinct = distinct op-kind skeletons"
	run.Assume = []string{"the activation's entry state is read through the verif hooks VerifSnapshot / VerifRegistryValues (read-only)",
		"callee bodies are abstracted in the Model as 'pushes junk then its results' (host callee); Lua callees (OP_RETURN) are tied only through the observed list after the call",
		"dead slots above top are re-synchronised from the real registry after callee code ran (they are semantically dead; only Insert beyond top+1 can expose them, which is outside the property's index domain)",
		"pseudo-indices (RegistryIndex, EnvironIndex, GlobalsIndex, upvalue indices) are outside the model"}
	root := NewRng(uint64(run.Seed))
	var cases []Case
	for i, c := range loadCorpus("C10") {
		cases = append(cases, Case{Idx: -1 - i, Ops: c, Note: "corpus"})
	}
	for i := 0; i < nHist; i++ {
		cases = append(cases, Case{Idx: i, Ops: genAPICase(root.Fork(uint64(i)), maxOps, "stack")})
	}
	for i := 0; i < nCall; i++ {
		cases = append(cases, Case{Idx: 1000000 + i, Ops: genAPICase(root.Fork(uint64(1000000+i)), maxOps/2, "call")})
	}
	for i := 0; i < nObj; i++ {
		cases = append(cases, Case{Idx: 2000000 + i, Ops: genAPICase(root.Fork(uint64(2000000+i)), maxOps/2, "obj")})
	}
	for i, g := range gridCases(root.Fork(777)) {
		cases = append(cases, Case{Idx: 3000000 + i, Ops: g, Note: "grid"})
	}
	// batches bound the memory held for request lines (a frame line carries the whole live registry)
	for lo := 0; lo < len(cases); lo += 6000 {
		hi := lo + 6000
		if hi > len(cases) {
			hi = len(cases)
		}
		runCases(run, cases[lo:hi], execAPI, classifyTagged)
	}
	run.Extra["grid_cases"] = len(gridCases(root.Fork(777)))
}
