package main

// C10, deepening: the operations behind the composed call theorems (Props/C10.lean: call_contract_composed /
// call_contract_ops), driven on the real API.
//
//	callg <mode> <kind> <nargs> <nret> <n> <body op>…
//	    mode: call | pcall | cbp | cbpp            (Call, PCall, CallByParam, CallByParam+Protect)
//	    kind: fn (a host function is called) | meta (a table / userdata whose __call is that host function)
//	    body op: push:<v> | pop:<k> | settop:<i> | insert:<v>:<i> | remove:<i> | replace:<i>:<v>
//	    the host callee performs the body ops on what it received and returns n (clipped to its top)
//	request lines: `centry nargs kind => <list the callee saw on entry>` (Model: pushCallFrame + initCallFrame; Spec: the
//	arguments, preceded by the called object for __call) and `callg nargs nret kind n ; op ; op … => ok <caller's list>`
//	(Model: callRHost with that body; Spec: prefix ++ adjust(n top-most values of the callee's final list, nret)).

import (
	"math"
	"runtime"
	"strconv"
	"strings"

	lua "github.com/yuin/gopher-lua"
)

func (w *apiWorld) callgOp(L *lua.LState, a []string) {
	mode, kind := a[1], a[2]
	nargs, _ := strconv.Atoi(a[3])
	nret, _ := strconv.Atoi(a[4])
	n, _ := strconv.Atoi(a[5])
	body := a[6:]
	seen, entered, retn := "", false, n
	goCallee := func(L *lua.LState) int {
		entered = true
		seen = strings.TrimPrefix(strings.TrimPrefix(w.dump(L), "ok"), " ")
		for _, b := range body {
			f := strings.Split(b, ":")
			switch f[0] {
			case "push":
				L.Push(w.dec(f[1]))
			case "pop":
				k, _ := strconv.Atoi(f[1])
				L.Pop(k)
			case "settop":
				k, _ := strconv.Atoi(f[1])
				L.SetTop(k)
			case "insert":
				k, _ := strconv.Atoi(f[2])
				L.Insert(w.dec(f[1]), k)
			case "remove":
				k, _ := strconv.Atoi(f[1])
				L.Remove(k)
			case "replace":
				k, _ := strconv.Atoi(f[1])
				L.Replace(k, w.dec(f[2]))
			}
		}
		if retn > L.GetTop() {
			retn = L.GetTop()
		}
		return retn
	}
	fnv := L.NewFunction(goCallee)
	var callee lua.LValue = fnv
	if kind == "meta" {
		mt := L.NewTable()
		mt.RawSetString("__call", fnv)
		if (nargs+nret)%2 == 0 {
			tb := L.NewTable()
			L.SetMetatable(tb, mt)
			callee = tb
		} else {
			ud := L.NewUserData()
			L.SetMetatable(ud, mt)
			callee = ud
		}
	}
	var args []lua.LValue
	for j := 0; j < nargs; j++ {
		var v lua.LValue = lua.LNumber(8001 + j)
		if j == 1 {
			v = lua.LNumber(0)
		}
		if j == 2 {
			v = lua.LNil
		}
		args = append(args, v)
	}
	var err error
	switch mode {
	case "call", "pcall":
		L.Push(callee)
		w.emit("push "+w.enc(callee), w.dump(L))
		for _, v := range args {
			L.Push(v)
			w.emit("push "+w.enc(v), w.dump(L))
		}
		if mode == "call" {
			L.Call(nargs, nret)
		} else {
			err = L.PCall(nargs, nret, nil)
		}
	default: // cbp, cbpp: CallByParam pushes function and arguments itself
		w.emit("push "+w.enc(callee), "?")
		for _, v := range args {
			w.emit("push "+w.enc(v), "?")
		}
		err = L.CallByParam(lua.P{Fn: callee, NRet: nret, Protect: mode == "cbpp"}, args...)
	}
	ekind := "fn"
	if kind == "meta" {
		ekind = "meta"
	}
	w.emit("eq centered "+w.enc(lbool(entered))+" | T", "")
	w.emit("centry "+strconv.Itoa(nargs)+" "+ekind, seen)
	req := "callg " + strconv.Itoa(nargs) + " " + strconv.Itoa(nret) + " " + ekind + " " + strconv.Itoa(retn)
	for _, b := range body {
		req += " ; " + strings.Join(strings.Split(b, ":"), " ")
	}
	w.emit(req, w.dump(L))
	w.emit("eq perr "+w.enc(lbool(err != nil))+" | F", "")
	w.resyncLine(L)
	w.gettopLine(L)
	w.sweepLine(L)
}

// genBody: a state-aware history of mutators for the callee (its list starts with `top` values); no far-out inserts
// (Insert beyond top+1 is the recorded gap finding: its Go nil slots must not travel into a caller's list here).
func genBody(r *Rng, top, maxOps int) ([]string, int) {
	sub := &histGen{r: r, top: top}
	k := r.Range(0, maxOps)
	for tries := 0; len(sub.ops) < k && tries < 4*maxOps+4; tries++ {
		c := r.Intn(76)
		if c >= 24 && c < 27 {
			continue // no bursts here
		}
		sub.stackOp(c)
	}
	var toks []string
	for _, o := range sub.ops {
		toks = append(toks, strings.Join(o.Args, ":"))
	}
	return toks, sub.top
}

func (g *histGen) callg() {
	r := g.r
	mode := Pick(r, []string{"call", "call", "pcall", "cbp", "cbpp"})
	kind := Pick(r, []string{"fn", "fn", "meta"})
	nargs, nret := r.Range(0, 4), r.Range(-1, 4)
	top := nargs
	if kind == "meta" {
		top++
	}
	body, ftop := genBody(r, top, 6)
	n := 0
	switch c := r.Intn(10); {
	case c < 2:
	case c < 5:
		n = ftop
	default:
		n = r.Range(0, ftop)
	}
	args := []string{"callg", mode, kind, strconv.Itoa(nargs), strconv.Itoa(nret), strconv.Itoa(n)}
	g.add(append(args, body...)...)
	if nret < 0 {
		g.top += n
	} else {
		g.top += nret
	}
}

// callgGrid: bounded-exhaustive TEST grid nargs [0,3] x NRet [-1,3] x kind x entry x returned count (every value from 0 to
// the callee's top) for three fixed bodies (none; one that moves arguments around; one that empties and refills the list)
// plus one seed-derived body per cell.
func callgGrid(r *Rng) [][]Op {
	var res [][]Op
	fixed := [][]string{nil, {"insert:i7:1", "pop:1", "push:nil", "replace:-2:s61", "remove:1"}, {"settop:0", "push:i1", "push:i2", "settop:4", "insert:T:-2"}}
	i := 0
	for _, mode := range []string{"call", "pcall", "cbp", "cbpp"} {
		for _, kind := range []string{"fn", "meta"} {
			for nargs := 0; nargs <= 3; nargs++ {
				for nret := -1; nret <= 3; nret++ {
					i++
					rr := r.Fork(uint64(i))
					world, _ := genWorld(rr, Pick(rr, []int{0, 1, 2, 3, 5}), false)
					ops := []Op{{Args: world}}
					for j := 0; j < rr.Range(0, 3); j++ {
						ops = append(ops, Op{Args: []string{"push", genStackVal(rr)}})
					}
					top := nargs
					if kind == "meta" {
						top++
					}
					rb, _ := genBody(rr, top, 5)
					for _, body := range append(fixed, rb) {
						// the callee's final top is not known here: the executor clips the count; ask for every count up to 6
						for n := 0; n <= 6; n += 1 + rr.Intn(2) {
							a := []string{"callg", mode, kind, strconv.Itoa(nargs), strconv.Itoa(nret), strconv.Itoa(n)}
							ops = append(ops, Op{Args: append(a, body...)})
							ops = append(ops, Op{Args: []string{"settop", strconv.Itoa(rr.Range(0, 2))}})
						}
					}
					ops = append(ops, Op{Args: []string{"snap"}}, Op{Args: []string{"sweep"}})
					res = append(res, ops)
				}
			}
		}
	}
	return res
}

// xidx get <idx> | xidx replace <idx> <v>: Get / Replace at an extreme index (just above the pseudo-index range, far
// beyond the top, far below every upvalue, at the ends of the int range), under recover: a Go runtime panic inside the
// API call is the reply `gopanic` (Model: the explicit .goPanic branch reached through Go's wrapping int arithmetic).
func (w *apiWorld) xidxOp(L *lua.LState, a []string) {
	i64, _ := strconv.ParseInt(a[2], 10, 64)
	idx := int(i64)
	if idx < lua.GlobalsIndex && w.depth == 0 {
		return // an upvalue index without a running function has no meaning (nil dereference; UB in C Lua as well)
	}
	rec := func(f func() string) (r string) {
		defer func() {
			if e := recover(); e != nil {
				if _, ok := e.(runtime.Error); !ok {
					panic(e)
				}
				r = "gopanic"
			}
		}()
		return f()
	}
	switch a[1] {
	case "get":
		w.emit("get "+a[2], rec(func() string { return w.enc(L.Get(idx)) }))
	case "replace":
		v := w.dec(a[3])
		w.emit("replace "+a[2]+" "+a[3], rec(func() string { L.Replace(idx, v); return w.dump(L) }))
	}
}

// extremes: around the pseudo-index range, far out, and both sides of the point where `base + idx - 1` no longer fits an
// int (MaxInt64-300 fits for every base the harness reaches, LocalBase < 300; MaxInt64-1 and MaxInt64 do not for
// LocalBase >= 3 / >= 2: the class of C10-index-int-overflow, fixed — Get / Replace compare before they add).
var c10ExtremeGet = []int64{-9999, -9998, 1 << 40, 1 << 62, math.MaxInt64 - 300, math.MaxInt64 - 1, math.MaxInt64,
	-10003, -10006, -10100, -(1 << 40), math.MinInt64 + 1, math.MinInt64}
var c10ExtremeReplace = []int64{-9999, 1 << 40, math.MaxInt64 - 300, math.MaxInt64 - 1, math.MaxInt64}

// the overflowing ones once more in small cases of their own (depth 0..3, Get | Replace): minimal replays.
var c10OverflowIdx = []int64{math.MaxInt64 - 1, math.MaxInt64}

func (g *histGen) xidx() {
	r := g.r
	if r.Chance(70) {
		g.add("xidx", "get", strconv.FormatInt(Pick(r, c10ExtremeGet), 10))
	} else {
		g.add("xidx", "replace", strconv.FormatInt(Pick(r, c10ExtremeReplace), 10), genStackVal(r))
	}
}

// idxCases: bounded-exhaustive TEST grid depth 0..5 x 0..3 upvalues x every extreme index, Get and Replace; plus one small
// case per (depth 0..3, overflowing index, Get | Replace) followed by a sweep and a snapshot.
func idxCases(r *Rng) [][]Op {
	var res [][]Op
	i := 0
	for depth := 0; depth <= 5; depth++ {
		for rep := 0; rep < 3; rep++ {
			i++
			rr := r.Fork(uint64(i))
			world, top := genWorld(rr, depth, false)
			g := &histGen{r: rr, top: top}
			g.add(world...)
			for j := 0; j < rr.Range(0, 3); j++ {
				g.stackOp(rr.Intn(24))
			}
			for _, x := range c10ExtremeGet {
				g.add("xidx", "get", strconv.FormatInt(x, 10))
			}
			for _, x := range c10ExtremeReplace {
				g.add("xidx", "replace", strconv.FormatInt(x, 10), genStackVal(rr))
				g.add("sweep")
			}
			g.add("snap")
			g.ending()
			res = append(res, g.ops)
		}
	}
	for depth := 0; depth <= 3; depth++ {
		for _, x := range c10OverflowIdx {
			for _, what := range []string{"get", "replace"} {
				i++
				rr := r.Fork(uint64(i))
				world, _ := genWorld(rr, depth, false)
				ops := []Op{{Args: world}, {Args: []string{"push", "i5"}}}
				if what == "get" {
					ops = append(ops, Op{Args: []string{"xidx", "get", strconv.FormatInt(x, 10)}})
				} else {
					ops = append(ops, Op{Args: []string{"xidx", "replace", strconv.FormatInt(x, 10), "i9"}})
				}
				ops = append(ops, Op{Args: []string{"sweep"}}, Op{Args: []string{"snap"}})
				res = append(res, ops)
			}
		}
	}
	return res
}

// objh tostring|len|concat <n> <body op>…: ToStringMeta / ObjLen / Concat on a userdata whose __tostring / __len / __concat
// handler is a host function that performs the body ops on what it received and returns n (clipped to its top).  Request
// `hcall <which> n <handler> <arg…> ; op … => <result> ok <list>`: Model = callHandler (Push(fn); Push(arg)…; Call(k, 1);
// reg.Pop()) with that body, Spec = the handler's first result / the caller's list unchanged.
func (w *apiWorld) objhOp(L *lua.LState, a []string) {
	which := a[1]
	n, _ := strconv.Atoi(a[2])
	body := a[3:]
	retn := n
	h := L.NewFunction(func(L *lua.LState) int {
		for _, b := range body {
			f := strings.Split(b, ":")
			switch f[0] {
			case "push":
				L.Push(w.dec(f[1]))
			case "pop":
				k, _ := strconv.Atoi(f[1])
				L.Pop(k)
			case "settop":
				k, _ := strconv.Atoi(f[1])
				L.SetTop(k)
			case "insert":
				k, _ := strconv.Atoi(f[2])
				L.Insert(w.dec(f[1]), k)
			case "remove":
				k, _ := strconv.Atoi(f[1])
				L.Remove(k)
			case "replace":
				k, _ := strconv.Atoi(f[1])
				L.Replace(k, w.dec(f[2]))
			}
		}
		if retn > L.GetTop() {
			retn = L.GetTop()
		}
		return retn
	})
	ud := L.NewUserData()
	mt := L.NewTable()
	mt.RawSetString("__"+which, h)
	L.SetMetatable(ud, mt)
	args := []lua.LValue{ud}
	res := ""
	switch which {
	case "tostring":
		res = w.enc(L.ToStringMeta(ud))
	case "len":
		res = strconv.Itoa(L.ObjLen(ud))
	case "concat":
		args = append(args, lua.LString("x"))
		res = "s" + hexOf(L.Concat(ud, lua.LString("x")))
	}
	req := "hcall " + which + " " + strconv.Itoa(retn) + " " + w.enc(h)
	for _, v := range args {
		req += " " + w.enc(v)
	}
	for _, b := range body {
		req += " ; " + strings.Join(strings.Split(b, ":"), " ")
	}
	w.emit(req, res+" "+w.dump(L))
	w.resyncLine(L)
}

// objc0: Concat() with no operand: the empty string; the list is untouched (`nop` line).
func (w *apiWorld) objc0Op(L *lua.LState) {
	res := func() (r string) {
		defer func() {
			if e := recover(); e != nil {
				if _, ok := e.(runtime.Error); !ok {
					panic(e)
				}
				r = "gopanic"
			}
		}()
		return "s" + hexOf(L.Concat())
	}()
	w.emit("concat0", res)
	w.emit("nop", w.dump(L))
}

// objcr <kind>: `t .. "x"` where t's __concat returns a string / a number / a table / nil / a boolean: the value of the Lua
// expression vs the string Concat returns.
func (w *apiWorld) objcrOp(L *lua.LState, a []string) {
	var ret lua.LValue
	switch a[1] {
	case "str":
		ret = lua.LString("R")
	case "num":
		ret = lua.LNumber(42)
	case "tbl":
		ret = L.NewTable()
	case "bool":
		ret = lua.LTrue
	default:
		ret = lua.LNil
	}
	t := L.NewTable()
	mt := L.NewTable()
	mt.RawSetString("__concat", L.NewFunction(func(L *lua.LState) int { L.Push(ret); return 1 }))
	L.SetMetatable(t, mt)
	// the Lua expression on the same operands, evaluated by the VM (OP_CONCAT) in the same state
	fn, err := L.LoadString("local a, b = ... return a .. b")
	if err != nil {
		panic(err)
	}
	L.Push(fn)
	L.Push(t)
	L.Push(lua.LString("x"))
	L.Call(2, 1)
	lres := L.Get(-1)
	L.Pop(1)
	api := L.Concat(t, lua.LString("x"))
	w.emit("concatres "+w.enc(lres), "s"+hexOf(api))
	w.emit("nop", w.dump(L))
	w.resyncLine(L)
}

func (g *histGen) objh() {
	r := g.r
	switch c := r.Intn(100); {
	case c < 85:
		which := Pick(r, []string{"tostring", "tostring", "len", "concat"})
		top := 1
		if which == "concat" {
			top = 2
		}
		body, ftop := genBody(r, top, 5)
		n := r.Range(0, ftop)
		if r.Chance(30) {
			n = ftop
		}
		g.add(append([]string{"objh", which, strconv.Itoa(n)}, body...)...)
	case c < 92:
		g.add("objc0") // Concat() with no operand: the empty string, whatever lies below
	default: // (the result kinds that are known findings — table, nil, boolean — run in cases of their own: objhCases)
		g.add("objcr", Pick(r, []string{"str", "num"}))
	}
}

// objhCases: bounded-exhaustive TEST grid depth 0..4 x {tostring, len, concat} x returned count 0..3 x three fixed handler
// bodies + one seed-derived body, __concat returning a string / a number, Concat() with no operand; Concat() on an empty
// registry / above a string / above a number / above an object / on an empty own list inside a function (small cases:
// minimal replays); plus tiny cases of their own (a known-finding verdict ends the judgement of its case) for every other
// __concat result kind.
func objhCases(r *Rng) [][]Op {
	var res [][]Op
	fixed := [][]string{nil, {"push:i42", "push:s61"}, {"settop:0", "push:nil", "push:i7", "insert:s62:1"}}
	i := 0
	for depth := 0; depth <= 4; depth++ {
		for _, which := range []string{"tostring", "len", "concat"} {
			i++
			rr := r.Fork(uint64(i))
			world, top := genWorld(rr, depth, false)
			g := &histGen{r: rr, top: top}
			g.add(world...)
			for j := 0; j < rr.Range(0, 2); j++ {
				g.stackOp(rr.Intn(24))
			}
			htop := 1
			if which == "concat" {
				htop = 2
			}
			rb, _ := genBody(rr, htop, 5)
			for _, body := range append(fixed, rb) {
				for n := 0; n <= 3; n++ {
					g.add(append([]string{"objh", which, strconv.Itoa(n)}, body...)...)
				}
			}
			g.add("objcr", "str")
			g.add("objc0")
			g.add("objcr", "num")
			g.add("objc0")
			g.add("snap")
			g.add("sweep")
			g.ending()
			res = append(res, g.ops)
		}
	}
	for depth := 0; depth <= 3; depth++ {
		for _, below := range []string{"", "s736563726574", "i42", "r1", "nil"} {
			i++
			world, _ := genWorld(r.Fork(uint64(i)), depth, false)
			ops := []Op{{Args: world}, {Args: []string{"settop", "0"}}}
			if below != "" {
				ops = append(ops, Op{Args: []string{"push", below}})
			}
			res = append(res, append(ops, Op{Args: []string{"objc0"}}, Op{Args: []string{"sweep"}}, Op{Args: []string{"snap"}}))
		}
		for _, k := range []string{"tbl", "nil", "bool"} {
			i++
			world, _ := genWorld(r.Fork(uint64(i)), depth, false)
			res = append(res, []Op{{Args: world}, {Args: []string{"objcr", k}}})
		}
	}
	return res
}

// pfailat <mode: pcall|cbpp> <kind: fn|meta> <nargs> <handler: none|hret|hraise> <depth> <salt>: a protected call whose callee
// pushes values and calls on through `depth` nested host activations (each called directly or through __call), the innermost
// pushing partial results and raising.  Request `pcallfailat nargs kind path ; <pushed…> / nargs kind ; … ; <last…> ; <hjunk…>`:
// Model = pcallFailAt (frame entries, pushes, raiseError's push, the handler's frame, PCall's deferred function by exit path),
// Spec = the caller's list without function and arguments.
func (w *apiWorld) pfailatOp(L *lua.LState, a []string) {
	mode, kind, hk := a[1], a[2], a[4]
	nargs, _ := strconv.Atoi(a[3])
	depth, _ := strconv.Atoi(a[5])
	salt, _ := strconv.Atoi(a[6])
	type lvl struct {
		junk, nargs int
		meta        bool
	}
	lv := make([]lvl, depth)
	for i := range lv {
		lv[i] = lvl{junk: (salt + i) % 3, nargs: (salt + 2*i) % 3, meta: (salt+i)%2 == 1}
	}
	nlast := salt % 4
	callable := func(fn *lua.LFunction, meta bool) lua.LValue {
		if !meta {
			return fn
		}
		tb := L.NewTable()
		mt := L.NewTable()
		mt.RawSetString("__call", fn)
		L.SetMetatable(tb, mt)
		return tb
	}
	// build the chain from the innermost outwards; groups[i] = what level i pushed (tokens) + its call
	groups := make([]string, depth)
	var lastToks []string
	inner := L.NewFunction(func(L *lua.LState) int {
		for j := 0; j < nlast; j++ {
			L.Push(lua.LNumber(7101 + j))
		}
		L.RaiseError("boom")
		return 0
	})
	for j := 0; j < nlast; j++ {
		lastToks = append(lastToks, "i"+strconv.Itoa(7101+j))
	}
	next := inner
	for i := depth - 1; i >= 0; i-- {
		l := lv[i]
		target := callable(next, l.meta)
		var toks []string
		for j := 0; j < l.junk; j++ {
			toks = append(toks, "i"+strconv.Itoa(6100+10*i+j))
		}
		toks = append(toks, w.enc(target))
		for j := 0; j < l.nargs; j++ {
			toks = append(toks, "i"+strconv.Itoa(8100+10*i+j))
		}
		k := "fn"
		if l.meta {
			k = "meta"
		}
		groups[i] = strings.Join(toks, " ") + " / " + strconv.Itoa(l.nargs) + " " + k
		i2, l2, t2 := i, l, target
		next = L.NewFunction(func(L *lua.LState) int {
			for j := 0; j < l2.junk; j++ {
				L.Push(lua.LNumber(6100 + 10*i2 + j))
			}
			L.Push(t2)
			for j := 0; j < l2.nargs; j++ {
				L.Push(lua.LNumber(8100 + 10*i2 + j))
			}
			L.Call(l2.nargs, (i2+salt)%3-1)
			return 0
		})
	}
	callee := callable(next, kind == "meta")
	var handler *lua.LFunction
	path := "none"
	switch hk {
	case "hret":
		handler = L.NewFunction(func(L *lua.LState) int { L.Push(lua.LNumber(1)); L.Push(lua.LString("H")); return 1 })
		path = "returned"
	case "hraise":
		handler = L.NewFunction(func(L *lua.LState) int { L.Push(lua.LNumber(1)); L.RaiseError("handler failed"); return 0 })
		path = "failed"
	}
	var args []lua.LValue
	for j := 0; j < nargs; j++ {
		args = append(args, lua.LNumber(8001+j))
	}
	var err error
	if mode == "pcall" {
		L.Push(callee)
		w.emit("push "+w.enc(callee), w.dump(L))
		for _, v := range args {
			L.Push(v)
			w.emit("push "+w.enc(v), w.dump(L))
		}
		err = L.PCall(nargs, (salt%4)-1, handler)
	} else {
		w.emit("push "+w.enc(callee), "?")
		for _, v := range args {
			w.emit("push "+w.enc(v), "?")
		}
		err = L.CallByParam(lua.P{Fn: callee, NRet: (salt % 4) - 1, Protect: true, Handler: handler}, args...)
	}
	ekind := "fn"
	if kind == "meta" {
		ekind = "meta"
	}
	req := "pcallfailat " + strconv.Itoa(nargs) + " " + ekind + " " + path
	for _, g := range groups {
		req += " ; " + g
	}
	req += " ; " + strings.Join(lastToks, " ") + " ; i1"
	w.emit(strings.Join(strings.Fields(req), " "), w.dump(L))
	w.emit("eq perr "+w.enc(lbool(err != nil))+" | T", "")
	w.resyncLine(L)
	w.gettopLine(L)
	w.sweepLine(L)
}

// pfailatCases: bounded-exhaustive TEST grid activation depth 0..4 x entry x called directly / through __call x nargs 0..2 x
// handler {none, returning, failing} x nesting depth 0..3 (the shapes of the nested levels derive from a salt).
func pfailatCases(r *Rng) [][]Op {
	var res [][]Op
	i := 0
	for depth := 0; depth <= 4; depth++ {
		for _, mode := range []string{"pcall", "cbpp"} {
			for _, kind := range []string{"fn", "meta"} {
				i++
				rr := r.Fork(uint64(i))
				world, top := genWorld(rr, depth, false)
				g := &histGen{r: rr, top: top}
				g.add(world...)
				for j := 0; j < rr.Range(0, 2); j++ {
					g.stackOp(rr.Intn(24))
				}
				for nargs := 0; nargs <= 2; nargs++ {
					for _, hk := range []string{"none", "hret", "hraise"} {
						for nest := 0; nest <= 3; nest++ {
							g.add("pfailat", mode, kind, strconv.Itoa(nargs), hk, strconv.Itoa(nest), strconv.Itoa(rr.Range(0, 11)))
						}
					}
				}
				g.add("snap")
				g.add("sweep")
				g.ending()
				res = append(res, g.ops)
			}
		}
	}
	return res
}
