package main

// C10, object-level API: every call is made on the real LState and compared with the same operands
// evaluated by a Lua chunk in the same state (Impl vs Impl), metamethods included (handler invocations are
// logged and the logs compared as well).

import (
	"sort"
	"strconv"
	"strings"

	lua "github.com/yuin/gopher-lua"
)

const apiPrelude = `
local select, unpack, rawget, rawset, type, tostring, setmetatable = select, unpack, rawget, rawset, type, tostring, setmetatable
function pack(...) return {n=select('#',...), ...} end
LOG = {}
local function lg(s) LOG[#LOG+1] = s end
function resetlog() LOG = {} end
function getlog() return table.concat(LOG, ";") end
local function name(v)
  local t = type(v)
  if t == "number" or t == "boolean" or t == "nil" then return tostring(v)
  elseif t == "string" then return "'"..v.."'" else return "<"..t..">" end
end
local mtEq  = {__eq = function(a,b) lg("eq") return true end}
local mtEq2 = {__eq = function(a,b) lg("eq2") return false end}
local mtLt  = {__lt = function(a,b) lg("lt") return rawget(a,"v") < rawget(b,"v") end,
               __le = function(a,b) lg("le") return rawget(a,"v") <= rawget(b,"v") end}
local mtCat = {__concat = function(a,b) lg("cat:"..name(a)..":"..name(b)) return "C" end}
local udmtIdx = {__index = function(u,k) lg("uindex:"..name(k)) return name(k).."?" end,
                 __newindex = function(u,k,v) lg("unewindex:"..name(k)..":"..name(v)) end}
local udmtLen = {__len = function(u) lg("ulen") return 5 end}
local udmtLt  = {__lt = function(a,b) lg("ult") return true end, __eq = function(a,b) lg("ueq") return true end}
function mk(kind)
  if kind == "nil" then return nil
  elseif kind == "true" then return true
  elseif kind == "false" then return false
  elseif kind == "n0" then return 0
  elseif kind == "n1" then return 1
  elseif kind == "n2" then return 2
  elseif kind == "n10" then return 10
  elseif kind == "nfrac" then return -1.5
  elseif kind == "sa" then return "a"
  elseif kind == "sb" then return "b"
  elseif kind == "sx" then return "x"
  elseif kind == "s10" then return "10"
  elseif kind == "sempty" then return ""
  elseif kind == "plain" then return {10,20,30,x=1,["10"]=5}
  elseif kind == "empty" then return {}
  elseif kind == "idxfn" then
    return setmetatable({x=1}, {__index = function(t,k) lg("index:"..name(k)) return name(k).."!" end})
  elseif kind == "idxtbl" then
    local l2 = setmetatable({y=2}, {__index = function(t,k) lg("index2:"..name(k)) return nil end})
    return setmetatable({x=1}, {__index = l2})
  elseif kind == "idxud" then
    return setmetatable({x=1}, {__index = newud(udmtIdx)})
  elseif kind == "newidxfn" then
    return setmetatable({x=1}, {__newindex = function(t,k,v) lg("newindex:"..name(k)..":"..name(v)) rawset(t, "shadow", v) end})
  elseif kind == "newidxtbl" then
    return setmetatable({x=1}, {__newindex = {target=true}})
  elseif kind == "newidxchain" then
    local l2 = setmetatable({}, {__newindex = function(t,k,v) lg("newindex2:"..name(k)) end})
    return setmetatable({x=1}, {__newindex = l2})
  elseif kind == "eqA" then return setmetatable({}, mtEq)
  elseif kind == "eqB" then return setmetatable({}, mtEq2)
  elseif kind == "lt1" then return setmetatable({v=1}, mtLt)
  elseif kind == "lt2" then return setmetatable({v=2}, mtLt)
  elseif kind == "cat" then return setmetatable({}, mtCat)
  elseif kind == "len7" then return setmetatable({1,2}, {__len = function(t) lg("len") return 7 end})
  elseif kind == "lenstr" then return setmetatable({1,2}, {__len = function(t) lg("len") return "x" end})
  elseif kind == "lenfrac" then return setmetatable({1,2}, {__len = function(t) lg("len") return 2.5 end})
  elseif kind == "lennotfn" then return setmetatable({1,2,3}, {__len = 4})
  elseif kind == "tostr" then return setmetatable({}, {__tostring = function(t) lg("tostring") return "TS" end})
  elseif kind == "protected" then return setmetatable({}, {__metatable = "locked", __index = function(t,k) return 1 end})
  elseif kind == "ud" then return newud(nil)
  elseif kind == "udidx" then return newud(udmtIdx)
  elseif kind == "udeq" then return newud(mtEq)
  elseif kind == "udlen" then return newud(udmtLen)
  elseif kind == "udlt" then return newud(udmtLt)
  elseif kind == "fn" then return mk
  elseif kind == "envfn" then return loadstring("return X")            -- a fresh Lua function reading a global
  elseif kind == "gofn" then return newgofn()                           -- a fresh host function returning (its environment).X
  elseif kind == "thread" then return coroutine.create(function() end)
  elseif kind == "envtbl" then return {X = 1}
  elseif kind == "mixed" then
    local t = {1, 2, nil, 4, a = 1, b = 2, [2.5] = 3, [true] = 4, [-1] = 5}
    t.a = nil; t[2] = nil; t.c = "c"
    return t
  end
  error("bad kind "..tostring(kind))
end
-- canonical observation of an object after a store (raw content, one level of the handler target)
local function rawdump(t)
  local parts = {}
  for k, v in next, t do parts[#parts+1] = name(k).."="..name(v) end
  table.sort(parts)
  return table.concat(parts, ",")
end
function obs(x)
  if type(x) ~= "table" then return name(x) end
  local s = rawdump(x)
  local mt = debug.getmetatable(x)
  if mt and type(rawget(mt, "__newindex")) == "table" then s = s .. "|" .. rawdump(rawget(mt, "__newindex")) end
  return s
end
function haslen(v) local mt = debug.getmetatable(v); return mt ~= nil and type(rawget(mt, "__len")) == "function" end
function l_gettable(a,k) return a[k] end
function l_settable(a,k,v) a[k] = v end
function l_eq(a,b) return a == b end
function l_raweq(a,b) return rawequal(a,b) end
function l_lt(a,b) return a < b end
function l_concat(a,b) return a .. b end
function l_concat3(a,b,c) return a .. b .. c end
function l_len(a) return #a end
function l_getmt(a) return getmetatable(a) end
function l_tostring(a) return tostring(a) end
function l_next(t,k) return next(t,k) end
function l_pairs(t) return rawdump(t) end
-- environments: getfenv / setfenv for Lua functions, debug.getfenv / debug.setfenv for host functions, userdata, threads
function l_getfenv(o) if type(o) == "function" and not ISGO[o] then return getfenv(o) end return debug.getfenv(o) end
function l_setfenv(o, e)
  if type(e) ~= "table" then error("not a table") end
  if type(o) == "function" and not ISGO[o] then setfenv(o, e) else debug.setfenv(o, e) end
end
ISGO = setmetatable({}, {__mode = "k"})
function envobs(o, e)
  local cur
  if type(o) == "function" and not ISGO[o] then cur = getfenv(o) else cur = debug.getfenv(o) end
  local s = tostring(cur == e) .. ":" .. tostring(cur == _G)
  if type(o) == "function" then local ok, r = pcall(o); s = s .. ":" .. tostring(ok) .. ":" .. name(r) end
  return s
end
function l_setglobalfn(n, f) _G[n] = f end
function callglobal(n) local f = rawget(_G, n); if type(f) ~= "function" then return type(f) end return f() end
function fnsobs(t) return name(rawget(t, "f1") and rawget(t, "f1")()) .. "," .. name(rawget(t, "f2") and rawget(t, "f2")()) .. "|" .. rawdump(t) end
function l_setfuncs(t, up) rawset(t, "f1", function() return up end); rawset(t, "f2", function() return up end); return t end
-- the To* conversions as Lua defines them: truth, tonumber (numbers and numeric strings, 0 otherwise),
-- tostring (strings and numbers, "" otherwise), type
function l_to(v)
  local t = type(v)
  local conv = (t == "number" or t == "string")
  -- a string converts to itself (lua_tostring consults no metamethod: tostring(v) would call a __tostring placed on the
  -- string metatable by the strmeta op)
  return (not not v), conv and tonumber(v) or 0, (t == "string" and v) or (t == "number" and tostring(v)) or "", t
end
GX = 5
function l_get_GX() return GX end
function l_get_GY() return GY end
function l_set_GX(v) GX = v end
function l_set_GZ(v) GZ = v end
function rawglobal(n) return rawget(_G, n) end
function clearglobal(n) rawset(_G, n, nil) end
-- callees of the call-contract grid
P, FAIL = 0, 0
-- failing callees beyond error()/runtime fault: 4 = call-stack overflow, 5 = registry overflow, 6 = a Go value panicking in a
-- host function the callee calls (gopanic is installed by the harness)
local BIGT
local function big() if not BIGT then BIGT = {} for i = 1, 6000 do BIGT[i] = i end end return BIGT end
local function deep(n) return 1 + deep(n + 1) end
local function failmore()
  if FAIL == 4 then deep(1) elseif FAIL == 5 then local n = select('#', unpack(big())) elseif FAIL == 6 then gopanic() end
end
function lcallee(...)
  cargs(select('#', ...), ...)
  if FAIL == 1 then error("boom") elseif FAIL == 2 then local x = nil; x = x + 1 else failmore() end
  if P == 0 then return elseif P == 1 then return 7001 elseif P == 2 then return 7001, 7002
  elseif P == 3 then return 7001, 7002, 7003 elseif P == 4 then return 7001, 7002, 7003, 7004 end
  return 7001, 7002, 7003, 7004, 7005
end
local PROD = {7001, 7002, 7003, 7004, 7005}
function lcalleetail(...)
  cargs(select('#', ...), ...)
  if FAIL == 1 then error({code=1}) elseif FAIL == 2 then local x = {} ; x = x.a.b else failmore() end
  return unpack(PROD, 1, P)
end
function handler(e) return "H:" .. type(e) end
-- error handlers that do not return normally / that run protected calls of their own
function hraise(e) local a, b = 1, 2; error("HE:" .. type(e)) end
function hraiseobj(e) error({code = 2}) end
function hfault(e) local x = nil; return x.y end
function hoverflow(e) return 1 + hoverflow(e) end
function hpcall(e) local ok, m = pcall(error, "inner"); local ok2 = pcall(hraise, e); return "H:" .. type(e) .. tostring(ok) .. tostring(ok2) end
-- activation chain: Lua frames with locals that must survive the callee
function lstepM(i, ...)
  local a, b, c = i*100+1, "L"..i, i*100+3
  local r = pack(chainfns[i+1](i+1, ...))
  recv(i, r.n, unpack(r, 1, r.n)); chk(i, a, b, c)
  return unpack(r, 1, r.n)
end
function lstep0(i, ...)
  local a, b, c = i*100+1, "L"..i, i*100+3
  chainfns[i+1](i+1, ...)
  recv(i, 0); chk(i, a, b, c)
end
function lstep1(i, ...)
  local a, b, c = i*100+1, "L"..i, i*100+3
  local r1 = chainfns[i+1](i+1, ...)
  recv(i, 1, r1); chk(i, a, b, c)
  return r1
end
function lstep2(i, ...)
  local a, b, c = i*100+1, "L"..i, i*100+3
  local r1, r2 = chainfns[i+1](i+1, ...)
  recv(i, 2, r1, r2); chk(i, a, b, c)
  return r1, r2
end
function lstep3(i, ...)
  local a, b, c = i*100+1, "L"..i, i*100+3
  local r1, r2, r3 = chainfns[i+1](i+1, ...)
  local d = i*100+4
  recv(i, 3, r1, r2, r3); chk(i, a, b, c)
  return r1, r2, r3, d
end
setmetatable(_G, {__index = function(t,k) lg("gindex:"..name(k)) return nil end,
                  __newindex = function(t,k,v) lg("gnewindex:"..name(k)) rawset(t,k,v) end})
`

var objScalarKinds = []string{"nil", "true", "false", "n0", "n1", "n2", "n10", "nfrac", "sa", "sb", "sx", "s10", "sempty"}
var objTableKinds = []string{"plain", "empty", "idxfn", "idxtbl", "idxud", "newidxfn", "newidxtbl", "newidxchain", "eqA", "eqB", "lt1", "lt2",
	"cat", "len7", "lenstr", "lenfrac", "lennotfn", "tostr", "protected"}
var objUdKinds = []string{"ud", "udidx", "udeq", "udlen", "udlt"}
var objKeyKinds = []string{"sx", "sa", "n1", "n2", "n10", "s10", "nfrac", "true", "nil", "sempty"}

func objAllKinds() []string {
	r := append([]string{}, objScalarKinds...)
	r = append(r, objTableKinds...)
	r = append(r, objUdKinds...)
	return append(r, "fn")
}

// lcall: protected call of a global Lua function; the stack of the current activation is left as it was.
func (w *apiWorld) lcall(L *lua.LState, fn string, nret int, args ...lua.LValue) ([]lua.LValue, bool) {
	top := L.GetTop()
	f := L.G.Global.RawGetString(fn)
	err := L.CallByParam(lua.P{Fn: f, NRet: nret, Protect: true}, args...)
	if err != nil {
		L.SetTop(top)
		return nil, false
	}
	res := make([]lua.LValue, nret)
	for i := 0; i < nret; i++ {
		res[i] = L.Get(top + 1 + i)
	}
	L.SetTop(top)
	return res, true
}

// protect runs an API call under a protected call of a fresh host function (errors raised by the API become "err").
func (w *apiWorld) protect(L *lua.LState, f func(L *lua.LState)) bool {
	err := L.CallByParam(lua.P{Fn: L.NewFunction(func(L *lua.LState) int { f(L); return 0 }), NRet: 0, Protect: true})
	return err == nil
}

func (w *apiWorld) mk(L *lua.LState, kind string) lua.LValue {
	r, ok := w.lcall(L, "mk", 1, lua.LString(kind))
	if !ok {
		panic(mkFailed{kind})
	}
	return r[0]
}

type mkFailed struct{ kind string }

func (w *apiWorld) logOf(L *lua.LState) string {
	r, ok := w.lcall(L, "getlog", 1)
	if !ok {
		return "?"
	}
	w.lcall(L, "resetlog", 0)
	return "s" + hexOf(string(r[0].(lua.LString)))
}

func hexOf(s string) string {
	const hx = "0123456789abcdef"
	var sb strings.Builder
	for i := 0; i < len(s); i++ {
		sb.WriteByte(hx[s[i]>>4])
		sb.WriteByte(hx[s[i]&15])
	}
	return sb.String()
}

// getter: API result (under protection) vs Lua result, plus handler logs.
func (w *apiWorld) cmpGetter(L *lua.LState, label string, api func(L *lua.LState) []lua.LValue, lfn string, nret int, largs ...lua.LValue) {
	w.lcall(L, "resetlog", 0)
	var got []string
	var res []lua.LValue
	if w.protect(L, func(L *lua.LState) { res = api(L) }) {
		for _, v := range res {
			got = append(got, w.enc(v))
		}
	} else {
		got = []string{"err"}
	}
	got = append(got, w.logOf(L))
	var want []string
	if r, ok := w.lcall(L, lfn, nret, largs...); ok {
		for _, v := range r {
			want = append(want, w.enc(v))
		}
	} else {
		want = []string{"err"}
	}
	want = append(want, w.logOf(L))
	w.emit("eq "+label+" "+strings.Join(got, " ")+" | "+strings.Join(want, " "), "")
}

func (w *apiWorld) obsOf(L *lua.LState, x lua.LValue) string {
	r, ok := w.lcall(L, "obs", 1, x)
	if !ok {
		return "?"
	}
	return "s" + hexOf(string(r[0].(lua.LString)))
}

func lbool(b bool) lua.LValue {
	if b {
		return lua.LTrue
	}
	return lua.LFalse
}

// objOp executes one object-level comparison; a[0] = "obj", a[1] = name, rest = operand kinds.
func (w *apiWorld) objOp(L *lua.LState, a []string) {
	defer func() {
		if r := recover(); r != nil {
			if _, ok := r.(mkFailed); ok {
				return // operand construction failed (registry exhausted in a tight world): skip the comparison
			}
			panic(r)
		}
	}()
	name := a[1]
	label := strings.Join(a[1:], ":")
	arg := func(i int) string {
		if i < len(a) {
			return a[i]
		}
		return "nil"
	}
	switch name {
	case "strmeta":
		// events on the metatable all strings share (besides the library's __index): from now on every comparison of
		// this case runs with them; strings have primitive length, equality, order and concatenation, so the Lua
		// expression consults none of them for string operands — and the API call must not either
		src := "local mt = debug.getmetatable('')\n"
		for _, ev := range a[2:] {
			switch ev {
			case "len":
				src += "mt.__len = function(s) LOG[#LOG + 1] = 'slen' return 42 end\n"
			case "concat":
				src += "mt.__concat = function(a, b) LOG[#LOG + 1] = 'sconcat' return 'C' end\n"
			case "eq":
				src += "mt.__eq = function(a, b) LOG[#LOG + 1] = 'seq' return true end\n"
			case "lt":
				src += "mt.__lt = function(a, b) LOG[#LOG + 1] = 'slt' return true end\nmt.__le = function(a, b) LOG[#LOG + 1] = 'sle' return true end\n"
			case "tostring":
				src += "mt.__tostring = function(s) LOG[#LOG + 1] = 'stostring' return 'T' end\n"
			case "call":
				src += "mt.__call = function(s, ...) LOG[#LOG + 1] = 'scall' return 'called' end\n"
			case "newindex":
				src += "mt.__newindex = function(s, k, v) LOG[#LOG + 1] = 'snewindex' end\n"
			case "off":
				src += "for _, e in ipairs({'__len', '__concat', '__eq', '__lt', '__le', '__tostring', '__call', '__newindex'}) do mt[e] = nil end\n"
			}
		}
		if err := L.DoString(src); err != nil {
			panic(err)
		}
		return
	case "gettable":
		o, k := w.mk(L, arg(2)), w.mk(L, arg(3))
		w.cmpGetter(L, label, func(L *lua.LState) []lua.LValue { return []lua.LValue{L.GetTable(o, k)} }, "l_gettable", 1, o, k)
	case "getfield":
		o, k := w.mk(L, arg(2)), w.mk(L, arg(3))
		ks, ok := k.(lua.LString)
		if !ok {
			ks = "x"
		}
		w.cmpGetter(L, label, func(L *lua.LState) []lua.LValue { return []lua.LValue{L.GetField(o, string(ks))} }, "l_gettable", 1, o, ks)
	case "settable", "setfield":
		o1, o2 := w.mk(L, arg(2)), w.mk(L, arg(2))
		k, v := w.mk(L, arg(3)), w.mk(L, arg(4))
		if name == "setfield" {
			if _, ok := k.(lua.LString); !ok {
				k = lua.LString("x")
			}
		}
		w.lcall(L, "resetlog", 0)
		ok1 := w.protect(L, func(L *lua.LState) {
			if name == "setfield" {
				L.SetField(o1, string(k.(lua.LString)), v)
			} else {
				L.SetTable(o1, k, v)
			}
		})
		got := []string{w.enc(lbool(ok1)), w.obsOf(L, o1), w.logOf(L)}
		_, ok2 := w.lcall(L, "l_settable", 0, o2, k, v)
		want := []string{w.enc(lbool(ok2)), w.obsOf(L, o2), w.logOf(L)}
		w.emit("eq "+label+" "+strings.Join(got, " ")+" | "+strings.Join(want, " "), "")
	case "getglobal":
		n := arg(2) // GX | GY
		w.cmpGetter(L, label, func(L *lua.LState) []lua.LValue { return []lua.LValue{L.GetGlobal(n)} }, "l_get_"+n, 1)
	case "setglobal":
		n := arg(2) // GX | GZ
		v := w.mk(L, arg(3))
		side := func(api bool) []string {
			w.lcall(L, "resetlog", 0)
			var ok bool
			if api {
				ok = w.protect(L, func(L *lua.LState) { L.SetGlobal(n, v) })
			} else {
				_, ok = w.lcall(L, "l_set_"+n, 0, v)
			}
			r, _ := w.lcall(L, "rawglobal", 1, lua.LString(n))
			out := []string{w.enc(lbool(ok)), "?", w.logOf(L)}
			if r != nil {
				out[1] = w.enc(r[0])
			}
			if n == "GZ" {
				w.lcall(L, "clearglobal", 0, lua.LString(n))
			} else {
				w.lcall(L, "l_set_GX", 0, lua.LNumber(5))
			}
			return out
		}
		got, want := side(true), side(false)
		w.emit("eq "+label+" "+strings.Join(got, " ")+" | "+strings.Join(want, " "), "")
	case "equal", "rawequal", "lessthan", "concat":
		x := w.mk(L, arg(2))
		y := x
		if arg(3) != "same" {
			y = w.mk(L, arg(3))
		}
		switch name {
		case "equal":
			w.cmpGetter(L, label, func(L *lua.LState) []lua.LValue { return []lua.LValue{lbool(L.Equal(x, y))} }, "l_eq", 1, x, y)
		case "rawequal":
			w.cmpGetter(L, label, func(L *lua.LState) []lua.LValue { return []lua.LValue{lbool(L.RawEqual(x, y))} }, "l_raweq", 1, x, y)
		case "lessthan":
			w.cmpGetter(L, label, func(L *lua.LState) []lua.LValue { return []lua.LValue{lbool(L.LessThan(x, y))} }, "l_lt", 1, x, y)
		case "concat":
			if len(a) > 4 {
				z := w.mk(L, arg(4))
				w.cmpGetter(L, label, func(L *lua.LState) []lua.LValue { return []lua.LValue{lua.LString(L.Concat(x, y, z))} }, "l_concat3", 1, x, y, z)
			} else {
				w.cmpGetter(L, label, func(L *lua.LState) []lua.LValue { return []lua.LValue{lua.LString(L.Concat(x, y))} }, "l_concat", 1, x, y)
			}
		}
	case "getmetatable":
		x := w.mk(L, arg(2))
		w.cmpGetter(L, label, func(L *lua.LState) []lua.LValue { return []lua.LValue{L.GetMetatable(x)} }, "l_getmt", 1, x)
	case "tostringmeta":
		x := w.mk(L, arg(2))
		w.cmpGetter(L, label, func(L *lua.LState) []lua.LValue { return []lua.LValue{L.ToStringMeta(x)} }, "l_tostring", 1, x)
	case "next":
		x := w.mk(L, arg(2))
		tb, ok := x.(*lua.LTable)
		if !ok {
			return
		}
		k := w.mk(L, arg(3))
		w.cmpGetter(L, label, func(L *lua.LState) []lua.LValue { a, b := L.Next(tb, k); return []lua.LValue{a, b} }, "l_next", 2, tb, k)
	case "objlen":
		x := w.mk(L, arg(2))
		cls := "other"
		if s, ok := x.(lua.LString); ok {
			cls = "str:" + strconv.Itoa(len(string(s)))
		} else if r, ok := w.lcall(L, "haslen", 1, x); ok && r[0] == lua.LTrue {
			cls = "meta"
		} else if tb, ok := x.(*lua.LTable); ok {
			cls = "tbl:" + strconv.Itoa(tb.Len())
		}
		w.lcall(L, "resetlog", 0)
		lres := "err"
		var lval lua.LValue
		if r, ok := w.lcall(L, "l_len", 1, x); ok {
			lres = w.enc(r[0])
			lval = r[0]
		}
		log2 := w.logOf(L)
		api := "err"
		n := 0
		if w.protect(L, func(L *lua.LState) { n = L.ObjLen(x) }) {
			api = strconv.Itoa(n)
		}
		log1 := w.logOf(L)
		w.emit("objlen "+cls+" "+lres, api)
		w.emit("eq objlenlog:"+arg(2)+" "+log1+" | "+log2, "")
		if f, ok := lval.(lua.LNumber); ok && float64(f) != float64(int(f)) {
			// non-integral `__len` result: Go's int() truncation, compared here (not in Lean)
			w.emit("eq objlentrunc:"+arg(2)+" "+api+" | "+strconv.Itoa(int(f)), "")
		}
	case "getfenv":
		x := w.mk(L, arg(2))
		w.cmpGetter(L, label, func(L *lua.LState) []lua.LValue { return []lua.LValue{L.GetFEnv(x)} }, "l_getfenv", 1, x)
	case "setfenv":
		// twins: the API on one object, setfenv / debug.setfenv on the other; observed: the environment read back, whether it
		// is still _G, and what the function (Lua: a global read; host: a read through EnvironIndex) now sees
		o1, o2 := w.mk(L, arg(2)), w.mk(L, arg(2))
		e := w.mk(L, arg(3))
		envobs := func(o lua.LValue) string {
			r, ok := w.lcall(L, "envobs", 1, o, e)
			if !ok {
				return "?"
			}
			return "s" + hexOf(string(r[0].(lua.LString)))
		}
		ok1 := w.protect(L, func(L *lua.LState) { L.SetFEnv(o1, e) })
		got := []string{w.enc(lbool(ok1)), envobs(o1), w.enc(lbool(L.GetFEnv(o1) == e))}
		_, ok2 := w.lcall(L, "l_setfenv", 0, o2, e)
		want := []string{w.enc(lbool(ok2)), envobs(o2), w.enc(lbool(ok2))}
		w.emit("eq "+label+" "+strings.Join(got, " ")+" | "+strings.Join(want, " "), "")
	case "foreach":
		x := w.mk(L, arg(2))
		tb, ok := x.(*lua.LTable)
		if !ok {
			return
		}
		nm := func(v lua.LValue) string {
			switch v.Type() {
			case lua.LTNumber, lua.LTBool, lua.LTNil:
				return v.String()
			case lua.LTString:
				return "'" + v.String() + "'"
			}
			return "<" + v.Type().String() + ">"
		}
		var parts []string
		okf := w.protect(L, func(L *lua.LState) {
			L.ForEach(tb, func(k, v lua.LValue) { parts = append(parts, nm(k)+"="+nm(v)) })
		})
		sort.Strings(parts)
		want := "?"
		if r, ok := w.lcall(L, "l_pairs", 1, tb); ok {
			want = "s" + hexOf(string(r[0].(lua.LString)))
		}
		w.emit("eq "+label+" "+w.enc(lbool(okf))+" s"+hexOf(strings.Join(parts, ","))+" | T "+want, "")
	case "register":
		// Register(name, fn) = the global assignment name = fn (metamethods of _G included)
		fn := func(L *lua.LState) int { L.Push(lua.LNumber(42)); return 1 }
		side := func(api bool) []string {
			w.lcall(L, "resetlog", 0)
			var ok bool
			if api {
				ok = w.protect(L, func(L *lua.LState) { L.Register("REGF", fn) })
			} else {
				_, ok = w.lcall(L, "l_setglobalfn", 0, lua.LString("REGF"), L.NewFunction(fn))
			}
			out := []string{w.enc(lbool(ok)), "?", w.logOf(L)}
			if r, ok := w.lcall(L, "callglobal", 1, lua.LString("REGF")); ok {
				out[1] = w.enc(r[0])
			}
			w.lcall(L, "clearglobal", 0, lua.LString("REGF"))
			return out
		}
		got, want := side(true), side(false)
		w.emit("eq "+label+" "+strings.Join(got, " ")+" | "+strings.Join(want, " "), "")
	case "setfuncs":
		// SetFuncs(tb, funcs, up) = raw stores of closures over up (no metamethods), the same table returned
		t1, t2 := w.mk(L, arg(2)), w.mk(L, arg(2))
		tb, ok := t1.(*lua.LTable)
		if !ok {
			return
		}
		up := w.mk(L, arg(3))
		f := func(L *lua.LState) int { L.Push(L.Get(lua.UpvalueIndex(1))); return 1 }
		fobs := func(t lua.LValue) string {
			r, ok := w.lcall(L, "fnsobs", 1, t)
			if !ok {
				return "?"
			}
			return "s" + hexOf(string(r[0].(lua.LString)))
		}
		w.lcall(L, "resetlog", 0)
		var ret *lua.LTable
		ok1 := w.protect(L, func(L *lua.LState) { ret = L.SetFuncs(tb, map[string]lua.LGFunction{"f1": f, "f2": f}, up) })
		got := []string{w.enc(lbool(ok1)), w.enc(lbool(ret == tb)), fobs(t1), w.logOf(L)}
		_, ok2 := w.lcall(L, "l_setfuncs", 0, t2, up)
		want := []string{w.enc(lbool(ok2)), "T", fobs(t2), w.logOf(L)}
		w.emit("eq "+label+" "+strings.Join(got, " ")+" | "+strings.Join(want, " "), "")
	default:
		panic("bad obj op " + name)
	}
}

func genObjOp(r *Rng) []string {
	all := objAllKinds()
	objs := append(append([]string{}, objTableKinds...), objUdKinds...)
	anyOperand := func() string {
		if r.Chance(70) {
			return Pick(r, objs)
		}
		return Pick(r, all)
	}
	if r.Chance(4) {
		evs := []string{"obj", "strmeta"}
		for _, e := range []string{"len", "concat", "eq", "lt", "tostring", "call", "newindex"} {
			if r.Chance(45) {
				evs = append(evs, e)
			}
		}
		if r.Chance(15) {
			evs = []string{"obj", "strmeta", "off"}
		}
		return evs
	}
	if r.Chance(7) { // environments, whole-table traversal, registration helpers
		switch c := r.Intn(100); {
		case c < 25:
			return []string{"obj", "getfenv", Pick(r, []string{"envfn", "fn", "gofn", "ud", "udidx", "thread", "plain", "n1", "nil", "sa"})}
		case c < 60:
			return []string{"obj", "setfenv", Pick(r, []string{"envfn", "envfn", "gofn", "ud", "thread"}), Pick(r, []string{"envtbl", "envtbl", "envtbl", "empty", "n1", "nil", "sa"})}
		case c < 80:
			return []string{"obj", "foreach", Pick(r, []string{"plain", "empty", "mixed", "idxfn", "newidxtbl", "len7"})}
		case c < 90:
			return []string{"obj", "register"}
		default:
			return []string{"obj", "setfuncs", Pick(r, []string{"empty", "plain", "newidxfn", "newidxtbl"}), Pick(r, []string{"n1", "sa", "nil", "plain"})}
		}
	}
	switch c := r.Intn(100); {
	case c < 14:
		return []string{"obj", "gettable", anyOperand(), Pick(r, objKeyKinds)}
	case c < 22:
		return []string{"obj", "getfield", anyOperand(), Pick(r, []string{"sx", "sa", "s10", "sempty"})}
	case c < 36:
		return []string{"obj", "settable", anyOperand(), Pick(r, objKeyKinds), Pick(r, []string{"n1", "nil", "sa", "true", "plain"})}
	case c < 44:
		return []string{"obj", "setfield", anyOperand(), Pick(r, []string{"sx", "sa", "s10", "sempty"}), Pick(r, []string{"n1", "nil", "sa"})}
	case c < 48:
		return []string{"obj", "getglobal", Pick(r, []string{"GX", "GY"})}
	case c < 52:
		return []string{"obj", "setglobal", Pick(r, []string{"GX", "GZ"}), Pick(r, []string{"n1", "nil", "sa", "plain"})}
	case c < 62:
		x := Pick(r, all)
		y := Pick(r, all)
		if r.Chance(35) {
			y = x
		}
		if r.Chance(15) {
			y = "same"
		}
		return []string{"obj", Pick(r, []string{"equal", "rawequal"}), x, y}
	case c < 70:
		x := Pick(r, all)
		y := Pick(r, all)
		if r.Chance(50) {
			y = Pick(r, []string{x, "lt1", "lt2", "udlt", "n1", "sa", "sb"})
		}
		return []string{"obj", "lessthan", x, y}
	case c < 78:
		ops := []string{"sa", "sb", "n1", "n10", "nfrac", "sempty", "cat", "plain", "nil", "ud", "true"}
		if r.Chance(30) {
			return []string{"obj", "concat", Pick(r, ops), Pick(r, ops), Pick(r, ops)}
		}
		return []string{"obj", "concat", Pick(r, ops), Pick(r, ops)}
	case c < 86:
		if r.Chance(8) { // operands on which `#v` is not an integer: the recorded finding C10-objlen-non-integer
			return []string{"obj", "objlen", Pick(r, []string{"lenstr", "lenfrac", "ud", "n1", "nil", "udidx"})}
		}
		return []string{"obj", "objlen", Pick(r, []string{"sa", "sempty", "s10", "plain", "empty", "len7", "lennotfn", "udlen", "idxfn", "newidxtbl"})}
	case c < 91:
		return []string{"obj", "getmetatable", Pick(r, all)}
	case c < 96:
		return []string{"obj", "tostringmeta", Pick(r, []string{"nil", "true", "n1", "nfrac", "n10", "sa", "plain", "tostr", "ud", "fn", "protected"})}
	default:
		return []string{"obj", "next", Pick(r, []string{"plain", "empty", "idxfn"}), Pick(r, []string{"nil", "n1", "n2", "sx", "s10"})}
	}
}
