package main

// C10 — object-level entries against an oracle that is INDEPENDENT of the implementation.
//
// The `obj` ops of c10_obj.go compare an API call with the Lua expression evaluated by the same interpreter: that
// comparison cannot see a change in a helper both share (objectRational, metatable, getField …).  This family therefore
// sends the operands' structure (tables / userdata / per-type metatables, raw contents, handler functions and what they
// return) to the Lean driver in the request language of the C04M engine (lean/GLua/Engines/MetaEng.lean) and lets the
// Lean side compute what every entry must do: Model = Model/MetaModel.lean (the dispatch code of state.go / vm.go) and
// Spec = Spec/MetaSpec.lean (the manual's §2.8 events: getcomphandler requires the SAME handler on both operands,
// getmetatable answers with ANY non-nil __metatable field incl. false …) — handler-call log (which handler, which
// arguments, in which order) and result / error.  Each API entry is accompanied by its Lua twins (the expression in its
// register and constant forms), all judged by the same independent oracle.  Executor: execMeta (c04_mech.go; its runOp
// has the API modes `api` = GetTable / SetTable / Equal / RawEqual / LessThan / Concat / ObjLen / GetMetatable /
// ToStringMeta / CallByParam, `apif` = GetField / SetField and — added for this family — `apig` = GetGlobal / SetGlobal with
// the operand installed as globals table).
//
// Families (all bounded-exhaustive TESTS, run on every quick check; handler return values derive from the seed):
//   cmp   : operand pairs (two tables, two userdata, table/userdata, object/primitive, primitives) x handler placement for
//           __eq/__lt/__le (none, left only, right only, one shared metatable, DIFFERENT functions, the same functions through
//           two metatables, __le missing with __lt present, __eq different but __lt shared) x Equal / RawEqual / LessThan in
//           both operand orders + ==, ~=, <, >, <=, >=
//   getmt : objects of every type (individual and per-type metatables) x __metatable in {absent, false, true, 0, "", "locked",
//           a table, a userdata, a function} x GetMetatable / getmetatable (+ setmetatable's protection)
//   chain : __index / __newindex chains (tables, a userdata link; ending in nothing / a raw value / a function / a cycle) x
//           GetTable / GetField / GetGlobal / SetTable / SetField / SetGlobal + a[k], a.k, global access
//   str   : operand pairs x handler placement for __concat / __len / __tostring x Concat (2 and 3 operands) / ObjLen /
//           ToStringMeta + .., #, tostring
//   next  : tables with known contents (array part, hash part, holes, metatables with __index / __newindex / __call that
//           must play no role): the pairs L.Next enumerates from nil until nil = exactly the contents, each key once
//           (Go reference: the contents are what the harness stored).

import (
	"sort"
	"strconv"
	"strings"

	lua "github.com/yuin/gopher-lua"
)

var objSpecRets = []string{"T", "F", "nil", "i0", "i42", c04sx("R")}

func objSpecFns(g *metaGen, r *Rng, n int) {
	for i := 1; i <= n; i++ {
		g.add("fn", strconv.Itoa(i), Pick(r, objSpecRets))
	}
	g.add("fn", "9", "nil")
}

func objSpecObjects(g *metaGen) {
	for _, t := range []string{"1", "2"} {
		g.add("tbl", t)
		g.add("ud", t)
	}
	g.add("tbl", "11")
	g.add("tbl", "12")
}

func hasIndividualMT(tok string) bool { return tok[0] == 't' || tok[0] == 'u' }

// cmpCase: placements 0..7 (see the file comment); handlers g1 (__eq), g3 (__lt), g5 (__le) on metatable 11 and
// g2, g4, g6 (or the same three) on metatable 12.
func cmpCase(r *Rng, x, y string, pl int) []Op {
	g := &metaGen{}
	objSpecFns(g, r, 6)
	objSpecObjects(g)
	set := func(mt string, eq, lt, le string) {
		for _, p := range [][2]string{{"__eq", eq}, {"__lt", lt}, {"__le", le}} {
			if p[1] != "" {
				g.add("set", mt, c04sx(p[0]), p[1])
			}
		}
	}
	mtx, mty := "", ""
	switch pl {
	case 1:
		set("11", "g1", "g3", "g5")
		mtx = "t11"
	case 2:
		set("12", "g2", "g4", "g6")
		mty = "t12"
	case 3: // one metatable shared by both operands
		set("11", "g1", "g3", "g5")
		mtx, mty = "t11", "t11"
	case 4: // both have handlers for every event, all DIFFERENT functions
		set("11", "g1", "g3", "g5")
		set("12", "g2", "g4", "g6")
		mtx, mty = "t11", "t12"
	case 5: // the same functions through two different metatables
		set("11", "g1", "g3", "g5")
		set("12", "g1", "g3", "g5")
		mtx, mty = "t11", "t12"
	case 6: // __le missing, __lt present and shared: a <= b is not (b < a)
		set("11", "g1", "g3", "")
		set("12", "g1", "g3", "")
		mtx, mty = "t11", "t12"
	case 7: // __eq different, __lt shared, __le different
		set("11", "g1", "g3", "g5")
		set("12", "g2", "g3", "g6")
		mtx, mty = "t11", "t12"
	}
	if mtx != "" && hasIndividualMT(x) {
		g.add("mt", x, mtx)
	}
	if mty != "" && hasIndividualMT(y) && !(x == y && mtx != "") {
		g.add("mt", y, mty)
	}
	for _, p := range [][2]string{{x, y}, {y, x}} {
		a, b := p[0], p[1]
		for _, m := range []string{"api", "lua", "luane"} {
			g.add("eq", m, a, b)
		}
		g.add("rawequal", "api", a, b)
		g.add("rawequal", "lua", a, b)
		for _, m := range []string{"api", "lua", "luagt"} {
			g.add("lt", m, a, b)
		}
		for _, m := range []string{"lua", "luage"} {
			g.add("le", m, a, b)
		}
	}
	return g.ops
}

func cmpCases(r *Rng) [][]Op {
	pairs := [][2]string{{"t1", "t2"}, {"t1", "t1"}, {"u1", "u2"}, {"u1", "u1"}, {"t1", "u1"}, {"u2", "t2"},
		{"t1", "i5"}, {"i5", "u1"}, {"t1", c04sx("abc")}, {"nil", "t1"}, {"u1", "F"}, {"i5", "i5"}, {"i5", "i7"},
		{c04sx("abc"), c04sx("abd")}, {"i5", c04sx("5")}, {"g9", "g9"}, {"h1", "h1"}, {"c1", "c1"}, {"T", "T"}, {"nil", "nil"}}
	var res [][]Op
	i := 0
	for _, p := range pairs {
		for pl := 0; pl <= 7; pl++ {
			if pl > 0 && !hasIndividualMT(p[0]) && !hasIndividualMT(p[1]) {
				continue
			}
			i++
			res = append(res, cmpCase(r.Fork(uint64(i)), p[0], p[1], pl))
		}
	}
	return res
}

// getmtCases: every kind of object x every kind of __metatable field.
func getmtCases(r *Rng) [][]Op {
	objs := []string{"t1", "u1", c04sx("abc"), "i5", "F", "nil", "g9", "h1", "c1"}
	fields := []string{"", "F", "T", "i0", "s", c04sx("locked"), "t2", "u2", "g9", "nil"}
	var res [][]Op
	for _, o := range objs {
		for _, f := range fields {
			g := &metaGen{}
			objSpecFns(g, r, 2)
			objSpecObjects(g)
			g.add("getmt", "api", o)
			g.add("getmt", "lua", o)
			if f != "" {
				g.add("set", "11", c04sx("__metatable"), f)
			}
			g.add("set", "11", c04sx("__index"), "g1")
			g.add("mt", o, "t11")
			g.add("getmt", "api", o)
			g.add("getmt", "lua", o)
			if o[0] == 't' { // setmetatable's own protection (tables only: other first arguments are C04's finding)
				g.add("setmt", "lua", o, "t12")
				g.add("getmt", "api", o)
				g.add("getmt", "lua", o)
				g.add("setmt", "lua", o, "nil")
				g.add("getmt", "api", o)
			}
			// a second object of the same type sees the per-type metatable, an individual one does not
			switch o[0] {
			case 't':
				g.add("getmt", "api", "t2")
			case 'u':
				g.add("getmt", "api", "u2")
			case 's':
				g.add("getmt", "api", c04sx("other"))
			case 'i':
				g.add("getmt", "api", "i6")
			}
			g.add("index", "api", o, c04sx("k"))
			res = append(res, g.ops)
		}
	}
	return res
}

// chainCase: like C04M's chain cases, with every API entry (GetTable / GetField / GetGlobal, SetTable / SetField /
// SetGlobal) next to the Lua forms.
func chainCase(d int, ending int, ud bool) []Op {
	g := &metaGen{}
	g.add("fn", "1", c04sx("H"))
	for i := 1; i <= d; i++ {
		g.add("tbl", strconv.Itoa(i))
	}
	link := func(i int) string {
		if ud && i == 2 && d >= 3 {
			return "u2"
		}
		return "t" + strconv.Itoa(i)
	}
	if ud && d >= 3 {
		g.add("ud", "2")
	}
	for i := 1; i < d; i++ {
		m := strconv.Itoa(1000 + i)
		g.add("tbl", m)
		g.add("set", m, c04sx("__index"), link(i+1))
		g.add("set", m, c04sx("__newindex"), link(i+1))
		g.add("mt", link(i), "t"+m)
	}
	m := strconv.Itoa(1000 + d)
	switch ending {
	case 1:
		if link(d)[0] == 't' {
			g.add("set", strconv.Itoa(d), c04sx("k"), "i99")
		}
	case 2:
		g.add("tbl", m)
		g.add("set", m, c04sx("__index"), "g1")
		g.add("set", m, c04sx("__newindex"), "g1")
		g.add("mt", link(d), "t"+m)
	case 3:
		g.add("tbl", m)
		g.add("set", m, c04sx("__index"), "t1")
		g.add("set", m, c04sx("__newindex"), "t1")
		g.add("mt", link(d), "t"+m)
	}
	modes := []string{"api", "apif", "apig", "lua", "luak", "global"}
	for _, md := range modes {
		g.add("index", md, "t1", c04sx("k"))
	}
	g.add("index", "api", "t1", "i1")
	g.add("index", "api", "t1", "nil")
	if d >= 2 {
		g.add("index", "api", link(2), c04sx("k"))
		g.add("index", "apif", link(2), c04sx("k"))
	}
	for _, md := range modes {
		g.add("newindex", md, "t1", c04sx("k"), "i5")
		g.add("index", "api", "t1", c04sx("k"))
		g.add("rawset", "lua", link(d), c04sx("k"), "nil")
		if link(d) != "t1" {
			g.add("rawset", "lua", "t1", c04sx("k"), "nil")
		}
	}
	return g.ops
}

// presentFieldCase: the field exists with a value that is not nil but easy to mistake for "absent" (false, 0, "") — an
// event handler must not run for it: indexing returns the raw value, assignment is a raw assignment (manual §2.8: the
// handler is consulted only when the raw value is nil). Every API entry next to the Lua forms (wave-6 seeded change
// C10-m12: SetField treated a present `false` as absent).
func presentFieldCase(val string, handlerTable bool) []Op {
	g := &metaGen{}
	g.add("fn", "1", c04sx("H"))
	g.add("tbl", "1")
	g.add("tbl", "2")
	g.add("tbl", "1001")
	h := "g1"
	if handlerTable {
		h = "t2"
	}
	g.add("set", "1001", c04sx("__index"), h)
	g.add("set", "1001", c04sx("__newindex"), h)
	g.add("mt", "t1", "t1001")
	modes := []string{"api", "apif", "apig", "lua", "luak", "global"}
	for _, md := range modes {
		g.add("rawset", "lua", "t1", c04sx("k"), val)
		g.add("index", md, "t1", c04sx("k"))
		g.add("newindex", md, "t1", c04sx("k"), "i5")
		g.add("index", "api", "t1", c04sx("k"))
		g.add("index", "api", "t2", c04sx("k"))
		g.add("rawset", "lua", "t2", c04sx("k"), "nil")
		// and assigning false / nil over a present value stays raw, too
		g.add("newindex", md, "t1", c04sx("k"), "F")
		g.add("newindex", md, "t1", c04sx("k"), "T")
		g.add("index", "api", "t1", c04sx("k"))
	}
	return g.ops
}

func chainCases() [][]Op {
	var res [][]Op
	for _, val := range []string{"F", "T", "i0", c04sx(""), "nil"} {
		res = append(res, presentFieldCase(val, false), presentFieldCase(val, true))
	}
	for _, d := range []int{1, 2, 3, 4, 99, 100, 101} {
		for ending := 0; ending <= 3; ending++ {
			for _, ud := range []bool{false, true} {
				if ud && d < 3 {
					continue
				}
				res = append(res, chainCase(d, ending, ud))
			}
		}
	}
	// operands that are not tables: userdata / string / number / nil with and without __index / __newindex
	for _, o := range []string{"u1", c04sx("abc"), "i5", "nil", "F"} {
		for pl := 0; pl <= 2; pl++ {
			g := &metaGen{}
			g.add("fn", "1", "i42")
			objSpecObjects(g)
			switch pl {
			case 1:
				g.add("set", "11", c04sx("__index"), "g1")
				g.add("set", "11", c04sx("__newindex"), "g1")
			case 2:
				g.add("set", "11", c04sx("__index"), "t2")
				g.add("set", "11", c04sx("__newindex"), "t2")
				g.add("set", "2", c04sx("k"), "i7")
			}
			if pl > 0 && o != "nil" {
				g.add("mt", o, "t11")
			}
			for _, md := range []string{"api", "apif", "lua", "luak"} {
				g.add("index", md, o, c04sx("k"))
				g.add("newindex", md, o, c04sx("k"), "i5")
			}
			res = append(res, g.ops)
		}
	}
	return res
}

// strCase: __concat / __len / __tostring; placements 0 none, 1 left, 2 right, 3 shared metatable, 4 different functions.
func strCase(r *Rng, x, y string, pl int) []Op {
	g := &metaGen{}
	g.add("fn", "1", Pick(r, []string{c04sx("R"), "i42", c04sx("10")}))
	g.add("fn", "2", Pick(r, []string{c04sx("S"), "i7", "nil", "t2", "F"}))
	g.add("fn", "3", Pick(r, []string{"i3", c04sx("x"), "nil"}))
	g.add("fn", "9", "nil")
	objSpecObjects(g)
	setAll := func(mt, fn string) {
		for _, ev := range []string{"__concat", "__len", "__tostring"} {
			g.add("set", mt, c04sx(ev), fn)
		}
	}
	mtx, mty := "", ""
	switch pl {
	case 1:
		setAll("11", "g1")
		mtx = "t11"
	case 2:
		setAll("12", "g2")
		mty = "t12"
	case 3:
		setAll("11", "g1")
		mtx, mty = "t11", "t11"
	case 4:
		setAll("11", "g1")
		setAll("12", "g2")
		mtx, mty = "t11", "t12"
	}
	if mtx != "" && hasIndividualMT(x) {
		g.add("mt", x, mtx)
	}
	if mty != "" && hasIndividualMT(y) && !(x == y && mtx != "") {
		g.add("mt", y, mty)
	}
	g.add("concat", "api", x, y)
	g.add("concat", "lua", x, y)
	g.add("concat", "api", y, x)
	g.add("concat", "api", x, c04sx("m"), y)
	g.add("concat", "lua", x, c04sx("m"), y)
	g.add("concat", "api", c04sx("p"), x, y, "i1")
	for _, o := range []string{x, y} {
		g.add("len", "api", o)
		tableWithHandler := o[0] == 't' && ((o == x && mtx != "") || (o == y && mty != "") || (x == y && mtx != ""))
		if !tableWithHandler { // `#t` honouring __len of a table is C04's recorded finding, not this property's subject
			g.add("len", "lua", o)
		}
		g.add("tostring", "api", o)
		g.add("tostring", "lua", o)
	}
	return g.ops
}

func strCases(r *Rng) [][]Op {
	pairs := [][2]string{{"t1", "t2"}, {"u1", "u2"}, {"t1", "u1"}, {"t1", c04sx("abc")}, {c04sx("abc"), "u1"}, {"i5", "t1"},
		{"u1", "i5"}, {"t1", "nil"}, {"F", "u1"}, {c04sx("abc"), "i5"}, {"i5", "i7"}, {c04sx(""), c04sx("x")}, {"t1", "t1"}}
	var res [][]Op
	i := 0
	for _, p := range pairs {
		for pl := 0; pl <= 4; pl++ {
			if pl > 0 && !hasIndividualMT(p[0]) && !hasIndividualMT(p[1]) {
				continue
			}
			i++
			res = append(res, strCase(r.Fork(uint64(i)), p[0], p[1], pl))
		}
	}
	return res
}

// ---- Next: Go reference ----

// nextCase ops: `nexttbl <shape> <withmt>`; the executor builds the table from a known list of pairs and compares the
// traversal by L.Next with that list.
func execNextRef(ops []Op) (out []string) {
	L := lua.NewState()
	defer L.Close()
	for _, op := range ops {
		a := op.Args
		if a[0] != "nexttbl" {
			continue
		}
		n, _ := strconv.Atoi(a[2])
		type pair struct{ k, v lua.LValue }
		var want []pair
		tb := L.NewTable()
		put := func(k, v lua.LValue) {
			tb.RawSet(k, v)
			want = append(want, pair{k, v})
		}
		switch a[1] {
		case "array":
			for i := 1; i <= n; i++ {
				put(lua.LNumber(i), lua.LNumber(100+i))
			}
		case "hash":
			for i := 1; i <= n; i++ {
				put(lua.LString("k"+strconv.Itoa(i)), lua.LNumber(i))
			}
		case "mixed":
			for i := 1; i <= n; i++ {
				put(lua.LNumber(i), lua.LString("a"+strconv.Itoa(i)))
				put(lua.LString("k"+strconv.Itoa(i)), lua.LTrue)
				put(lua.LNumber(float64(i)+0.5), lua.LNumber(-i))
			}
			put(lua.LTrue, lua.LFalse)
		case "holes": // keys 1..n stored, then every second one removed again
			for i := 1; i <= n; i++ {
				tb.RawSet(lua.LNumber(i), lua.LNumber(i))
			}
			for i := 1; i <= n; i++ {
				if i%2 == 0 {
					tb.RawSet(lua.LNumber(i), lua.LNil)
				} else {
					want = append(want, pair{lua.LNumber(i), lua.LNumber(i)})
				}
			}
			put(lua.LNumber(n+10), lua.LString("far"))
		}
		if a[3] == "mt" { // metamethods must play no role in a raw traversal
			mt := L.NewTable()
			other := L.NewTable()
			other.RawSetString("ghost", lua.LNumber(1))
			mt.RawSetString("__index", other)
			mt.RawSetString("__newindex", other)
			mt.RawSetString("__call", L.NewFunction(func(L *lua.LState) int { return 0 }))
			mt.RawSetString("__metatable", lua.LFalse)
			L.SetMetatable(tb, mt)
		}
		enc := func(v lua.LValue) string { return encVal(v, NewRefTable()) }
		var got, exp []string
		func() {
			defer func() {
				if r := recover(); r != nil {
					got = append(got, "PANIC")
				}
			}()
			var k lua.LValue = lua.LNil
			for steps := 0; steps <= 4*len(want)+8; steps++ {
				nk, nv := L.Next(tb, k)
				if nk == lua.LNil {
					got = append(got, "END")
					break
				}
				got = append(got, enc(nk)+"="+enc(nv))
				k = nk
			}
		}()
		for _, p := range want {
			exp = append(exp, enc(p.k)+"="+enc(p.v))
		}
		exp = append(exp, "END")
		sort.Strings(got)
		sort.Strings(exp)
		out = append(out, "C10 eq next:"+a[1]+":"+a[2]+":"+a[3]+" "+strings.Join(got, " ")+" | "+strings.Join(exp, " "))
		// the stack plays no role either
		out = append(out, "C10 eq nexttop "+strconv.Itoa(L.GetTop())+" | 0")
	}
	return out
}

func nextCases() [][]Op {
	var res [][]Op
	for _, shape := range []string{"array", "hash", "mixed", "holes"} {
		for _, n := range []int{0, 1, 2, 3, 7, 8, 9, 33, 100} {
			for _, mt := range []string{"plain", "mt"} {
				res = append(res, []Op{{Args: []string{"nexttbl", shape, strconv.Itoa(n), mt}}})
			}
		}
	}
	return res
}
