package main

// C11M — mechanism-level correspondence for C11 (cancellation stops any running script).
//
// Everything here drives the REAL interpreter through its public API:
//   * detCtx: a deterministic context.Context wrapping a real cancelCtx.  It forwards Value/Done/Err to the
//     wrapped context (so context.WithCancel(parent) in LState.NewThread registers the child directly and
//     cancellation reaches coroutines synchronously) and calls cancel() inside its own k-th poll.
//   * the abstract Go call stack (nest of mainLoop activations, PCall / threadRun boundaries, running error
//     handlers) is read with runtime.Callers inside Done() / inside the host functions, and compared with
//     the Lean model `GLua.Cancel` (engine word C11M).
//   * scripts: generated operation sequences (pcall/xpcall/metamethod/coroutine nests, SetContext /
//     RemoveContext / NewThread / cancel from host functions) interpreted by a Lua driver program.

import (
	"context"
	"fmt"
	"math"
	"runtime"
	"sort"
	"strconv"
	"strings"
	"sync"
	"sync/atomic"
	"time"

	lua "github.com/yuin/gopher-lua"
)

const luaPkg = "github.com/yuin/gopher-lua."

// ---------- abstract Go stack ----------

// absStack turns the current goroutine's Go call stack into the frame tokens of the Lean model
// (outermost first).  rootTok: token of a PCall that was not called by basePCall/baseXPCall (the host's
// own protected call); xTok: token of a PCall called by baseXPCall (Xl = Lua handler, Xg = Go handler).
func absStack(rootTok string) string {
	pcs := make([]uintptr, 512)
	n := runtime.Callers(2, pcs)
	frs := runtime.CallersFrames(pcs[:n])
	var names []string // innermost first
	for {
		f, more := frs.Next()
		names = append(names, strings.TrimPrefix(f.Function, luaPkg))
		if !more {
			break
		}
	}
	var toks []string
	lastBoundary := func(set string) int {
		for i := len(toks) - 1; i >= 0; i-- {
			if strings.Contains(set, "|"+toks[i]+"|") {
				return i
			}
		}
		return -1
	}
	for i := len(names) - 1; i >= 0; i-- { // outermost → innermost
		nm := names[i]
		outer := ""
		if i+1 < len(names) {
			outer = names[i+1]
		}
		inner := ""
		if i > 0 {
			inner = names[i-1]
		}
		switch nm {
		case "(*LState).PCall":
			switch outer {
			case "basePCall":
				toks = append(toks, "P")
			case "baseXPCall":
				toks = append(toks, "Xl") // every xpcall handler of the corpus / driver is a Lua function
			case "main.c11XPCallGo":
				toks = append(toks, "Xg") // PCall with a Go error handler
			default:
				toks = append(toks, rootTok)
			}
		case "(*LState).PCall.func1":
			// the deferred function of the innermost live PCall is running (error handler)
			if j := lastBoundary("|P|Xl|Xg|"); j >= 0 {
				toks = append(toks[:j], "H")
			}
		case "threadRun":
			// wrapped coroutines are resumed through wrapaux → coResume
			if i+2 < len(names) && names[i+2] == "wrapaux" {
				toks = append(toks, "W")
			} else {
				toks = append(toks, "T")
			}
		case "threadRun.func1":
			if j := lastBoundary("|T|W|"); j >= 0 {
				toks = toks[:j]
			}
		case "mainLoopWithContext":
			if inner == "callGFunction" {
				toks = append(toks, "G")
			} else {
				toks = append(toks, "A")
			}
		case "mainLoop":
			if inner == "callGFunction" {
				toks = append(toks, "Gn")
			} else {
				toks = append(toks, "N")
			}
		}
	}
	if len(toks) == 0 {
		return "-"
	}
	return strings.Join(toks, ".")
}

// ---------- deterministic context ----------

type detShared struct {
	polls     int
	fireAt    int // 0 = never
	fired     bool
	cancel    context.CancelFunc
	hostAfter int
	after     []string // stacks at polls after firing (the first 80)
	afterN    int      // number of polls after firing
	fireStack string
	all       []string // every poll's stack (baseline runs only)
	recordAll bool
	fuse      int  // Go panic in Done() when polls exceed this (runaway guard)
	armed     bool // false while the host is still setting the state up (polls of warm-up calls are not part of the scenario)
	rootTok   string
	readG     func() string // value of the global `g` (programs count their progress there with plain instructions)
	gAtFire   string
	isPollPC  map[uintptr]bool
}

type detCtx struct {
	inner context.Context
	sh    *detShared
}

func (d *detCtx) Deadline() (time.Time, bool)     { return d.inner.Deadline() }
func (d *detCtx) Err() error                      { return d.inner.Err() }
func (d *detCtx) Value(k interface{}) interface{} { return d.inner.Value(k) }
func (d *detCtx) Done() <-chan struct{} {
	sh := d.sh
	var pc [1]uintptr
	if runtime.Callers(2, pc[:]) == 1 {
		isPoll, ok := sh.isPollPC[pc[0]]
		if !ok {
			f, _ := runtime.CallersFrames(pc[:]).Next()
			isPoll = f.Function == luaPkg+"mainLoopWithContext"
			sh.isPollPC[pc[0]] = isPoll
		}
		if isPoll && sh.armed {
			sh.polls++
			if sh.fuse > 0 && sh.polls > sh.fuse {
				panic("C11M-fuse: script still polling long after the context was done")
			}
			if sh.fired {
				sh.afterN++
				if len(sh.after) < 80 { // the request line shows at most 64 of them
					sh.after = append(sh.after, absStack(sh.rootTok))
				}
			} else if sh.polls == sh.fireAt {
				sh.fired = true
				sh.fireStack = absStack(sh.rootTok)
				if sh.readG != nil {
					sh.gAtFire = sh.readG()
				}
				sh.cancel()
			} else if sh.recordAll {
				sh.all = append(sh.all, absStack(sh.rootTok))
			}
		}
	}
	return d.inner.Done()
}

// c11XPCallGo(f): protected call of f with a Go error handler (LState.PCall with errfunc = Go function).
func c11XPCallGo(L *lua.LState) int {
	fn := L.CheckFunction(1)
	top := L.GetTop()
	h := L.NewFunction(func(L *lua.LState) int {
		L.Push(lua.LString("handled-by-go"))
		return 1
	})
	L.Push(fn)
	if err := L.PCall(0, lua.MultRet, h); err != nil {
		L.Push(lua.LFalse)
		if aerr, ok := err.(*lua.ApiError); ok {
			L.Push(aerr.Object)
		} else {
			L.Push(lua.LString(err.Error()))
		}
		return 2
	}
	L.Insert(lua.LTrue, top+1)
	return L.GetTop() - top
}

var c11Stats struct {
	sync.Mutex
	fireStacks map[string]int
	afterHist  map[int]int
	maxDepth   int
}

func c11Note(fireStack string, after int) {
	c11Stats.Lock()
	defer c11Stats.Unlock()
	if c11Stats.fireStacks == nil {
		c11Stats.fireStacks = map[string]int{}
		c11Stats.afterHist = map[int]int{}
	}
	c11Stats.fireStacks[fireStack]++
	c11Stats.afterHist[after]++
	d := 0
	for _, t := range strings.Split(fireStack, ".") {
		switch t {
		case "P", "Xl", "Xg", "H", "T", "W":
			d++
		}
	}
	if d > c11Stats.maxDepth {
		c11Stats.maxDepth = d
	}
}

// ---------- state set-up ----------

// c11Setup: how the host brought the state to the point where the outermost call of a scenario starts.  What the
// property promises does not depend on it; every scenario family (fire / transp / script / block) is crossed with it.
//
//	Libs   open   = lua.NewState(): OpenLibs has already made calls on the state (G.MainThread is set)
//	       call   = Options{SkipOpenLibs} + each library opened the documented way (Push(NewFunction(OpenX)); Call)
//	       direct = Options{SkipOpenLibs} + the OpenX functions invoked as plain Go functions: tables are filled, but
//	                NO call has ever been made on the state
//	       none   = Options{SkipOpenLibs}, no library at all (only host functions installed with SetGlobal)
//	Pre    host operations on the (not running) state, in order:  w = an earlier call that returned,
//	       sc<n> = SetContext(context n; 0 = the context of the scenario), rc = RemoveContext, cc<n> = cancel context n,
//	       R = an earlier run under its own context that was stopped by cancelling it (reused state)
//	Entry  API entry point of the outermost call: do = DoString, pcall = PCall(nil handler), pcallh = PCall(Lua message
//	       handler), call = unprotected Call, cbp / cbph = CallByParam{Protect[, Handler]}, resume = Resume of a fresh
//	       thread made by NewThread, wdo = DoString on a worker thread made by NewThread (the main state carries
//	       another context; Pre is applied to the worker)
type c11Setup struct {
	Libs  string
	Pre   []string
	Entry string
}

func (s c11Setup) String() string {
	pre := "-"
	if len(s.Pre) > 0 {
		pre = strings.Join(s.Pre, "+")
	}
	return s.Libs + "/" + pre + "/" + s.Entry
}

func parseC11Setup(t string) (c11Setup, bool) {
	f := strings.Split(t, "/")
	if len(f) != 3 {
		return c11Setup{}, false
	}
	su := c11Setup{Libs: f[0], Entry: f[2]}
	if f[1] != "-" && f[1] != "" {
		su.Pre = strings.Split(f[1], "+")
	}
	return su, true
}

// calledBefore: some call has been made in the global state before the outermost call of the scenario starts.
func (s c11Setup) calledBefore() bool {
	if s.Libs == "open" || s.Libs == "call" {
		return true
	}
	for _, o := range s.Pre {
		if o == "w" || o == "R" {
			return true
		}
	}
	return false
}

func (s c11Setup) rootTok() string {
	if s.Entry == "pcallh" || s.Entry == "cbph" {
		return "Xl"
	}
	return "P"
}

var c11LibList = []struct {
	name string
	open lua.LGFunction
}{
	{lua.LoadLibName, lua.OpenPackage}, {lua.BaseLibName, lua.OpenBase}, {lua.TabLibName, lua.OpenTable},
	{lua.StringLibName, lua.OpenString}, {lua.MathLibName, lua.OpenMath}, {lua.ChannelLibName, lua.OpenChannel},
	{lua.CoroutineLibName, lua.OpenCoroutine},
}

func c11NewState(libs string) *lua.LState {
	switch libs {
	case "open", "":
		return lua.NewState()
	case "none":
		return lua.NewState(lua.Options{SkipOpenLibs: true})
	case "direct":
		L := lua.NewState(lua.Options{SkipOpenLibs: true})
		for _, l := range c11LibList {
			l.open(L) // a plain Go call: fills the tables, makes no call on the state
			L.SetTop(0)
		}
		return L
	case "call":
		L := lua.NewState(lua.Options{SkipOpenLibs: true})
		for _, l := range c11LibList {
			L.Push(L.NewFunction(l.open))
			L.Push(lua.LString(l.name))
			L.Call(1, 0)
		}
		return L
	}
	panic("bad libs " + libs)
}

const c11Warm = `x = 1 function roothandler(e) local z=0 for i=1,2 do z=z+i end emit("roothandler") return e end`

// the Lua message handler of the entries pcallh / cbph: a chunk (made by LoadString: no call needed to define it)
const c11RootHandler = `local e = ... local z=0 for i=1,2 do z=z+i end emit("roothandler") return e`

// the same for scripts: the message handler of the driver program (it fetches operations like every other body)
const c11ScriptRootHandler = `return HANDLER(...)`

// the earlier run of set-up operation R: the host cancels its context at a fixed point; the loop is bounded so that
// an implementation that does not stop it is reported instead of hanging the harness
const c11EarlierRun = `c11cancelR() local i = 0 while i < 1000 do i = i + 1 end`

// c11ApplyPre performs the Pre operations on run (L = the main state of the same family, for globals).
// ctxOf(n) / cancelOf(n): context n and its cancel function; useCtx=false: the same calls without any context.
// It returns a non-empty text when the earlier run of an R operation was not stopped by its cancellation.
func c11ApplyPre(L, run *lua.LState, pre []string, useCtx bool, ctxOf func(int) context.Context, cancelOf func(int)) (bad string) {
	attached := -1 // the context attached to run by the operations so far (-1: none or not one of ours), and the cancelled ones
	cancelled := map[int]bool{}
	for _, op := range pre {
		switch {
		case op == "w":
			// an earlier call: it returns normally, unless the context attached right now is done (then it is refused)
			want := "ok"
			if useCtx && cancelled[attached] {
				want = "err:cancelled"
			}
			if r := classifyErr(run.DoString(c11Warm)); r != want && bad == "" {
				bad = "the earlier call of set-up operation w ended with " + r + ", expected " + want
			}
		case op == "rc":
			run.RemoveContext()
			attached = -1
		case op == "R":
			if useCtx {
				run.SetContext(ctxOf(9))
			}
			attached, cancelled[9] = 9, true
			L.SetGlobal("c11cancelR", L.NewFunction(func(*lua.LState) int {
				if useCtx {
					cancelOf(9)
				}
				return 0
			}))
			err := run.DoString(c11EarlierRun)
			if r := classifyErr(err); useCtx && r != "err:cancelled" && bad == "" {
				bad = "the earlier run of set-up operation R was not stopped by the cancellation of its context: it ended with " + r
			} else if !useCtx && err != nil {
				panic(err)
			}
		case strings.HasPrefix(op, "sc"):
			n, _ := strconv.Atoi(op[2:])
			if useCtx {
				run.SetContext(ctxOf(n))
			}
			attached = n
		case strings.HasPrefix(op, "cc"):
			n, _ := strconv.Atoi(op[2:])
			if useCtx {
				ctxOf(n)
				cancelOf(n)
			}
			cancelled[n] = true
		default:
			panic("bad set-up operation " + op)
		}
	}
	return
}

// c11Enter makes the outermost call of a scenario on run through the entry point of the set-up.  src is the chunk;
// a yield that reaches Resume ends the call (yieldEnds) or is resumed again.  wrapRoot is applied to the fresh thread
// of entry resume before it starts.
func c11Enter(run *lua.LState, entry, src, handlerSrc string, yieldEnds bool, wrapRoot func(*lua.LState)) (err error) {
	load := func(s string) *lua.LFunction {
		fn, e := run.LoadString(s)
		if e != nil {
			panic(e)
		}
		return fn
	}
	switch entry {
	case "do", "wdo":
		return run.DoString(src)
	case "pcall":
		run.Push(load(src))
		return run.PCall(0, lua.MultRet, nil)
	case "pcallh":
		run.Push(load(src))
		return run.PCall(0, lua.MultRet, load(handlerSrc))
	case "cbp":
		return run.CallByParam(lua.P{Fn: load(src), NRet: lua.MultRet, Protect: true})
	case "cbph":
		return run.CallByParam(lua.P{Fn: load(src), NRet: lua.MultRet, Protect: true, Handler: load(handlerSrc)})
	case "call":
		// unprotected: the error reaches the host as a Go panic
		defer func() {
			if r := recover(); r != nil {
				if ae, ok := r.(*lua.ApiError); ok {
					err = ae
				} else {
					err = fmt.Errorf("%v", r)
				}
			}
		}()
		run.Push(load(src))
		run.Call(0, lua.MultRet)
		return nil
	case "resume":
		fn := load(src)
		co, _ := run.NewThread()
		if wrapRoot != nil {
			wrapRoot(co)
		}
		for {
			st, e2, _ := run.Resume(co, fn)
			if st == lua.ResumeError {
				return e2
			}
			if st == lua.ResumeOK || yieldEnds {
				return nil
			}
		}
	}
	panic("bad entry " + entry)
}

// c11SetupOf: the set-up the corpus programs have always run in (Mode = the entry point).
func c11SetupOf(p c11Prog) c11Setup {
	su := c11Setup{Libs: "open", Pre: []string{"w", "sc0"}, Entry: "do"}
	switch p.Mode {
	case "worker":
		su.Entry = "wdo"
	case "rootxl":
		su.Entry = "pcallh"
	case "resume":
		su.Entry = "resume"
	}
	return su
}

// c11NeedsLibs: the program uses a library function (cannot run in a state without libraries).
func c11NeedsLibs(p c11Prog) bool {
	for _, w := range []string{"pcall", "error", "coroutine.", "setmetatable", "rawset", "table.", "string.", ":rep", ":sub", ":find", ":upper", "channel.", "select(", "pairs(", "tostring"} {
		if strings.Contains(p.Src, w) {
			return true
		}
	}
	return false
}

// c11FirstNestedCallIsMeta: the first nested call the program makes is a metamethod call started directly by an
// instruction (LState.callR called from the dispatch loop, no Go function in between).
func c11FirstNestedCallIsMeta(p c11Prog) bool { return strings.HasPrefix(p.Name, "meta-") }

// c11Compatible: can program p run in set-up su?
func c11Compatible(p c11Prog, su c11Setup) bool {
	if p.Mode != "" {
		return false // worker / rootxl / resume / replace programs ARE an entry point of their own
	}
	if su.Libs == "none" && c11NeedsLibs(p) {
		return false
	}
	// Excluded shape (a defect of the unchanged tree outside C11, reported in notes/C11.md): Resume of a fresh thread as the
	// very first call of a global state, whose first nested call is a metamethod call: callR's bootstrap branch
	// (G.MainThread == nil) runs the nested loop with baseframe == nil → Go nil-pointer panic out of Resume.
	if su.Entry == "resume" && !su.calledBefore() && c11FirstNestedCallIsMeta(p) {
		return false
	}
	return true
}

// c11PreSeqs enumerates the Pre sequences: every sequence of at most 2 operations over {w, sc1, rc, R, cc1} (cc1 only
// after sc1), then — attached = true — SetContext of the scenario's context, optionally followed by a call under it
// (w) or by the cancellation of the replaced context (cc1).  attached = false: the bare prefixes (the state ends up
// with no context, a foreign one, or a done one).
func c11PreSeqs(attached bool) [][]string {
	alpha := []string{"w", "sc1", "rc", "R", "cc1"}
	var prefixes [][]string
	prefixes = append(prefixes, nil)
	valid := func(s []string) bool {
		seen := false
		for _, o := range s {
			if o == "sc1" {
				seen = true
			}
			if o == "cc1" && !seen {
				return false
			}
		}
		return true
	}
	for _, a := range alpha {
		if valid([]string{a}) {
			prefixes = append(prefixes, []string{a})
		}
	}
	for _, a := range alpha {
		for _, b := range alpha {
			if valid([]string{a, b}) {
				prefixes = append(prefixes, []string{a, b})
			}
		}
	}
	if !attached {
		return prefixes
	}
	var res [][]string
	for _, pf := range prefixes {
		base := append(append([]string{}, pf...), "sc0")
		res = append(res, base)
		res = append(res, append(append([]string{}, base...), "w"))
		has := func(o string) bool {
			for _, x := range pf {
				if x == o {
					return true
				}
			}
			return false
		}
		if has("sc1") && !has("cc1") {
			res = append(res, append(append([]string{}, base...), "cc1"))
		}
	}
	return res
}

var c11Entries = []string{"do", "pcall", "pcallh", "call", "cbp", "cbph", "resume", "wdo"}

func c11LibKinds(thorough, withNone bool) []string {
	l := []string{"open", "direct"}
	if withNone {
		l = append(l, "none")
	}
	if thorough {
		l = append(l, "call")
	}
	return l
}

// ---------- corpus of programs ----------

type c11Prog struct {
	Name string
	Src  string
	Mode string // main | worker | rootxl | resume | replace
}

// LIMIT is math.huge in cancellation runs (divergent programs) and small in transparency runs.
var c11Progs = []c11Prog{
	{Name: "while-emit", Src: `local i=0 while i < LIMIT do i=i+1 emit(i) end`},
	{Name: "numeric-for-empty", Src: `for i=1,LIMIT do end emit("end")`},
	{Name: "repeat-until", Src: `local i=0 repeat i=i+1 emit(i) until i >= LIMIT`},
	{Name: "goto-loop", Src: `local i=0 ::top:: i=i+1 emit(i) if i < LIMIT then goto top end`},
	{Name: "goto-continue", Src: `local i=0 while i < LIMIT do i=i+1 if i%2==0 then goto cont end emit(i) ::cont:: end`},
	{Name: "recursion", Src: `local function f(n) if n==0 then return 0 end return 1+f(n-1) end local i=0 while i < LIMIT do i=i+1 emit(f(6)) end`},
	{Name: "tailcall-loop", Src: `local function loop(n) if n >= LIMIT then return n end emit(n) return loop(n+1) end emit(loop(0))`},
	{Name: "mutual-tailcall", Src: `local a,b function a(n) if n >= LIMIT then return n end return b(n+1) end function b(n) emit(n) return a(n) end a(0)`},
	{Name: "pcall-retry", Src: `local n=0 while n < LIMIT do n=n+1 local ok,e=pcall(function() local j=0 while j < LIMIT do j=j+1 emit(j) end end) emit(ok) end`},
	{Name: "pcall-retry-error", Src: `local n=0 while n < LIMIT do n=n+1 local ok,e=pcall(function() emit("in") error("x") end) emit(ok) end`},
	{Name: "pcall-nested-5", Src: `local function lvl(d) local j=0 while j < LIMIT do j=j+1 emit(d,j) if d < 5 then pcall(lvl,d+1) end end end lvl(1)`},
	{Name: "pcall-catch-and-loop-forever", Src: `local n=0 while n < LIMIT do n=n+1 pcall(function() pcall(function() local j=0 while j < LIMIT do j=j+1 end end) local k=0 while k < LIMIT do k=k+1 emit(k) end end) end`},
	{Name: "xpcall-retry", Src: `local n=0 while n < LIMIT do n=n+1 local ok,e=xpcall(function() local j=0 while j < LIMIT do j=j+1 emit(j) end end, function(e) emit("h") return e end) emit(ok) end`},
	{Name: "xpcall-handler-loops", Src: `local n=0 while n < LIMIT do n=n+1 xpcall(function() emit("body") error("x") end, function(e) local j=0 while j < LIMIT do j=j+1 emit("h",j) end return e end) end`},
	{Name: "xpcall-handler-errors", Src: `local n=0 while n < LIMIT do n=n+1 local ok,e=xpcall(function() error("x") end, function(e) emit("h") error("again") end) emit(ok) end`},
	{Name: "xpcall-nested", Src: `local function h(e) emit("h") return e end local function lvl(d) local j=0 while j < LIMIT do j=j+1 emit(d,j) if d < 4 then xpcall(function() return lvl(d+1) end, h) end end end lvl(1)`},
	{Name: "xpcall-in-pcall-in-xpcall", Src: `local function h(e) local z=0 for i=1,3 do z=z+i end emit("h",z) return e end local n=0 while n < LIMIT do n=n+1 xpcall(function() pcall(function() xpcall(function() local j=0 while j < LIMIT do j=j+1 emit(j) end end, h) error("y") end) error("z") end, h) end`},
	{Name: "xpcall-go-handler", Src: `local n=0 while n < LIMIT do n=n+1 local ok,e=xpcallgo(function() local j=0 while j < LIMIT do j=j+1 emit(j) end end) emit(ok) end`},
	{Name: "pcall-of-pcall", Src: `local n=0 while n < LIMIT do n=n+1 emit(pcall(pcall, function() local j=0 while j < LIMIT do j=j+1 emit(j) end end)) end`},
	{Name: "error-handler-rethrow-chain", Src: `local function f(d) if d==0 then local j=0 while j < LIMIT do j=j+1 emit(j) end error("bottom") end local ok,e=pcall(f,d-1) error(e,0) end local n=0 while n < LIMIT do n=n+1 emit(pcall(f,4)) end`},
	{Name: "meta-index-recursion", Src: `local mt={} mt.__index=function(t,k) if k<=0 then return 0 end return t[k-1]+1 end local t=setmetatable({},mt) local n=0 while n < LIMIT do n=n+1 emit(t[5]) end`},
	{Name: "meta-index-loop-inside", Src: `local t=setmetatable({},{__index=function(t,k) local j=0 while j < LIMIT do j=j+1 emit(k,j) end return j end}) local n=0 while n < LIMIT do n=n+1 emit(t.x) end`},
	{Name: "meta-arith-concat-eq-lt", Src: `local mt={} local function mk(v) return setmetatable({v=v},mt) end mt.__add=function(a,b) return mk(a.v+b.v) end mt.__concat=function(a,b) return "c" end mt.__eq=function(a,b) return a.v==b.v end mt.__lt=function(a,b) return a.v<b.v end mt.__le=function(a,b) return a.v<=b.v end mt.__unm=function(a) return mk(-a.v) end mt.__len=function(a) return a.v end local x,y=mk(1),mk(2) local n=0 while n < LIMIT do n=n+1 local z=x+y emit(z.v, x..y, x==y, x<y, x<=y, (-x).v) end`},
	{Name: "meta-call-recursion", Src: `local mt={} local obj=setmetatable({},mt) mt.__call=function(self,k) if k==0 then return 0 end return 1+self(k-1) end local n=0 while n < LIMIT do n=n+1 emit(obj(4)) end`},
	{Name: "meta-newindex-pcall", Src: `local t=setmetatable({},{__newindex=function(t,k,v) pcall(function() local j=0 while j < LIMIT do j=j+1 emit(j) end end) rawset(t,k,v) end}) local n=0 while n < LIMIT do n=n+1 t[n]=n emit(n) end`},
	{Name: "co-pingpong", Src: `local a=coroutine.create(function() local i=0 while i < LIMIT do i=i+1 emit("a",i) coroutine.yield(i) end end) local b=coroutine.create(function() local i=0 while i < LIMIT do i=i+1 emit("b",i) coroutine.yield(i) end end) local n=0 while n < LIMIT do n=n+1 local ok1,v1=coroutine.resume(a) local ok2,v2=coroutine.resume(b) emit(ok1,v1,ok2,v2) end`},
	{Name: "co-generator-wrap", Src: `local gen=coroutine.wrap(function() local i=0 while i < LIMIT do i=i+1 coroutine.yield(i) end end) for v in gen do emit(v) end`},
	{Name: "co-loop-inside", Src: `local n=0 while n < LIMIT do n=n+1 local co=coroutine.create(function() local j=0 while j < LIMIT do j=j+1 emit(j) end return j end) emit(coroutine.resume(co)) emit(coroutine.status(co)) end`},
	{Name: "co-wrap-loop-inside", Src: `local n=0 while n < LIMIT do n=n+1 local f=coroutine.wrap(function() local j=0 while j < LIMIT do j=j+1 emit(j) end return j end) emit(pcall(f)) end`},
	{Name: "co-nested-3", Src: `local function mk(d) return coroutine.create(function() local inner=d<3 and mk(d+1) or nil local j=0 while j < LIMIT do j=j+1 emit(d,j) if inner then coroutine.resume(inner) end coroutine.yield(j) end end) end local top=mk(1) local n=0 while n < LIMIT do n=n+1 emit(coroutine.resume(top)) end`},
	{Name: "co-pcall-inside-co", Src: `local co=coroutine.wrap(function() while true do local ok=pcall(function() local j=0 while j < LIMIT do j=j+1 emit(j) end end) coroutine.yield(ok) end end) local n=0 while n < LIMIT do n=n+1 emit(co()) end`},
	{Name: "co-retry-resume-dead", Src: `local n=0 while n < LIMIT do n=n+1 local co=coroutine.create(function() error("boom") end) emit(coroutine.resume(co)) emit(coroutine.resume(co)) end`},
	{Name: "co-xpcall-wrap", Src: `local n=0 while n < LIMIT do n=n+1 emit(xpcall(coroutine.wrap(function() local j=0 while j < LIMIT do j=j+1 emit(j) coroutine.yield() end end), function(e) emit("h") return e end)) end`},
	{Name: "sort-comparator-loop", Src: `local n=0 while n < LIMIT do n=n+1 local t={3,1,2} table.sort(t,function(a,b) emit(a,b) return a<b end) emit(t[1]) end`},
	{Name: "sort-comparator-pcall", Src: `local n=0 while n < LIMIT do n=n+1 local t={3,1,2} pcall(table.sort,t,function(a,b) pcall(function() local j=0 while j < LIMIT do j=j+1 end end) emit(a,b) return a<b end) end`},
	{Name: "gsub-callback", Src: `local n=0 while n < LIMIT do n=n+1 emit((string.gsub("abc",".",function(c) emit(c) return c:upper() end))) end`},
	{Name: "closures-upvalues", Src: `local function counter() local c=0 return function() c=c+1 return c end end local f=counter() local n=0 while n < LIMIT do n=n+1 emit(f()) end`},
	{Name: "varargs-select", Src: `local function g(...) return select("#",...), ... end local n=0 while n < LIMIT do n=n+1 emit(g(n,n+1,n+2)) end`},
	{Name: "table-ops-ipairs", Src: `local n=0 while n < LIMIT do n=n+1 local t={} for i=1,3 do t[#t+1]=i*n end local s=0 for _,v in ipairs(t) do s=s+v end for k,v in pairs(t) do s=s+k end emit(s) end`},
	{Name: "channel-nonblocking", Src: `local ch=channel.make(1) local n=0 while n < LIMIT do n=n+1 ch:send(n) local ok,v=ch:receive() emit(ok,v) local i,rv=channel.select({"default"}) emit(i) end`},
	{Name: "channel-select-handler", Src: `local ch=channel.make(1) local n=0 while n < LIMIT do n=n+1 ch:send(n) channel.select({"|<-",ch,function(ok,v) local j=0 while j < 3 do j=j+1 emit(v,j) end end}) end`},
	{Name: "channel-select-send-handler", Src: `local ch=channel.make(1) local n=0 while n < LIMIT do n=n+1 local i,v,ok=channel.select({"<-|",ch,n,function(...) emit("sent",select("#",...),...) end}) emit(i,v,ok) emit(ch:receive()) end`},
	{Name: "channel-select-mixed-handlers", Src: `local full,ready,empty=channel.make(1),channel.make(1),channel.make(1) full:send(0) local n=0 while n < LIMIT do n=n+1 ready:send(n) local i,v,ok=channel.select({"<-|",full,1,function(...) emit("h1",select("#",...),...) end},{"|<-",ready,function(...) emit("h2",select("#",...),...) end},{"|<-",empty,function(...) emit("h3",select("#",...),...) end}) emit(i,v,ok) i,v,ok=channel.select({"|<-",empty,function(...) emit("h4",select("#",...),...) end},{"<-|",ready,n+100,function(...) emit("h5",select("#",...),...) end},{"<-|",full,2,function(...) emit("h6",select("#",...),...) end}) emit(i,v,ok) emit(ready:receive()) end`},
	{Name: "channel-select-default-handler", Src: `local empty,full=channel.make(1),channel.make(1) full:send(0) local n=0 while n < LIMIT do n=n+1 local i,v,ok=channel.select({"|<-",empty,function(...) emit("h1",select("#",...),...) end},{"<-|",full,1,function(...) emit("h2",select("#",...),...) end},{"default",function(...) emit("h3",select("#",...),...) end}) emit(i,v,ok) i,v,ok=channel.select({"default",function(...) emit("h4",select("#",...),...) end},{"<-|",full,1,function(...) emit("h5",select("#",...),...) end}) emit(i,v,ok) end`},
	{Name: "channel-select-closed", Src: `local n=0 while n < LIMIT do n=n+1 local c=channel.make(1) c:send(n) c:close() local i,v,ok=channel.select({"|<-",c,function(...) emit("h1",select("#",...),...) end}) emit(i,v,ok) i,v,ok=channel.select({"|<-",c,function(...) emit("h2",select("#",...),...) end}) emit(i,v,ok) end`},
	{Name: "string-methods", Src: `local n=0 while n < LIMIT do n=n+1 local s=("x"):rep(3)..tostring(n) emit(#s, s:sub(1,2), s:find("x",1,true)) end`},
	{Name: "global-counter-loop", Src: `g=0 local i=0 while i < LIMIT do i=i+1 g=g+1 end emit(g)`},
	{Name: "global-counter-after-pcall", Src: `g=0 local n=0 while n < LIMIT do n=n+1 pcall(function() local j=0 while j < LIMIT do j=j+1 g=g+1 end end) g=g+1000 end emit(g)`},
	{Name: "global-counter-after-resume", Src: `g=0 local n=0 while n < LIMIT do n=n+1 local co=coroutine.create(function() local j=0 while j < LIMIT do j=j+1 g=g+1 coroutine.yield() end end) coroutine.resume(co) g=g+1000 coroutine.resume(co) g=g+1000000 end emit(g)`},
	{Name: "global-counter-handler", Src: `g=0 local n=0 while n < LIMIT do n=n+1 xpcall(function() g=g+1 error("x") end, function(e) g=g+10 return e end) g=g+100 end emit(g)`},
	{Name: "co-child-outlives-creator", Src: `local n=0 while n < LIMIT do n=n+1 local b local a=coroutine.create(function() b=coroutine.wrap(function() local j=0 while j < LIMIT do j=j+1 emit("b",j) coroutine.yield(j) end end) return "a" end) emit(coroutine.resume(a)) emit(pcall(b)) emit(pcall(b)) end`},
	{Name: "co-child-outlives-failed-wrapped-creator", Src: `local n=0 while n < LIMIT do n=n+1 local b local a=coroutine.wrap(function() b=coroutine.create(function() local j=0 while j < LIMIT do j=j+1 emit("b",j) coroutine.yield(j) end end) error("creator fails") end) emit(pcall(a)) emit(coroutine.resume(b)) emit(coroutine.resume(b)) emit(coroutine.status(b)) end`},
	{Name: "worker-loop", Mode: "worker", Src: `local i=0 while i < LIMIT do i=i+1 emit(i) end`},
	{Name: "worker-coroutines", Mode: "worker", Src: `local co=coroutine.wrap(function() local i=0 while i < LIMIT do i=i+1 emit("c",i) coroutine.yield(i) end end) local n=0 while n < LIMIT do n=n+1 emit(co()) local c2=coroutine.create(function() local j=0 while j < LIMIT do j=j+1 emit(j) end end) emit(coroutine.resume(c2)) end`},
	{Name: "worker-pcall-retry", Mode: "worker", Src: `local n=0 while n < LIMIT do n=n+1 pcall(function() local j=0 while j < LIMIT do j=j+1 emit(j) end end) end`},
	{Name: "root-xpcall-lua-handler", Mode: "rootxl", Src: `local n=0 while n < LIMIT do n=n+1 pcall(function() local j=0 while j < LIMIT do j=j+1 emit(j) end end) end`},
	{Name: "go-resume-root", Mode: "resume", Src: `local n=0 while n < LIMIT do n=n+1 pcall(function() local j=0 while j < LIMIT do j=j+1 emit(j) end end) coroutine.yield(n) end`},
	{Name: "replace-midrun", Mode: "replace", Src: `local i=0 while i < LIMIT do i=i+1 emit(i) if i==2 then rearm() end end`},
	{Name: "replace-midrun-in-pcall", Mode: "replace", Src: `local n=0 while n < LIMIT do n=n+1 pcall(function() rearm() local j=0 while j < LIMIT do j=j+1 emit(j) end end) end`},
	{Name: "replace-midrun-coroutine-after", Mode: "replace", Src: `rearm() local co=coroutine.wrap(function() local i=0 while i < LIMIT do i=i+1 emit(i) coroutine.yield(i) end end) local n=0 while n < LIMIT do n=n+1 emit(co()) end`},
}

type c11Result struct {
	sh       *detShared
	emits    []string
	res      string // ok | err:cancelled | err:lua | err:panic | timeout
	msg      string
	gEnd     string // global g after the outermost call returned
	setupBad string // an earlier run of the set-up (operation R) was not stopped by its cancellation
}

func classifyErr(err error) string {
	if err == nil {
		return "ok"
	}
	m := err.Error()
	switch {
	case strings.Contains(m, "C11M-fuse"):
		return "err:fuse"
	case strings.Contains(m, context.Canceled.Error()):
		return "err:cancelled"
	case strings.Contains(m, "nil pointer dereference") || strings.Contains(m, "invalid memory address"):
		return "err:panic"
	default:
		return "err:lua"
	}
}

var c11Timeouts int32

// runC11Prog runs one program in the set-up it has always run in. fireAt = 0: never fire; useCtx=false: no context
// at all; track: wrap the child contexts of coroutines so that their polls are counted too; limit: value of LIMIT
// ("" = math.huge).
func runC11Prog(p c11Prog, fireAt int, useCtx, track bool, limit string, recordAll bool, maxPolls int) (res c11Result) {
	return runC11ProgIn(c11SetupOf(p), p, fireAt, useCtx, track, limit, recordAll, maxPolls)
}

// runC11ProgIn: the same in an arbitrary state set-up.  fireAt = -1: the context is cancelled by the host after the
// set-up, before the outermost call starts.
func runC11ProgIn(su c11Setup, p c11Prog, fireAt int, useCtx, track bool, limit string, recordAll bool, maxPolls int) (res c11Result) {
	done := make(chan struct{})
	sh := &detShared{fireAt: fireAt, isPollPC: map[uintptr]bool{}, recordAll: recordAll, rootTok: su.rootTok()}
	if fireAt != 0 {
		sh.fuse = 20000
		if fireAt > 0 {
			sh.fuse += fireAt
		}
	} else if maxPolls > 0 {
		sh.fuse = maxPolls
	}
	res.sh = sh
	go func() {
		defer close(done)
		defer func() {
			if r := recover(); r != nil {
				res.res, res.msg = "gopanic", fmt.Sprint(r)
			}
		}()
		L := c11NewState(su.Libs)
		defer L.Close()
		rt := NewRefTable()
		run := L
		sh.readG = func() string { return encVal(L.GetGlobal("g"), rt) }
		wrap := func(th *lua.LState) {
			if c := th.Context(); c != nil && track {
				th.SetContext(&detCtx{inner: c, sh: sh})
			}
		}
		newRoot := func() context.Context {
			root, cancel := context.WithCancel(context.Background())
			sh.cancel = cancel
			return &detCtx{inner: root, sh: sh}
		}
		if su.Entry == "wdo" {
			// the main state carries its own context, which is never cancelled
			L.SetContext(context.Background())
			w, _ := L.NewThread()
			run = w
		}
		emit := func(L *lua.LState) int {
			if sh.fired {
				sh.hostAfter++
			}
			if sh.fuse > 0 && len(res.emits) > sh.fuse {
				panic("C11M-fuse: script still calling host functions long after the context was done")
			}
			n := L.GetTop()
			parts := make([]string, n)
			for i := 1; i <= n; i++ {
				parts[i-1] = encVal(L.Get(i), rt)
			}
			res.emits = append(res.emits, strings.Join(parts, ","))
			return 0
		}
		L.SetGlobal("emit", L.NewFunction(emit))
		L.SetGlobal("xpcallgo", L.NewFunction(c11XPCallGo))
		L.SetGlobal("rearm", L.NewFunction(func(L *lua.LState) int {
			// the host replaces the context of the running state; from now on the NEW context is the one that fires
			if sh.fired {
				sh.hostAfter++
			}
			if useCtx {
				L.SetContext(newRoot())
			}
			return 0
		}))
		if limit == "" {
			if mt, ok := L.GetGlobal("math").(*lua.LTable); ok {
				L.SetGlobal("LIMIT", mt.RawGetString("huge"))
			} else {
				L.SetGlobal("LIMIT", lua.LNumber(math.MaxFloat64))
			}
		} else {
			n, _ := strconv.Atoi(limit)
			L.SetGlobal("LIMIT", lua.LNumber(n))
		}
		// coroutine.create / wrap: call the real library function, then wrap the new thread's child context
		if cot, ok := L.GetGlobal("coroutine").(*lua.LTable); ok {
			origCreate := cot.RawGetString("create").(*lua.LFunction).GFunction
			origWrap := cot.RawGetString("wrap").(*lua.LFunction).GFunction
			cot.RawSetString("create", L.NewFunction(func(L *lua.LState) int {
				n := origCreate(L)
				wrap(L.Get(-1).(*lua.LState))
				return n
			}))
			cot.RawSetString("wrap", L.NewFunction(func(L *lua.LState) int {
				n := origWrap(L)
				wrap(L.Get(-1).(*lua.LFunction).Upvalues[0].Value().(*lua.LState))
				return n
			}))
		}
		// the set-up operations of the host (the last thing before the outermost call)
		others := map[int]context.Context{}
		cancels := map[int]context.CancelFunc{}
		ctxOf := func(n int) context.Context {
			if n == 0 {
				return newRoot()
			}
			if _, ok := others[n]; !ok {
				others[n], cancels[n] = context.WithCancel(context.Background())
			}
			return others[n]
		}
		res.setupBad = c11ApplyPre(L, run, su.Pre, useCtx, ctxOf, func(n int) { cancels[n]() })
		sh.armed = true
		if fireAt < 0 && useCtx && sh.cancel != nil {
			sh.fired = true
			sh.gAtFire = sh.readG()
			sh.cancel()
		}
		err := c11Enter(run, su.Entry, p.Src, c11RootHandler, false, func(co *lua.LState) {
			if c := co.Context(); c != nil {
				co.SetContext(&detCtx{inner: c, sh: sh})
			}
		})
		res.res = classifyErr(err)
		if err != nil {
			res.msg = err.Error()
		}
		res.gEnd = sh.readG()
	}()
	select {
	case <-done:
	case <-hangAfter(60 * time.Second):
		noteHang()
		atomic.AddInt32(&c11Timeouts, 1)
		res.res = "timeout"
	}
	return
}

const c11TranspLimit = "4"

// LIMIT of the fire runs in a non-default state set-up (see execC11 "fire")
const c11SetupLimit = "4096"

func execC11(ops []Op) []string {
	var out []string
	if len(ops) > 0 && ops[0].Args[0] == "script" {
		return execC11Script(ops)
	}
	for _, op := range ops {
		a := op.Args
		switch a[0] {
		case "base": // every stack observed at a poll of a never-firing run is a running configuration of the model
			idx, _ := strconv.Atoi(a[1])
			track := a[2] == "1"
			cap_, _ := strconv.Atoi(a[3])
			r := runC11Prog(c11Progs[idx], 0, true, track, "", true, cap_)
			seen := map[string]bool{}
			for _, s := range r.sh.all {
				if !seen[s] {
					seen[s] = true
					out = append(out, "C11M wf "+s)
				}
			}
		case "fire": // fire <program> <track> <k> [<set-up>]: k = 0: cancelled by the host before the outermost call starts
			if atomic.LoadInt32(&c11Timeouts) >= 3 {
				out = append(out, "X skipped-after-timeouts => "+strings.Join(a, " "))
				continue
			}
			idx, _ := strconv.Atoi(a[1])
			track := a[2] == "1"
			k, _ := strconv.Atoi(a[3])
			p := c11Progs[idx]
			su, limit, where := c11SetupOf(p), "", ""
			if len(a) > 4 {
				// a state set-up other than the program's own: LIMIT is large but finite, so that an activation that
				// does not poll at all runs out of work instead of hanging the harness
				su, _ = parseC11Setup(a[4])
				limit, where = c11SetupLimit, " setup="+a[4]
			}
			fireAt := k
			if k == 0 {
				fireAt = -1
			}
			r := runC11ProgIn(su, p, fireAt, true, track, limit, false, 0)
			if r.res == "timeout" || r.res == "gopanic" {
				out = append(out, fmt.Sprintf("X %s => prog=%s k=%d%s polls=%d %s", r.res, p.Name, k, where, r.sh.polls, r.msg))
				continue
			}
			if r.setupBad != "" {
				out = append(out, fmt.Sprintf("X setup => prog=%s k=%d%s %s", p.Name, k, where, r.setupBad))
				continue
			}
			if !r.sh.fired {
				out = append(out, fmt.Sprintf("X never-fired => prog=%s k=%d%s polls=%d res=%s (the program made fewer polls than the baseline run)", p.Name, k, where, r.sh.polls, r.res))
				continue
			}
			fireStack, after, afterN := r.sh.fireStack, r.sh.after, r.sh.afterN
			if k == 0 {
				// the first poll of the call sees a context that is already done: it plays the part of the firing poll
				if len(after) == 0 {
					out = append(out, fmt.Sprintf("X never-polled => prog=%s k=0%s res=%s host-calls=%d (the context was done before the call started; the call never polled it)", p.Name, where, r.res, r.sh.hostAfter))
					continue
				}
				fireStack, after, afterN = after[0], after[1:], afterN-1
			}
			c11Note(fireStack, afterN)
			obs := []string{strconv.Itoa(afterN)}
			if len(after) > 64 {
				obs = append(obs, after[:64]...)
				obs = append(obs, "…")
			} else {
				obs = append(obs, after...)
			}
			obs = append(obs, r.res)
			gsame := "1"
			if r.gEnd != r.sh.gAtFire {
				gsame = "0"
			}
			out = append(out, fmt.Sprintf("C11M cancel %s => %s ; %d %s", fireStack, strings.Join(obs, " "), r.sh.hostAfter, gsame))
		case "transp": // Impl vs Impl: without a context = with a context that never fires (bounded variant of the program)
			idx, _ := strconv.Atoi(a[1])
			p := c11Progs[idx]
			su, name := c11SetupOf(p), p.Name
			if len(a) > 3 {
				su, _ = parseC11Setup(a[3])
				name += "@" + a[3]
			}
			r0 := runC11ProgIn(su, p, 0, false, false, c11TranspLimit, false, 0)
			r1 := runC11ProgIn(su, p, 0, true, a[2] == "1", c11TranspLimit, false, 0)
			same := r0.res == r1.res && r0.msg == r1.msg && strings.Join(r0.emits, ";") == strings.Join(r1.emits, ";") && r0.res != "timeout" && r1.setupBad == ""
			v := "same"
			if !same {
				v = fmt.Sprintf("diff res=%s/%s emits=%d/%d", r0.res, r1.res, len(r0.emits), len(r1.emits))
				if r1.setupBad != "" {
					v += " setup:" + strings.ReplaceAll(r1.setupBad, " ", "_")
				}
			}
			out = append(out, fmt.Sprintf("C11M transp %s => %s", name, v))
		case "block":
			where := "main"
			if len(a) > 5 {
				where = a[5]
			}
			out = append(out, execC11Block(a[1], a[2], a[3], a[4], where))
		default:
			panic("bad op " + a[0])
		}
	}
	return out
}

// ---------- blocking channel operations with a second goroutine ----------

// where: "main" = the operation runs on the state itself; "thread-root"/"thread-own" = in a thread made by
// LState.NewThread and driven by Resume, cancelled through the root context / through the cancel function NewThread
// returned; "lua-co" = inside coroutine.wrap, root cancelled.  The request line is the same in every variant: what
// the property promises does not depend on which state of the family is blocked or which of its contexts is cancelled.
func execC11Block(kind, ctxS, readyS, cancelS, where string) string {
	bufCap := 0
	if i := strings.Index(where, "+cap"); i >= 0 {
		bufCap, _ = strconv.Atoi(where[i+4:])
		where = where[:i]
	}
	// "<where>@<libs>/<pre>": state set-up (the entry point is given by where); context 0 of pre is the one cancelled
	su := c11Setup{Libs: "open", Pre: []string{"sc0"}}
	if i := strings.Index(where, "@"); i >= 0 {
		su, _ = parseC11Setup(where[i+1:] + "/do")
		where = where[:i]
	}
	L := c11NewState(su.Libs)
	var cancel context.CancelFunc = func() {}
	ctxs := map[int]context.Context{}
	cancels := map[int]context.CancelFunc{}
	ctxOf := func(n int) context.Context {
		if _, ok := ctxs[n]; !ok {
			ctxs[n], cancels[n] = context.WithCancel(context.Background())
			if n == 0 {
				cancel = cancels[0]
			}
		}
		return ctxs[n]
	}
	L.SetGlobal("emit", L.NewFunction(func(*lua.LState) int { return 0 }))
	setupBad := c11ApplyPre(L, L, su.Pre, ctxS == "1", ctxOf, func(n int) { cancels[n]() })
	var th *lua.LState
	if strings.HasPrefix(where, "thread") {
		var own context.CancelFunc
		th, own = L.NewThread()
		if where == "thread-own" && own != nil {
			rootCancel := cancel
			defer rootCancel()
			cancel = own
		}
	}
	ch := make(chan lua.LValue) // unbuffered: the operation blocks until the peer arrives
	if bufCap > 0 {
		// a buffered channel blocks the same way once it is full (send) / while it is empty (receive)
		ch = make(chan lua.LValue, bufCap)
		if kind == "send" || kind == "selsend" {
			for k := 0; k < bufCap; k++ {
				ch <- lua.LNumber(k)
			}
		}
	}
	L.SetGlobal("ch", lua.LChannel(ch))
	src := map[string]string{
		"recv":    `local ok,v = ch:receive() return 1`,
		"select":  `channel.select({"|<-", ch}) return 1`,
		"selsend": `channel.select({"<-|", ch, 7}) return 1`,
		"send":    `ch:send(7) return 1`,
	}[kind]
	isSend := kind == "send" || kind == "selsend"
	done := make(chan error, 1)
	go func() {
		defer func() {
			if r := recover(); r != nil {
				done <- fmt.Errorf("gopanic %v", r)
			}
		}()
		switch {
		case th != nil:
			fn, err := L.LoadString(src)
			if err != nil {
				done <- err
				return
			}
			_, err, _ = L.Resume(th, fn)
			done <- err
		case where == "lua-co":
			done <- L.DoString("return coroutine.wrap(function() " + src + " end)()")
		default:
			done <- L.DoString(src)
		}
	}()
	// second goroutine: the peer (if ready) or the canceller
	time.Sleep(15 * time.Millisecond) // let the script reach the channel operation (the outcome does not depend on it)
	if readyS == "1" {
		if isSend {
			go func() { <-ch }()
		} else {
			go func() { ch <- lua.LNumber(5) }()
		}
	} else if cancelS == "1" {
		cancel()
	}
	expectReturn := readyS == "1" || (ctxS == "1" && cancelS == "1")
	wait := 250 * time.Millisecond
	if expectReturn {
		wait = 60 * time.Second
	}
	var reply string
	select {
	case err := <-done:
		r := classifyErr(err)
		reply = "returned " + r
	case <-time.After(wait):
		reply = "hang noreturn"
		// release the blocked goroutine
		if isSend {
			go func() { <-ch }()
		} else {
			go func() { ch <- lua.LNil }()
		}
	}
	if readyS == "1" && cancelS == "1" {
		cancel()
	}
	if setupBad != "" {
		return "X setup => block " + kind + " " + su.String() + " " + setupBad
	}
	return fmt.Sprintf("C11M block %s %s %s %s => %s", kind, ctxS, readyS, cancelS, reply)
}

// ---------- scripts: generated operation sequences ----------

const c11Driver = `
cos = cos or {}
local handler, mtobj
local function body(kind)
  while true do
    local a, x = nextop(kind == "co")
    if a == "i" then
    elseif a == "p" then pcall(body, "p")
    elseif a == "pp" then pcall(pcall, body, "p")
    elseif a == "xl" then xpcall(function() return body("p") end, handler)
    elseif a == "xg" then xpcallgo(function() return body("p") end)
    elseif a == "m" then local _ = mtobj.x
    elseif a == "nt" then cos[#cos+1] = coroutine.create(function() return body("co") end)
    elseif a == "ntw" then cos[#cos+1] = coroutine.wrap(function() return body("co") end)
    elseif a == "r" then local c = cos[x] if type(c) == "thread" then coroutine.resume(c) else c() end
    elseif a == "ret" then return
    elseif a == "err" then error("boom")
    elseif a == "y" then coroutine.yield()
    end
  end
end
handler = function(e) body("h") return "handled" end
HANDLER = handler
mtobj = setmetatable({}, {__index = function(t, k) return body("m") end})
body(ROOTKIND or "main")
`

func execC11Script(ops []Op) []string {
	init := ops[0].Args[1]
	var toks []string
	for _, o := range ops[1:] {
		if o.Args[0] == "a" && len(o.Args) > 1 {
			toks = append(toks, o.Args[1])
		}
	}
	line := "C11M script " + init
	if len(toks) > 0 {
		line += " " + strings.Join(toks, " ")
	}
	var obs []string
	var res, setupBad string
	done := make(chan struct{})
	go func() {
		defer close(done)
		defer func() {
			if r := recover(); r != nil {
				res = "gopanic:" + strings.ReplaceAll(fmt.Sprint(r), " ", "_")
			}
		}()
		// init: ctx | noctx (the set-up the scripts have always run in) or a state set-up <libs>/<pre>/<entry>
		su := c11Setup{Libs: "open", Entry: "do"}
		if init == "ctx" {
			su.Pre = []string{"sc0"}
		} else if init != "noctx" {
			var ok bool
			if su, ok = parseC11Setup(init); !ok {
				panic("bad script init " + init)
			}
		}
		L := c11NewState(su.Libs)
		defer L.Close()
		ctxs := map[int]context.Context{}
		cancels := map[int]context.CancelFunc{}
		getCtx := func(n int) context.Context {
			if _, ok := ctxs[n]; !ok {
				ctxs[n], cancels[n] = context.WithCancel(context.Background())
			}
			return ctxs[n]
		}
		run := L
		if su.Entry == "wdo" {
			// worker thread of a main state that carries context 8; the worker is thread 1 of the family
			L.SetContext(getCtx(8))
			run, _ = L.NewThread()
			cosT := L.NewTable()
			cosT.RawSetInt(1, run)
			L.SetGlobal("cos", cosT)
		}
		L.SetGlobal("emit", L.NewFunction(func(*lua.LState) int { return 0 }))
		pos := 0
		fetches := 0
		L.SetGlobal("xpcallgo", L.NewFunction(c11XPCallGo))
		L.SetGlobal("nextop", L.NewFunction(func(L *lua.LState) int {
			fetches++
			if fetches > 4*len(toks)+200 {
				panic("C11M script runaway")
			}
			obs = append(obs, absStack(su.rootTok()))
			isCo := L.ToBool(1)
			t := "ret"
			if pos < len(toks) {
				t = toks[pos]
				pos++
			}
			ret := func(s string, x int) int {
				L.Push(lua.LString(s))
				L.Push(lua.LNumber(x))
				return 2
			}
			switch {
			case t == "e" || t == "i":
				return ret("i", 0)
			case t == "rc":
				L.RemoveContext()
				return ret("i", 0)
			case strings.HasPrefix(t, "sc"):
				n, _ := strconv.Atoi(t[2:])
				L.SetContext(getCtx(n))
				return ret("i", 0)
			case strings.HasPrefix(t, "cc"):
				n, _ := strconv.Atoi(t[2:])
				getCtx(n)
				cancels[n]()
				return ret("i", 0)
			case t == "y":
				if isCo {
					return ret("y", 0)
				}
				return ret("i", 0)
			case t[0] == 'r' && t != "ret":
				n, _ := strconv.Atoi(t[1:])
				cosT, _ := L.GetGlobal("cos").(*lua.LTable)
				var th *lua.LState
				switch c := cosT.RawGetInt(n).(type) {
				case *lua.LState:
					th = c
				case *lua.LFunction:
					th, _ = c.Upvalues[0].Value().(*lua.LState)
				}
				if th == nil || th.Dead {
					return ret("i", 0)
				}
				for p := L; p != nil; p = p.Parent {
					if p == th {
						return ret("i", 0)
					}
				}
				return ret("r", n)
			default:
				return ret(t, 0)
			}
		}))
		if su.Entry == "resume" {
			L.SetGlobal("ROOTKIND", lua.LString("co")) // the root body runs directly under threadRun: it can yield (to the host)
		}
		// the set-up operations of the host (the last thing before the outermost call)
		setupBad = c11ApplyPre(L, run, su.Pre, true, getCtx, func(n int) { cancels[n]() })
		err := c11Enter(run, su.Entry, c11Driver, c11ScriptRootHandler, true, func(co *lua.LState) {
			// the fresh thread is thread 1 of the family
			cosT := L.NewTable()
			cosT.RawSetInt(1, co)
			L.SetGlobal("cos", cosT)
		})
		res = classifyErr(err)
	}()
	select {
	case <-done:
	case <-hangAfter(60 * time.Second):
		noteHang()
		return []string{"X timeout => " + line}
	}
	if strings.HasPrefix(res, "gopanic") {
		return []string{"X " + res + " => " + line}
	}
	if setupBad != "" {
		return []string{"X setup => " + line + " : " + setupBad}
	}
	return []string{line + " => " + strings.Join(append(obs, res), " ")}
}

// genC11Script draws one operation sequence.  The generator only tracks how many coroutines it has created
// (so that resume targets mostly exist) and resumes a wrapped coroutine at most once.
func genC11Script(r *Rng, maxLen int) []Op {
	init := "ctx"
	if r.Chance(30) {
		init = "noctx"
	}
	return genC11ScriptIn(r, maxLen, init, false)
}

// genC11ScriptIn: a script for a given init (ctx | noctx | state set-up).  noMetaFirst: the first nested call of the
// run must not be a metamethod call (see c11Compatible: excluded shape of entry resume on a never-called state).
func genC11ScriptIn(r *Rng, maxLen int, init string, noMetaFirst bool) []Op {
	ops := []Op{{Args: []string{"script", init}}}
	defer func() {
		if !noMetaFirst {
			return
		}
		for _, o := range ops[1:] {
			switch o.Args[1] {
			case "p", "pp", "xl", "xg":
				return
			case "m":
				o.Args[1] = "p"
				return
			}
		}
	}()
	n := r.Range(3, maxLen)
	created := 0
	wrapped := map[int]bool{}
	usedWrapped := map[int]bool{}
	cancelAt := -1
	if r.Chance(60) {
		cancelAt = r.Range(1, n)
	}
	reattach := r.Chance(35)
	for i := 0; i < n; i++ {
		var t string
		if i == cancelAt {
			t = "cc" + strconv.Itoa(Pick(r, []int{0, 0, 0, 1, 2}))
		} else {
			switch c := r.Intn(100); {
			case c < 8:
				t = Pick(r, []string{"i", "e"})
			case c < 24:
				t = "p"
			case c < 32:
				t = "xl"
			case c < 36:
				t = "xg"
			case c < 42:
				t = "m"
			case c < 46:
				t = "pp"
			case c < 56:
				t = Pick(r, []string{"nt", "nt", "ntw"})
				created++
				if t == "ntw" {
					wrapped[created] = true
				}
			case c < 72:
				if created == 0 {
					t = "nt"
					created++
				} else {
					k := r.Range(1, created)
					if r.Chance(5) {
						k = created + 1
					}
					if wrapped[k] && usedWrapped[k] {
						t = "i"
					} else {
						usedWrapped[k] = true
						t = "r" + strconv.Itoa(k)
					}
				}
			case c < 80:
				t = "y"
			case c < 89:
				t = "ret"
			case c < 94:
				t = "err"
			default:
				if reattach {
					t = Pick(r, []string{"sc0", "sc1", "sc2", "rc", "cc1", "cc2"})
				} else {
					t = "e"
				}
			}
		}
		ops = append(ops, Op{Args: []string{"a", t}})
	}
	return ops
}

// ---------- runner ----------

func init() { props["C11M"] = runC11M; replayExec["C11M"] = execC11 }

func runC11M(run *Run) {
	old := runtime.GOMAXPROCS(6) // many builders share the machine
	defer runtime.GOMAXPROCS(old)
	capPolls, nScripts, maxLen := 140, 1500, 28
	if run.Tier == "thorough" {
		capPolls, nScripts, maxLen = 600, 40000, 60
	}
	run.Rule = "(1) corpus of " + strconv.Itoa(len(c11Progs)) + " divergent Lua programs (tight loops, recursion, tail calls, goto loops, pcall/xpcall retry loops that catch the error and loop again, Lua/Go error handlers, metamethod recursion, coroutine ping-pong/generators/nesting, in-flight sort/gsub callbacks, channel ops, worker thread, Go-API Resume, context replaced mid-run) run on the real interpreter with a deterministic context that fires inside its k-th poll, for EVERY k up to the cap (bounded-exhaustive over k: a test, not a proof); the abstract Go stack at the firing poll and at every later poll is compared exactly with the Lean model's unwinding, plus Spec: no host call after firing, result = cancellation error, polls ≤ 2d+1.  (2) generated operation sequences (scripts) interpreted by a Lua driver on the real interpreter and by the Lean machine: nest at every fetch + result.  (3) blocking channel operations × ctx × peer-ready × cancel with a second goroutine.  (4) transparency Impl vs Impl.  (5) STATE SET-UP dimension, crossed with (1)-(4): libraries {NewState | SkipOpenLibs + libraries installed without any call | SkipOpenLibs, none | (thorough) opened through Call} × every sequence of ≤ 2 host operations {earlier call, SetContext(other), RemoveContext, earlier run stopped by cancellation, cancel(other)} before SetContext of the scenario's context (optionally followed by a call under it / by cancelling the replaced context) × entry point of the outermost call {DoString, PCall, PCall+Lua handler, unprotected Call, CallByParam ± handler, Resume of a fresh NewThread thread, DoString on a worker thread}: per set-up firing points k = 1, a seed-chosen k ≤ 60 and (every third) k = 0 = cancelled before the call starts, on programs rotating through the set-ups (bounded-exhaustive over set-ups: a test), one transparency run per four set-ups, one generated script per set-up (also set-ups ending without / with a foreign / with a done context), blocking operations in 15 set-ups.  distinct = distinct firing stacks / script skeletons / set-ups"
	run.Assume = []string{
		"wall-clock promptness is not modelled: 'prompt' = bounded number of dispatch attempts; cancellation is delivered synchronously inside a poll (real cancelCtx children are cancelled synchronously by cancel())",
		"long-running Go library calls are not Lua instructions (string.rep, pattern matching, sort itself, table.foreach(t, pcall)); a Go function in flight returns once its nested call returned",
		"coroutines created before SetContext, and activations started before a SetContext on a state without context, do not poll (known findings C11-setcontext-under-running-loop / C11-removecontext-under-running-loop)",
		"Go runtime: recover/defer order, reflect.Select picks a ready case, runtime.Callers reports the physical call stack",
		"state set-ups: excluded shape = Resume of a fresh thread as the very first call of a global state (nothing called before, G.MainThread == nil) whose first nested call is a metamethod call: callR's bootstrap branch runs that nested call with baseframe == nil and Resume dies with a Go nil-pointer panic, with or without a context (defect of the unchanged tree outside C11, see notes/C11.md); fire runs in a non-default set-up use LIMIT = 4096 (runaway guard for activations that never poll), far above the polls needed to reach any k used",
	}
	run.Trusted = append(run.Trusted, "absStack: mapping of Go function names (PCall, PCall.func1, threadRun, mainLoop, mainLoopWithContext, basePCall, baseXPCall, wrapaux, callGFunction) to model frames")
	root := NewRng(uint64(run.Seed))

	// baseline: number of polls of each program up to the cap (all programs diverge with LIMIT = math.huge)
	type variant struct {
		idx   int
		track bool
	}
	var variants []variant
	for i, p := range c11Progs {
		variants = append(variants, variant{i, true})
		if strings.Contains(p.Src, "coroutine.") {
			variants = append(variants, variant{i, false}) // child contexts left untouched (polls of coroutines not counted)
		}
	}
	var cases []Case
	corpus := loadCorpus("C11M")
	for i, c := range corpus {
		cases = append(cases, Case{Idx: -1 - i, Ops: c, Note: "corpus"})
	}
	firePoints := 0
	var mu sync.Mutex
	var wg sync.WaitGroup
	polls := make([]int, len(variants))
	sem := make(chan struct{}, 6)
	for vi, v := range variants {
		wg.Add(1)
		sem <- struct{}{}
		go func(vi int, v variant) {
			defer wg.Done()
			defer func() { <-sem }()
			r := runC11Prog(c11Progs[v.idx], 0, true, v.track, "", false, capPolls)
			mu.Lock()
			polls[vi] = r.sh.polls
			mu.Unlock()
		}(vi, v)
	}
	wg.Wait()
	pollsOf := map[string]int{} // "<program>/<track>" → polls counted in the baseline run (at most the cap)
	for vi, v := range variants {
		tr := "0"
		if v.track {
			tr = "1"
		}
		n := polls[vi]
		if n > capPolls {
			n = capPolls
		}
		pollsOf[strconv.Itoa(v.idx)+"/"+tr] = n
		// per-seed variation: the seed chooses which extra window of late firing points is explored
		extra := root.Fork(uint64(9000+vi)).Range(0, 40)
		ops := []Op{{Args: []string{"base", strconv.Itoa(v.idx), tr, strconv.Itoa(capPolls + extra)}}}
		for k := 1; k <= n; k++ {
			ops = append(ops, Op{Args: []string{"fire", strconv.Itoa(v.idx), tr, strconv.Itoa(k)}})
			firePoints++
		}
		for k := n + 1; k <= n+extra && polls[vi] > capPolls; k += 3 {
			ops = append(ops, Op{Args: []string{"fire", strconv.Itoa(v.idx), tr, strconv.Itoa(k)}})
			firePoints++
		}
		ops = append(ops, Op{Args: []string{"transp", strconv.Itoa(v.idx), tr}})
		cases = append(cases, Case{Idx: 100000 + vi, Ops: ops, Note: c11Progs[v.idx].Name})
		if n < 10 {
			run.Failures = append(run.Failures, Failure{CaseIdx: 100000 + vi, Kind: "HARNESS", Reply: "program " + c11Progs[v.idx].Name + " made only " + strconv.Itoa(n) + " polls"})
		}
	}
	// blocking operations
	var bops []Op
	for _, k := range []string{"recv", "select", "selsend", "send"} {
		for _, c := range []string{"0", "1"} {
			for _, rd := range []string{"0", "1"} {
				for _, x := range []string{"0", "1"} {
					if c == "0" && x == "1" {
						continue
					}
					bops = append(bops, Op{Args: []string{"block", k, c, rd, x}})
					if c == "1" {
						for _, wh := range []string{"thread-root", "thread-own", "lua-co", "main+cap1", "main+cap3", "thread-own+cap2", "lua-co+cap1"} {
							bops = append(bops, Op{Args: []string{"block", k, c, rd, x, wh}})
						}
					}
				}
			}
		}
	}
	// blocking operations × state set-up: the wake-up by cancellation and the undisturbed hand-over to a peer
	for _, k := range []string{"recv", "select", "selsend", "send"} {
		for _, libs := range []string{"open", "direct"} {
			for _, pre := range []string{"sc0", "w+sc0", "sc0+w", "sc1+sc0", "sc1+rc+sc0", "sc1+cc1+sc0", "R+sc0", "R+rc+sc0"} {
				if libs == "open" && pre == "sc0" {
					continue // the set-up of the cases above
				}
				bops = append(bops, Op{Args: []string{"block", k, "1", "0", "1", "main@" + libs + "/" + pre}})
				bops = append(bops, Op{Args: []string{"block", k, "1", "1", "0", "main@" + libs + "/" + pre}})
			}
		}
		for _, wh := range []string{"thread-root", "thread-own", "lua-co"} {
			for _, pre := range []string{"sc0", "R+sc0"} {
				bops = append(bops, Op{Args: []string{"block", k, "1", "0", "1", wh + "@direct/" + pre}})
			}
		}
	}
	for i, o := range bops {
		cases = append(cases, Case{Idx: 200000 + i, Ops: []Op{o}, Note: "block"})
	}
	// ---- state set-up dimension (c11Setup): libraries × host operations before the call × entry point ----
	// fire: every set-up gets firing points k = 1, one seed-chosen k, every third also k = 0 (cancelled before the call
	// starts), each on another program (the programs rotate through the set-ups; the seed chooses the rotation);
	// thorough: k = 0…6 and three seed-chosen ones.  Every k of every program is covered in the programs' own set-up above.
	thorough := run.Tier == "thorough"
	rot := root.Fork(70000).Intn(1 << 16)
	si, setupFires := 0, 0
	for _, libs := range c11LibKinds(thorough, true) {
		for _, pre := range c11PreSeqs(true) {
			for _, entry := range c11Entries {
				su := c11Setup{Libs: libs, Pre: pre, Entry: entry}
				var compat []int
				for i, p := range c11Progs {
					if c11Compatible(p, su) {
						compat = append(compat, i)
					}
				}
				r := root.Fork(uint64(70001 + si))
				ks := []int{1, r.Range(2, 60)}
				if si%3 == 0 {
					ks = append(ks, 0)
				}
				if thorough {
					ks = []int{0, 1, 2, 3, 4, 5, 6, r.Range(7, 60), r.Range(7, 200), r.Range(7, 200)}
				}
				var ops []Op
				for j, k := range ks {
					pi := compat[(rot+si*3+j)%len(compat)]
					tr := "1"
					if strings.Contains(c11Progs[pi].Src, "coroutine.") && (si+j)%2 == 1 {
						tr = "0"
					}
					// an untracked variant counts few polls before its runaway guard stops it: stay within the baseline
					if n := pollsOf[strconv.Itoa(pi)+"/"+tr]; k > n && n > 0 {
						k = 1 + (k-1)%n
					}
					ops = append(ops, Op{Args: []string{"fire", strconv.Itoa(pi), tr, strconv.Itoa(k), su.String()}})
					setupFires++
				}
				if si%4 == 0 || thorough {
					pi := compat[(rot+si)%len(compat)]
					ops = append(ops, Op{Args: []string{"transp", strconv.Itoa(pi), "1", su.String()}})
				}
				cases = append(cases, Case{Idx: 400000 + si, Ops: ops, Note: "setup " + su.String()})
				run.Distinct["setup:"+su.String()] = true
				si++
			}
		}
	}
	// scripts: one (thorough: four) generated operation sequence per set-up, also for set-ups that leave the state
	// without a context, with a foreign one or with a done one
	sj := 0
	for _, libs := range c11LibKinds(thorough, false) {
		for _, pre := range append(c11PreSeqs(true), c11PreSeqs(false)...) {
			for _, entry := range c11Entries {
				su := c11Setup{Libs: libs, Pre: pre, Entry: entry}
				reps := 1
				if thorough {
					reps = 4
				}
				for q := 0; q < reps; q++ {
					sc := genC11ScriptIn(root.Fork(uint64(80000+sj)), maxLen, su.String(), su.Entry == "resume" && !su.calledBefore())
					cases = append(cases, Case{Idx: 500000 + sj, Ops: sc, Note: "setup-script"})
					sj++
				}
			}
		}
	}
	// scripts
	for i := 0; i < nScripts; i++ {
		sc := genC11Script(root.Fork(uint64(i)), maxLen)
		cases = append(cases, Case{Idx: 300000 + i, Ops: sc})
		var sk []string
		for _, o := range sc {
			sk = append(sk, strings.TrimRight(o.Args[len(o.Args)-1], "0123456789"))
		}
		if len(sk) >= 4 {
			run.Distinct["script:"+strings.Join(sk, " ")] = true
		}
	}
	runCases(run, cases, execC11, classifyNone)
	run.Extra["programs"] = len(c11Progs)
	run.Extra["program_variants"] = len(variants)
	run.Extra["fire_points"] = firePoints
	run.Extra["scripts"] = nScripts
	run.Extra["blocking_cases"] = len(bops)
	run.Extra["setups"] = si
	run.Extra["setup_fire_points"] = setupFires
	run.Extra["setup_scripts"] = sj
	c11Stats.Lock()
	run.Extra["distinct_fire_stacks"] = len(c11Stats.fireStacks)
	run.Extra["max_depth_at_firing"] = c11Stats.maxDepth
	ah := map[string]int{}
	for k, v := range c11Stats.afterHist {
		ah[strconv.Itoa(k)] = v
	}
	run.Extra["polls_after_firing_histogram"] = ah
	for s := range c11Stats.fireStacks {
		run.Distinct["fire@"+s] = true
	}
	c11Stats.Unlock()
	names := []string{}
	for _, p := range c11Progs {
		names = append(names, p.Name)
	}
	sort.Strings(names)
	run.Extra["program_names"] = names
	if t := atomic.LoadInt32(&c11Timeouts); t > 0 {
		run.Extra["timeouts"] = t
	}
}
