package main

// C12: limits surface as catchable errors; below them Options never change behaviour.
//
// Part 1 (this file): operation histories replayed on the REAL call-frame stacks and registry through the hooks of
// /repo/verif_hooks.go (VerifNewFixedCallStack / VerifNewAutoCallStack / VerifNewRegistry) and, line by line, on the
// Lean Model (exact) and Spec (List with capacity / List with limit).
// Part 2 (c12_prog.go): whole Lua programs under a grid of lua.Options (Impl vs Impl, judged by the Lean engine).
// Part 3 (c12_goapi.go): host programs through the Go API (NewThread/Resume/Status/PCall/CallByParam/Close) under the
// whole grid, same request line and the same verdict rules as part 2.

import (
	"encoding/hex"
	"fmt"
	"strconv"
	"strings"
	"sync"

	lua "github.com/yuin/gopher-lua"
)

func init() { props["C12"] = runC12 }

// ---------- statistics shared by the executors (evidence only) ----------

var c12Stats = struct {
	sync.Mutex
	m map[string]int
}{m: map[string]int{}}

func c12Count(k string, n int) {
	c12Stats.Lock()
	c12Stats.m[k] += n
	c12Stats.Unlock()
}

// ---------- call-stack histories ----------

func c12Guard(f func()) (perr string) {
	defer func() {
		if r := recover(); r != nil {
			perr = fmt.Sprint(r)
		}
	}()
	f()
	return ""
}

func c12Frame(tag, idx int, isNil bool, perr string) string {
	switch {
	case perr != "":
		return "gopanic"
	case isNil:
		return "nil"
	default:
		return "f " + strconv.Itoa(tag) + " " + strconv.Itoa(idx)
	}
}

func c12Bool(b bool) string {
	if b {
		return "T"
	}
	return "F"
}

func execC12Stack(ops []Op) []string {
	var out []string
	var cs *lua.VerifCallStack
	for _, op := range ops {
		a := op.Args
		reply := ""
		switch a[0] {
		case "csnew":
			size, _ := strconv.Atoi(a[2])
			perr := c12Guard(func() {
				if a[1] == "fixed" {
					cs = lua.VerifNewFixedCallStack(size)
				} else {
					cs = lua.VerifNewAutoCallStack(size)
				}
			})
			if perr != "" {
				cs = nil
				out = append(out, "C12 csnew "+a[1]+" "+a[2]+" => gopanic")
				return out
			}
			out = append(out, "C12 csnew "+a[1]+" "+a[2]+" => ok")
			continue
		}
		if cs == nil {
			continue
		}
		line := ""
		switch a[0] {
		case "cs.push":
			tag, _ := strconv.Atoi(a[1])
			line = "cs push " + a[1]
			if perr := cs.Push(tag); perr != "" {
				reply = "gopanic"
			} else {
				reply = "ok"
			}
		case "cs.pop":
			line = "cs pop"
			reply = c12Frame(cs.Pop())
		case "cs.last":
			line = "cs last"
			reply = c12Frame(cs.Last())
		case "cs.at":
			i, _ := strconv.Atoi(a[1])
			line = "cs at " + a[1]
			reply = c12Frame(cs.At(i))
		case "cs.setsp":
			n, _ := strconv.Atoi(a[1])
			line = "cs setsp " + a[1]
			if perr := cs.SetSp(n); perr != "" {
				reply = "gopanic"
			} else {
				reply = "ok"
			}
		case "cs.sp":
			line, reply = "cs sp", strconv.Itoa(cs.Sp())
		case "cs.isfull":
			line, reply = "cs isfull", c12Bool(cs.IsFull())
		case "cs.isempty":
			line, reply = "cs isempty", c12Bool(cs.IsEmpty())
		default:
			continue
		}
		out = append(out, "C12 "+line+" => "+reply)
		if reply == "gopanic" {
			c12Count("callstack.gopanic", 1)
			return out // the structure is in an unspecified state after a Go panic
		}
	}
	if cs != nil {
		cs.FreeAll()
	}
	return out
}

var c12Sizes = []int{0, 1, 2, 7, 8, 9, 15, 16, 17, 23, 24, 25, 31, 32, 33, 64}

func genC12StackCase(r *Rng, maxOps int) []Op {
	var ops []Op
	add := func(args ...string) { ops = append(ops, Op{Args: args}) }
	kind := Pick(r, []string{"fixed", "auto", "auto"})
	size := Pick(r, c12Sizes)
	if r.Chance(10) {
		size = r.Range(1, 70)
	}
	add("csnew", kind, strconv.Itoa(size))
	capa := size
	if kind == "auto" {
		capa = (size + 7) / 8 * 8
	}
	d := 0 // shadow depth
	tag := 1
	push := func() {
		add("cs.push", strconv.Itoa(tag))
		tag++
		if d < capa {
			d++
		}
	}
	nops := r.Range(4, maxOps)
	bad := r.Chance(12) // malformed stream: operations outside the contract are allowed in this case
	for len(ops) < nops {
		switch c := r.Intn(100); {
		case c < 24:
			if d < capa || (bad && r.Chance(30)) {
				push()
			} else {
				add("cs.isfull")
			}
		case c < 34: // burst up to a boundary: next multiple of 8, capacity, or capacity-1
			target := Pick(r, []int{(d/8 + 1) * 8, capa, capa - 1, d + r.Range(1, 9)})
			if target > capa {
				target = capa
			}
			for d < target && len(ops) < nops+20 {
				push()
			}
			if r.Bool() {
				add("cs.isfull")
			}
		case c < 50:
			if d > 0 {
				add("cs.pop")
				d--
			} else if bad && r.Chance(40) {
				add("cs.pop")
			} else {
				add("cs.isempty")
			}
		case c < 56: // burst down to a boundary
			target := Pick(r, []int{d / 8 * 8, (d - 1) / 8 * 8, 0, d - r.Range(1, 9)})
			if target < 0 {
				target = 0
			}
			for d > target {
				add("cs.pop")
				d--
			}
		case c < 64:
			add("cs.last")
		case c < 74:
			if d > 0 {
				add("cs.at", strconv.Itoa(Pick(r, []int{0, d - 1, r.Intn(d), d / 8 * 8 % d, (d - 1) / 8 * 8})))
			} else if bad {
				add("cs.at", strconv.Itoa(r.Range(0, capa+1)))
			}
			if bad && r.Chance(30) {
				add("cs.at", strconv.Itoa(Pick(r, []int{d, d + 1, capa - 1, capa, capa + 8, 70})))
			}
		case c < 86: // unwind
			n := Pick(r, []int{d, d, d / 8 * 8, (d - 1) / 8 * 8, 0, d - 1, r.Intn(d + 1)})
			if n < 0 {
				n = 0
			}
			if bad && r.Chance(25) {
				n = d + r.Range(1, 9)
				add("cs.setsp", strconv.Itoa(n))
				if kind == "fixed" {
					d = n
				}
			} else {
				add("cs.setsp", strconv.Itoa(n))
				d = n
			}
		case c < 91:
			add("cs.sp")
		case c < 96:
			add("cs.isfull")
		default:
			add("cs.isempty")
		}
	}
	add("cs.sp")
	add("cs.isfull")
	add("cs.last")
	for i := 0; i < d && i < 80; i++ {
		add("cs.at", strconv.Itoa(i))
	}
	return ops
}

// ---------- registry histories ----------

func c12DecVal(tok string) lua.LValue {
	switch {
	case tok == "nil":
		return lua.LNil
	case tok == "T":
		return lua.LTrue
	case tok == "F":
		return lua.LFalse
	case tok[0] == 'i':
		n, _ := strconv.Atoi(tok[1:])
		return lua.LNumber(n)
	case tok[0] == 's':
		b, _ := hex.DecodeString(tok[1:])
		return lua.LString(string(b))
	}
	panic("bad value token " + tok)
}

func c12EncSlot(v lua.LValue) string {
	if v == nil {
		return "GONIL"
	}
	return encVal(v, nil)
}

func c12Status(perr string) string {
	switch {
	case perr == "":
		return "ok"
	case perr == "overflow":
		c12Count("registry.overflow", 1)
		return "overflow"
	default:
		c12Count("registry.gopanic", 1)
		return "gopanic"
	}
}

func execC12Reg(ops []Op) []string {
	var out []string
	var rg *lua.VerifRegistry
	atoi := func(s string) int { n, _ := strconv.Atoi(s); return n }
	for _, op := range ops {
		a := op.Args
		if a[0] == "rnew" {
			rg = lua.VerifNewRegistry(atoi(a[1]), atoi(a[2]), atoi(a[3]))
			out = append(out, "C12 rnew "+a[1]+" "+a[2]+" "+a[3])
			continue
		}
		if rg == nil {
			continue
		}
		line, reply := strings.Replace(a[0], "r.", "r ", 1)+" "+strings.Join(a[1:], " "), ""
		line = strings.TrimSpace(line)
		switch a[0] {
		case "r.push":
			reply = c12Status(rg.Push(c12DecVal(a[1])))
		case "r.pop":
			v, perr := rg.Pop()
			if reply = c12Status(perr); reply == "ok" {
				reply = c12EncSlot(v)
			}
		case "r.get":
			v, perr := rg.Get(atoi(a[1]))
			if reply = c12Status(perr); reply == "ok" {
				reply = c12EncSlot(v)
			}
		case "r.set":
			reply = c12Status(rg.Set(atoi(a[1]), c12DecVal(a[2])))
		case "r.settop":
			reply = c12Status(rg.SetTop(atoi(a[1])))
		case "r.copyrange":
			reply = c12Status(rg.CopyRange(atoi(a[1]), atoi(a[2]), atoi(a[3]), atoi(a[4])))
		case "r.fillnil":
			reply = c12Status(rg.FillNil(atoi(a[1]), atoi(a[2])))
		case "r.insert":
			reply = c12Status(rg.Insert(c12DecVal(a[1]), atoi(a[2])))
		case "r.top":
			reply = strconv.Itoa(rg.Top())
		case "r.cap":
			reply = strconv.Itoa(rg.Cap())
		case "r.isfull":
			reply = c12Bool(rg.IsFull())
		case "r.dump":
			vals := rg.Values(rg.Cap())
			parts := []string{strconv.Itoa(rg.Cap()), strconv.Itoa(rg.Top())}
			for _, v := range vals {
				parts = append(parts, c12EncSlot(v))
			}
			reply = strings.Join(parts, " ")
		default:
			continue
		}
		out = append(out, "C12 "+line+" => "+reply)
		if reply == "gopanic" {
			return out
		}
	}
	return out
}

func genC12RegCase(r *Rng, maxOps int) []Op {
	var ops []Op
	add := func(args ...string) { ops = append(ops, Op{Args: args}) }
	itoa := strconv.Itoa
	size := Pick(r, []int{0, 1, 2, 7, 8, 9, 15, 16, 17, 32})
	grow := Pick(r, []int{0, 1, 2, 7, 8, 9, 31, 32, 33})
	maxs := Pick(r, []int{0, size - 1, size, size + 1, size + grow, size + grow + 1, 2*size + 1, 4 * size, 40, 64})
	if maxs < 0 {
		maxs = 0
	}
	add("rnew", itoa(size), itoa(grow), itoa(maxs))
	limit := size
	if maxs > limit {
		limit = maxs
	}
	t := 0 // shadow top
	cnt := 0
	val := func() string {
		cnt++
		switch c := r.Intn(10); {
		case c < 6:
			return "i" + itoa(cnt)
		case c < 8:
			return "nil"
		case c < 9:
			return Pick(r, []string{"T", "F"})
		default:
			return Pick(r, []string{"s61", "s", "s6b6579"})
		}
	}
	setTop := func(n int) { // shadow effect of an operation whose result has length n
		if n <= limit {
			t = n
		}
	}
	bad := r.Chance(12)
	near := func(x int) int { // a size around x, the limit or the current capacity boundaries
		n := Pick(r, []int{x, x + 1, x - 1, limit, limit + 1, limit - 1, size, size + 1, size + grow, size + grow + 1})
		if n < 0 {
			n = 0
		}
		return n
	}
	nops := r.Range(4, maxOps)
	for len(ops) < nops {
		switch c := r.Intn(100); {
		case c < 20:
			add("r.push", val())
			setTop(t + 1)
		case c < 26: // push burst to a boundary
			target := near(t + r.Range(1, 6))
			for t < target && t < limit+1 && len(ops) < nops+40 {
				add("r.push", val())
				if t+1 > limit {
					break
				}
				t++
			}
		case c < 36:
			if t > 0 || (bad && r.Chance(30)) {
				add("r.pop")
				if t > 0 {
					t--
				}
			}
		case c < 46:
			if t > 0 {
				add("r.get", itoa(Pick(r, []int{0, t - 1, r.Intn(t)})))
			}
			if bad && r.Chance(40) {
				add("r.get", itoa(Pick(r, []int{t, t + 1, limit, limit + 40})))
			}
		case c < 56:
			i := Pick(r, []int{t, t, r.Intn(t + 1), 0})
			if bad && r.Chance(40) {
				i = t + r.Range(1, 5)
			}
			add("r.set", itoa(i), val())
			if i+1 > t {
				setTop(i + 1)
			}
		case c < 64:
			n := Pick(r, []int{near(t), r.Intn(t + 1), t + r.Range(0, 6), 0})
			add("r.settop", itoa(n))
			setTop(n)
		case c < 76:
			regv := Pick(r, []int{t, r.Intn(t + 1), r.Intn(t + 1)})
			start := regv + r.Range(0, 4)
			if r.Chance(25) { // disjoint source below / far above the destination, or negative
				start = Pick(r, []int{-2, -1, 0, t, t + 3})
			}
			lim := Pick(r, []int{-1, -1, t, r.Intn(t + 1), t + 2})
			if lim != -1 && start < regv && lim > regv && !bad {
				lim = regv // keep the move disjoint (contract)
			}
			if lim == -1 && start < regv && !bad {
				start = regv + r.Range(0, 3)
			}
			n := Pick(r, []int{0, 1, 2, 3, r.Range(0, 8), near(t) - regv})
			if n < 0 {
				n = 0
			}
			if bad && r.Chance(30) {
				regv = t + r.Range(1, 3)
			}
			add("r.copyrange", itoa(regv), itoa(start), itoa(lim), itoa(n))
			setTop(regv + n)
		case c < 83:
			regm := Pick(r, []int{t, r.Intn(t + 1)})
			if bad && r.Chance(30) {
				regm = t + r.Range(1, 3)
			}
			n := Pick(r, []int{0, 1, 2, r.Range(0, 8), near(t) - regm})
			if n < 0 {
				n = 0
			}
			add("r.fillnil", itoa(regm), itoa(n))
			setTop(regm + n)
		case c < 91:
			reg := Pick(r, []int{t, 0, r.Intn(t + 1), r.Intn(t + 1)})
			if bad && r.Chance(30) {
				reg = t + r.Range(1, 3)
			}
			add("r.insert", val(), itoa(reg))
			if reg >= t {
				setTop(reg + 1)
			} else {
				setTop(t + 1)
			}
		case c < 94:
			add("r.top")
		case c < 96:
			add("r.cap")
		case c < 97:
			add("r.isfull")
		default:
			add("r.dump")
		}
	}
	add("r.top")
	add("r.cap")
	add("r.dump")
	return ops
}

// ---------- dispatcher ----------

func execC12(ops []Op) []string {
	if len(ops) == 0 {
		return nil
	}
	switch ops[0].Args[0] {
	case "csnew":
		return execC12Stack(ops)
	case "rnew":
		return execC12Reg(ops)
	case "prog":
		lines := execC12Prog(ops)
		for _, l := range lines {
			c12Count("program.runs", 1)
			if strings.Contains(l, "E:SO") {
				c12Count("program.runs_with_stack_overflow", 1)
			}
			if strings.Contains(l, "E:RO") {
				c12Count("program.runs_with_registry_overflow", 1)
			}
		}
		return lines
	}
	return nil // the constructor was shrunk away: nothing to replay
}

func runC12(run *Run) {
	nStack, nReg, nProg, maxOps, nCfg, goReps := 2500, 2500, 160, 60, 10, 1
	if run.Tier == "thorough" {
		nStack, nReg, nProg, maxOps, nCfg, goReps = 60000, 60000, 4000, 140, 24, 6
	}
	run.Rule = "(1) random histories on the REAL fixedCallFrameStack / autoGrowingCallFrameStack / registry via the verif hooks " +
		"(sizes 0,1,2,7,8,9,15,16,17,…,64; growBy/maxSize around the size; state-aware arguments at segment, capacity and growth boundaries; " +
		"≈12 % of the cases may leave the contract: push on full, pop on empty, stores leaving holes, overlapping moves), each request replayed on " +
		"the Lean Model (exact, incl. capacity and every slot) and judged by the Spec (List with capacity / limit); after a registry overflow the history " +
		"continues on the same structure. (2) generated Lua programs (families: recursion, pcall nests, varargs, unpack/byte argument lists, coroutines, " +
		"metamethod recursion, closures over the overflow, xpcall, sort/gsub callbacks, Go-API PCall at every depth, wide frames) with sizes straddling " +
		"the limits, each run under the reference configuration and sampled lua.Options (CallStackSize 1,2,7,8,9,16,256 × MinimizeStackMemory × " +
		"RegistrySize 128,129,256,5120 × RegistryMaxSize 0,size,size+1,4·size × RegistryGrowStep 1,31,32,33 × context attached or not, plus values " +
		"NewState normalises): traces equal entry by entry for equal effective limits, equal up to the first limit error otherwise, limit errors are " +
		"ordinary Lua errors, and a probe program gives the same trace afterwards as in a fresh state. (3) host programs through the GO API " +
		"(test: bounded-exhaustive): for each of 4 places (top level, Go function called from Lua at depth K, the same inside a Lua coroutine, body of a " +
		"host-made thread) × EVERY configuration of the grid under (2) (+ 8 normalised ones), 24 thread bodies (Lua and Go functions: return, yield, " +
		"tail yield, errors of every kind, deep recursion across the segment boundary, nested Lua and host coroutines, many values, limit errors) " +
		"driven through NewThread / Resume (first, after yield, after the end, after death by error, of the running and of the normal thread) / " +
		"Status / CallByParam and PCall after the death / new threads in the reused parent / Close of parent and live, finished and failed threads " +
		"in three orders; every step under recover; judged by the same rules as (2) against the reference configuration, and no Go panic may leave " +
		"an entry point. distinct = distinct op-kind skeletons (≥ 3 ops)."
	run.Assume = []string{
		"frames are observed through (Pc, Idx) only; pointers returned by Pop/Last/At are read at once (aliasing with later pushes is not modelled)",
		"segmentPool: a segment obtained from the pool has unknown content; slots not written since are compared as `stale` (any frame accepted)",
		"arguments of SetSp/At and registry indices/sizes are naturals (negative values are outside the model); CallStackSize ≤ 8·65536 (uint16 segIdx)",
		"program traces: error texts are compared verbatim except that any message containing `stack overflow` / `registry overflow` is the class E:SO / E:RO",
		"the effective limits used to group configurations come from the Lean Spec (callLimit, regLimit); the 128-slot minimum of RegistrySize is NewState's",
		"Go API part: a dead thread is resumed again only while the previous refused Resume left its call depth unchanged (on this tree Resume pushes a frame on a finished thread before it looks at Dead: reported finding, fixes/C12-resume-refuses-before-push.diff); the main thread is never the target of Resume; closed states are not used again",
	}
	root := NewRng(uint64(run.Seed))
	var cases []Case
	for i, c := range loadCorpus("C12") {
		cases = append(cases, Case{Idx: -1 - i, Ops: c, Note: "corpus"})
	}
	for i := 0; i < nStack; i++ {
		cases = append(cases, Case{Idx: i, Ops: genC12StackCase(root.Fork(uint64(i)), maxOps)})
	}
	for i := 0; i < nReg; i++ {
		cases = append(cases, Case{Idx: 1000000 + i, Ops: genC12RegCase(root.Fork(uint64(1000000+i)), maxOps)})
	}
	runCases(run, cases, execC12, classifyTagged)
	cases = nil
	for i := 0; i < nProg; i++ {
		ops := genC12ProgCase(root.Fork(uint64(2000000+i)), nCfg)
		run.Hist["prog."+ops[0].Args[1]]++
		cases = append(cases, Case{Idx: 2000000 + i, Ops: ops})
	}
	runCases(run, cases, execC12, classifyTagged)
	// part 3 (c12_goapi.go): host programs through the Go API, every place × the whole configuration grid
	cases = nil
	for i, ops := range genC12GoAPICases(root.Fork(3000000), 64, goReps) {
		pl, _ := strconv.Atoi(ops[0].Args[2])
		run.Hist["goapi.place."+c12GoPlaces[pl]] += len(ops) - 1
		cases = append(cases, Case{Idx: 3000000 + i, Ops: ops})
	}
	runCases(run, cases, execC12, classifyTagged)
	c12Stats.Lock()
	stats := map[string]int{}
	for k, v := range c12Stats.m {
		stats[k] = v
	}
	c12Stats.Unlock()
	run.Extra["limit_events"] = stats
	run.Extra["goapi"] = fmt.Sprintf("%d places × (%d grid + %d normalised configurations) × %d parameter draw(s); %d thread bodies per run", len(c12GoPlaces), len(c12FullGrid()), len(c12GoExtraCfgs), goReps, len(c12GoBodies))
	run.Extra["configuration_grid"] = fmt.Sprintf("%d configurations in the full product; %d sampled per program case (reference + random + equivalent-limit partners)", len(c12FullGrid()), nCfg)
}
