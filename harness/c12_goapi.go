package main

// C12 part 3: "a program that stays within the limits behaves identically under every configuration" for HOST
// programs, i.e. through the Go API entry points (NewThread / Resume / Status / PCall / CallByParam / Close), not
// through Lua source.
//
// One case = one place (where the host code runs) + parameters, run under a slice of the configuration grid of
// part 2 (the reference configuration first).  All cases of one run together cover EVERY configuration of the grid
// (c12FullGrid: CallStackSize × MinimizeStackMemory × RegistrySize × RegistryMaxSize × RegistryGrowStep × context)
// plus the values NewState normalises, for every place.  For every (place, configuration) the worker makes a fresh
// state and drives, one after the other, every thread body of c12GoBodies through
//
//	NewThread → first Resume → Resume after every yield → Resume after the normal end / after the death by an
//	error (→ ResumeError "can not resume a dead thread") → the Lua view of the dead thread (coroutine.status/resume)
//	→ CallByParam / PCall in the parent after the thread died (value, Lua error, error handler)
//	→ two new threads with the same body resumed alternately (the parent is reused after the child died)
//
// and, from inside the bodies, Resume of the running thread and of the normal (waiting) thread.  Afterwards, at the top
// level: protected calls again, the probe program of part 2, and Close of the parent and of the live, finished and
// failed threads in one of three orders.  Every API step runs under recover: a Go panic (anything that is not a
// raised *lua.ApiError) leaving an entry point makes the status of the run non-ok.
//
// The request line is the one of part 2 (`C12 prun <cfg> => <status> <trace> <probe> <freshprobe>`), so the Lean
// engine judges it with the same rules: equal effective limits ⇒ identical traces, otherwise identical up to the first
// limit error, status ok, probe as in a fresh state.

import (
	"fmt"
	"strconv"
	"strings"
	"sync"
	"time"

	lua "github.com/yuin/gopher-lua"
	"github.com/yuin/gopher-lua/parse"
)

const c12GoFamily = "goapi"

// places: where the host code that drives the threads runs
var c12GoPlaces = []string{
	"top",    // called from Go with no Lua call in progress (the parent is the main thread, its call stack is empty)
	"hostfn", // inside a Go function called from Lua at nesting depth K (the parent is the main thread at depth K+2)
	"luaco",  // inside a Go function called at depth K in a coroutine made by coroutine.wrap (the parent is a Lua coroutine)
	"goco",   // inside a Go function that is the body of a thread resumed through the Go API (the parent is a host thread)
}

// parameters of a case, decoded from m: recursion depth D inside the bodies, nesting depth K of the place, close order
func c12GoParams(m int) (D, K, closeOrder int) {
	return 4 + m%6, []int{1, 5, 6, 7}[(m/6)%4], (m / 24) % 3
}

const c12GoParamSpace = 72

func c12GoPrelude(D int) string {
	return "local D = " + strconv.Itoa(D) + `
function deep(n) if n == 0 then return 0 end return 1 + deep(n - 1) end
function deepy(n, v) if n == 0 then local a, b = coroutine.yield(v, "dy") return a end local r = deepy(n - 1, v) return r end
function deeperr(n, e) if n == 0 then error(e) end local r = deeperr(n - 1, e) return r end
function at(d, f) if d <= 1 then local a = f() return a end local a = at(d - 1, f) return a end
function failing() error("pb", 0) end
function handler(msg) return "H:" .. tostring(msg) end
function luaview(c) return coroutine.status(c), coroutine.resume(c, 3) end
B = {}
function B.ret(a, b) return a, b, "r" end
function B.ret0() end
function B.yield1(a, b) local x, y = coroutine.yield(a, "y1") return x, y, "done" end
function B.yield3(a, b) local s = a for i = 1, 3 do s = s + coroutine.yield(s, i) end return s end
function B.tailyield(a, b) return coroutine.yield(a, b) end
function B.err(a, b) error("boom") end
function B.errtab(a, b) error({code = 7}) end
function B.errnil(a, b) error() end
function B.yielderr(a, b) local x = coroutine.yield(a) error("after" .. tostring(x)) end
function B.deepret(a, b) local r = deep(D) return r end
function B.deepyield(a, b) local r = deepy(D, a) return r, "dd" end
function B.deeperr(a, b) local r = deeperr(D, "deepboom") return r end
function B.pcallyield(a, b) local ok, e = pcall(deeperr, D, "x") local v = coroutine.yield(ok, e) return v, ok end
function B.innerco(a, b)
  local c = coroutine.create(function(x) local y = coroutine.yield(x + 1) return y * 2 end)
  local _, r1 = coroutine.resume(c, a) local _, r2 = coroutine.resume(c, 5) local ok3, r3 = coroutine.resume(c)
  local v = coroutine.yield(r1, r2, ok3, r3, coroutine.status(c)) return v
end
function B.wrapdead(a, b)
  local w = coroutine.wrap(function() return 1 end) local x = w() local ok, e = pcall(w)
  coroutine.yield(x, ok, e) return "wd"
end
function B.selfparent(a, b)
  local s1, e1 = h_resume_self() local s2, e2 = h_resume_parent()
  local v = coroutine.yield(s1, e1, s2, e2, h_status())
  local s3, e3 = h_resume_self() return s3, e3, v
end
function B.hostnest(a, b) local x, y, z = h_nested(a) local v = coroutine.yield(x, y, z) local x2, y2, z2 = h_nested(v) return x2, y2, z2 end
function B.manyvals(a, b)
  local t = {} for i = 1, 60 do t[i] = i end
  local n = select('#', coroutine.yield(unpack(t))) return n, unpack(t)
end
function B.pcalloverflow(a, b) local function r(n) return 1 + r(n + 1) end local ok, e = pcall(r, 1) local v = coroutine.yield(ok, e) return v end
function B.overflow(a, b) local function r(n) return 1 + r(n + 1) end return (r(1)) end
`
}

// c12GoBody: what a thread driven through the Go API runs.  Lua != "": the global B[Lua]; otherwise a Go function
// made per thread by Mk.
type c12GoBody struct {
	Name  string
	Lua   string
	Mk    func(h *c12Host) lua.LGFunction
	Limit bool // the body runs into the call-stack (or registry) limit under every configuration: driven in a second phase
}

var c12GoBodies = []c12GoBody{
	{Name: "ret", Lua: "ret"},
	{Name: "ret0", Lua: "ret0"},
	{Name: "gret", Mk: func(h *c12Host) lua.LGFunction {
		return func(L *lua.LState) int { L.Push(L.Get(2)); L.Push(L.Get(1)); L.Push(lua.LString("g")); return 3 }
	}},
	{Name: "gerr", Mk: func(h *c12Host) lua.LGFunction {
		return func(L *lua.LState) int { L.RaiseError("gboom %d", L.GetTop()); return 0 }
	}},
	{Name: "err", Lua: "err"},
	{Name: "errtab", Lua: "errtab"},
	{Name: "errnil", Lua: "errnil"},
	{Name: "yield1", Lua: "yield1"},
	{Name: "yield3", Lua: "yield3"},
	{Name: "tailyield", Lua: "tailyield"},
	{Name: "gyield", Mk: func(h *c12Host) lua.LGFunction {
		// a Go function that yields: the thread's stack is empty while it is suspended, and the next Resume starts the
		// function again (gopher-lua's host-yield protocol); the closure counts the activations
		n := 0
		return func(L *lua.LState) int {
			n++
			if n <= 2 {
				return L.Yield(lua.LNumber(n), L.Get(1))
			}
			L.Push(lua.LNumber(100 + n))
			L.Push(L.Get(1))
			return 2
		}
	}},
	{Name: "yielderr", Lua: "yielderr"},
	{Name: "innerco", Lua: "innerco"},
	{Name: "wrapdead", Lua: "wrapdead"},
	{Name: "selfparent", Lua: "selfparent"},
	{Name: "hostnest", Lua: "hostnest"},
	{Name: "gnest", Mk: func(h *c12Host) lua.LGFunction {
		return func(L *lua.LState) int { return h.nested(L) }
	}},
	{Name: "manyvals", Lua: "manyvals"},
	{Name: "deepret", Lua: "deepret"},
	{Name: "deepyield", Lua: "deepyield"},
	{Name: "deeperr", Lua: "deeperr"},
	{Name: "pcallyield", Lua: "pcallyield"},
	{Name: "pcalloverflow", Lua: "pcalloverflow", Limit: true},
	{Name: "overflow", Lua: "overflow", Limit: true},
}

// c12Cached: the fixed sources of this part (prelude, place chunks, probe) are compiled once per worker process with
// the real front end; every state gets its own closure of the shared (immutable) prototype, as LoadString would make.
var c12ProtoCache sync.Map // source → *lua.FunctionProto | error

func c12Cached(src string) func(L *lua.LState) (*lua.LFunction, error) {
	return func(L *lua.LState) (*lua.LFunction, error) {
		v, ok := c12ProtoCache.Load(src)
		if !ok {
			var proto *lua.FunctionProto
			chunk, err := parse.Parse(strings.NewReader(src), "<string>")
			if err == nil {
				proto, err = lua.Compile(chunk, "<string>")
			}
			if err != nil {
				v = err
			} else {
				v = proto
			}
			c12ProtoCache.Store(src, v)
		}
		if err, ok := v.(error); ok {
			return nil, err
		}
		return L.NewFunctionFromProto(v.(*lua.FunctionProto)), nil
	}
}

type c12Host struct {
	s       *c12State
	status  string
	threads []*lua.LState // every thread made through NewThread (for Close)
	limit   bool          // phase: false = the bodies that stay within the limits, true = the bodies that exceed them
}

func (h *c12Host) add(name string, toks ...string) {
	*h.s.cur = append(*h.s.cur, name+"="+strings.Join(toks, ","))
}

func (h *c12Host) fail(why string) {
	if h.status == "ok" {
		h.status = why
	}
}

// guard runs one Go API step under recover.  A raised Lua error (*lua.ApiError) is an ordinary outcome inside a Go
// function called from Lua and is re-raised by the caller where needed; anything else is a Go panic that escaped.
func (h *c12Host) guard(name string, f func()) (outcome string) {
	defer func() {
		if r := recover(); r != nil {
			if ae, ok := r.(*lua.ApiError); ok && ae.Type == lua.ApiErrorRun {
				outcome = "RAISED:" + c12Tok(ae.Object)
				return
			}
			msg := c12Str(fmt.Sprint(r))
			outcome = "GOPANIC:" + msg
			h.fail("escaped-go-panic:" + name + ":" + msg)
		}
	}()
	f()
	return ""
}

// c12GoTok: c12Tok, with the three refusals of Resume abbreviated (exact texts only)
func c12GoTok(v lua.LValue) string {
	if s, ok := v.(lua.LString); ok {
		switch string(s) {
		case "can not resume a dead thread":
			return "DEAD"
		case "can not resume a running thread":
			return "RUNNING"
		case "can not resume a normal thread":
			return "NORMAL"
		}
	}
	return c12Tok(v)
}

func c12GoErr(err error) string {
	if err == nil {
		return "noerr"
	}
	ae, ok := err.(*lua.ApiError)
	switch {
	case ok && (ae.Type == lua.ApiErrorRun || ae.Type == lua.ApiErrorError): // ApiErrorError: the result of an error handler
		return c12GoTok(ae.Object)
	case ok:
		return "type" + strconv.Itoa(int(ae.Type)) + ":" + c12Tok(ae.Object)
	default:
		return "nonapi:" + c12Str(err.Error())
	}
}

// c12GoVals: a value list; long lists as [count:first..last#checksum]
func c12GoVals(vs []lua.LValue) string {
	parts := make([]string, len(vs))
	for i, v := range vs {
		parts[i] = c12GoTok(v)
	}
	if len(parts) > 8 {
		h := uint32(2166136261)
		for _, p := range parts {
			for i := 0; i < len(p); i++ {
				h = (h ^ uint32(p[i])) * 16777619
			}
			h = (h ^ ',') * 16777619
		}
		return "[" + strconv.Itoa(len(parts)) + ":" + parts[0] + ".." + parts[len(parts)-1] + "#" + strconv.FormatUint(uint64(h), 36) + "]"
	}
	return strings.Join(parts, ",")
}

// a Go panic that was turned into a value (threadRun and PCall recover everything) is still a Go panic
func (h *c12Host) checkText(name, s string) {
	if strings.Contains(s, "runtime\\20error") || strings.Contains(s, "lua\\20callstack\\20overflow") || strings.HasPrefix(s, "type") || strings.HasPrefix(s, "nonapi:") {
		h.fail("go-panic-as-error-value:" + name + ":" + s)
	}
}

// resume: one LState.Resume, rendered as Y(values) | OK(values) | E(error) followed by the status of the thread
// as the parent sees it; `!cur` / `!top` / `!sp` when the parent is not the running thread again / its top / its call
// depth moved.
func (h *c12Host) resume(name string, P, co *lua.LState, fn *lua.LFunction, args ...lua.LValue) (out string, st lua.ResumeState) {
	top := P.GetTop()
	cur := P.G.CurrentThread
	sp := P.VerifSnapshot().Sp
	st = lua.ResumeError
	if o := h.guard(name, func() {
		var err error
		var vals []lua.LValue
		st, err, vals = P.Resume(co, fn, args...)
		switch st {
		case lua.ResumeYield:
			out = "Y(" + c12GoVals(vals) + ")"
		case lua.ResumeOK:
			out = "OK(" + c12GoVals(vals) + ")"
		default:
			e := c12GoErr(err)
			h.checkText(name, e)
			out = "E(" + e + ")"
		}
	}); o != "" {
		return o, lua.ResumeError
	}
	out += P.Status(co)[:1]
	if P.G.CurrentThread != cur {
		out += "!cur"
	}
	if P.GetTop() != top {
		out += "!top" + strconv.Itoa(P.GetTop()-top)
	}
	if d := P.VerifSnapshot().Sp - sp; d != 0 {
		out += "!sp" + strconv.Itoa(d)
	}
	return out, st
}

func (h *c12Host) bodyFn(P *lua.LState, b c12GoBody) *lua.LFunction {
	if b.Lua != "" {
		if t, ok := P.GetGlobal("B").(*lua.LTable); ok {
			if f, ok := t.RawGetString(b.Lua).(*lua.LFunction); ok {
				return f
			}
		}
		return nil
	}
	return P.NewFunction(b.Mk(h))
}

func (h *c12Host) newThread(name string, P *lua.LState) *lua.LState {
	var co *lua.LState
	if o := h.guard(name, func() { co, _ = P.NewThread() }); o != "" {
		h.add(name, o)
		return nil
	}
	h.threads = append(h.threads, co)
	return co
}

// call: CallByParam with Protect in P, rendered as V(values) | E(error); the top of P must be restored
func (h *c12Host) call(name string, P *lua.LState, fname string, handler bool, args ...lua.LValue) string {
	top := P.GetTop()
	out := ""
	if o := h.guard(name, func() {
		p := lua.P{Fn: P.GetGlobal(fname), NRet: lua.MultRet, Protect: true}
		if handler {
			p.Handler, _ = P.GetGlobal("handler").(*lua.LFunction)
		}
		if err := P.CallByParam(p, args...); err != nil {
			e := c12GoErr(err)
			h.checkText(name, e)
			out = "E(" + e + ")"
			return
		}
		var vs []lua.LValue
		for i := top + 1; i <= P.GetTop(); i++ {
			vs = append(vs, P.Get(i))
		}
		P.SetTop(top)
		out = "V(" + c12GoVals(vs) + ")"
	}); o != "" {
		return o
	}
	if P.GetTop() != top {
		out += "!top" + strconv.Itoa(P.GetTop()-top)
	}
	return out
}

// runThread resumes co until it is dead (at most 6 times), then up to c12GoAgain more times.
//
// Finding "a refused Resume leaves a frame on the thread's stack" (notes/C12.md): LState.Resume pushes the first frame
// of a thread that has no current frame BEFORE it looks at Dead, so every Resume of a thread that ended with an
// empty call stack (normal end; failing function that was the only frame) adds a frame to the dead thread's stack, and
// call number CallStackSize+1 is a Go panic of Push.  One such call is harmless for every CallStackSize ≥ 1.  The
// harness therefore resumes a dead thread again only while the previous refusal left the thread's call depth as it
// was (hook VerifSnapshot): once on the tree as it is for such threads, c12GoAgain times for the others and for
// all threads as soon as Resume refuses before it pushes.  The decision does not depend on the configuration.
const c12GoAgain = 3

func (h *c12Host) runThread(name string, P, co *lua.LState, fn *lua.LFunction) string {
	parts := []string{P.Status(co)[:1]}
	for i := 0; i < 6 && !co.Dead; i++ {
		o, _ := h.resume(name, P, co, fn, lua.LNumber(10*i+1), lua.LNumber(i+2))
		parts = append(parts, o)
		if strings.HasPrefix(o, "GOPANIC") {
			return strings.Join(parts, "|")
		}
	}
	if co.Dead {
		for i := 0; i < c12GoAgain; i++ {
			sp := co.VerifSnapshot().Sp
			o, _ := h.resume(name, P, co, fn, lua.LNumber(5))
			if o != "E(DEAD)d" && !strings.HasPrefix(o, "GOPANIC") {
				h.fail("resume-after-death:" + name + ":" + o)
			}
			parts = append(parts, o)
			if co.VerifSnapshot().Sp != sp || strings.HasPrefix(o, "GOPANIC") {
				break
			}
		}
	}
	return strings.Join(parts, "|")
}

// driveBody: everything the host does with one body, with P as the parent
func (h *c12Host) driveBody(P *lua.LState, i int, b c12GoBody) {
	tag := "b" + strconv.Itoa(i) + "." + b.Name
	fn := h.bodyFn(P, b)
	if fn == nil {
		h.add(tag, "nobody")
		return
	}
	co := h.newThread(tag+".new", P)
	if co == nil {
		return
	}
	h.add(tag+".run", h.runThread(tag+".run", P, co, fn))
	// the Lua view of the thread the host made, and protected calls in the parent after the thread died
	view := "-"
	if co.Dead {
		view = h.call(tag+".view", P, "luaview", false, co)
	}
	h.add(tag+".par", view, h.call(tag+".val", P, "deep", false, lua.LNumber(2)),
		h.call(tag+".fail", P, "failing", false), h.call(tag+".hnd", P, "failing", true))
	// the parent is reused: two new threads with the same body, resumed alternately
	c1, c2 := h.newThread(tag+".new1", P), h.newThread(tag+".new2", P)
	if c1 == nil || c2 == nil {
		return
	}
	f1, f2 := fn, fn
	if b.Lua == "" {
		f1, f2 = h.bodyFn(P, b), h.bodyFn(P, b)
	}
	var p1, p2 []string
	e1, e2 := false, false
	for k := 0; k < 6 && !(e1 && e2); k++ {
		if !e1 {
			o, _ := h.resume(tag+".alt1", P, c1, f1, lua.LNumber(k), lua.LNumber(1))
			p1, e1 = append(p1, o), c1.Dead || strings.HasPrefix(o, "GOPANIC")
		}
		if !e2 {
			o, _ := h.resume(tag+".alt2", P, c2, f2, lua.LNumber(k), lua.LNumber(2))
			p2, e2 = append(p2, o), c2.Dead || strings.HasPrefix(o, "GOPANIC")
		}
	}
	if c1.Dead {
		o, _ := h.resume(tag+".alt1", P, c1, f1)
		p1 = append(p1, o)
	}
	h.add(tag+".alt", strings.Join(p1, "|"), strings.Join(p2, "|"))
}

// drive: all bodies, one after the other, with P as the parent of every thread
func (h *c12Host) drive(P *lua.LState) {
	for i, b := range c12GoBodies {
		if b.Limit == h.limit {
			h.driveBody(P, i, b)
		}
	}
}

// nested: host code inside a thread body drives a thread of its own (body yield1) and returns what it saw
func (h *c12Host) nested(L *lua.LState) int {
	a := L.Get(1)
	out := "nobody"
	if t, ok := L.GetGlobal("B").(*lua.LTable); ok {
		if fn, ok := t.RawGetString("yield1").(*lua.LFunction); ok {
			if co := h.newThread("nested.new", L); co != nil {
				out = h.runThread("nested", L, co, fn)
			}
		}
	}
	L.Push(lua.LString(out))
	L.Push(lua.LString(L.Status(L)))
	L.Push(a)
	return 3
}

func (h *c12Host) register() {
	L := h.s.L
	// Resume of the thread that is running (the caller itself)
	L.SetGlobal("h_resume_self", L.NewFunction(func(L *lua.LState) int {
		fn, _ := L.GetGlobal("deep").(*lua.LFunction)
		o, _ := h.resume("resume-self", L, L, fn, lua.LNumber(1))
		L.Push(lua.LString(o))
		return 1
	}))
	// Resume of the thread that resumed the caller (status normal); never the main thread, which is no coroutine
	L.SetGlobal("h_resume_parent", L.NewFunction(func(L *lua.LState) int {
		fn, _ := L.GetGlobal("deep").(*lua.LFunction)
		switch {
		case L.Parent == nil:
			L.Push(lua.LString("no-parent"))
		case L.Parent == L.G.MainThread:
			L.Push(lua.LString("main-parent:" + L.Status(L.Parent)))
		default:
			o, _ := h.resume("resume-parent", L, L.Parent, fn, lua.LNumber(1))
			L.Push(lua.LString(o))
		}
		return 1
	}))
	L.SetGlobal("h_status", L.NewFunction(func(L *lua.LState) int {
		L.Push(lua.LString(L.Status(L)))
		return 1
	}))
	L.SetGlobal("h_nested", L.NewFunction(func(L *lua.LState) int { return h.nested(L) }))
	L.SetGlobal("drive", L.NewFunction(func(L *lua.LState) int {
		h.drive(L)
		L.Push(lua.LString("driven"))
		return 1
	}))
}

// c12RunGoAPI: one (place, parameters) under one configuration
func c12RunGoAPI(cfg c12Cfg, place, m int) c12Res {
	done := make(chan c12Res, 1)
	go func() {
		var r c12Res
		defer func() {
			if p := recover(); p != nil {
				r.Status = "escaped-go-panic:" + c12Str(fmt.Sprint(p))
				if r.Trace == "" {
					r.Trace, r.Probe, r.Fresh = "-", "-", "-"
				}
				done <- r
			}
		}()
		D, K, closeOrder := c12GoParams(m)
		s := newC12State(cfg)
		h := &c12Host{s: s, status: "ok"}
		h.register()
		L := s.L
		var trace []string
		s.cur = &trace
		if o := h.guard("prelude", func() {
			fn, err := c12Cached(c12GoPrelude(D))(L)
			if err == nil {
				err = L.CallByParam(lua.P{Fn: fn, NRet: 0, Protect: true})
			}
			if err != nil {
				h.add("prelude", c12GoErr(err))
			}
		}); o != "" {
			h.add("prelude", o)
		}
		// phase 0: the bodies that stay within the limits; phase 1: the bodies that exceed them
		for phase := 0; phase < 2; phase++ {
			h.limit = phase == 1
			ph := "ph" + strconv.Itoa(phase)
			st := "ok"
			var tr []string
			switch c12GoPlaces[place%len(c12GoPlaces)] {
			case "top":
				h.drive(L)
			case "hostfn":
				tr, st = s.runLoaded(c12Cached("return at(" + strconv.Itoa(K) + ", drive)"))
			case "luaco":
				tr, st = s.runLoaded(c12Cached("local w = coroutine.wrap(function() local r = at(" + strconv.Itoa(K) + ", drive) return r end) local r = w() return r"))
			case "goco":
				if co := h.newThread(ph+".goco.new", L); co != nil {
					fn, _ := L.GetGlobal("drive").(*lua.LFunction)
					o, _ := h.resume(ph+".goco", L, co, fn)
					tr = append(tr, ph+".goco="+o)
					o, _ = h.resume(ph+".goco", L, co, fn)
					tr = append(tr, ph+".goco.dead="+o)
				}
			}
			trace = append(trace, tr...)
			s.cur = &trace
			if st != "ok" {
				h.fail(st)
			}
			// the state after the host program: protected calls at the top level and one more thread
			h.add(ph+".after", h.call(ph+".after.val", L, "deep", false, lua.LNumber(3)), h.call(ph+".after.fail", L, "failing", false), h.call(ph+".after.hnd", L, "failing", true))
			if co := h.newThread(ph+".after.new", L); co != nil {
				h.add(ph+".after.run", h.runThread(ph+".after.run", L, co, h.bodyFn(L, c12GoBody{Lua: "yield1"})))
			}
		}
		live := 0
		for _, t := range h.threads {
			if !t.Dead {
				live++
			}
		}
		h.add("threads", strconv.Itoa(len(h.threads)), strconv.Itoa(live))
		pr, st2 := s.runLoaded(c12Cached(c12Probe))
		r.Probe = c12Join(pr)
		if st2 != "ok" {
			h.fail("probe:" + st2)
		}
		// Close: the parent only / the threads (live, finished, failed) then the parent / the parent then the threads
		closeAll := func() {
			for i, t := range h.threads {
				if o := h.guard("close-thread", func() { t.Close() }); o != "" {
					trace = append(trace, "close.t"+strconv.Itoa(i)+"="+o)
				}
			}
		}
		if closeOrder == 1 {
			closeAll()
		}
		if s.cancel != nil {
			s.cancel()
		}
		if o := h.guard("close", func() { L.Close() }); o != "" {
			trace = append(trace, "close="+o)
		}
		if closeOrder == 2 {
			closeAll()
		}
		trace = append(trace, "closed="+c12Bool(L.IsClosed()))
		r.Trace, r.Status = c12Join(trace), h.status
		key := cfg.String()
		if v, ok := c12FreshProbe.Load(key); ok {
			r.Fresh = v.(string)
		} else {
			f := newC12State(cfg)
			fr, _ := f.runLoaded(c12Cached(c12Probe))
			f.close()
			r.Fresh = c12Join(fr)
			c12FreshProbe.Store(key, r.Fresh)
		}
		done <- r
	}()
	select {
	case r := <-done:
		return r
	case <-hangAfter(60 * time.Second):
		return c12Res{Status: "hang", Trace: "-", Probe: "-", Fresh: "-"}
	}
}

// configurations NewState normalises (defaults for sizes < 1 / < 128, a maximum below the size, steps < 1)
var c12GoExtraCfgs = []c12Cfg{
	{CS: 0, Min: false, RS: 5120, RMax: 0, Step: 32}, {CS: -1, Min: true, RS: 5120, RMax: 0, Step: 32},
	{CS: 256, Min: true, RS: 0, RMax: 0, Step: 0}, {CS: 16, Min: true, RS: 64, RMax: 5121, Step: -3},
	{CS: 9, Min: false, RS: 127, RMax: 64, Step: 33, Ctx: true}, {CS: 9, Min: true, RS: 256, RMax: 255, Step: 1, Ctx: true},
	{CS: 24, Min: true, RS: 129, RMax: 516, Step: 1}, {CS: 24, Min: false, RS: 129, RMax: 516, Step: 1},
}

// genC12GoAPICases: for every place, the whole grid (+ the normalised extras) cut into slices of `per` configurations;
// every slice starts with the reference configuration.  The parameters m of each slice come from the seed.
// perPlace > 1 repeats the sweep with other parameters.
func genC12GoAPICases(r *Rng, per, perPlace int) [][]Op {
	grid := append(c12FullGrid(), c12GoExtraCfgs...)
	var cases [][]Op
	for place := range c12GoPlaces {
		for rep := 0; rep < perPlace; rep++ {
			// a seed-dependent rotation, so that the slices (and their parameters) meet other configurations per seed
			rot := r.Intn(len(grid))
			for lo := 0; lo < len(grid); lo += per {
				m := r.Intn(c12GoParamSpace)
				ops := []Op{{Args: []string{"prog", c12GoFamily, strconv.Itoa(place), strconv.Itoa(m)}}}
				ops = append(ops, Op{Args: append([]string{"cfg"}, c12Ref.Tokens()...)})
				for i := lo; i < lo+per && i < len(grid); i++ {
					ops = append(ops, Op{Args: append([]string{"cfg"}, grid[(i+rot)%len(grid)].Tokens()...)})
				}
				cases = append(cases, ops)
			}
		}
	}
	return cases
}
