package main

// C12 part 2: whole Lua programs under a grid of lua.Options (Impl vs Impl).
//
// One case = one program (family + parameters straddling the limits of the sampled configurations) run under a
// list of configurations.  For every (program, configuration) the executor emits one request line
//
//	C12 prun <cs> <min> <rs> <rmax> <step> <ctx> => <status> <trace> <probe> <freshprobe>
//
// The Lean engine computes the effective limits of the configuration from the *Spec* (capacity of the call stack,
// limit of the registry, NewState normalisation) and decides:
//   - equal effective limits      → traces must be identical, entry for entry (also past a limit error);
//   - different effective limits  → traces must agree up to the first entry that reports a limit error, and the
//     configuration that reports it must not be the larger one;
//   - status must be `ok` (no Go panic escaped DoString/PCall, no hang, no ApiErrorPanic surfaced);
//   - the post-run probe program in the same state must give the trace it gives in a fresh state.

import (
	"bufio"
	"bytes"
	"context"
	"fmt"
	"os"
	"os/exec"
	"runtime/debug"
	"strconv"
	"strings"
	"sync"
	"sync/atomic"
	"time"

	lua "github.com/yuin/gopher-lua"
)

type c12Cfg struct {
	CS   int
	Min  bool
	RS   int
	RMax int
	Step int
	Ctx  bool
}

func b2i(b bool) int {
	if b {
		return 1
	}
	return 0
}

func (c c12Cfg) Tokens() []string {
	return []string{strconv.Itoa(c.CS), strconv.Itoa(b2i(c.Min)), strconv.Itoa(c.RS), strconv.Itoa(c.RMax), strconv.Itoa(c.Step), strconv.Itoa(b2i(c.Ctx))}
}
func (c c12Cfg) String() string { return strings.Join(c.Tokens(), ",") }

func parseC12Cfg(a []string) c12Cfg {
	n := func(s string) int { v, _ := strconv.Atoi(s); return v }
	return c12Cfg{CS: n(a[0]), Min: a[1] == "1", RS: n(a[2]), RMax: n(a[3]), Step: n(a[4]), Ctx: a[5] == "1"}
}

func (c c12Cfg) opts() lua.Options {
	return lua.Options{CallStackSize: c.CS, MinimizeStackMemory: c.Min, RegistrySize: c.RS, RegistryMaxSize: c.RMax, RegistryGrowStep: c.Step}
}

// ---------- running one program ----------

// c12Tok makes a blank-free token of a Lua value; strings that carry a limit error are classified.
func c12Tok(v lua.LValue) string {
	switch x := v.(type) {
	case lua.LString:
		return c12Str(string(x))
	case *lua.LNilType, lua.LBool, lua.LNumber:
		return encVal(v, nil)
	case nil:
		return "GONIL"
	default:
		return "<" + v.Type().String() + ">"
	}
}

func c12Str(s string) string {
	if strings.Contains(s, "stack overflow") && !strings.Contains(s, "lua callstack overflow") {
		// "lua callstack overflow" is the Go panic of autoGrowingCallFrameStack.Push, not the Lua error
		return "E:SO"
	}
	if strings.Contains(s, "registry overflow") {
		return "E:RO"
	}
	var sb strings.Builder
	sb.WriteByte('"')
	for i := 0; i < len(s) && i < 120; i++ {
		c := s[i]
		if c > 32 && c < 127 && c != ';' && c != ',' && c != '=' {
			sb.WriteByte(c)
		} else {
			fmt.Fprintf(&sb, "\\%02x", c)
		}
	}
	return sb.String()
}

type c12State struct {
	L      *lua.LState
	cur    *[]string
	cancel context.CancelFunc
}

func newC12State(cfg c12Cfg) *c12State {
	s := &c12State{}
	L := lua.NewState(cfg.opts())
	s.L = L
	if cfg.Ctx {
		ctx, cancel := context.WithCancel(context.Background())
		s.cancel = cancel
		L.SetContext(ctx)
	}
	L.SetGlobal("emit", L.NewFunction(func(L *lua.LState) int {
		n := L.GetTop()
		parts := make([]string, n)
		for i := 1; i <= n; i++ {
			parts[i-1] = c12Tok(L.Get(i))
		}
		*s.cur = append(*s.cur, strings.Join(parts, ","))
		return 0
	}))
	// Go API protected call of a value that is not callable (PCall fails before any frame is pushed)
	L.SetGlobal("callmissing", L.NewFunction(func(L *lua.LState) int {
		err := L.CallByParam(lua.P{Fn: L.GetGlobal("c12_missing"), NRet: 0, Protect: true})
		if err != nil {
			L.Push(lua.LString("caught"))
		} else {
			L.Push(lua.LString("noerr"))
		}
		return 1
	}))
	// Go API protected call of a Lua function with arguments: hostpcall(f, ...) → true, results… | false, msg
	L.SetGlobal("hostpcall", L.NewFunction(func(L *lua.LState) int {
		n := L.GetTop()
		if err := L.PCall(n-1, lua.MultRet, nil); err != nil {
			L.Push(lua.LFalse)
			if ae, ok := err.(*lua.ApiError); ok && ae.Type == lua.ApiErrorRun {
				L.Push(ae.Object)
			} else {
				L.Push(lua.LString("GOPANIC:" + err.Error()))
			}
			return 2
		}
		L.Insert(lua.LTrue, 1)
		return L.GetTop()
	}))
	return s
}

func (s *c12State) close() {
	defer func() { recover() }()
	if s.cancel != nil {
		s.cancel()
	}
	s.L.Close()
}

// runChunk runs src as a chunk under PCall and returns the trace: emits, then `ret=…` or `err=…`.
// status != "ok" when a Go panic escaped or the error is not an ordinary Lua error.
func (s *c12State) runChunk(src string) (trace []string, status string) {
	return s.runLoaded(func(L *lua.LState) (*lua.LFunction, error) { return L.LoadString(src) })
}

// runLoaded: runChunk with the way the chunk is obtained left to the caller (part 3 compiles its fixed sources once)
func (s *c12State) runLoaded(load func(L *lua.LState) (*lua.LFunction, error)) (trace []string, status string) {
	status = "ok"
	s.cur = &trace
	defer func() {
		if r := recover(); r != nil {
			status = "escaped-go-panic:" + c12Str(fmt.Sprint(r))
		}
	}()
	L := s.L
	fn, err := load(L)
	if err != nil {
		trace = append(trace, "err=syntax:"+c12Str(err.Error()))
		return
	}
	base := L.GetTop()
	L.Push(fn)
	if err := L.PCall(0, lua.MultRet, nil); err != nil {
		ae, ok := err.(*lua.ApiError)
		switch {
		case ok && ae.Type == lua.ApiErrorRun:
			trace = append(trace, "err=run:"+c12Tok(ae.Object))
		case ok:
			trace = append(trace, "err=type"+strconv.Itoa(int(ae.Type))+":"+c12Tok(ae.Object))
			status = "api-error-panic:" + c12Str(err.Error())
		default:
			status = "non-api-error:" + c12Str(err.Error())
		}
		if L.GetTop() != base {
			status = "top-not-restored:" + strconv.Itoa(L.GetTop()-base)
		}
		return
	}
	var parts []string
	for i := base + 1; i <= L.GetTop(); i++ {
		parts = append(parts, c12Tok(L.Get(i)))
	}
	L.SetTop(base)
	trace = append(trace, "ret="+strings.Join(parts, ","))
	return
}

const c12Probe = `
local function fib(n) if n < 2 then return n end return fib(n-1) + fib(n-2) end
emit("p1", pcall(fib, 5))
local function va(...) return select('#', ...), ... end
emit("p2", pcall(va, 1, 2, 3))
local t = {} for i = 1, 40 do t[i] = i * i end
emit("p3", pcall(function() return select('#', unpack(t)), (select(40, unpack(t))) end))
local c = 0
local function mk() local x = c; c = c + 1; return function() x = x + 1; return x end end
local f1, f2 = mk(), mk()
emit("p4", pcall(function() return f1(), f1(), f2() end))
emit("p5", pcall(error, "boom"))
local co = coroutine.wrap(function(a) local b = coroutine.yield(a + 1); return b * 2 end)
emit("p6", pcall(co, 1)) emit("p7", pcall(co, 5))
emit("p8", pcall(string.rep, "ab", 3))
emit("p9", pcall(function() local s = 0 for i = 1, 100 do s = s + i end return s end))
return "probe-done"
`

var c12FreshProbe sync.Map // cfg string → joined probe trace in a fresh state

func c12Join(tr []string) string {
	if len(tr) == 0 {
		return "-"
	}
	return strings.Join(tr, ";")
}

type c12Res struct {
	Status, Trace, Probe, Fresh string
}

// c12RunOnce: a run the hang watchdog ended is executed once more: runs are deterministic, so a real hang
// repeats while a stall of the whole process does not.
func c12RunOnce(cfg c12Cfg, src string) c12Res {
	r := c12RunOnce1(cfg, src)
	if r.Status == "hang" && atomic.LoadInt64(&confirmedHangs) == 0 {
		time.Sleep(2 * time.Second)
		if r = c12RunOnce1(cfg, src); r.Status == "hang" {
			atomic.AddInt64(&confirmedHangs, 1)
		}
	}
	return r
}

func c12RunOnce1(cfg c12Cfg, src string) c12Res {
	done := make(chan c12Res, 1)
	go func() {
		var r c12Res
		defer func() {
			if p := recover(); p != nil {
				r.Status = "escaped-go-panic:" + c12Str(fmt.Sprint(p))
				done <- r
			}
		}()
		s := newC12State(cfg)
		tr, st := s.runChunk(src)
		r.Trace, r.Status = c12Join(tr), st
		if cs, _ := cfg.estLimits(); st == "ok" && cs >= 16 && !strings.Contains(r.Trace, "E:SO") {
			// invariants of the program (entries "INV", name, bool): only meaningful when the call stack is not the limit
			for _, e := range tr {
				if strings.HasPrefix(e, "\"INV,") && !strings.HasSuffix(e, ",T") {
					r.Status = "invariant-violated:" + strings.ReplaceAll(e, "\"", "")
					break
				}
			}
		}
		if st == "ok" {
			// invariants ABOUT the call-stack limit (entries "INVS", name, bool): meaningful for every size
			for _, e := range tr {
				if strings.HasPrefix(e, "\"INVS,") && !strings.HasSuffix(e, ",T") {
					r.Status = "invariant-violated:" + strings.ReplaceAll(e, "\"", "")
					break
				}
			}
		}
		pr, st2 := s.runChunk(c12Probe)
		r.Probe = c12Join(pr)
		if st == "ok" && st2 != "ok" {
			r.Status = "probe:" + st2
		}
		s.close()
		key := cfg.String()
		if v, ok := c12FreshProbe.Load(key); ok {
			r.Fresh = v.(string)
		} else {
			f := newC12State(cfg)
			fr, _ := f.runChunk(c12Probe)
			f.close()
			r.Fresh = c12Join(fr)
			c12FreshProbe.Store(key, r.Fresh)
		}
		done <- r
	}()
	select {
	case r := <-done:
		return r
	case <-hangAfter(60 * time.Second):
		noteHang()
		return c12Res{Status: "hang", Trace: "-", Probe: "-", Fresh: "-"}
	}
}

// ---------- program families ----------

type c12Family struct {
	Name string
	Src  func(n, m int) string
	MaxN int // upper bound of n that keeps the run cheap
}

// families whose sizes are drawn mostly just below / above the registry limit of a sampled configuration
var c12RegNear = map[string]bool{"coregover": true, "cowrapover": true, "conestover": true, "copcallover": true, "coxferover": true}

const c12Rec = "local function rec(n) if n == 0 then return 0 end return 1 + rec(n-1) end\n"

func c12Args(m int) string {
	var sb strings.Builder
	for i := 1; i <= m; i++ {
		sb.WriteString(", ")
		sb.WriteString(strconv.Itoa(i))
	}
	return sb.String()
}

var c12Families = []c12Family{
	{"rec", func(n, m int) string {
		return c12Rec + fmt.Sprintf(`emit("a", pcall(rec, %d)) emit("b", pcall(rec, %d)) emit("c", pcall(rec, %d)) return "end"`, n, m%5, n)
	}, 30000},
	{"recnocatch", func(n, m int) string {
		return c12Rec + fmt.Sprintf(`emit("a", rec(%d)) return "end"`, n)
	}, 30000},
	{"unpack", func(n, m int) string {
		return fmt.Sprintf(`local t = {} for i = 1, %d do t[i] = i end
local function cnt(...) return select('#', ...) end
emit("a", pcall(function() return cnt(unpack(t)) end))
emit("b", pcall(function() local x = {unpack(t)} return #x end))
emit("c", pcall(function() return (select(%d, unpack(t))) end))
emit("d", pcall(function() return select('#', unpack(t)) end))
emit("e", pcall(unpack, t))
return "end"`, n, max(n, 1))
	}, 30000},
	{"byte", func(n, m int) string {
		return fmt.Sprintf(`local s = ("x"):rep(%d)
emit("a", pcall(function() return select('#', s:byte(1, -1)) end))
emit("b", pcall(function() local x = {s:byte(1, -1)} return #x end))
return "end"`, n)
	}, 30000},
	{"vararg", func(n, m int) string {
		return fmt.Sprintf(`local function va(n, ...) if n == 0 then return select('#', ...) end return (va(n-1, ...)) end
emit("a", pcall(va, %d%s)) emit("b", pcall(va, 2%s)) return "end"`, n, c12Args(m), c12Args(m))
	}, 3000},
	{"tail", func(n, m int) string {
		return fmt.Sprintf(`local function tl(n, acc) if n == 0 then return acc end return tl(n-1, acc+1) end
emit("a", pcall(tl, %d, 0)) return "end"`, n)
	}, 30000},
	{"pcallnest", func(n, m int) string {
		return fmt.Sprintf(`local function p(n) if n == 0 then return 0 end local ok, v = pcall(p, n-1) if not ok then error(v, 0) end return v + 1 end
emit("a", pcall(p, %d)) emit("b", pcall(p, %d)) return "end"`, n, m%4)
	}, 10000},
	{"pcallself", func(n, m int) string {
		// every level is a protected call whose own frame may be the one that fills the stack
		return fmt.Sprintf(`local depth = 0
local function p(n) depth = depth + 1 if n == 0 then return 0 end local ok, v = pcall(p, n-1) if ok then return v + 1 end emit("in", n, v) return -1000 end
emit("a", pcall(p, %d)) emit("d", depth) emit("b", pcall(p, %d)) return "end"`, n, m%4)
	}, 10000},
	{"coroutine", func(n, m int) string {
		return c12Rec + fmt.Sprintf(`local co = coroutine.wrap(function(n) local ok, v = pcall(rec, n) coroutine.yield(ok, v) local ok2, v2 = pcall(rec, %d) return ok2, v2 end)
emit("a", pcall(co, %d)) emit("b", pcall(co)) emit("c", pcall(co)) return "end"`, m%5, n)
	}, 30000},
	{"conest", func(n, m int) string {
		return fmt.Sprintf(`local function nest(n) if n == 0 then return 0 end local co = coroutine.wrap(nest) return 1 + co(n-1) end
emit("a", pcall(nest, %d)) return "end"`, n)
	}, 60},
	{"index", func(n, m int) string {
		return fmt.Sprintf(`local mt = {} mt.__index = function(t, k) if k == 0 then return 0 end return t[k-1] + 1 end
local o = setmetatable({}, mt)
emit("a", pcall(function() return o[%d] end)) emit("b", pcall(function() return o[%d] end)) return "end"`, n, m%4)
	}, 10000},
	{"callmeta", func(n, m int) string {
		return fmt.Sprintf(`local c = setmetatable({}, {__call = function(self, n, ...) if n == 0 then return select('#', ...) end return (self(n-1, ...)) end})
emit("a", pcall(c, %d%s)) emit("b", pcall(c, 1)) return "end"`, n, c12Args(m))
	}, 3000},
	{"closures", func(n, m int) string {
		return fmt.Sprintf(`local log = {}
local function rec(n) local x = n * 3 log[#log+1] = function() x = x + 1 return x end if n == 0 then return 0 end local r = 1 + rec(n-1) x = x + 100 return r end
emit("a", pcall(rec, %d))
local s = 0 for i, f in ipairs(log) do s = s + f() end
emit("s", #log, s) return "end"`, n)
	}, 10000},
	{"xpcall", func(n, m int) string {
		return c12Rec + fmt.Sprintf(`emit("a", xpcall(function() return rec(%d) end, function(msg) return "H:" .. tostring(msg) end))
emit("b", xpcall(function() return rec(%d) end, function(msg) return "H:" .. tostring(msg) end)) return "end"`, n, m%5)
	}, 30000},
	{"sortcb", func(n, m int) string {
		return c12Rec + fmt.Sprintf(`local t = {5, 3, 9, 1, 7}
emit("a", pcall(table.sort, t, function(a, b) return rec(%d) >= 0 and a < b end))
emit("t", t[1], t[5])
emit("g", pcall(string.gsub, "abc", "%%w", function(c) return tostring(rec(%d)) end)) return "end"`, n, n)
	}, 10000},
	{"callmissing", func(n, m int) string {
		return fmt.Sprintf(`local function at(d, f) if d <= 1 then local r = f() return r end local r = at(d-1, f) return r end
for d = 1, %d do emit("d", d, pcall(at, d, callmissing)) end return "end"`, min(n, 40))
	}, 40},
	{"hostpcall", func(n, m int) string {
		return c12Rec + fmt.Sprintf(`local function at(d, f) if d <= 1 then local a, b = f() return a, b end local a, b = at(d-1, f) return a, b end
for d = 1, %d do emit("d", d, pcall(at, d, function() return hostpcall(rec, %d) end)) end return "end"`, min(n, 24), m)
	}, 24},
	{"locals", func(n, m int) string {
		// a frame with many registers: the registry limit is reached by few frames
		var sb strings.Builder
		sb.WriteString("local function wide(n)\n local a1")
		for i := 2; i <= 60+m%60; i++ {
			fmt.Fprintf(&sb, ", a%d", i)
		}
		sb.WriteString(" = 1\n if n == 0 then return a1 end return a1 + wide(n-1) end\n")
		fmt.Fprintf(&sb, `emit("a", pcall(wide, %d)) emit("b", pcall(wide, 1)) return "end"`, n)
		return sb.String()
	}, 3000},
	{"tailcall", func(n, m int) string {
		// a tail call whose arguments fit into the registry while the callee's own registers may not:
		// the frame is prepared (registers reserved) after the caller's frame has been recycled
		var sb strings.Builder
		sb.WriteString("local function wide(...)\n local a1")
		for i := 2; i <= 20+m%100; i++ {
			fmt.Fprintf(&sb, ", a%d", i)
		}
		sb.WriteString(" = 1\n return select('#', ...) + a1 end\n")
		sb.WriteString("local function fixed(a, b, c) local x, y, z = a, b, c return x end\n")
		fmt.Fprintf(&sb, `local t = {} for i = 1, %d do t[i] = i end
emit("a", pcall(function() return wide(unpack(t)) end))
emit("b", pcall(function() return fixed(unpack(t)) end))
local c = setmetatable({}, {__call = function(self, ...) return select('#', ...) end})
emit("c", pcall(function() return c(unpack(t)) end))
emit("d", pcall(function() return wide(unpack(t)) end))
return "end"`, n)
		return sb.String()
	}, 30000},
	{"concat", func(n, m int) string {
		// a long concatenation / call argument list evaluated in registers
		return fmt.Sprintf(`local t = {} for i = 1, %d do t[i] = "v" end
emit("a", pcall(function() return #table.concat(t) end))
emit("b", pcall(function() return select('#', string.format(("%%s"):rep(#t), unpack(t))) end))
emit("c", pcall(function() return math.max(unpack(t, 1, math.max(#t, 1))) end))
return "end"`, n)
	}, 20000},
	{"retmany", func(n, m int) string {
		return fmt.Sprintf(`local t = {} for i = 1, %d do t[i] = i end
local function r1() return unpack(t) end
local function r2() return r1() end
local function r3() local a = {r2()} return #a, r2() end
emit("a", pcall(function() return select('#', r3()) end))
local co = coroutine.wrap(function(...) local x = {coroutine.yield(...)} return #x, unpack(x) end)
emit("b", pcall(function() return select('#', co(unpack(t))) end))
emit("c", pcall(function() return select('#', co(unpack(t))) end))
return "end"`, n)
	}, 20000},
}

// c12Big: Lua prelude defining t (n elements), cnt, and big() — a function that needs about n registry slots in the
// thread that runs it and returns n.  m selects how the slots are demanded.
func c12Big(n, m int) string {
	var body string
	switch m % 4 {
	case 0:
		body = "local x = {unpack(t)} return #x"
	case 1:
		body = "return (select('#', unpack(t)))"
	case 2:
		body = "return cnt(unpack(t))"
	default:
		body = fmt.Sprintf(`local s = ("x"):rep(%d) return (select('#', s:byte(1, -1)))`, n)
	}
	// the first entry reports whether the call stack allows the (shallow) nesting the invariants need: under a
	// small CallStackSize it is a limit error and the comparison stops there
	return fmt.Sprintf("local function d(k) if k == 0 then return 0 end return 1 + d(k-1) end\nemit(\"depth\", pcall(d, 10))\n"+
		"local N = %d\nlocal t = {} for i = 1, N do t[i] = i end\nlocal function cnt(...) return select('#', ...) end\nlocal function big() %s end\n", n, body)
}

// the part every coroutine family appends: the same state keeps working (fresh coroutines, a small unpack)
const c12CoKeeps = `
local co2 = coroutine.create(function(x) local y = coroutine.yield(x + 1) return y * 2 end)
emit("k1", coroutine.resume(co2, 1)) emit("k2", coroutine.resume(co2, 5)) emit("k3", coroutine.status(co2))
emit("k4", pcall(function() return (select('#', unpack(t, 1, 3))) end))
local w2 = coroutine.wrap(function(x) coroutine.yield(x) return "w" end)
emit("k5", pcall(w2, 9)) emit("k6", pcall(w2)) emit("k7", pcall(w2))
`

// Families whose limit error is a REGISTRY overflow raised inside a coroutine.  Entries tagged "INV" are invariants
// that hold whether or not the limit was hit (resume returns instead of raising, the coroutine is dead, the main
// thread is the running one again, …); the worker turns a false one into a non-ok status.  The configuration-
// dependent result is emitted last so that the invariants are also compared across configurations.
var c12CoFamilies = []c12Family{
	{"coregover", func(n, m int) string { // plain create/resume; the resumer gets (false, msg)
		return c12Big(n, m) + `
local co = coroutine.create(function(a) local r = big() return r + a end)
local ok, a, b = pcall(coroutine.resume, co, 1)
emit("INV", "resume-returns", ok)
emit("INV", "resume-shape", (a == true and b == N + 1) or (a == false and type(b) == "string"))
emit("INV", "dead", coroutine.status(co) == "dead")
emit("INV", "main-running", coroutine.running() == nil)
local ok2, a2, b2 = pcall(coroutine.resume, co)
emit("INV", "dead-resume", ok2 == true and a2 == false and b2 == "can not resume a dead thread")
` + c12CoKeeps + `
emit("res", a, b)
local co3 = coroutine.create(big)
local ok3, a3, b3 = pcall(coroutine.resume, co3)
emit("INV", "resume-returns-2", ok3)
emit("INV", "dead-2", coroutine.status(co3) == "dead")
emit("INV", "main-running-2", coroutine.running() == nil)
emit("res2", a3, b3)
return "end"`
	}, 30000},
	{"cowrapover", func(n, m int) string { // coroutine.wrap: the error is raised in the caller of the wrapper
		return c12Big(n, m) + `
local th
local f = coroutine.wrap(function(a) th = coroutine.running() local r = big() return r + a end)
local ok, a = pcall(f, 1)
emit("INV", "wrap-shape", (ok == true and a == N + 1) or (ok == false and type(a) == "string"))
emit("INV", "dead", th ~= nil and coroutine.status(th) == "dead")
emit("INV", "main-running", coroutine.running() == nil)
local ok2, a2 = pcall(f)
emit("INV", "dead-call-raises", ok2 == false and type(a2) == "string")
emit("k0", a2)
` + c12CoKeeps + `
emit("res", ok, a)
local g = coroutine.wrap(function() local r = big() coroutine.yield(r) return "done" end)
emit("res2", pcall(g)) emit("res3", pcall(g))
emit("INV", "main-running-2", coroutine.running() == nil)
return "end"`
	}, 30000},
	{"conestover", func(n, m int) string { // the overflow happens in a coroutine resumed by another coroutine
		inner := `local inner = coroutine.create(function() return big() end)
local function runinner() return pcall(coroutine.resume, inner) end
local function innerdead() return coroutine.status(inner) == "dead" end`
		if (m/4)%2 == 1 { // inner coroutine is wrapped: the error is raised inside the outer coroutine
			inner = `local ith
local innerf = coroutine.wrap(function() ith = coroutine.running() return big() end)
local function runinner() local ok, v = pcall(innerf) return true, ok, v end
local function innerdead() return ith ~= nil and coroutine.status(ith) == "dead" end`
		}
		return c12Big(n, m) + inner + `
local oth
local outer = coroutine.create(function()
  oth = coroutine.running()
  local ok, a, b = runinner()
  local dead = innerdead()
  local run = coroutine.running() == oth
  local y = coroutine.yield(ok, dead, run)
  local again = (select('#', unpack(t, 1, 3)))
  return a, b, y, again
end)
local r = {pcall(coroutine.resume, outer)}
emit("INV", "outer-resume", r[1] == true and r[2] == true)
emit("INV", "inner-resume-returns", r[3] == true)
emit("INV", "inner-dead", r[4] == true)
emit("INV", "outer-still-running", r[5] == true)
emit("INV", "outer-suspended", coroutine.status(outer) == "suspended")
emit("INV", "main-running", coroutine.running() == nil)
local ok2, t2, a, b, y, again = pcall(coroutine.resume, outer, 42)
emit("INV", "outer-finish", ok2 == true and t2 == true and y == 42 and again == 3)
emit("INV", "outer-dead", coroutine.status(outer) == "dead")
` + c12CoKeeps + `
emit("res", a, b)
return "end"`
	}, 30000},
	{"copcallover", func(n, m int) string { // pcall inside the coroutine catches the overflow; the coroutine goes on
		return c12Big(n, m) + `
local co = coroutine.create(function(a)
  local ok, v = pcall(big)
  local y = coroutine.yield(ok, v)
  local ok2, v2 = pcall(big)
  return y, ok2 == ok, (select('#', unpack(t, 1, 3))), v2
end)
local r1 = {pcall(coroutine.resume, co, 1)}
emit("INV", "first", r1[1] == true and r1[2] == true and type(r1[3]) == "boolean")
emit("INV", "suspended", coroutine.status(co) == "suspended")
local r2 = {pcall(coroutine.resume, co, 7)}
emit("INV", "second", r2[1] == true and r2[2] == true and r2[3] == 7 and type(r2[4]) == "boolean" and r2[5] == 3)
emit("INV", "dead", coroutine.status(co) == "dead")
emit("INV", "main-running", coroutine.running() == nil)
` + c12CoKeeps + `
emit("res", r1[3], r1[4]) emit("res2", r2[4], r2[6])
return "end"`
	}, 30000},
	{"coxferover", func(n, m int) string { // many values yielded / returned into a resumer whose registry is fuller
		var sb strings.Builder
		sb.WriteString(c12Big(n, m))
		sb.WriteString("local co = coroutine.create(function() coroutine.yield(unpack(t)) return unpack(t) end)\n")
		sb.WriteString("local function padded()\n local a1")
		for i := 2; i <= 40+m%80; i++ {
			fmt.Fprintf(&sb, ", a%d", i)
		}
		sb.WriteString(` = 1
 local r = {coroutine.resume(co)}
 if r[1] ~= true then emit("xerr", r[1], r[2]) end
 return #r + a1 end
emit("x1", pcall(padded))
emit("INV", "main-running", coroutine.running() == nil)
emit("s1", coroutine.status(co))
emit("x2", pcall(padded))
emit("INV", "main-running-2", coroutine.running() == nil)
emit("s2", coroutine.status(co))
emit("x3", pcall(padded))
`)
		sb.WriteString(c12CoKeeps)
		sb.WriteString(`return "end"`)
		return sb.String()
	}, 30000},
}

func init() { c12Families = append(c12Families, c12CoFamilies...) }


// twinsweep: one recursive function whose deepest frame evaluates an operation on the global V; with V = good the run
// is fault-free, with V = bad the very same registers raise an ordinary run-time error.  The depth sweeps upwards
// until the good twin no longer fits; for every depth at which it fits, the bad twin must report its ORDINARY
// error (a program within the limits behaves the same under every configuration), in particular at the depth whose
// deepest frame fills the registry exactly.  Run under consecutive registry sizes (see genC12ProgCase) so that
// some (depth, size) pair is an exact fit.
var c12TwinOps = [][3]string{
	{"V + 1", "1", "nil"}, {"V.x", "{x = 1}", "nil"}, {"V .. 's'", "'a'", "nil"}, {"V < 1", "0", "nil"}, {"-V", "2", "{}"},
	{"#V", "'abc'", "nil"}, {"V[1][2]", "{{3, 4}}", "{}"}, {"V % 3", "7", "'x'"},
}

func c12TwinSrc(n, m int) string {
	op := c12TwinOps[m%len(c12TwinOps)]
	pad := ""
	for i := 0; i < (m/len(c12TwinOps))%4; i++ {
		pad += fmt.Sprintf("local p%d = %d\n    ", i, i)
	}
	return fmt.Sprintf(`local function f(n)
  if n == 0 then
    %slocal x = %s
    return x
  end
  local r = f(n - 1)
  return r
end
local function run(v, d) V = v return pcall(f, d) end
local bad, d, m1 = 0, 1, nil
local ok1, r1, ok2, r2 -- declared up front: both twins are called from the same register
while d <= 250 do
  ok1, r1 = run(%s, d)
  if not ok1 then m1 = r1 break end
  ok2, r2 = run(%s, d)
  if ok2 or type(r2) ~= "string" or string.find(r2, "overflow", 1, true) then
    bad = bad + 1
    emit("INV", "twin-depth-" .. d, false)
  end
  d = d + 1
end
emit("INV", "ordinary-error-whenever-the-fault-free-twin-fits", bad == 0)
emit("lim", m1)
V = %s
emit("after", pcall(f, 3))
return "end"`, pad, op[0], op[1], op[2], op[1])
}

// codepth: the call-depth limit is ONE number for the whole state: the deepest recursion reachable plus the frames
// already in use is the same in the main thread, in a coroutine, in a nested coroutine and in a wrapped one (each
// thread has its own call stack of the configured kind and size).  Measured inside the state; run under call-stack
// sizes that are not multiples of the segment size, fixed and auto-growing (see genC12ProgCase).
func c12CoDepthSrc(n, m int) string {
	return `local function levels() local k = 1 while debug.getinfo(k, "l") do k = k + 1 end return k - 2 end
local function measure()
  local used = levels()
  local d = 0
  local function rec(k) d = k return 1 + rec(k + 1) end
  local ok, msg = pcall(rec, 1)
  local so = (not ok) and type(msg) == "string" and string.find(msg, "stack overflow", 1, true) ~= nil
  return used, d, so
end
local um, dm, som = measure()
local function inco() local u, d, so = measure() return u, d, so end
local uc, dc, soc = coroutine.wrap(inco)()
local co = coroutine.create(function() local u, d, so = coroutine.wrap(inco)() coroutine.yield(u, d, so) local u2, d2, so2 = measure() return u2, d2, so2 end)
local _, un, dn, son = coroutine.resume(co)
local _, ur, dr, sor = coroutine.resume(co)
local up, dp, sop
pcall(function() up, dp, sop = coroutine.wrap(function() local a, b, c = select(2, pcall(inco)) return a, b, c end)() end)
local function same(u, d, so) return (not som) or (not so) or (um + dm == u + d) end
emit("INVS", "coroutine-depth-limit", same(uc, dc, soc))
emit("INVS", "nested-coroutine-depth-limit", same(un, dn, son))
emit("INVS", "resumed-again-depth-limit", same(ur, dr, sor))
emit("INVS", "coroutine-under-pcall-depth-limit", same(up, dp, sop))
if not (same(uc, dc, soc) and same(un, dn, son) and same(ur, dr, sor) and same(up, dp, sop)) then
  emit("INVS", "detail main " .. um .. "+" .. dm .. " co " .. uc .. "+" .. dc .. " nested " .. un .. "+" .. dn .. " resumed " .. ur .. "+" .. dr .. " pcall " .. tostring(up) .. "+" .. tostring(dp), false)
end
emit("after", pcall(function() return 1 end))
return "end"`
}

func init() {
	c12Families = append(c12Families, c12Family{"twinsweep", c12TwinSrc, 30000}, c12Family{"codepth", c12CoDepthSrc, 30000})
}

// ---------- configuration grid ----------

var c12CS = []int{1, 2, 7, 8, 9, 16, 256}
var c12RS = []int{128, 129, 256, 5120}
var c12Steps = []int{1, 31, 32, 33}

func c12RMaxes(rs int) []int { return []int{0, rs, rs + 1, 4 * rs} }

func c12FullGrid() []c12Cfg {
	var g []c12Cfg
	for _, cs := range c12CS {
		for _, mn := range []bool{false, true} {
			for _, rs := range c12RS {
				for _, rm := range c12RMaxes(rs) {
					for _, st := range c12Steps {
						for _, cx := range []bool{false, true} {
							g = append(g, c12Cfg{cs, mn, rs, rm, st, cx})
						}
					}
				}
			}
		}
	}
	return g
}

var c12Ref = c12Cfg{CS: 256, Min: false, RS: 5120, RMax: 4 * 5120, Step: 32, Ctx: false}

func c12RandCfg(r *Rng) c12Cfg {
	rs := Pick(r, c12RS)
	c := c12Cfg{CS: Pick(r, c12CS), Min: r.Bool(), RS: rs, RMax: Pick(r, c12RMaxes(rs)), Step: Pick(r, c12Steps), Ctx: r.Bool()}
	if r.Chance(2) { // beyond the uint16 segment index of the auto-growing stack (known finding C12-autostack-segidx-uint16)
		c.CS, c.Min = Pick(r, []int{524289, 524296}), true
		return c
	}
	if r.Chance(4) { // values NewState normalises
		switch r.Intn(4) {
		case 0:
			c.CS = Pick(r, []int{0, -1})
		case 1:
			c.RS = Pick(r, []int{0, 64, 127})
			c.RMax = Pick(r, []int{0, 64, 5120, 5121})
		case 2:
			c.RMax = c.RS - 1
		default:
			c.Step = Pick(r, []int{0, -3})
		}
	}
	return c
}

// limits of a configuration as the *harness* estimates them (only used to choose program sizes near a limit;
// the verdict uses the Lean Spec's limits)
func (c c12Cfg) estLimits() (cs, reg int) {
	cs = c.CS
	if cs < 1 {
		cs = 256
	}
	if cs > 4096 {
		cs = 8
	}
	if c.Min {
		cs = (cs + 7) / 8 * 8
	}
	reg = c.RS
	if reg < 128 {
		reg = 5120
	}
	if c.RMax > reg {
		reg = c.RMax
	}
	return
}

// genC12ProgCase: ops[0] = ["prog", family, n, m], ops[1..] = ["cfg", cs, min, rs, rmax, step, ctx]
func genC12ProgCase(r *Rng, ncfg int) []Op {
	fam := r.Intn(len(c12Families))
	if r.Chance(25) { // registry overflows inside coroutines get a fixed share of the cases
		for i, cf := range c12Families {
			if cf.Name == c12CoFamilies[0].Name {
				fam = i + r.Intn(len(c12CoFamilies))
			}
		}
	} else if r.Chance(12) { // exact-fit sweeps too
		fam = len(c12Families) - 2
	} else if r.Chance(8) { // the depth limit inside coroutines
		fam = len(c12Families) - 1
	}
	f := c12Families[fam]
	var cfgs []c12Cfg
	cfgs = append(cfgs, c12Ref)
	for len(cfgs) < ncfg {
		c := c12RandCfg(r)
		cfgs = append(cfgs, c)
		// an equivalent configuration (same effective limits): other stack kind / growth schedule / context
		if r.Chance(60) && len(cfgs) < ncfg {
			e := c
			switch r.Intn(4) {
			case 0:
				e.Ctx = !e.Ctx
			case 1:
				if e.CS > 4096 {
					e.Ctx = !e.Ctx
				} else if e.CS >= 1 && e.CS%8 == 0 {
					e.Min = !e.Min
				} else if e.Min && e.CS >= 1 {
					e.Min, e.CS = false, (e.CS+7)/8*8
				} else {
					e.Ctx = !e.Ctx
				}
			case 2:
				if e.RMax >= e.RS {
					e.Step = Pick(r, c12Steps)
				} else {
					e.Ctx = !e.Ctx
				}
			default:
				if e.RMax > e.RS && e.RS >= 128 { // start at the limit instead of growing to it
					e.RS, e.RMax = e.RMax, Pick(r, []int{0, e.RMax})
				} else {
					e.Ctx = !e.Ctx
				}
			}
			cfgs = append(cfgs, e)
		}
	}
	if f.Name == "twinsweep" {
		// consecutive registry limits (fixed registries, or growable ones with consecutive maxima)
		cfgs = cfgs[:1]
		base := r.Range(128, 600)
		grow := r.Chance(40)
		step := Pick(r, []int{1, 7, 32})
		ctx := r.Chance(30)
		for i := 0; i < 12; i++ {
			c := c12Cfg{CS: 256, Min: false, RS: base + i, RMax: 0, Step: 32, Ctx: ctx}
			if grow {
				c = c12Cfg{CS: 256, Min: r.Bool(), RS: 128, RMax: base + i, Step: step, Ctx: ctx}
			}
			cfgs = append(cfgs, c)
		}
	}
	if f.Name == "codepth" {
		cfgs = cfgs[:1]
		for _, cs := range []int{9, 10, 11, 12, 13, 15, 16, 17, 20, 23, 24, 30, 100, 255, 257} {
			if r.Chance(70) {
				cfgs = append(cfgs, c12Cfg{CS: cs, Min: r.Chance(35), RS: 5120, RMax: 0, Step: 32, Ctx: r.Chance(25)})
			}
		}
	}
	// size: near a limit of one of the configurations (registers per frame differ by family, so sweep a window)
	pick := cfgs[r.Intn(len(cfgs))]
	csl, regl := pick.estLimits()
	var n int
	switch c := r.Intn(100); {
	case c < 40:
		n = csl + r.Range(-6, 3)
	case c < 60:
		n = regl + r.Range(-12, 6)
	case c < 70:
		n = regl/Pick(r, []int{2, 3, 4, 5, 6, 8}) + r.Range(-3, 3)
	case c < 85:
		n = r.Range(0, 40)
	default:
		n = Pick(r, []int{0, 1, 5, 6, 7, 8, 9, 13, 14, 15, 16, 17, 100, 120, 126, 127, 128, 129, 130, 250, 254, 255, 256, 257, 260, 510, 1000, 5100, 5118, 5119, 5120, 5121, 5130, 20470, 20480, 20490})
	}
	if c12RegNear[f.Name] && r.Chance(70) {
		// the coroutine's own registry is almost empty: the overflow needs about regLimit values
		n = regl + r.Range(-50, 12)
		if r.Chance(25) {
			n = regl + r.Range(-6, 4)
		}
	}
	if n < 0 {
		n = 0
	}
	if n > f.MaxN {
		n = f.MaxN - r.Intn(5)
	}
	m := r.Range(0, 9)
	if r.Chance(20) {
		m = Pick(r, []int{20, 31, 32, 33, 60, 100, 120, 126, 127, 128, 129, 200})
	}
	ops := []Op{{Args: []string{"prog", f.Name, strconv.Itoa(n), strconv.Itoa(m)}}}
	for _, c := range cfgs {
		ops = append(ops, Op{Args: append([]string{"cfg"}, c.Tokens()...)})
	}
	return ops
}

func c12FamilyByName(name string) *c12Family {
	for i := range c12Families {
		if c12Families[i].Name == name {
			return &c12Families[i]
		}
	}
	return nil
}

// execC12Prog: the executor of a program case.  The programs run in a worker process (this binary re-executed with
// C12_WORKER=1): an implementation bug can end in an unrecoverable Go fatal error (e.g. unbounded recursion
// raiseError → registryOverflow → raiseError is `fatal error: stack overflow`), which must not kill the harness.
func execC12Prog(ops []Op) []string {
	if len(ops) == 0 || ops[0].Args[0] != "prog" {
		return nil // shrunk away the program: nothing to run
	}
	var in strings.Builder
	for _, op := range ops {
		in.WriteString(strings.Join(op.Args, " "))
		in.WriteByte('\n')
	}
	ctx, cancel := hangCtx(90 * time.Second)
	defer cancel()
	cmd := exec.CommandContext(ctx, os.Args[0])
	cmd.Env = append(os.Environ(), "C12_WORKER=1", "GOMAXPROCS=2")
	cmd.Stdin = strings.NewReader(in.String())
	var stdout, stderr bytes.Buffer
	cmd.Stdout, cmd.Stderr = &stdout, &stderr
	err := cmd.Run()
	var out []string
	for _, l := range strings.Split(stdout.String(), "\n") {
		if strings.HasPrefix(l, "C12 ") {
			out = append(out, l)
		}
	}
	ncfg := 0
	for _, op := range ops[1:] {
		if op.Args[0] == "cfg" {
			ncfg++
		}
	}
	if err != nil || len(out) != ncfg+1 {
		// the worker died: the configuration it was running is the first one without a reply
		k, which := 0, "?"
		for _, op := range ops[1:] {
			if op.Args[0] != "cfg" {
				continue
			}
			k++
			if k == len(out) { // out[0] is the prog line
				which = strings.Join(op.Args[1:], ",")
				break
			}
		}
		first := strings.SplitN(strings.TrimSpace(stderr.String()), "\n", 2)[0]
		out = append(out, "X crash program="+strings.Join(ops[0].Args[1:], ",")+" cfg="+which+" => worker process died ("+fmt.Sprint(err)+"): "+first)
	}
	return out
}

// c12Worker runs one program case read from stdin and prints its request lines (flushed one by one).
func c12Worker() {
	sc := bufio.NewScanner(os.Stdin)
	var ops []Op
	for sc.Scan() {
		if f := strings.Fields(sc.Text()); len(f) > 0 {
			ops = append(ops, Op{Args: f})
		}
	}
	if len(ops) == 0 {
		return
	}
	a := ops[0].Args
	n, _ := strconv.Atoi(a[2])
	m, _ := strconv.Atoi(a[3])
	goapi := a[1] == c12GoFamily // part 3 (c12_goapi.go): a host program instead of Lua source; n = place, m = parameters
	src := ""
	if !goapi {
		src = c12FamilyByName(a[1]).Src(n, m)
	}
	fmt.Println("C12 prog " + a[1] + " " + a[2] + " " + a[3])
	for _, op := range ops[1:] {
		if op.Args[0] != "cfg" {
			continue
		}
		cfg := parseC12Cfg(op.Args[1:])
		var r c12Res
		if goapi {
			r = c12RunGoAPI(cfg, n, m)
		} else {
			r = c12RunOnce(cfg, src)
		}
		fmt.Println("C12 prun " + strings.Join(cfg.Tokens(), " ") + " => " + r.Status + " " + r.Trace + " " + r.Probe + " " + r.Fresh)
	}
}

func init() {
	if os.Getenv("C12_WORKER") == "1" {
		debug.SetMaxStack(16 << 20) // runaway recursion in the implementation ends quickly (fatal error, reported by the parent)
		debug.SetGCPercent(400)     // the worker makes thousands of short-lived states and threads (speed only)
		c12Worker()
		os.Exit(0)
	}
}
